#!/usr/bin/env python3
"""Run the repository's pinned test suite with the verification guard OFF and
compare with /root/.vp/BASELINE.json (every stable_pass test must pass)."""
import json, os, subprocess, sys, tempfile, xml.etree.ElementTree as ET

REPO = os.environ.get("POLYPLY_REPO", "/repo")
BASE = "/root/.vp/BASELINE.json"

def main():
    env = dict(os.environ)
    env.pop("POLYPLY_VERIF", None)
    with tempfile.TemporaryDirectory() as tmp:
        junit = os.path.join(tmp, "junit.xml")
        cmd = ["/venv/bin/python", "-m", "pytest", "-ra", "-q", "-p", "no:cacheprovider",
               "--timeout=900", "--continue-on-collection-errors", "--junitxml=" + junit]
        proc = subprocess.run(cmd, cwd=REPO, env=env, stdout=subprocess.PIPE, stderr=subprocess.STDOUT, text=True)
        passed = set()
        for case in ET.parse(junit).getroot().iter("testcase"):
            if not any(ch.tag in ("failure", "error", "skipped") for ch in case):
                passed.add(case.get("classname") + "::" + case.get("name"))
    print(proc.stdout.strip().splitlines()[-1])
    if os.path.exists(BASE):
        want = set(json.load(open(BASE))["stable_pass"])
        missing = sorted(want - passed)
        print("baseline stable_pass=%d passed_now=%d missing=%d" % (len(want), len(passed), len(missing)))
        for m in missing[:20]:
            print("  MISSING", m)
        return 1 if missing else 0
    print("passed_now=%d (no BASELINE.json to compare)" % len(passed))
    return 0

if __name__ == "__main__":
    sys.exit(main())
