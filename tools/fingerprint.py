#!/usr/bin/env python3
"""fingerprint.py [--write]: structural fingerprints of /repo's polyply/src/*.py (sha1 of the ast dump with
docstrings removed: comments, blank lines, formatting and docstrings do not matter).

The committed file `fingerprints.json` describes the tree the checks were last validated against (/repo HEAD at
that time).  A check that finds a different fingerprint knows that code changed since then and widens its
search for a failing input (harness/common.py: Ctx.scale); nothing else depends on it.  Regenerate with
`--write` after every `fix:` commit to /repo."""
import ast
import hashlib
import json
import os
import subprocess
import sys

VERIF = os.path.dirname(os.path.dirname(os.path.abspath(__file__)))


def strip_docstrings(tree):
    for node in ast.walk(tree):
        if isinstance(node, (ast.FunctionDef, ast.AsyncFunctionDef, ast.ClassDef, ast.Module)):
            body = node.body
            if body and isinstance(body[0], ast.Expr) and isinstance(getattr(body[0], "value", None), ast.Constant) \
                    and isinstance(body[0].value.value, str):
                node.body = body[1:] or [ast.Pass()]
    # free-standing string expressions (this code base has some between functions) carry no behaviour
    for node in ast.walk(tree):
        if hasattr(node, "body") and isinstance(node.body, list):
            node.body = [s for s in node.body if not (isinstance(s, ast.Expr) and isinstance(s.value, ast.Constant)
                                                      and isinstance(s.value.value, str))] or [ast.Pass()]
    return tree


def fingerprints(repo):
    out = {}
    src = os.path.join(repo, "polyply", "src")
    for name in sorted(os.listdir(src)):
        if not name.endswith(".py"):
            continue
        try:
            with open(os.path.join(src, name)) as handle:
                tree = strip_docstrings(ast.parse(handle.read()))
            out[name] = hashlib.sha1(ast.dump(tree, annotate_fields=True, include_attributes=False).encode()).hexdigest()
        except SyntaxError:
            out[name] = "syntax-error"
    # the force-field libraries the package reads (one hash per library directory)
    data = os.path.join(repo, "polyply", "data")
    for lib in sorted(os.listdir(data)) if os.path.isdir(data) else []:
        path = os.path.join(data, lib)
        if not os.path.isdir(path):
            continue
        digest = hashlib.sha1()
        for root, dirs, files in os.walk(path):
            dirs.sort()
            for fname in sorted(files):
                if fname.endswith(".pyc"):
                    continue
                digest.update(os.path.relpath(os.path.join(root, fname), path).encode())
                with open(os.path.join(root, fname), "rb") as handle:
                    digest.update(handle.read())
        out["data/" + lib] = digest.hexdigest()
    return out


def changed_files(repo):
    """names of polyply/src files whose structure differs from the committed fingerprints (new and removed
    files included); [] when there is no fingerprint file"""
    path = os.path.join(VERIF, "fingerprints.json")
    if not os.path.exists(path):
        return []
    stored = json.load(open(path))
    if stored.get("python") != list(sys.version_info[:2]):
        return []          # ast dumps of different interpreter versions cannot be compared
    base = stored["files"]
    now = fingerprints(repo)
    return sorted(n for n in set(base) | set(now) if base.get(n) != now.get(n))


def main():
    repo = os.environ.get("POLYPLY_REPO", "/repo")
    venv = "/venv/bin/python"
    if os.path.exists(venv) and os.path.realpath(sys.executable) != os.path.realpath(venv):
        os.execv(venv, [venv, os.path.abspath(__file__)] + sys.argv[1:])     # the interpreter the checks run under
    if "--write" in sys.argv:
        head = subprocess.run(["git", "-C", repo, "rev-parse", "HEAD"], stdout=subprocess.PIPE, text=True).stdout.strip()
        with open(os.path.join(VERIF, "fingerprints.json"), "w") as handle:
            json.dump(dict(repo_head=head, python=list(sys.version_info[:2]), files=fingerprints(repo)), handle, indent=1)
        print("written for", head)
    else:
        print("changed:", changed_files(repo))


if __name__ == "__main__":
    main()
