#!/usr/bin/env python3
"""Assemble /verif/MANIFEST.json from tools/registry.json (one entry per property: ready flag, level text,
level note, technique).  Properties that are not ready are listed under not_applicable with their reason."""
import json
import os

VERIF = os.path.dirname(os.path.dirname(os.path.abspath(__file__)))


def main():
    reg = json.load(open(os.path.join(VERIF, "tools", "registry.json")))
    props = [json.loads(line)["id"] for line in open(os.path.join(VERIF, "properties.jsonl"))]
    checks, not_applicable = [], []
    for pid in props:
        ent = reg.get(pid, {})
        if ent.get("ready"):
            checks.append(dict(
                property_id=pid,
                quick_cmd="./check.py %s --tier quick" % pid,
                thorough_cmd="./check.py %s --tier thorough" % pid,
                evidence_file="evidence/%s.json" % pid,
                replay_cmd_template="./check.py %s --replay {path}" % pid,
                engine="lean-proof+correspondence",
                level_claimed=dict(category="proof", text=ent["text"], design_ref="DESIGN.md section 5 (%s)" % pid),
                level_note=ent["note"],
                technique=ent["technique"]))
        else:
            not_applicable.append(dict(property_id=pid, reason=ent.get("reason", "not yet built in this revision")))
    manifest = dict(
        version=1,
        setup_cmd="sh tools/setup.sh",
        hooks=dict(guard="POLYPLY_VERIF",
                   enable="no source hooks in /repo: the harness interposes in-process (attribute assignment) "
                          "with POLYPLY_VERIF=1 exported; nothing in /repo reads the variable",
                   baseline_off_cmd="python3 tools/baseline.py", source_commits=[], add_only=True),
        engines=[dict(name="lean-proof+correspondence", path="lean/ harness/ check.py",
                      serves_properties=[c["property_id"] for c in checks],
                      kind_free_text="Lean 4 executable model + kernel-checked theorems per property; translator "
                                     "(ast of /repo sources -> Generated/*.lean) and differential correspondence "
                                     "(real Python code in-process vs the Lean model over a JSON line protocol); "
                                     "the Lean specification is evaluated on the implementation's output as the oracle")],
        checks=checks,
        notes="Every check: regenerate tables from /repo, lake build the property module (kernel), audit axioms "
              "(propext, Classical.choice, Quot.sound only; no sorry/native_decide), run the correspondence and the "
              "oracle on the real code, write evidence/<id>.json. Known findings: known_findings.txt. "
              "Seeded mutations: seeded/ (280 independently seeded changes in six rounds, first-attempt results per "
              "round in seeded/RESULTS_round*_first.txt, final results in seeded/RESULTS.txt), regress/ (reverse patches "
              "of the fix commits), refactors/ (behaviour-preserving rewrites that must stay green): tools/eval_seeds.py, "
              "tools/eval_refactors.py, tools/mutants.py. When polyply/src or polyply/data differ from fingerprints.json "
              "the quick tier widens its search (budgets x4, DESIGN 2.3). Exit 2 / 137 = harness outcome (time limit), "
              "never a verdict.",
        not_applicable=not_applicable)
    with open(os.path.join(VERIF, "MANIFEST.json"), "w") as handle:
        json.dump(manifest, handle, indent=1)
    print("checks:", [c["property_id"] for c in checks])
    print("not_applicable:", [n["property_id"] for n in not_applicable])


if __name__ == "__main__":
    main()
