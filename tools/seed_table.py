#!/usr/bin/env python3
"""seed_table.py [results file]: render the output of tools/eval_seeds.py as markdown (one line per property:
which seeded change was reported with which failing shape)."""
import collections
import json
import os
import re
import sys

VERIF = os.path.dirname(os.path.dirname(os.path.abspath(__file__)))


def main():
    path = sys.argv[1] if len(sys.argv) > 1 else os.path.join(VERIF, "seeded", "RESULTS.txt")
    per = collections.OrderedDict()
    reg = []
    total = caught = 0
    for line in open(path):
        m = re.match(r"(\S+) (C\d+) exit=(\d+) ?(.*)", line.strip())
        if not m:
            continue
        name, pid, rc, rest = m.groups()
        shape = "MISSED" if rc == "0" else "exit %s" % rc
        mm = re.search(r"replay=\S*/violation_(.+?)_seed\d+_\d+\.json", rest)
        if mm:
            shape = mm.group(1)
        elif "no-failing-input-found" in rest:
            shape = "no-failing-input-found"
        total += 1
        caught += rc == "1"
        if name.startswith("revert_"):
            reg.append((name, pid, shape))
        else:
            per.setdefault(pid, []).append((name.split("_", 1)[1], shape))
    print("%d of %d runs report a VIOLATION.\n" % (caught, total))
    print("| property | seeded change → failing shape reported (quick tier, seed 0) |")
    print("|---|---|")
    for pid, items in per.items():
        print("| %s | %s |" % (pid, "; ".join("%s → %s" % it for it in items)))
    print()
    print("| reverse patch of fix | property | shape |")
    print("|---|---|---|")
    for name, pid, shape in reg:
        print("| %s | %s | %s |" % (name, pid, shape))


if __name__ == "__main__":
    main()
