#!/usr/bin/env python3
"""Run, for every behaviour-preserving refactoring under refactors/<id>/patch.diff, the checks of all properties
anchored in the files the patch touches (plus those named in its meta.json) against a scratch copy of /repo with
the patch applied.  Expected: exit 0 everywhere (no false alarm).
usage: eval_refactors.py [--jobs N] [--all-checks] [ids...]"""
import concurrent.futures
import json
import os
import re
import subprocess
import sys

VERIF = os.path.dirname(os.path.dirname(os.path.abspath(__file__)))


def anchors():
    out = {}
    for line in open(os.path.join(VERIF, "properties.jsonl")):
        p = json.loads(line)
        out[p["id"]] = set(p["anchors"]["files"])
    return out


def main():
    args = sys.argv[1:]
    njobs, allchecks = 4, False
    while args and args[0].startswith("--"):
        if args[0] == "--jobs":
            njobs = int(args[1]); args = args[2:]
        elif args[0] == "--all-checks":
            allchecks = True; args = args[1:]
    anc = anchors()
    rdir = os.path.join(VERIF, "refactors")
    todo = []
    for name in sorted(os.listdir(rdir)):
        patch = os.path.join(rdir, name, "patch.diff")
        if not os.path.exists(patch) or (args and name not in args):
            continue
        files = set(re.findall(r"^\+\+\+ b/(\S+)", open(patch).read(), re.M))
        props = set(pid for pid, fs in anc.items() if fs & files)
        meta = os.path.join(rdir, name, "meta.json")
        if os.path.exists(meta):
            props |= set(p for p in json.load(open(meta)).get("properties", []) if re.fullmatch(r"C\d+", p))
        if allchecks:
            props = set(anc)
        for pid in sorted(props):
            todo.append((name, patch, pid))

    def run(job):
        name, patch, pid = job
        proc = subprocess.run([os.path.join(VERIF, "tools", "run_seeded.sh"), patch, pid, "quick"],
                              stdout=subprocess.PIPE, stderr=subprocess.STDOUT, text=True)
        lines = proc.stdout.splitlines()
        verdict = next((l for l in lines if l.startswith("VIOLATION")), "") or next(
            (l for l in lines if l.startswith("HARNESS")), "")
        return "%s %s exit=%d %s" % (name, pid, proc.returncode, verdict[:220])

    with concurrent.futures.ThreadPoolExecutor(njobs) as pool:
        for line in pool.map(run, todo):
            print(line, flush=True)


if __name__ == "__main__":
    main()
