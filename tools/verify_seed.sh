#!/bin/sh
# verify_seed.sh <dir with patch.diff demo.py>: confirm in a scratch worktree that
#  (1) the demo passes on the clean tree, (2) fails with the patch, (3) the baseline suite still passes.
# prints one summary line; exit 0 iff all three hold.
d=$(realpath "$1"); id=$(basename "$d"); wt=/tmp/vs_$id
git -C /repo worktree remove --force $wt >/dev/null 2>&1
git -C /repo worktree add -q $wt HEAD || exit 2
cd $wt
timeout 900 /venv/bin/python "$d/demo.py" > /tmp/vs_$id.clean.log 2>&1; clean=$?
git apply "$d/patch.diff" || { echo "$id: PATCH DOES NOT APPLY"; cd /; git -C /repo worktree remove --force $wt; exit 1; }
timeout 900 /venv/bin/python "$d/demo.py" > /tmp/vs_$id.mut.log 2>&1; mut=$?
POLYPLY_REPO=$wt python3 /verif/tools/baseline.py > /tmp/vs_$id.base.log 2>&1; base=$?
cd /; git -C /repo worktree remove --force $wt; git -C /repo worktree prune
echo "$id: demo_clean_exit=$clean demo_mutated_exit=$mut baseline_exit=$base $(tail -1 /tmp/vs_$id.base.log)"
[ $clean -eq 0 ] && [ $mut -ne 0 ] && [ $base -eq 0 ]
