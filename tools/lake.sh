#!/bin/sh
# lake under the same lock the checks use (several checks / developers may run concurrently)
cd "$(dirname "$0")/../lean"
exec flock .lake_lock lake "$@"
