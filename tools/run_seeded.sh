#!/bin/sh
# run_seeded.sh <patch.diff> <Cxx> [tier] : run a check against a scratch copy of /repo with the patch applied.
# exit code = the check's exit code (1 expected for a property-breaking patch).
here=$(cd "$(dirname "$0")/.." && pwd); p=$(realpath "$1"); pid=$2; tier=${3:-quick}; wt=/tmp/rs_${pid}_$$
git -C /repo worktree add -q $wt HEAD || exit 2
( cd $wt && git apply "$p" ) || { echo "PATCH DOES NOT APPLY"; git -C /repo worktree remove --force $wt; exit 2; }
cd "$here" && POLYPLY_REPO=$wt ./check.py $pid --tier $tier; rc=$?
rm -rf "$(python3 -c "import hashlib,os,sys;print('/tmp/polyply_verif_lean_'+hashlib.sha1(os.path.realpath(sys.argv[1]).encode()).hexdigest()[:10])" $wt)"
git -C /repo worktree remove --force $wt; git -C /repo worktree prune
exit $rc
