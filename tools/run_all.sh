#!/bin/sh
# run_all.sh [tier] [jobs]: run every existing check, several at a time; one line per check.
tier=${1:-quick}; jobs=${2:-4}
cd "$(dirname "$0")/.."
ls harness/c[0-9][0-9].py | sed -e 's#harness/c#C#' -e 's#\.py##' | \
  xargs -P "$jobs" -I{} sh -c 's=$(date +%s); ./check.py {} --tier '"$tier"' > /tmp/runall_{}.log 2>&1; rc=$?; e=$(date +%s); echo "{} exit=$rc $((e-s))s $(grep -c "^VIOLATION" /tmp/runall_{}.log) violation-lines $(grep -c "^KNOWN-FINDING" /tmp/runall_{}.log) known"'
