#!/usr/bin/env python3
"""Run the registered check of each seeded / regression mutation against a scratch copy of /repo with the
patch applied, several at a time, and print one line per mutation:  <id> <property> exit=<rc> <verdict line>.
usage: eval_seeds.py [--tier quick|thorough] [--jobs N] [ids...]      (default: everything under seeded/ and regress/)
"""
import concurrent.futures
import json
import os
import subprocess
import sys

VERIF = os.path.dirname(os.path.dirname(os.path.abspath(__file__)))
REGRESS_PROPS = {}


def regress_props():
    """regress/revert_<commit>.diff -> properties named in known_findings.txt for that commit"""
    props = {}
    for line in open(os.path.join(VERIF, "known_findings.txt")):
        if line.startswith("fixed:"):
            parts = line.split()
            pid = parts[1].split("=")[1]
            commit = parts[2]
            also = [w.strip("(),:") for w in line.replace("also", " also ").split() if w.strip("(),:").startswith("C") and w.strip("(),:")[1:].isdigit()]
            props[commit] = sorted(set([pid] + also))
    return props


def jobs(selected):
    out = []
    sdir = os.path.join(VERIF, "seeded")
    for name in sorted(os.listdir(sdir)) if os.path.isdir(sdir) else []:
        meta_path = os.path.join(sdir, name, "meta.json")
        if not os.path.exists(meta_path):
            continue
        meta = json.load(open(meta_path))
        out.append((name, os.path.join(sdir, name, "patch.diff"), [meta["property"]]))
    rp = regress_props()
    rdir = os.path.join(VERIF, "regress")
    for name in sorted(os.listdir(rdir)):
        commit = name.replace("revert_", "").replace(".diff", "")
        out.append((name.replace(".diff", ""), os.path.join(rdir, name), rp.get(commit, [])))
    if selected:
        out = [j for j in out if j[0] in selected]
    return out


def run_one(job, tier):
    name, patch, props = job
    res = []
    for pid in props:
        if not os.path.exists(os.path.join(VERIF, "harness", pid.lower() + ".py")):
            res.append("%s %s exit=- (no check yet)" % (name, pid))
            continue
        proc = subprocess.run([os.path.join(VERIF, "tools", "run_seeded.sh"), patch, pid, tier],
                              stdout=subprocess.PIPE, stderr=subprocess.STDOUT, text=True)
        lines = proc.stdout.splitlines()
        verdict = next((l for l in lines if l.startswith("VIOLATION")), "") or next(
            (l for l in lines if l.startswith("HARNESS")), "") or (lines[-1] if lines else "")
        res.append("%s %s exit=%d %s" % (name, pid, proc.returncode, verdict[:200]))
    return res


def main():
    args = sys.argv[1:]
    tier, njobs = "quick", 4
    while args and args[0].startswith("--"):
        if args[0] == "--tier":
            tier = args[1]
        elif args[0] == "--jobs":
            njobs = int(args[1])
        args = args[2:]
    todo = jobs(set(args))
    with concurrent.futures.ThreadPoolExecutor(njobs) as pool:
        for lines in pool.map(lambda j: run_one(j, tier), todo):
            for line in lines:
                print(line, flush=True)


if __name__ == "__main__":
    main()
