#!/bin/sh
# ingest_seeds.sh <outdir> <ids...>: verify each delivered seed, copy the confirmed ones to seeded/, print the verdict
out=$1; shift
for d in "$@"; do
  [ -f $out/$d/patch.diff ] || { echo "$d: not delivered"; continue; }
  if /verif/tools/verify_seed.sh $out/$d; then
    mkdir -p /verif/seeded/$d; cp $out/$d/patch.diff $out/$d/demo.py /verif/seeded/$d/
    python3 - $out $d <<'PY'
import json,sys
out,d=sys.argv[1],sys.argv[2]
m=json.load(open(f'{out}/{d}/meta.json'))
m['property']=d[:3]
m['confirmed']="tools/verify_seed.sh: in a scratch worktree of /repo HEAD the demo exits 0 without the patch and non-zero with it; tools/baseline.py (the pinned suite, 464 stable tests) passes with the patch applied"
m['origin']="independent sub-agent (later round) given only the property text, the summaries of the earlier rounds to avoid, and a scratch worktree"
json.dump(m,open(f'/verif/seeded/{d}/meta.json','w'),indent=1)
PY
  fi
done
