#!/usr/bin/env python3
"""mutants.py — systematic first-order mutation of the anchored source files, as a measuring stick for the checks
(independent of the hand-made and agent-made seeds).

  mutants.py list  [--files a.py,b.py] [--per-file N] [--seed S]      enumerate mutation sites, print a sample
  mutants.py run   [--files ...] [--per-file N] [--seed S] [--jobs J] [--out FILE]

For every sampled mutant: a scratch worktree of /repo gets the mutated file (the module re-emitted by
`ast.unparse`, i.e. comments are lost, behaviour is not), the pinned test suite is run (a mutant the suite kills is
not interesting: the properties are about what the suite cannot settle), and for the survivors the quick check of
every property anchored in that file is run against the worktree.  One line per mutant:

  <file>:<line> <operator> <detail> | suite=pass|fail | C03=1 C17=0 ... | DETECTED / SURVIVED

SURVIVED mutants are either equivalent (behaviour unchanged or the property still holds) or a gap of the checks;
they are triaged by hand (notes/mutants_triage.md).  Nothing here is part of a registered check."""
import argparse
import ast
import concurrent.futures
import copy
import json
import os
import random
import subprocess
import sys
import threading

VERIF = os.path.dirname(os.path.dirname(os.path.abspath(__file__)))
REPO = "/repo"
DEFAULT_FILES = ["random_walk.py", "nonbond_engine.py", "build_system.py", "apply_links.py", "map_to_molecule.py",
                 "topology.py", "top_parser.py", "meta_molecule.py", "gen_dna.py", "simple_seq_parsers.py",
                 "restraints.py", "backmap.py", "generate_templates.py", "graph_utils.py", "linalg_functions.py",
                 "build_file_parser.py", "annotate_ligands.py", "gen_coords.py", "gen_itp.py", "gen_seq.py",
                 "apply_modifications.py", "persistence.py", "polyply_parser.py", "check_residue_equivalence.py",
                 "minimizer.py", "virtual_site_builder.py", "load_library.py", "ff_parser_sub.py"]

CMP = {ast.Lt: ast.LtE, ast.LtE: ast.Lt, ast.Gt: ast.GtE, ast.GtE: ast.Gt, ast.Eq: ast.NotEq, ast.NotEq: ast.Eq,
       ast.In: ast.NotIn, ast.NotIn: ast.In, ast.Is: ast.IsNot, ast.IsNot: ast.Is}


def anchors():
    out = {}
    for line in open(os.path.join(VERIF, "properties.jsonl")):
        prop = json.loads(line)
        for path in prop["anchors"]["files"]:
            out.setdefault(os.path.basename(path), []).append(prop["id"])
    return out


def is_message(node, parents):
    """inside a raise / a logging call / an assignment to `msg`: text, not behaviour"""
    for par in parents:
        if isinstance(par, ast.Raise):
            return True
        if isinstance(par, ast.Call) and isinstance(par.func, ast.Attribute) and \
                par.func.attr in ("warning", "info", "debug", "error", "format"):
            return True
        if isinstance(par, ast.Assign) and any(isinstance(t, ast.Name) and t.id in ("msg", "message") for t in par.targets):
            return True
    return False


def sites(tree):
    """list of (description, line, mutator) — mutator(node_copy_tree) applies the mutation to a deep copy located
    by the index of the node in ast.walk order"""
    out = []
    nodes = list(ast.walk(tree))
    parents = {}
    for node in nodes:
        for child in ast.iter_child_nodes(node):
            parents[child] = node

    def chain(node):
        res = []
        while node in parents:
            node = parents[node]
            res.append(node)
        return res

    for idx, node in enumerate(nodes):
        line = getattr(node, "lineno", 0)
        pars = chain(node)
        if not any(isinstance(p, (ast.FunctionDef, ast.AsyncFunctionDef)) for p in pars + [node]):
            # module level: only numeric constants of tables / defaults are interesting; skip
            continue
        if is_message(node, pars):
            continue
        if isinstance(node, ast.Compare) and len(node.ops) == 1 and type(node.ops[0]) in CMP:
            out.append(("cmp %s->%s" % (type(node.ops[0]).__name__, CMP[type(node.ops[0])].__name__), line, idx,
                        lambda n: setattr(n, "ops", [CMP[type(n.ops[0])]()])))
        elif isinstance(node, ast.BinOp) and isinstance(node.op, (ast.Add, ast.Sub)) and not any(
                isinstance(side, ast.Constant) and isinstance(side.value, str) for side in (node.left, node.right)):
            new = ast.Sub if isinstance(node.op, ast.Add) else ast.Add
            out.append(("arith %s->%s" % (type(node.op).__name__, new.__name__), line, idx,
                        lambda n, new=new: setattr(n, "op", new())))
        elif isinstance(node, ast.BoolOp):
            new = ast.Or if isinstance(node.op, ast.And) else ast.And
            out.append(("bool %s->%s" % (type(node.op).__name__, new.__name__), line, idx,
                        lambda n, new=new: setattr(n, "op", new())))
        elif isinstance(node, ast.UnaryOp) and isinstance(node.op, ast.Not):
            out.append(("drop-not", line, idx, "replace-with-operand"))
        elif isinstance(node, ast.Constant) and isinstance(node.value, int) and not isinstance(node.value, bool) \
                and -3 <= node.value <= 12:
            out.append(("const %d->%d" % (node.value, node.value + 1), line, idx,
                        lambda n: setattr(n, "value", n.value + 1)))
            if node.value > 0:
                out.append(("const %d->%d" % (node.value, node.value - 1), line, idx,
                            lambda n: setattr(n, "value", n.value - 1)))
        elif isinstance(node, ast.Constant) and isinstance(node.value, bool):
            out.append(("const %s->%s" % (node.value, not node.value), line, idx,
                        lambda n: setattr(n, "value", not n.value)))
        elif isinstance(node, (ast.Break, ast.Continue)):
            out.append(("%s->pass" % type(node).__name__.lower(), line, idx, "replace-with-pass"))
        elif isinstance(node, ast.If):
            out.append(("negate-if", line, idx,
                        lambda n: setattr(n, "test", ast.UnaryOp(op=ast.Not(), operand=n.test))))
        elif isinstance(node, ast.Expr) and isinstance(node.value, ast.Call):
            func = node.value.func
            name = func.attr if isinstance(func, ast.Attribute) else getattr(func, "id", "")
            if name not in ("warning", "info", "debug", "error", "print"):
                out.append(("drop-call %s" % name, line, idx, "replace-with-pass"))
    return out


def mutate(source, site):
    desc, line, idx, action = site
    tree = ast.parse(source)
    nodes = list(ast.walk(tree))
    target = nodes[idx]
    if action == "replace-with-pass" or action == "replace-with-operand":
        new = ast.Pass() if action == "replace-with-pass" else target.operand
        for node in nodes:
            for field, value in ast.iter_fields(node):
                if value is target:
                    setattr(node, field, new)
                elif isinstance(value, list):
                    for i, item in enumerate(value):
                        if item is target:
                            value[i] = new
    else:
        action(target)
    ast.fix_missing_locations(tree)
    return ast.unparse(tree) + "\n"


def sample(files, per_file, seed):
    rng = random.Random(seed)
    todo = []
    for name in files:
        path = os.path.join(REPO, "polyply", "src", name)
        source = open(path).read()
        all_sites = sites(ast.parse(source))
        rng.shuffle(all_sites)
        for site in all_sites[:per_file]:
            todo.append((name, source, site))
    return todo


LOCK = threading.Lock()
FREE = []


def run_one(job, anchor_map, out):
    name, source, site = job
    with LOCK:
        wt = FREE.pop()
    try:
        subprocess.run(["git", "-C", wt, "checkout", "-q", "--", "."], check=False)
        try:
            mutated = mutate(source, site)
            compile(mutated, name, "exec")
        except Exception as err:  # pylint: disable=broad-except
            return "%s:%d %s | not-applicable (%s)" % (name, site[1], site[0], type(err).__name__)
        with open(os.path.join(wt, "polyply", "src", name), "w") as handle:
            handle.write(mutated)
        env = dict(os.environ, POLYPLY_REPO=wt)
        try:
            proc = subprocess.run(["timeout", "-k", "5", "240", "python3", os.path.join(VERIF, "tools", "baseline.py")],
                                  env=env, stdout=subprocess.PIPE, stderr=subprocess.STDOUT, text=True)
        except subprocess.SubprocessError:
            return "%s:%d %s | suite=error" % (name, site[1], site[0])
        if proc.returncode != 0:
            return "%s:%d %s | suite=fail" % (name, site[1], site[0])
        verdicts = []
        for pid in anchor_map.get(name, []):
            chk = subprocess.run([os.path.join(VERIF, "check.py"), pid, "--tier", "quick"], env=env, cwd=VERIF,
                                 stdout=subprocess.PIPE, stderr=subprocess.STDOUT, text=True)
            shape = ""
            for line in chk.stdout.splitlines():
                if line.startswith("VIOLATION"):
                    shape = line.split("replay=")[-1].split("/")[-1]
                    break
            verdicts.append("%s=%d%s" % (pid, chk.returncode, (":" + shape) if shape else ""))
            if chk.returncode == 1:
                break
        detected = any("=1" in v for v in verdicts)
        return "%s:%d %s | suite=pass | %s | %s" % (name, site[1], site[0], " ".join(verdicts),
                                                    "DETECTED" if detected else "SURVIVED")
    finally:
        subprocess.run(["git", "-C", wt, "checkout", "-q", "--", "."], check=False)
        with LOCK:
            FREE.append(wt)


def main():
    parser = argparse.ArgumentParser()
    parser.add_argument("mode", choices=["list", "run"])
    parser.add_argument("--files", default=",".join(DEFAULT_FILES))
    parser.add_argument("--per-file", type=int, default=6)
    parser.add_argument("--seed", type=int, default=0)
    parser.add_argument("--jobs", type=int, default=4)
    parser.add_argument("--out", default=None)
    args = parser.parse_args()
    files = [f for f in args.files.split(",") if f]
    todo = sample(files, args.per_file, args.seed)
    if args.mode == "list":
        for name, _src, site in todo:
            print("%s:%d %s" % (name, site[1], site[0]))
        print(len(todo), "mutants")
        return
    anchor_map = anchors()
    for k in range(args.jobs):
        wt = "/tmp/mut_wt_%d_%d" % (os.getpid(), k)
        subprocess.run(["git", "-C", REPO, "worktree", "add", "-q", wt, "HEAD"], check=True)
        FREE.append(wt)
    out = open(args.out, "a") if args.out else None
    try:
        with concurrent.futures.ThreadPoolExecutor(args.jobs) as pool:
            for line in pool.map(lambda j: run_one(j, anchor_map, out), todo):
                print(line, flush=True)
                if out:
                    out.write(line + "\n")
                    out.flush()
    finally:
        import hashlib
        for wt in list(FREE):
            lean = "/tmp/polyply_verif_lean_" + hashlib.sha1(os.path.realpath(wt).encode()).hexdigest()[:10]
            subprocess.run(["rm", "-rf", lean])
            subprocess.run(["git", "-C", REPO, "worktree", "remove", "--force", wt])
        subprocess.run(["git", "-C", REPO, "worktree", "prune"])


if __name__ == "__main__":
    main()
