#!/bin/sh
# Build the framework offline from files on disk: regenerate the tables from /repo and compile the
# whole Lean library once so that the checks only pay incremental rebuilds.
set -e
cd "$(dirname "$0")/.."
/venv/bin/python harness/gen_tables.py
cd lean
lake build
