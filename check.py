#!/usr/bin/env python3
"""Entry point of every check:  check.py Cxx [--tier quick|thorough] [--replay file]
Re-executes itself with /venv/bin/python (the interpreter that has the repository's dependencies)."""
import importlib
import os
import sys

HERE = os.path.dirname(os.path.abspath(__file__))
VENV_PY = "/venv/bin/python"


def main():
    if os.path.realpath(sys.executable) != os.path.realpath(VENV_PY) and os.path.exists(VENV_PY) \
            and os.environ.get("POLYPLY_VERIF_REEXEC") != "1":
        os.environ["POLYPLY_VERIF_REEXEC"] = "1"
        os.execv(VENV_PY, [VENV_PY, os.path.abspath(__file__)] + sys.argv[1:])
    if len(sys.argv) < 2:
        print("usage: check.py Cxx [--tier quick|thorough] [--replay file]")
        return 2
    pid = sys.argv[1].upper()
    sys.path.insert(0, os.path.join(HERE, "harness"))
    import common
    try:
        module = importlib.import_module(pid.lower())
    except ImportError as err:
        print("HARNESS-ERROR: no harness module for %s: %s" % (pid, err))
        return 2
    return common.main(pid, module)


if __name__ == "__main__":
    sys.exit(main())
