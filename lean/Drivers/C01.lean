import PolyplyVerif.Driver.C01
def main : IO Unit := PolyplyVerif.Driver.serve PolyplyVerif.Driver.C01.handle
