import PolyplyVerif.Driver.C17
def main : IO Unit := PolyplyVerif.Driver.serve PolyplyVerif.Driver.C17.handle
