import PolyplyVerif.Driver.C13
def main : IO Unit := PolyplyVerif.Driver.serve PolyplyVerif.Driver.C13.handle
