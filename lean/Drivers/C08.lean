import PolyplyVerif.Driver.C08
def main : IO Unit := PolyplyVerif.Driver.serve PolyplyVerif.Driver.C08.handle
