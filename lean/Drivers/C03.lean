import PolyplyVerif.Driver.C03
def main : IO Unit := PolyplyVerif.Driver.serve PolyplyVerif.Driver.C03.handle
