import PolyplyVerif.Driver.C02
def main : IO Unit := PolyplyVerif.Driver.serve PolyplyVerif.Driver.C02.handle
