import PolyplyVerif.Driver.C09
def main : IO Unit := PolyplyVerif.Driver.serve PolyplyVerif.Driver.C09.handle
