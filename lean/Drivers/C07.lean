import PolyplyVerif.Driver.C07
def main : IO Unit := PolyplyVerif.Driver.serve PolyplyVerif.Driver.C07.handle
