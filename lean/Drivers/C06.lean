import PolyplyVerif.Driver.C06
def main : IO Unit := PolyplyVerif.Driver.serve PolyplyVerif.Driver.C06.handle
