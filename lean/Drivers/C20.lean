import PolyplyVerif.Driver.C20
def main : IO Unit := PolyplyVerif.Driver.serve PolyplyVerif.Driver.C20.handle
