import PolyplyVerif.Driver.C12
def main : IO Unit := PolyplyVerif.Driver.serve PolyplyVerif.Driver.C12.handle
