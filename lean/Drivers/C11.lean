import PolyplyVerif.Driver.C11
def main : IO Unit := PolyplyVerif.Driver.serve PolyplyVerif.Driver.C11.handle
