import PolyplyVerif.Driver.C16
def main : IO Unit := PolyplyVerif.Driver.serve PolyplyVerif.Driver.C16.handle
