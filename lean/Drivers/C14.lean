import PolyplyVerif.Driver.C14
def main : IO Unit := PolyplyVerif.Driver.serve PolyplyVerif.Driver.C14.handle
