import PolyplyVerif.Driver.C19
def main : IO Unit := PolyplyVerif.Driver.serve PolyplyVerif.Driver.C19.handle
