import PolyplyVerif.Driver.C05
def main : IO Unit := PolyplyVerif.Driver.serve PolyplyVerif.Driver.C05.handle
