import PolyplyVerif.Driver.C18
def main : IO Unit := PolyplyVerif.Driver.serve PolyplyVerif.Driver.C18.handle
