import PolyplyVerif.Driver.C04
def main : IO Unit := PolyplyVerif.Driver.serve PolyplyVerif.Driver.C04.handle
