import PolyplyVerif.Driver.C15
def main : IO Unit := PolyplyVerif.Driver.serve PolyplyVerif.Driver.C15.handle
