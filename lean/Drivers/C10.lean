import PolyplyVerif.Driver.C10
def main : IO Unit := PolyplyVerif.Driver.serve PolyplyVerif.Driver.C10.handle
