/-
C09 — parameters are resolved as GROMACS preprocessing would resolve them.

Property (properties.jsonl): "After preprocessing, every bonded interaction written without parameters
carries the parameters of the matching bonded type: the exact or reversed atom-type (or bond-type)
sequence, and for dihedrals the least-wildcarded matching pattern irrespective of the direction in which
the atoms are listed, multi-term dihedral types being expanded to all their terms in every molecule
instance and #define macros substituted. Non-bonded pair parameters are symmetric in the pair, explicit
nonbond_params override generated ones, self terms come from the atom types, and C6/C12 tables are
converted to the sigma/epsilon values that reproduce them."

Property theorems only (helper lemmas: Proofs/Preprocess.lean).  `Tables.Top.patterns` is regenerated
from the literal `patterns` list in `topology.match_dihedral_interaction_types` on every run, so the three
table facts (`C09_table_facts`, by `decide`) and everything derived from them are re-established against
what the source says now.  The search loop itself is modelled by hand (`Preprocess.matchDihedral`) and
tied by the correspondence check.

Round 5: `Generated/C09Preprocess.lean` carries the further literals of `topology.py` the model reads (`C09_literals`, by
`decide`); `convert_nonbond_to_sig_eps`, the combination rules and `gen_pairs` with values are modelled as code
(`convertEntry`, `convertTable`, `lorentzBerthelot`, `geometric`, `genPairsV`, `preprocessV`) with square / sixth roots as
specification values (`Val.root deg rad`, denotation `Proofs.C09Numbers.Denotes`): `C09_convert_*`, `C09_comb_*`,
`C09_pairs_values`, `C09_preprocessV_refines`.  The combination-rule FORMULAS are not demanded by the property; the theorems
about them hold for both modelled functions, whichever rule number the translated table maps to which.

Hypotheses that appear below and why:
* `a.length = 4`: a dihedral has four atoms (`_wildcard_dih` indexes `atoms[0..3]`).
* no hypothesis on the atom-type NAMES is needed: the theorems hold even when an atom type is literally
  called `X` (the number of `X` in a key then counts the wildcards plus those atoms; `Proofs/Preprocess.lean`
  does the counting position by position).  The harness generates such atom types too.
* symmetry of the returned KEY needs the least-wildcarded matching key to be unique: with two different
  equally specific keys (`X B C D` and `A B C X`) which one wins depends on the direction — GROMACS's
  tie-break is not part of the property.  What holds unconditionally (and is proved): whether a type is
  found, and the wildcard count of the one found, do not depend on the direction.
-/
import PolyplyVerif.Generated.Top
import PolyplyVerif.Generated.C09Preprocess
import PolyplyVerif.Model.Preprocess
import PolyplyVerif.Proofs.Preprocess
import PolyplyVerif.Proofs.C09Numbers
import Mathlib.Analysis.SpecialFunctions.Pow.Real
import Mathlib.Tactic.Ring
import Mathlib.Tactic.FieldSimp

namespace PolyplyVerif.C09
open PolyplyVerif PolyplyVerif.Preprocess PolyplyVerif.Proofs.Preprocess PolyplyVerif.Proofs.C09Numbers

abbrev patterns := Tables.Top.patterns

/-! ### the translated table -/

/-- The literals of `topology.py` the model reads from the TRANSLATED source (`Generated/C09Preprocess.lean`): an
interaction counts as written without parameters when it has exactly one token (the function type); the sections the
property talks about (`bonds`, `angles`, `dihedrals`, `constraints`) are not in the list of sections skipped as type-less,
`pairs` and `exclusions` are; `inter_type in "dihedrals"` (a SUBSTRING test in the code) sends `dihedrals` and none of
the other typed sections — nor any other section name the topology reader accepts — to the wildcard search; the
bond-type route is selected by the two OPLS macros of the GROMACS library; pairs are generated for the GROMACS keyword
`yes`; and the conversion to sigma/epsilon runs for combination rule 1 (the only rule whose tables are C6/C12 while
sigma/epsilon are wanted). -/
theorem C09_literals :
    paramlessLen = 1 ∧
    (["bonds", "angles", "dihedrals", "constraints"].all (fun s => !untyped.contains s) = true ∧
      untyped.contains "pairs" = true ∧ untyped.contains "exclusions" = true) ∧
    (dihLike "dihedrals" = true ∧
      (((Tables.Top.sections.filterMap fun e => e.1.getLast?).filter (· ≠ "dihedrals")).all (fun s => !dihLike s)) = true) ∧
    ("_FF_OPLS" ∈ Tables.C09Preprocess.oplsDefines ∧ "_FF_OPLS_AA" ∈ Tables.C09Preprocess.oplsDefines) ∧
    Tables.C09Preprocess.genPairsYes = "yes" ∧
    (∀ rule : Nat, convertsRule rule = true ↔ rule = 1) := by
  refine ⟨by decide, by decide, by decide, by decide, by decide, ?_⟩
  intro rule
  have h1 : Tables.C09Preprocess.convertCombRule = 1 := by decide
  simp only [convertsRule, h1, beq_iff_eq, Nat.cast_inj]

example : dihLike "dihedral" = true ∧ dihLike "impropers" = false ∧ genPairsFlag (some "yes") = true ∧
    genPairsFlag none = false ∧ oplsOf [("_FF_OPLS_AA", .flag)] = true ∧ oplsOf [("FLEX", .flag)] = false := by decide

/-- The three facts about the pattern list written in the source: every pattern is a wildcard mask
(entry `j` is `'X'` or the index `j`), the list is ordered by wildcard count, and every one of the 16
masks occurs in it up to reversal (the loop tries every pattern on both directions). -/
theorem C09_table_facts : TableFacts patterns := ⟨by decide, by decide, by decide⟩

/-- Each of the 16 wildcard masks is matched, in both listing directions: a type written with ANY mask of
the atoms (or of the reversed atoms) is found, whichever way round the interaction lists its atoms. -/
theorem C09_masks_complete (m : Pat) (hm : m ∈ allMasks) (a : Key) (ha : a.length = 4) (t : TypeTable)
    (h : hasKey t (wildcardKey a m) = true ∨ hasKey t (wildcardKey a.reverse m) = true) :
    (matchDihedral patterns a t).isSome = true ∧ (matchDihedral patterns a.reverse t).isSome = true := by
  have har : a.reverse.length = 4 := by simpa using ha
  have key : ∀ k, hasKey t k = true → matchesEither k a = true →
      (matchDihedral patterns a t).isSome = true ∧ (matchDihedral patterns a.reverse t).isSome = true := by
    intro k hk hmatch
    constructor
    · cases hn : matchDihedral patterns a t with
      | some _ => rfl
      | none =>
        have := (matchDihedral_none_iff patterns C09_table_facts t a ha).mp hn k ((hasKey_iff t k).mp hk)
        rw [this] at hmatch; exact absurd hmatch Bool.false_ne_true
    · cases hn : matchDihedral patterns a.reverse t with
      | some _ => rfl
      | none =>
        have := (matchDihedral_none_iff patterns C09_table_facts t _ har).mp hn k ((hasKey_iff t k).mp hk)
        rw [matchesEither_reverse] at this
        rw [this] at hmatch; exact absurd hmatch Bool.false_ne_true
  rcases h with h | h
  · exact key _ h (cands_match m hm a ha _ (by simp [cands]))
  · exact key _ h (cands_match m hm a ha _ (by simp [cands]))

example : allMasks.length = 16 ∧ allMasks.Nodup := by decide
example : (matchDihedral patterns ["A", "B", "C", "D"] [(["X", "C", "X", "X"], [])]).isSome = true := by decide

/-- The key the wildcard search returns is a key of the type table, matches the atom types (in the
listed or in the reverse direction), and NO matching key of the table — in either direction — has fewer
wildcards. -/
theorem C09_dihedral_most_specific (t : TypeTable) (a k : Key) (ha : a.length = 4)
    (h : matchDihedral patterns a t = some k) :
    k ∈ t.map (·.1) ∧ matchesEither k a = true ∧
      ∀ k' ∈ t.map (·.1), matchesEither k' a = true → wildcards k ≤ wildcards k' :=
  matchDihedral_some patterns C09_table_facts t a k ha h

example : matchDihedral patterns ["D", "C", "B", "A"]
    [(["X", "X", "C", "D"], []), (["A", "B", "C", "X"], []), (["X", "B", "X", "X"], [])]
    = some ["A", "B", "C", "X"] := by decide

-- an atom type that is itself called `X`
example : matchDihedral patterns ["X", "B", "C", "D"] [(["X", "X", "X", "D"], []), (["X", "B", "C", "X"], [])]
    = some ["X", "B", "C", "X"] := by decide

/-- The search fails exactly when no key of the table matches in either direction (so a failure of
`gen_bonded_interactions` for a dihedral means there really is no applicable type). -/
theorem C09_dihedral_found_iff (t : TypeTable) (a : Key) (ha : a.length = 4) :
    matchDihedral patterns a t = none ↔ ∀ k' ∈ t.map (·.1), matchesEither k' a = false :=
  matchDihedral_none_iff patterns C09_table_facts t a ha

example : matchDihedral patterns ["A", "B", "C", "D"] [(["X", "C", "C", "X"], [])] = none := by decide

/-- the least-wildcarded matching key is unique -/
def UniqueBest (t : TypeTable) (a : Key) : Prop :=
  ∀ k k' : Key, k ∈ t.map (·.1) → k' ∈ t.map (·.1) → matchesEither k a = true → matchesEither k' a = true →
    wildcards k = wildcards k' → k = k'

/-- Direction independence of the search: whether a type is found and how many wildcards the found key has
never depends on the listing direction; when the least-wildcarded matching key is unique the SAME key is
found for `(a,b,c,d)` and `(d,c,b,a)`. -/
theorem C09_dihedral_search_symmetric (t : TypeTable) (a : Key) (ha : a.length = 4) :
    ((matchDihedral patterns a t).isSome = (matchDihedral patterns a.reverse t).isSome) ∧
    (∀ k1 k2, matchDihedral patterns a t = some k1 → matchDihedral patterns a.reverse t = some k2 →
      wildcards k1 = wildcards k2 ∧ (UniqueBest t a → k1 = k2)) :=
  matchDihedral_symm patterns C09_table_facts t a ha

/-- The PARAMETERS found for a dihedral listed as `(a,b,c,d)` and as `(d,c,b,a)` are equal (the whole
lookup of `gen_bonded_interactions`: exact key, reversed key, wildcard search), for every type table in
which the least-wildcarded matching key is unique. -/
theorem C09_dihedral_symmetric (t : TypeTable) (a : Key) (ha : a.length = 4)
    (hu : UniqueBest t a) :
    lookupType patterns "dihedrals" a t = lookupType patterns "dihedrals" a.reverse t := by
  have hself : matchesEither a a = true := by simp [matchesEither, keyMatches_self]
  have hrev : matchesEither a.reverse a = true := by simp [matchesEither, keyMatches_self]
  have hw : wildcards a.reverse = wildcards a := by simp [wildcards, List.count_reverse]
  have mem_of : ∀ k e, tlookup t k = some e → k ∈ t.map (·.1) := by
    intro k e hk
    exact (hasKey_iff t k).mp (by simp [hasKey, hk])
  unfold lookupType
  rw [List.reverse_reverse]
  cases h1 : tlookup t a with
  | some e =>
    cases h2 : tlookup t a.reverse with
    | some e' =>
      have : a.reverse = a := hu _ _ (mem_of _ _ h2) (mem_of _ _ h1) hrev hself hw
      rw [this, h1] at h2
      simp [h2]
    | none => rfl
  | none =>
    cases h2 : tlookup t a.reverse with
    | some e' => rfl
    | none =>
      have hd : dihLike "dihedrals" = true := C09_literals.2.2.1.1
      simp only [hd, if_true]
      obtain ⟨hs, hk⟩ := C09_dihedral_search_symmetric t a ha
      cases m1 : matchDihedral patterns a t with
      | none =>
        cases m2 : matchDihedral patterns a.reverse t with
        | none => rfl
        | some k2 => simp [m1, m2] at hs
      | some k1 =>
        cases m2 : matchDihedral patterns a.reverse t with
        | none => simp [m1, m2] at hs
        | some k2 =>
          have := (hk k1 k2 m1 m2).2 hu
          rw [this]

example : lookupType patterns "dihedrals" ["A", "B", "C", "D"] [(["X", "C", "B", "X"], [⟨["9", "1"], none⟩])]
    = lookupType patterns "dihedrals" ["D", "C", "B", "A"] [(["X", "C", "B", "X"], [⟨["9", "1"], none⟩])] ∧
    lookupType patterns "dihedrals" ["A", "B", "C", "D"] [(["X", "C", "B", "X"], [⟨["9", "1"], none⟩])]
    = some [⟨["9", "1"], none⟩] := by decide

/-! ### bonds, angles, constraints: exact or reversed sequence -/

/-- For every interaction type that does not take the wildcard route (`dihLike it = false`: by `C09_literals`
every section the reader accepts other than `dihedrals`) the type found is the entry of the exact atom-type
(or bond-type) sequence, else the entry of the reversed sequence, else nothing; for dihedrals the exact
and the reversed sequence also take precedence over every wildcard pattern. -/
theorem C09_bonded_exact_or_reversed (it : String) (a : Key) (t : TypeTable) :
    (dihLike it = false →
      lookupType patterns it a t = (match tlookup t a with | some e => some e | none => tlookup t a.reverse)) ∧
    (∀ e, tlookup t a = some e → lookupType patterns it a t = some e) ∧
    (∀ e, tlookup t a = none → tlookup t a.reverse = some e → lookupType patterns it a t = some e) :=
  ⟨lookupType_nondihedral patterns it a t, lookupType_exact patterns it a t, lookupType_reversed patterns it a t⟩

example : lookupType patterns "angles" ["A", "B", "C"] [(["C", "B", "A"], [⟨["1", "109.5", "400"], none⟩])]
    = some [⟨["1", "109.5", "400"], none⟩] := by decide

/-! ### macros -/

/-- `replace_defines`: every parameter token that is the name of a macro with a value list is replaced by
that list, every other token is left untouched (in place, in order) — whenever no token names a value-less
macro (`#define FLAG`); in that excluded case the real code fails (second part). -/
theorem C09_defines (d : Defines) (ps : List String) :
    ((∀ p ∈ ps, dlookup d p ≠ some .flag) → replaceParams d ps = .ok (ps.flatMap (expandToken d))) ∧
    ((∀ p ∈ ps, dlookup d p = none) → replaceParams d ps = .ok ps) ∧
    (∀ p ∈ ps, dlookup d p = some .flag → ∃ e, replaceParams d ps = .error e) := by
  refine ⟨replaceParams_ok d ps, ?_, fun p hp h => replaceParams_error d ps p hp h⟩
  intro h
  rw [replaceParams_ok d ps (fun p hp => by rw [h p hp]; simp), flatMap_expand_untouched d ps h]

example : replaceParams [("gb_1", .vals ["0.1", "1000"]), ("FLEX", .flag)] ["2", "gb_1", "7"]
    = .ok ["2", "0.1", "1000", "7"] := by decide

/-! ### multi-term types in every instance -/

/-- Every molecule instance of a successfully preprocessed topology — any number `n` of instances, any
`[molecules]` order, repeated names — carries, section by section, the expansion of its macro-substituted
block: each interaction updated in place, followed by the additional terms; and no instance is lost. -/
theorem C09_multiterm_every_instance (cf : List (Nat × String)) (tp : Topo) (r : Result)
    (h : preprocess patterns cf tp = .ok r) :
    (∀ inst ∈ r.instances, ∃ b ∈ tp.blocks, ∃ b', replaceDefinesBlock tp.defines b = .ok b' ∧ b.name = inst.1 ∧
        inst.2 = b'.ixns.map (expandSection patterns (oplsOf tp.defines) tp.atomTypes b' tp.types)) ∧
    r.instances.map (·.1) = tp.molecules.filter (fun nm => tp.blocks.any (fun b => b.name == nm)) :=
  preprocess_instances patterns cf tp r h

/-- ... and in such an expanded section a parameterless interaction `i` whose type has the `k` terms
`e :: es` (any `k ≥ 1`) is represented by exactly `k` interactions on the atoms of `i`, carrying the
parameters of the terms in term order (`i` being the only interaction of the section on these atoms). -/
theorem C09_multiterm_terms (opls : Bool) (ats : List AtomType) (b : Block) (types : Types) (it : String)
    (l : List Ixn) (i : Ixn) (e : TypeEntry) (es : List TypeEntry)
    (hit : untyped.contains it = false)
    (huniq : l.filter (fun j => j.atoms == i.atoms) = [i])
    (h1 : i.params.length = 1)
    (hterms : termsFor patterns opls ats b it (typesOf types it) i = some (e :: es)) :
    (((expandSection patterns opls ats b types (it, l)).2.filter (fun j => j.atoms == i.atoms)).map (·.params)
        = (e :: es).map (·.params)) ∧
    (∀ j ∈ (expandSection patterns opls ats b types (it, l)).2.filter (fun j => j.atoms == i.atoms),
        j.atoms = i.atoms) := by
  have hexp : (expandSection patterns opls ats b types (it, l)).2.filter (fun j => j.atoms == i.atoms)
      = firstTerm i e :: extraTerms i es := by
    simp only [expandSection, hit, Bool.false_eq_true, if_false]
    rw [expand_filter _ _ (upd_atoms patterns opls ats b it _) (ext_atoms patterns opls ats b it _), huniq]
    simp [upd, ext, h1, hterms, C09_literals.1]
  constructor
  · rw [hexp]
    simp [firstTerm, extraTerms, Function.comp_def]
  · intro j hj
    simpa using (List.mem_filter.mp hj).2

example :
    let b : Block := ⟨"M", ["A", "B", "C", "D"], [("dihedrals", [⟨[0, 1, 2, 3], ["9"], []⟩])]⟩
    let tp : Topo := { combRule := some 2, genPairsYes := false, defines := [], atomTypes := [], nonbond := [],
                       types := [("dihedrals", [(["X", "B", "C", "X"], [⟨["9", "0", "1", "1"], none⟩, ⟨["9", "180", "2", "2"], none⟩])])],
                       blocks := [b], molecules := ["M", "M", "M"] }
    (match preprocess patterns Tables.Top.combFuncs tp with
     | .ok r => r.instances.map (fun inst => inst.2.map (fun s => s.2.map (·.params)))
     | .error _ => []) = List.replicate 3 [[["9", "0", "1", "1"], ["9", "180", "2", "2"]]] := by decide

/-! ### non-bonded pairs -/

/-- (i) the pair table is symmetric in the pair; (ii) an explicit `nonbond_params` entry is returned
unchanged whatever `gen-pairs` says; (iii) the self term of an atom type is its own `(nb1, nb2)` unless given
explicitly; (iv) without `gen-pairs = yes` nothing is generated for a pair of different types; (v) with it
every pair of different atom types has an entry. -/
theorem C09_pairs (yes : Bool) (ats : List AtomType) (expl : List NbEntry) :
    (∀ a b, nbLookup (genPairs yes ats expl) a b = nbLookup (genPairs yes ats expl) b a) ∧
    (∀ a b e, nbLookup expl a b = some e → nbLookup (genPairs yes ats expl) a b = some e) ∧
    ((ats.map (·.name)).Nodup → ∀ x ∈ ats, nbLookup expl x.name x.name = none →
        nbLookup (genPairs yes ats expl) x.name x.name = some ⟨x.name, x.name, .self, some (x.nb1, x.nb2)⟩) ∧
    (yes = false → ∀ a b, a ≠ b → nbLookup (genPairs yes ats expl) a b = nbLookup expl a b) ∧
    (yes = true → ∀ x ∈ ats, ∀ y ∈ ats, x.name ≠ y.name →
        (nbLookup (genPairs yes ats expl) x.name y.name).isSome = true) := by
  refine ⟨fun a b => nbLookup_comm _ a b, ?_, ?_, ?_, ?_⟩
  · intro a b e h
    rw [genPairs_lookup, h]
  · intro hn x hx hnone
    rw [genPairs_lookup, hnone]
    have hcross : (if yes then ((combinations2 (ats.map (·.name))).map fun p => (⟨p.1, p.2, .generated, none⟩ : NbEntry)).find?
        (fun e => samePair e.a e.b x.name x.name) else none) = none := by
      cases yes with
      | false => rfl
      | true =>
        simp only [if_true]
        rw [List.find?_eq_none]
        intro e he
        simp only [List.mem_map] at he
        obtain ⟨p, hp, rfl⟩ := he
        have := (mem_combinations2_ne _ hn p hp).1
        simp only [samePair, Bool.or_self, Bool.and_eq_true, beq_iff_eq, not_and]
        intro h1 h2
        exact this (h1.trans h2.symm)
    rw [hcross]
    simp only
    -- the first self entry with this name is x's own (names are unique)
    have : ∀ l : List AtomType, x ∈ l → (l.map (·.name)).Nodup →
        (l.map fun y => (⟨y.name, y.name, .self, some (y.nb1, y.nb2)⟩ : NbEntry)).find?
          (fun e => samePair e.a e.b x.name x.name) = some ⟨x.name, x.name, .self, some (x.nb1, x.nb2)⟩ := by
      intro l
      induction l with
      | nil => intro h; cases h
      | cons y rest ih =>
        intro hmem hnd
        have hnd' : (y.name :: rest.map (·.name)).Nodup := hnd
        simp only [List.map_cons, List.find?_cons]
        rcases List.mem_cons.mp hmem with rfl | hrest
        · simp [samePair]
        · have hne : y.name ≠ x.name := by
            intro heq
            have := (List.nodup_cons.mp hnd').1
            exact this (heq ▸ List.mem_map_of_mem (f := (·.name)) hrest)
          have : samePair y.name y.name x.name x.name = false := by simp [samePair, hne]
          simp only [this]
          exact ih hrest (List.nodup_cons.mp hnd').2
    exact this ats hx hn
  · intro hy a b hab
    subst hy
    rw [genPairs_lookup]
    simp only [Bool.false_eq_true, if_false]
    have : (ats.map fun x => (⟨x.name, x.name, .self, some (x.nb1, x.nb2)⟩ : NbEntry)).find?
        (fun e => samePair e.a e.b a b) = none := by
      rw [List.find?_eq_none]
      intro e he
      simp only [List.mem_map] at he
      obtain ⟨x, _, rfl⟩ := he
      simp only [samePair, Bool.or_eq_true, Bool.and_eq_true, beq_iff_eq, not_or, not_and]
      exact ⟨fun h1 h2 => hab (h1.symm.trans h2), fun h1 h2 => hab (h2.symm.trans h1)⟩
    rw [this]
    cases nbLookup expl a b <;> rfl
  · intro hy x hx y hyy hne
    subst hy
    rw [genPairs_lookup]
    cases nbLookup expl x.name y.name with
    | some e => rfl
    | none =>
      simp only [if_true]
      have hfound : (((combinations2 (ats.map (·.name))).map fun p => (⟨p.1, p.2, .generated, none⟩ : NbEntry)).find?
          (fun e => samePair e.a e.b x.name y.name)).isSome = true := by
        rw [List.find?_isSome]
        rcases combinations2_complete (ats.map (·.name)) x.name y.name (List.mem_map_of_mem hx)
            (List.mem_map_of_mem hyy) hne with h | h
        · exact ⟨_, List.mem_map_of_mem h, by simp [samePair]⟩
        · exact ⟨_, List.mem_map_of_mem h, by simp [samePair]⟩
      cases hf : ((combinations2 (ats.map (·.name))).map fun p => (⟨p.1, p.2, .generated, none⟩ : NbEntry)).find?
          (fun e => samePair e.a e.b x.name y.name) with
      | some e => rfl
      | none => rw [hf] at hfound; cases hfound

example :
    let ats : List AtomType := [⟨"A", 1, 2, none⟩, ⟨"B", 3, 4, none⟩, ⟨"C", 5, 6, none⟩]
    let expl : List NbEntry := [⟨"B", "A", .explicit 1, some (7, 8)⟩]
    (nbLookup (genPairs true ats expl) "A" "B" = some ⟨"B", "A", .explicit 1, some (7, 8)⟩) ∧
    (nbLookup (genPairs true ats expl) "C" "C" = some ⟨"C", "C", .self, some (5, 6)⟩) ∧
    (nbLookup (genPairs true ats expl) "C" "A" = some ⟨"A", "C", .generated, none⟩) ∧
    (nbLookup (genPairs false ats expl) "C" "A" = none) := by decide

/-! ### C6/C12 -> sigma/epsilon (over the reals) -/

/-- `convert_nonbond_to_sig_eps`: for positive `C6`, `C12` the values `sigma = (C12/C6)^(1/6)` and
`epsilon = C6^2 / (4 C12)` reproduce the table: `4 eps sig^6 = C6` and `4 eps sig^12 = C12`. -/
theorem C09_sigeps (C6 C12 : ℝ) (h6 : 0 < C6) (h12 : 0 < C12) :
    let sig := (C12 / C6) ^ ((1 : ℝ) / 6)
    let eps := C6 ^ 2 / (4 * C12)
    4 * eps * sig ^ 6 = C6 ∧ 4 * eps * sig ^ 12 = C12 := by
  intro sig eps
  have hq : 0 ≤ C12 / C6 := (div_pos h12 h6).le
  have hs6 : sig ^ 6 = C12 / C6 := by
    show ((C12 / C6) ^ ((1 : ℝ) / 6)) ^ 6 = C12 / C6
    rw [← Real.rpow_natCast, ← Real.rpow_mul hq]
    norm_num
  have hs12 : sig ^ 12 = (C12 / C6) ^ 2 := by
    have : sig ^ 12 = (sig ^ 6) ^ 2 := by ring
    rw [this, hs6]
  constructor
  · rw [hs6]; show 4 * (C6 ^ 2 / (4 * C12)) * (C12 / C6) = C6; field_simp
  · rw [hs12]; show 4 * (C6 ^ 2 / (4 * C12)) * (C12 / C6) ^ 2 = C12; field_simp

example : (0 : ℝ) < 1 ∧ (0 : ℝ) < 4 := by norm_num

/-- the executable residual used by the oracle vanishes exactly when the two identities hold -/
theorem C09_sigeps_residual (c6 c12 sig eps : Rat) (h6 : c6 ≠ 0) (h12 : c12 ≠ 0) :
    sigEpsResidual c6 c12 sig eps = (0, 0) ↔ (4 * eps * sig ^ 6 = c6 ∧ 4 * eps * sig ^ 12 = c12) := by
  simp only [sigEpsResidual, Prod.mk.injEq]
  constructor
  · rintro ⟨h1, h2⟩
    rw [div_eq_zero_iff] at h1 h2
    exact ⟨by rcases h1 with h | h; exact sub_eq_zero.mp h; exact absurd h h6,
           by rcases h2 with h | h; exact sub_eq_zero.mp h; exact absurd h h12⟩
  · rintro ⟨h1, h2⟩
    rw [h1, h2]; simp

example : sigEpsResidual 4 4 1 1 = (0, 0) := by norm_num [sigEpsResidual]

/-! ### `convert_nonbond_to_sig_eps` as code (`convertEntry`, `convertTable`) -/

/-- "C6/C12 tables are converted to the sigma/epsilon values that reproduce them", for the executable model
of the loop body and ALL positive rationals: no exception; epsilon is exactly `C6^2/(4 C12)`; sigma is a
well-formed specification value (the non-negative sixth root of `C12/C6`), the real number it stands for
exists, is unique, is the `(C12/C6)^(1/6)` of `C09_sigeps`, and satisfies `4 eps sig^6 = C6`,
`4 eps sig^12 = C12`. -/
theorem C09_convert_reproduces (nb1 nb2 : Rat) (h1 : 0 < nb1) (h2 : 0 < nb2) :
    ∃ sv eps, convertEntry nb1 nb2 = .ok (sv, eps) ∧ eps = nb1 ^ 2 / (4 * nb2) ∧ sv = .root 6 (nb2 / nb1) ∧
      WellFormed sv ∧ Denotes sv (((nb2 : ℝ) / (nb1 : ℝ)) ^ ((1 : ℝ) / 6)) ∧
      ∀ sig : ℝ, Denotes sv sig →
        4 * (eps : ℝ) * sig ^ 6 = nb1 ∧ 4 * (eps : ℝ) * sig ^ 12 = nb2 ∧
        sig = ((nb2 : ℝ) / (nb1 : ℝ)) ^ ((1 : ℝ) / 6) := by
  have hq : 0 ≤ nb2 / nb1 := (div_pos h2 h1).le
  have hwf : WellFormed (.root 6 (nb2 / nb1)) := ⟨by decide, hq⟩
  have hden : Denotes (.root 6 (nb2 / nb1)) (((nb2 : ℝ) / (nb1 : ℝ)) ^ ((1 : ℝ) / 6)) := by
    have := denotes_root 6 (by decide) (nb2 / nb1) hq
    simpa using this
  refine ⟨.root 6 (nb2 / nb1), nb1 ^ 2 / (4 * nb2), ?_, rfl, rfl, hwf, hden, ?_⟩
  · rw [convertEntry_nonzero nb1 nb2 h1.ne' h2.ne']
    simp [rootVal, not_lt.mpr hq]
  · intro sig hsig
    have h1r : (nb1 : ℝ) ≠ 0 := by exact_mod_cast h1.ne'
    have h2r : (nb2 : ℝ) ≠ 0 := by exact_mod_cast h2.ne'
    have hs : sig ^ 6 = (nb2 : ℝ) / (nb1 : ℝ) := by
      have := hsig.2
      push_cast at this
      exact this
    obtain ⟨e6, e12⟩ := sigeps_identities (nb1 : ℝ) (nb2 : ℝ) sig h1r h2r hs
    refine ⟨?_, ?_, denotes_unique _ hwf _ _ hsig hden⟩
    · push_cast; exact e6
    · push_cast; exact e12

example : convertEntry 1 64 = .ok (.root 6 64, 1 / 256) ∧ Denotes (.root 6 64) 2 := by
  refine ⟨by norm_num [convertEntry, rootVal], by norm_num [Denotes]⟩

/-- The conversion of one entry raises exactly when one of `nb1`, `nb2` is zero and the other is not (each
guard of the code tests the other operand of its division), and what it raises is `ZeroDivisionError`;
`(0, 0)` is converted to `(0, 0)`. -/
theorem C09_convert_raises_iff (nb1 nb2 : Rat) :
    ((∃ e, convertEntry nb1 nb2 = .error e) ↔ ((nb1 = 0 ∧ nb2 ≠ 0) ∨ (nb1 ≠ 0 ∧ nb2 = 0))) ∧
    (∀ e, convertEntry nb1 nb2 = .error e → e = "ZeroDivisionError") ∧
    convertEntry 0 0 = .ok (.exact 0, 0) :=
  ⟨convertEntry_error_iff nb1 nb2, convertEntry_error_kind nb1 nb2, convertEntry_zero⟩

example : convertEntry 0 (1 / 2) = .error "ZeroDivisionError" ∧ convertEntry 3 0 = .error "ZeroDivisionError" := by
  constructor <;> simp [convertEntry]

/-- `convert_nonbond_to_sig_eps` over the whole table: a successful conversion keeps every pair and its
provenance and converts entry by entry; it fails exactly when one entry fails. -/
theorem C09_convert_table (t : List NbV) :
    (∀ c, convertTable t = .ok c →
      List.Forall₂ (fun e e' => e'.a = e.a ∧ e'.b = e.b ∧ e'.src = e.src ∧
        convertVals e.nb1 e.nb2 = .ok (e'.nb1, e'.nb2)) t c) ∧
    ((∃ err, convertTable t = .error err) ↔ ∃ e ∈ t, ∃ err, convertVals e.nb1 e.nb2 = .error err) :=
  ⟨fun c h => convertTable_ok t c h, convertTable_error_iff t⟩

example : convertTable [⟨"A", "A", .self, .exact 1, .exact 64⟩, ⟨"A", "B", .generated, .exact 2, .root 2 16⟩]
    = .ok [⟨"A", "A", .self, .root 6 64, .exact (1 / 256)⟩, ⟨"A", "B", .generated, .root 12 4, .root 2 (1 / 16)⟩] := by
  norm_num [convertTable, convertVals, convertEntry, rootVal, Except.map]

/-! ### combination rules: which function, symmetry, self combination -/

/-- The TRANSLATED `comb_funcs` dict of `gen_pairs`: its keys are distinct (a dict literal) and every value
names a combination-rule function the model mirrors — so `preprocessV` never stops with
`unmodelled-comb-function` for a rule of the table. -/
theorem C09_comb_table :
    (Tables.Top.combFuncs.map (·.1)).Nodup ∧
    Tables.Top.combFuncs.all (fun e => (combFnByName e.2).isSome) = true ∧
    ∀ e ∈ Tables.Top.combFuncs, ∃ f, combFnFor Tables.Top.combFuncs (e.1 : Rat) = .ok f ∧ combFnByName e.2 = some f :=
  ⟨by decide, by decide, combFnFor_of_mem _ (by decide) (by decide)⟩

example : combFnFor Tables.Top.combFuncs 2 = .ok .geometric := by
  norm_num (config := { decide := true }) [combFnFor, Tables.Top.combFuncs, combFnByName]

/-- Generated pair values are symmetric in the pair, for both combination rules: whichever of the two atom
types comes first in `[ atomtypes ]`, the generated entry carries the same values. -/
theorem C09_comb_symmetric (f : CombFn) (x y : AtomType) : combValues f x y = combValues f y x :=
  combValues_comm f x y

example : combValues .lorentzBerthelot ⟨"A", 1, 4, none⟩ ⟨"B", 3, 9, none⟩ = (.exact 2, .root 2 36) := by
  norm_num [combValues, CombFn.apply, lorentzBerthelot, rootVal]

/-- Combining an atom type with itself reproduces its own values (non-negative parameters): the generated
values for `(A, A)` stand for `A`'s `nb1`, `nb2` — the "self terms come from the atom types" clause agrees with
what the combination rule would generate. -/
theorem C09_comb_self (f : CombFn) (x : AtomType) (h1 : 0 ≤ x.nb1) (h2 : 0 ≤ x.nb2) :
    Denotes (combValues f x x).1 x.nb1 ∧ Denotes (combValues f x x).2 x.nb2 ∧
    WellFormed (combValues f x x).1 ∧ WellFormed (combValues f x x).2 := by
  have h1r : (0 : ℝ) ≤ (x.nb1 : ℝ) := by exact_mod_cast h1
  have h2r : (0 : ℝ) ≤ (x.nb2 : ℝ) := by exact_mod_cast h2
  have m1 : ¬ x.nb1 * x.nb1 < 0 := not_lt.mpr (mul_self_nonneg _)
  have m2 : ¬ x.nb2 * x.nb2 < 0 := not_lt.mpr (mul_self_nonneg _)
  cases f
  · simp only [combValues, CombFn.apply, lorentzBerthelot, rootVal, m2, if_false, Denotes, WellFormed]
    refine ⟨by push_cast; ring, ⟨h2r, by push_cast; ring⟩, trivial, by decide, mul_self_nonneg _⟩
  · simp only [combValues, CombFn.apply, geometric, rootVal, m1, m2, if_false, Denotes, WellFormed]
    exact ⟨⟨h1r, by push_cast; ring⟩, ⟨h2r, by push_cast; ring⟩, ⟨by decide, mul_self_nonneg _⟩, by decide, mul_self_nonneg _⟩

example : combValues .geometric ⟨"A", 4, 9, none⟩ ⟨"A", 4, 9, none⟩ = (.root 2 16, .root 2 81) ∧
    Denotes (.root 2 16) 4 ∧ Denotes (.root 2 81) 9 := by
  refine ⟨by norm_num [combValues, CombFn.apply, geometric, rootVal], by norm_num [Denotes], by norm_num [Denotes]⟩

/-- The pair table WITH values (`genPairsV`, what the driver returns): (i) forgetting the generated values
gives exactly the provenance table of `C09_pairs`; (ii) it is symmetric in the pair; (iii) an explicit entry is
returned unchanged, values included; (iv) with `gen-pairs = yes` a pair of different atom types that is not
given explicitly carries the values of the combination rule applied to the two atom types (in either order). -/
theorem C09_pairs_values (f : CombFn) (yes : Bool) (ats : List AtomType) (expl : List NbV) :
    ((genPairsV f yes ats expl).map NbV.erase = genPairs yes ats (expl.map NbV.erase)) ∧
    (∀ a b, nbLookupV (genPairsV f yes ats expl) a b = nbLookupV (genPairsV f yes ats expl) b a) ∧
    (∀ a b e, nbLookupV expl a b = some e → nbLookupV (genPairsV f yes ats expl) a b = some e) ∧
    (yes = true → (ats.map (·.name)).Nodup → ∀ x ∈ ats, ∀ y ∈ ats, x.name ≠ y.name →
        nbLookupV expl x.name y.name = none →
        ∃ e, nbLookupV (genPairsV f yes ats expl) x.name y.name = some e ∧ e.src = .generated ∧
          (e.nb1, e.nb2) = combValues f x y ∧ (e.nb1, e.nb2) = combValues f y x) := by
  refine ⟨genPairsV_erase f yes ats expl, fun a b => nbLookupV_comm _ a b, ?_, ?_⟩
  · intro a b e h
    rw [genPairsV_lookup, h]
  · intro hy hn x hx y hyy hne hnone
    subst hy
    obtain ⟨e, he, hs, hv⟩ := genPairsV_generated f ats expl hn x y hx hyy hne hnone
    exact ⟨e, he, hs, hv, by rw [hv, combValues_comm]⟩

example :
    let ats : List AtomType := [⟨"A", 1, 4, none⟩, ⟨"B", 3, 9, none⟩]
    nbLookupV (genPairsV .lorentzBerthelot true ats []) "B" "A" = some ⟨"A", "B", .generated, .exact 2, .root 2 36⟩ := by
  norm_num (config := { decide := true }) [genPairsV, genCrossV, genSelfV, combs2, combValues, CombFn.apply, lorentzBerthelot, rootVal, addIfAbsentV,
    nbLookupV, samePair]

/-- `preprocessV` (interactions AND numbers) refines `preprocess`: same interactions, the valued pair table
erases to the provenance table (explicit entries carry their two numbers), the final table is the pair table,
converted exactly when `comb-rule == 1`. -/
theorem C09_preprocessV_refines (cf : List (Nat × String)) (tp : Topo) (rv : ResultV)
    (hexpl : ∀ e ∈ tp.nonbond, e.src ≠ .generated ∧ e.vals.isSome = true)
    (h : preprocessV patterns cf tp = .ok rv) :
    preprocess patterns cf tp = .ok rv.base ∧ rv.pairs.map NbV.erase = rv.base.nonbond ∧
    (rv.base.converted = true → convertTable rv.pairs = .ok rv.final) ∧
    (rv.base.converted = false → rv.final = rv.pairs) := by
  unfold preprocessV at h
  cases hp : preprocess patterns cf tp with
  | error e => simp [hp] at h
  | ok r =>
    obtain ⟨hnb, rule, hrule, _⟩ := preprocess_nonbond patterns cf tp r hp
    simp only [hp, hrule] at h
    cases hf : combFnFor cf rule with
    | error e => simp [hf] at h
    | ok f =>
      simp only [hf] at h
      have herase : (genPairsV f tp.genPairsYes tp.atomTypes (tp.nonbond.filterMap NbV.ofEntry?)).map NbV.erase
          = r.nonbond := by
        rw [genPairsV_erase, filterMap_ofEntry_erase _ hexpl, hnb]
      cases hcv : r.converted with
      | false =>
        simp only [hcv, Bool.false_eq_true, if_false] at h
        injection h with h
        subst h
        exact ⟨rfl, herase, by simp [hcv], fun _ => rfl⟩
      | true =>
        simp only [hcv, if_true] at h
        cases hc : convertTable (genPairsV f tp.genPairsYes tp.atomTypes (tp.nonbond.filterMap NbV.ofEntry?)) with
        | error e => simp [hc] at h
        | ok c =>
          simp only [hc] at h
          injection h with h
          subst h
          exact ⟨rfl, herase, fun _ => hc, by simp [hcv]⟩

example :
    let tp : Topo := { combRule := some 1, genPairsYes := true, defines := [],
                       atomTypes := [⟨"A", 1, 64, none⟩, ⟨"B", 3, 4, none⟩], nonbond := [], types := [],
                       blocks := [], molecules := [] }
    (match preprocessV patterns Tables.Top.combFuncs tp with
     | .ok rv => rv.final
     | .error _ => []) = [⟨"A", "B", .generated, .root 12 64, .root 2 (1 / 256)⟩,
                          ⟨"A", "A", .self, .root 6 64, .exact (1 / 256)⟩,
                          ⟨"B", "B", .self, .root 6 (4 / 3), .exact (9 / 16)⟩] := by
  norm_num (config := { decide := true }) [preprocessV, preprocess, Tables.Top.combFuncs, mapBlocksM, genPairs, genCross, genSelf, combinations2,
    addIfAbsent, nbLookup, samePair, combFnFor, combFnByName, NbV.ofEntry?, genPairsV, genCrossV, genSelfV, combs2,
    combValues, CombFn.apply, lorentzBerthelot, rootVal, addIfAbsentV, nbLookupV, convertTable, convertVals,
    convertEntry, Except.map]

end PolyplyVerif.C09
