/-
C17 — failed placements are rolled back completely; accepted ones never move.

"For every pattern of placement successes and failures, when the random walk rewinds or a molecule
attempt is abandoned every residue placed in the discarded part is removed from the system before
building continues, and residues are only ever grown from an already positioned neighbour. Positions of
previously accepted molecules are never changed, and when building ends successfully every residue of
every built molecule has exactly one position."

Property theorems only; all of them quantify over EVERY schedule `sched : List Bool` of trial outcomes
(every reachable state is `run cfg mols sched (init mols)`), every rewind depth and `maxiter` (`cfg`),
every system `mols` whose built molecules are well formed (`AllWF`: the path is the edge list of a
spanning tree listed parents first — proved for `treeEdges` of every growth sequence in
`C17_tree_edges` — and a residue is built iff it has no supplied position, which is what
`add_positions_from_file` establishes, see C04_consume).  Helper lemmas: Proofs/Walk.lean.
The model (`Model/Walk.lean`) is tied to /repo by the scripted-schedule correspondence of harness/c17.py.
`BuildSystem.maxiter` (the give-up branch of `_handle_random_walk`) is modelled separately (`Walk.stepG`, with
the local `step_count` and the log of return values) and proved to project onto the same machine for every
`maxiter` (`C17_giveup_is_retry`, `C17_giveup_never_skips`, `C17_giveup_complete`; lemmas in
Proofs/WalkGiveup.lean; stream `handle-returns`).
-/
import PolyplyVerif.Model.Walk
import PolyplyVerif.Proofs.Walk
import PolyplyVerif.Proofs.WalkGiveup

namespace PolyplyVerif.C17
open PolyplyVerif PolyplyVerif.Walk

/-- **Rollback.**  At every reachable state: while the walk of molecule `i` is at a trial,
`placed_nodes` is exactly the list of built residues of the path entries before the current step (so
after a rewind it no longer contains the discarded suffix), the positioned residues of the molecule are
exactly supplied ∪ {first} ∪ placed, and every built residue of a path entry at or after the current
step — in particular every residue of a discarded suffix — is unpositioned.  At the start of an
attempt (also after an abandoned attempt) the molecule holds exactly its supplied positions.  The run
never reaches the state in which the real code would spin without a trial. -/
theorem C17_rollback (cfg : Cfg) (mols : List Mol) (wfs : AllWF mols) (sched : List Bool) :
    let s := run cfg mols sched (init mols)
    match s.phase with
    | .walk w => ∃ i rest m, s.todo = i :: rest ∧ mols[i]? = some m ∧
        (∀ k n, (k, n) ∈ w.placed ↔ k < w.step ∧ (∃ p, m.path[k]? = some (p, n)) ∧ m.isBuild n = true) ∧
        (∀ n, (s.eng i n).isSome = true ↔ (m.sup n).isSome = true ∨ n = m.first ∨ ∃ k, (k, n) ∈ w.placed) ∧
        (∀ k p n, w.step ≤ k → m.path[k]? = some (p, n) → m.isBuild n = true → s.eng i n = none)
    | .start => ∃ i rest m, s.todo = i :: rest ∧ mols[i]? = some m ∧ ∀ n, s.eng i n = m.sup n
    | .done => s.todo = []
    | .stuck => False :=
  Proofs.Walk.rollback cfg mols wfs sched

/-- **Parent first, on a free residue.**  Whenever the run asks for a trial `(i, parent, c)`: `c` is a
built residue that has no position at that moment (so `add_positions` is never issued for a positioned
residue), and for a walk trial `(parent, c)` is an edge of the search tree whose parent is positioned
at that moment; the start trial is for the first residue of the molecule. -/
theorem C17_parent_first (cfg : Cfg) (mols : List Mol) (wfs : AllWF mols) (sched : List Bool)
    (i : Nat) (parent : Option Node) (c : Node)
    (h : (run cfg mols sched (init mols)).trial mols = some (i, parent, c)) :
    ∃ m, mols[i]? = some m ∧ m.ignored = false ∧ m.isBuild c = true ∧
      (run cfg mols sched (init mols)).eng i c = none ∧
      (∀ p, parent = some p → (p, c) ∈ m.path ∧ ((run cfg mols sched (init mols)).eng i p).isSome = true) ∧
      (parent = none → c = m.first) :=
  Proofs.Walk.parent_first cfg mols wfs sched i parent c h

/-- **The flag hypothesis is needed** (excluded point `build ∧ supplied`, reachable with `-c` together
with `-mc`, see `C04_combined_counterexample` and KNOWN-FINDING `combined-c-and-mc`): for the chain
0-1-2 with residue 0 supplied and residue 1 flagged `build` although it carries a position, the very
first trial of the run is issued for a residue that is positioned — the conclusion `eng i c = none` of
`C17_parent_first` fails, the real engine then double-counts the residue (C16) and crashes on the next
rewind or retry. -/
theorem C17_parent_first_needs_flags :
    ∃ mols : List Mol, ¬ AllWF mols ∧ ∃ i p c, (init mols).trial mols = some (i, p, c) ∧
      (init mols).eng i c ≠ none := by
  refine ⟨[⟨[0, 1, 2], [(0, 1), (1, 2)], 0, [1, 2], [(0, 900), (1, 901)], false⟩], ?_, 0, some 0, 1, by decide, by decide⟩
  intro h
  have hw := h 0 (by decide) _ rfl
  have := hw.buildNoPos 1 (by decide)
  revert this
  decide

/-- **Others fixed.**  From ANY state on (no hypothesis on the input), a molecule that is not, or no
longer, in the list of molecules to build keeps every position it has, whatever the rest of the
schedule is — completed molecules, fully supplied molecules and ignored molecules alike. -/
theorem C17_others_fixed (cfg : Cfg) (mols : List Mol) (s : Sys) (sched : List Bool) (j : Nat)
    (hj : j ∉ s.todo) (n : Node) : (run cfg mols sched s).eng j n = s.eng j n :=
  run_frame cfg mols sched s j hj n

/-- one trial changes no molecule but the one under construction -/
theorem C17_step_frame (cfg : Cfg) (mols : List Mol) (s : Sys) (b : Bool) (j : Nat)
    (hj : s.todo.head? ≠ some j) (n : Node) : (step cfg mols s b).eng j n = s.eng j n :=
  (step_frame cfg mols s b).1 j hj n

/-- **Complete.**  If the run ends (`_compose_system` leaves its loop) every residue of every molecule
that is not ignored has a position. (The engine is a map, so it is exactly one; that `add_positions` is
only issued for a residue without position is part of `C17_parent_first`.) -/
theorem C17_complete (cfg : Cfg) (mols : List Mol) (wfs : AllWF mols) (sched : List Bool)
    (hdone : (run cfg mols sched (init mols)).phase = .done) (j : Nat) (m : Mol)
    (hm : mols[j]? = some m) (hig : m.ignored = false) (n : Node) (hn : n ∈ m.nodes) :
    ((run cfg mols sched (init mols)).eng j n).isSome = true :=
  Proofs.Walk.complete cfg mols wfs sched hdone j m hm hig n hn

/-! ### `BuildSystem.maxiter`: what happens after `maxiter` failed attempts -/

/-- **A give-up is a retry.**  `Walk.stepG` spells out the two branches of
`if step_count == self.maxiter` in `_handle_random_walk` (give up: remove the built residues through
`processor.nonbond_matrix`, return `False`, `_compose_system` does not advance and calls again with
`step_count = 0`; otherwise: `step_count += 1`, remove through `self.nonbond_matrix`, next round).  For
EVERY value of `BuildSystem.maxiter`, every schedule and every system the engine, the work list, the walk
state and the position counter are those of the machine `Walk.run` — so `C17_rollback`,
`C17_parent_first`, `C17_others_fixed` and `C17_complete` hold verbatim with the give-up branch: an
abandoned call leaves exactly the supplied positions of the molecule, and the molecule is attempted again,
never skipped and never left half placed. -/
theorem C17_giveup_is_retry (cfg : Cfg) (bsMaxiter : Nat) (mols : List Mol) (sched : List Bool) :
    (runG cfg bsMaxiter mols sched (initG mols)).sys = run cfg mols sched (init mols) :=
  Proofs.WalkGiveup.runG_sys cfg bsMaxiter mols sched (initG mols)

/-- **No molecule is dropped by a give-up.**  At every reachable state, the molecules for which
`_handle_random_walk` has returned `True` (in order) followed by the molecules still to be built are the
work list of `_compose_system`: `True` is returned exactly once per finished molecule and a `False`
removes nothing from the list; the local `step_count` never exceeds `maxiter`, so the equality test of the
give-up branch cannot be jumped over. -/
theorem C17_giveup_never_skips (cfg : Cfg) (bsMaxiter : Nat) (mols : List Mol) (sched : List Bool) :
    let g := runG cfg bsMaxiter mols sched (initG mols)
    g.completed ++ g.sys.todo = work mols ∧ g.stepCount ≤ bsMaxiter :=
  let h := Proofs.WalkGiveup.ginv_run (cfg := cfg) sched (initG mols) (Proofs.WalkGiveup.ginv_init bsMaxiter mols)
  ⟨h.split, h.bound⟩

/-- **… so a finished build has placed every molecule, whatever `maxiter` is**: if `_compose_system`
leaves its loop, `True` was returned for every molecule of the work list and every residue of every
molecule that is not ignored has a position. -/
theorem C17_giveup_complete (cfg : Cfg) (bsMaxiter : Nat) (mols : List Mol) (wfs : AllWF mols) (sched : List Bool)
    (hdone : (runG cfg bsMaxiter mols sched (initG mols)).sys.phase = .done) :
    (runG cfg bsMaxiter mols sched (initG mols)).completed = work mols ∧
    ∀ (j : Nat) (m : Mol), mols[j]? = some m → m.ignored = false → ∀ n ∈ m.nodes,
      ((runG cfg bsMaxiter mols sched (initG mols)).sys.eng j n).isSome = true := by
  have hs := C17_giveup_is_retry cfg bsMaxiter mols sched
  have hinv := C17_giveup_never_skips cfg bsMaxiter mols sched
  rw [hs] at hdone
  have hr := C17_rollback cfg mols wfs sched
  simp only [hdone] at hr
  constructor
  · have h1 := hinv.1
    rw [hs, hr, List.append_nil] at h1
    exact h1
  · intro j m hm hig n hn
    rw [hs]
    exact C17_complete cfg mols wfs sched hdone j m hm hig n hn

/-- **The search-tree edge list is a tree listed parents first**, for every growth sequence (what
`bfs_edges`/`dfs_edges` yield): `list(T.edges)` of `T = DiGraph(); T.add_node(root);
T.add_edges_from(es)` has distinct children, never the root as a child, and the parent of every edge is
the root or the child of an earlier edge of the list. -/
theorem C17_tree_edges (root : Node) (es : List Edge) (h : TreeGrowth root es) :
    TreePath root (treeEdges root es) :=
  Proofs.Walk.treePath_of_growth root es h

/-- **… and the model's search tree is one, for every residue graph** (connected or not, any adjacency
order, any root, BFS or DFS): `bfsEdges`/`dfsEdges` yield a growth sequence, so
`searchPath = list(search_tree.edges)` satisfies the tree hypothesis of `Mol.WF` unconditionally. -/
theorem C17_search_tree (adj : List (Node × List Node)) (root : Node) (dfs : Bool) :
    TreePath root (searchPath adj root dfs) :=
  Proofs.Walk.searchPath_treePath adj root dfs

example : searchPath [(1, [2]), (2, [1, 3]), (3, [2, 4]), (4, [3, 5]), (5, [4])] 3 true =
    [(3, 2), (3, 4), (2, 1), (4, 5)] := by decide

/-- the executable well-formedness test used by the driver is sound -/
theorem C17_wf_check (m : Mol) (h : m.wfCheck = true) : m.WF := Proofs.Walk.wfCheck_sound m h

/-! ### non-vacuity: a concrete system with a supplied residue, a ring, a rewind and a failed attempt -/

/-- chain 0-1-2-3 rooted at 1 (edges in `list(search_tree.edges)` order), residue 1 supplied -/
def exMolA : Mol := ⟨[0, 1, 2, 3], [(1, 0), (1, 2), (2, 3)], 1, [0, 2, 3], [(1, 900)], false⟩
/-- three residues, nothing supplied -/
def exMolB : Mol := ⟨[5, 6, 7], [(5, 6), (5, 7)], 5, [5, 6, 7], [], false⟩
/-- an ignored molecule -/
def exMolI : Mol := ⟨[0, 1], [(0, 1)], 0, [], [(0, 901), (1, 902)], true⟩
def exMols : List Mol := [exMolA, exMolI, exMolB]
def exCfg : Cfg := ⟨2, 80⟩

theorem exWF : AllWF exMols := by
  intro j hj m hm
  have hw : work exMols = [0, 2] := by decide
  rw [hw] at hj
  simp at hj
  rcases hj with rfl | rfl
  · simp [exMols] at hm; subst hm; exact C17_wf_check _ (by decide)
  · simp [exMols] at hm; subst hm; exact C17_wf_check _ (by decide)

/-- the hypotheses of `C17_rollback`/`C17_parent_first` are met by a run that rewinds … -/
example : ((run exCfg exMols [true, true, false] (init exMols)).trial exMols) = some (0, some 1, 2) := by decide
example : (run exCfg exMols [true, true, false] (init exMols)).phase = .walk ⟨1, 2, [(0, 0)]⟩ := by decide
/-- … abandons an attempt (failure with fewer than `nrewind + 1` placed residues) … -/
example : (run exCfg exMols [false] (init exMols)).phase = .walk ⟨0, 0, []⟩ := by decide
/-- … and ends, so that `C17_complete` applies -/
example : (run exCfg exMols [true, true, false, true, true, true, true, true] (init exMols)).phase = .done := by decide
example : TreeGrowth 3 [(3, 2), (2, 1), (3, 4), (4, 5)] ∧
    treeEdges 3 [(3, 2), (2, 1), (3, 4), (4, 5)] = [(3, 2), (3, 4), (2, 1), (4, 5)] := by
  refine ⟨?_, by decide⟩
  exact Proofs.Walk.treeGrowth_of_check 3 _ (by decide)
/-- `C17_others_fixed`: molecule 0 is complete after three trials and `todo = [2]` -/
example : 0 ∉ (run exCfg exMols [true, true, true] (init exMols)).todo := by decide
/-- the give-up machine on the same system: `maxiter = 1`, two failed attempts of molecule 0 (give-up,
`False`), success, then two failed attempts of molecule 2 … -/
example : (runG exCfg 1 exMols [false, false, true, false, true, true, true, false, false, false] (initG exMols)).returns
    = [(0, false), (0, true), (2, false)] ∧
    (runG exCfg 1 exMols [false, false, true, false, true, true, true, false, false, false] (initG exMols)).stepCount = 1 := by
  decide
/-- … and `maxiter = 0` (every failed attempt is a give-up) on a run that ends: `C17_giveup_complete` applies -/
example : (runG exCfg 0 exMols [false, true, true, true, false, true, true, true] (initG exMols)).sys.phase = .done ∧
    (runG exCfg 0 exMols [false, true, true, true, false, true, true, true] (initG exMols)).returns
      = [(0, false), (0, true), (2, false), (2, true)] := by
  decide

end PolyplyVerif.C17
