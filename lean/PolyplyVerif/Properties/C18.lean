/-
C18 — build options select exactly the molecules and residues they name.

  "A build-file [ molecule ] block applies to the molecules with the given name and an index in the stated
   half-open range, and its residue-level directives to the residues with the given name and an id in the
   stated half-open range, leaving all others untouched. -start, -lig and -split specifications select by
   molecule name, molecule index, residue name and residue id as written; splitting partitions the atoms of
   a residue into the named new residues without losing or duplicating any, and ligands are placed one step
   from the residue they are attached to and handed back to their own molecule with the molecule list
   unchanged."

Property theorems only (model: `Model/BuildFile.lean`, lemmas: `Proofs/BuildFile.lean`).  All theorems
quantify over every topology (list of molecules), every build file (list of blocks) and every option.

Partial / known shapes (the model mirrors the code; the counterexamples are proved below):
* `[ rw_restriction ]`: the table is keyed by molecule only and assigned, so of several lines written for one
  molecule only the last survives (`C18_rw_last_line`, `C18_rw_select_partial`,
  `C18_rw_last_line_wins_counterexample`);
* `[ distance_restraints ]` / `[ persistence_length ]` are applied by molecule index whatever the block's
  name (`C18_dist_sound`, `C18_dist_select_partial`, `C18_dist_ignores_name_counterexample`, same for
  persistence batches).
"One step from the host residue" is C05's step lemma; here: the ligand residue holds exactly the position
generated for its attached node.
-/
import PolyplyVerif.Model.BuildFile
import PolyplyVerif.Proofs.BuildFile

namespace PolyplyVerif.C18
open PolyplyVerif.BuildFile PolyplyVerif.Proofs.BuildFile

/-! ### build file: selection -/

/-- Exact form: the `restraints` attribute of EVERY node of EVERY molecule after parsing is the list of the
geometry lines whose block names the molecule (name ∧ lo ≤ i < hi) and whose resname / half-open resid
range selects the node — in file order, nothing more, nothing less (a node no line selects gets `[]`:
untouched). -/
theorem C18_select_exact (mols : List Mol) (blocks : List Block) (dir : Director)
    (h : parseBlocks mols blocks = .ok dir) (i : Nat) (v : ResNode) :
    restraintsOf dir mols i v = specRestraints blocks mols i v :=
  restraints_exact mols blocks dir h i v

/-- Node `v` of molecule `i` receives directive `o` (payload `p`) IFF the molecule's name is the block's,
`lo ≤ i < hi`, `resname v = o.res` and `rlo ≤ resid v < rhi`. -/
theorem C18_select_iff (mols : List Mol) (blocks : List Block) (dir : Director)
    (h : parseBlocks mols blocks = .ok dir) (i : Nat) (v : ResNode) (p : Nat) :
    p ∈ restraintsOf dir mols i v ↔
      ∃ b ∈ blocks, ∃ d : ResDir, Line.geometry d ∈ b.lines ∧ d.payload = p ∧
        (mols[i]?.map (·.name)) = some b.name ∧ b.lo ≤ i ∧ i < b.hi ∧
        v.resname = d.resname ∧ d.rlo ≤ v.resid ∧ v.resid < d.rhi := by
  rw [C18_select_exact mols blocks dir h i v]
  unfold specRestraints
  simp only [List.mem_flatMap]
  constructor
  · rintro ⟨b, hb, hp⟩
    by_cases hs : blockSelects mols b i = true
    · simp only [hs, if_true, List.mem_filterMap] at hp
      obtain ⟨l, hl, hg⟩ := hp
      cases l with
      | geometry d =>
        simp only [geomPayload] at hg
        by_cases hr : inRange d v = true
        · simp only [hr, if_true, Option.some.injEq] at hg
          simp only [blockSelects, Bool.and_eq_true, decide_eq_true_eq] at hs
          simp only [inRange, Bool.and_eq_true, decide_eq_true_eq] at hr
          exact ⟨b, hb, d, hl, hg, hs.1.1, hs.1.2, hs.2, hr.2, hr.1.1, hr.1.2⟩
        · simp [hr] at hg
      | rw d => simp [geomPayload] at hg
      | dist a c q => simp [geomPayload] at hg
      | pers s e q => simp [geomPayload] at hg
    · simp [hs] at hp
  · rintro ⟨b, hb, d, hl, hp, hn, h1, h2, h3, h4, h5⟩
    refine ⟨b, hb, ?_⟩
    have hs : blockSelects mols b i = true := by simp [blockSelects, hn, h1, h2]
    simp only [hs, if_true, List.mem_filterMap]
    exact ⟨.geometry d, hl, by simp [geomPayload, inRange, h3, h4, h5, hp]⟩

/-- non-vacuity (and the boundaries of both half-open ranges): block `A 1 3`, sphere `RA 2 4` -/
example :
    let mols : List Mol := [⟨"A", [⟨0, 2, "RA", none⟩]⟩, ⟨"A", [⟨0, 1, "RA", none⟩, ⟨1, 2, "RA", none⟩, ⟨2, 3, "RB", none⟩, ⟨3, 4, "RA", none⟩]⟩,
                            ⟨"B", [⟨0, 2, "RA", none⟩]⟩, ⟨"A", [⟨0, 3, "RA", none⟩]⟩]
    let blocks : List Block := [⟨"A", 1, 3, [.geometry ⟨"RA", 2, 4, 7⟩]⟩]
    (parseBlocks mols blocks).toOption.map (fun dir => (annotate dir mols).map (·.restraints)) =
      some [[], [], [7], [], [], [], []] := by
  decide

/-! ### build file: `[ rw_restriction ]` (known shape: last line wins) -/

/-- What the code does: of all `[ rw_restriction ]` lines written for molecule `(name, i)` only the last one
is applied. -/
theorem C18_rw_last_line (mols : List Mol) (blocks : List Block) (dir : Director)
    (h : parseBlocks mols blocks = .ok dir) (i : Nat) (v : ResNode) (m : Mol) (hm : mols[i]? = some m) :
    rwOf dir mols i v = tagged ((rwFor blocks m.name i).getLast?).toList v :=
  rw_exact mols blocks dir h i v m hm

/-- The selection rule holds for `rw_options` when at most one `[ rw_restriction ]` line is written for the
molecule.  MISSING for the full statement: with two or more lines the earlier ones are dropped
(`C18_rw_last_line_wins_counterexample`). -/
theorem C18_rw_select_partial (mols : List Mol) (blocks : List Block) (dir : Director)
    (h : parseBlocks mols blocks = .ok dir) (i : Nat) (v : ResNode) (m : Mol) (hm : mols[i]? = some m)
    (hone : (rwFor blocks m.name i).length ≤ 1) :
    rwOf dir mols i v = specRw blocks mols i v := by
  rw [C18_rw_last_line mols blocks dir h i v m hm, specRw_eq mols blocks i v m hm,
    getLast_toList_of_length_le_one _ hone]

example : (rwFor [⟨"A", 0, 2, [.rw ⟨"RA", 1, 3, 1⟩, .geometry ⟨"RA", 1, 2, 2⟩]⟩] "A" 1).length ≤ 1 := by decide

/-- The failing shape: two lines for different residues of one molecule; the first is lost. -/
theorem C18_rw_last_line_wins_counterexample :
    let mols : List Mol := [⟨"A", [⟨0, 1, "RA", none⟩, ⟨1, 3, "RB", none⟩]⟩]
    let blocks : List Block := [⟨"A", 0, 1, [.rw ⟨"RA", 1, 3, 1⟩, .rw ⟨"RB", 3, 5, 2⟩]⟩]
    (parseBlocks mols blocks).toOption.map (fun dir => (annotate dir mols).map (·.rw)) = some [[], [2]] ∧
    (specAnnotate blocks mols).map (·.rw) = [[1], [2]] := by
  decide

/-! ### build file: molecule-level directives (known shape: applied by index whatever the name) -/

/-- Every distance restraint the code applies to molecule `i` was written in a block whose index range
contains `i` (and molecule `i` exists).  The block's NAME is not part of what the code checks. -/
theorem C18_dist_sound (mols : List Mol) (blocks : List Block) (dir : Director)
    (h : parseBlocks mols blocks = .ok dir) (i a c p : Nat) (hin : (i, a, c, p) ∈ distApplied dir) :
    ∃ b ∈ blocks, Line.dist a c p ∈ b.lines ∧ b.lo ≤ i ∧ i < b.hi ∧ i < mols.length := by
  obtain ⟨name, inner, hk, hq⟩ := mem_distApplied dir i a c p hin
  obtain ⟨b, hb, hl, _, h1, h2, h3⟩ := parseBlocks_dist_ok mols blocks dir h (name, i) inner hk (a, c) p hq
  exact ⟨b, hb, hl, h1, h2, h3⟩

/-- When every block is written for molecules that carry its name (the range of a block covers only
molecules of that name), every applied distance restraint is one the specification selects.
MISSING for the full statement: the name check (`C18_dist_ignores_name_counterexample`). -/
theorem C18_dist_select_partial (mols : List Mol) (blocks : List Block) (dir : Director)
    (h : parseBlocks mols blocks = .ok dir)
    (hnames : ∀ b ∈ blocks, ∀ i, b.lo ≤ i → i < b.hi → i < mols.length → blockSelects mols b i = true)
    (i a c p : Nat) (hin : (i, a, c, p) ∈ distApplied dir) : (i, a, c, p) ∈ specDist blocks mols := by
  obtain ⟨b, hb, hl, h1, h2, h3⟩ := C18_dist_sound mols blocks dir h i a c p hin
  unfold specDist
  rw [List.mem_flatMap]
  refine ⟨b, hb, ?_⟩
  rw [List.mem_flatMap]
  refine ⟨.dist a c p, hl, ?_⟩
  simp only [List.mem_map, List.mem_filter]
  exact ⟨i, ⟨(mem_arange _ _ _).mpr ⟨h1, h2⟩, hnames b hb i h1 h2 h3⟩, rfl⟩

/-- The failing shape: a block named `B` over indices 0..2 restrains the molecules 0 and 1 named `A`. -/
theorem C18_dist_ignores_name_counterexample :
    let mols : List Mol := [⟨"A", [⟨0, 1, "RA", none⟩, ⟨1, 2, "RA", none⟩]⟩, ⟨"A", [⟨0, 1, "RA", none⟩, ⟨1, 2, "RA", none⟩]⟩]
    let blocks : List Block := [⟨"B", 0, 2, [.dist 0 1 5, .pers 0 1 6]⟩]
    (parseBlocks mols blocks).toOption.map (fun dir => (distApplied dir, persApplied dir)) =
      some ([(0, 0, 1, 5), (1, 0, 1, 5)], [(6, [0, 1])]) ∧
    specDist blocks mols = [] ∧ specPers blocks mols = [(6, [])] := by
  decide

/-- Persistence batches: exactly one batch per `[ persistence_length ]` line, restraining every index of
the block's range (again whatever the name). -/
theorem C18_pers_exact (mols : List Mol) (blocks : List Block) (dir : Director)
    (h : parseBlocks mols blocks = .ok dir) :
    dir.pers = blocks.flatMap fun b => b.lines.flatMap (persOf b) :=
  parseBlocks_pers mols blocks dir h

/-! ### residue specifications -/

/-- Round trip of the grammar `<mol>#<idx>-<res>#<resid>` with any subset of the four fields omitted:
writing a specification and reading it gives the same fields, for all names free of `#` and `-` and all
numbers. -/
theorem C18_spec_parse (sp : Spec) (h : sp.wellFormed) : parseSpec (renderSpec sp) = .ok sp := by
  unfold parseSpec renderSpec
  rw [String.toList_ofList]
  exact parse_render sp h

example : renderSpec ⟨some "PEO", some 12, none, some 7⟩ = "PEO#12-#7" ∧
    (parseSpec "PEO#12-#7").toOption = some ⟨some "PEO", some 12, none, some 7⟩ ∧
    (parseSpec "-RA").toOption = some ⟨none, none, some "RA", none⟩ ∧ (parseSpec "A#x").toOption = none := by
  decide

/-- decimal numerals are read back -/
theorem C18_spec_numbers (n : Nat) : readNat (showNat n) = some n := readNat_showNat n

/-! ### `-start` -/

/-- `-start` selects the stated node: for every list of specifications in which a molecule index and a
molecule name, when both are written, agree (the index-th molecule carries the name), an accepted list gives
exactly the start dictionary of the specification side — for each molecule, the LAST specification that
addresses it (index as written, name as written) selects the FIRST residue with the residue name / id
written; molecules nobody addresses have no start.
MISSING for the full statement: with an index AND a different name the code silently follows the index
(shape `start-name-index-mismatch-accepted`, example below). -/
theorem C18_start_select_partial (mols : List Mol) (specs : List Spec) (st : List (Option Nat))
    (hcons : ∀ sp ∈ specs, ∀ i n, sp.molIdx = some i → sp.molname = some n → (mols[i]?.map (·.name)) = some n)
    (h : findStart mols specs = .ok st) : st = specStart mols specs :=
  start_exact mols specs st hcons h

example :
    (findStart exampleMols [⟨some "A", none, none, some 2⟩, ⟨none, some 0, some "RA", none⟩]).toOption =
      some [some 0, some 1, none, none, none] ∧
    specStart exampleMols [⟨some "A", none, none, some 2⟩, ⟨none, some 0, some "RA", none⟩] =
      [some 0, some 1, none, none, none] ∧
    -- the excluded shape: `L#0-RA#2` — molecule 0 is an `A`
    (findStart exampleMols [⟨some "L", some 0, some "RA", some 2⟩]).toOption = some [some 1, none, none, none, none] ∧
    specStart exampleMols [⟨some "L", some 0, some "RA", some 2⟩] = [none, none, none, none, none] := by
  decide

/-! ### `-split` -/

/-- No atom is lost and none duplicated: for every molecule, every list of split definitions that is
accepted, the atom lists of the new residues together are a permutation of the atoms of the molecule. -/
theorem C18_split_no_loss_no_dup (atoms : List Atom) (maxResid : Int) (sds : List SplitDef) (r : SplitResult)
    (h : splitResidue atoms maxResid sds = .ok r) :
    (r.residues.flatMap (·.2.2)).Perm (atoms.map (·.key)) :=
  split_perm atoms maxResid sds r h

/-- A split definition is accepted iff no atom name is mentioned twice (a repeated name is rejected). -/
theorem C18_split_rejects_repeated_atom (atoms : List Atom) (sd : SplitDef) :
    (∃ m, interpretMapping atoms sd = .ok m) ↔ (listedNames sd).Nodup :=
  interpret_ok_iff atoms sd

example : (listedNames ⟨"RA", [("NX", ["X", "Y"]), ("NY", ["Z"])]⟩).Nodup ∧
    ¬ (listedNames ⟨"RA", [("NX", ["X", "Y"]), ("NY", ["X"])]⟩).Nodup := by decide

/-- The partition, for one split definition `<resname>:<new1>-<atoms…>:<new2>-<atoms…>` on ANY molecule with
distinct atom keys and resids in `1..maxResid`:
(1) every new residue is named as asked (`askedName`, the old name for atoms the definition does not
    name), all its atoms come from ONE old residue (same old resid) and are either all named or all
    unnamed — so the named new residues and the remainder of unnamed atoms are subsets of the old residue;
(2) atoms of one old residue that are asked to carry the same new name (or are all unnamed) are in one and
    the same new residue — the old residue is cut into exactly the named new residues plus the unnamed rest.
Together with `C18_split_no_loss_no_dup` (every atom in exactly one new residue): a partition. -/
theorem C18_split_partition (atoms : List Atom) (maxResid : Int) (sd : SplitDef) (r : SplitResult)
    (h : splitResidue atoms maxResid [sd] = .ok r) (hkeys : (atoms.map (·.key)).Nodup)
    (hres : ∀ a ∈ atoms, 1 ≤ a.resid ∧ a.resid ≤ maxResid) :
    (∀ res ∈ r.residues, ∀ x ∈ res.2.2, ∃ a ∈ atoms, a.key = x ∧
        res.2.1 = (askedName sd a).getD a.resname ∧
        ∀ y ∈ res.2.2, ∀ b ∈ atoms, b.key = y →
          b.resid = a.resid ∧ (askedName sd b).isSome = (askedName sd a).isSome) ∧
    (∀ a ∈ atoms, ∀ b ∈ atoms, a.resid = b.resid → a.resname = b.resname → askedName sd a = askedName sd b →
        ∃ res ∈ r.residues, a.key ∈ res.2.2 ∧ b.key ∈ res.2.2) := by
  obtain ⟨mapping, hmap, href⟩ := split_refines atoms maxResid [sd] r h hkeys hres
  have hask : ∀ a ∈ atoms, lookup mapping a.key = askedName sd a :=
    fun a ha => single_mapping atoms sd mapping hmap hkeys a ha
  constructor
  · intro res hr x hx
    obtain ⟨a, ha, hax, hname, hrest⟩ := href res hr x hx
    refine ⟨a, ha, hax, ?_, ?_⟩
    · rw [hname, hask a ha]; cases askedName sd a <;> rfl
    · intro y hy b hb hby
      have := hrest y hy b hb hby
      rw [hask a ha, hask b hb] at this
      exact this
  · intro a ha b hb h1 h2 h3
    apply split_groups_together atoms maxResid [sd] r mapping hmap h a b ha hb
    unfold newKey
    rw [hask a ha, hask b hb, h3]
    cases askedName sd b <;> simp [h1, h2]

/-- the partition on a concrete residue (test, by evaluation): `RA:NX-X:NY-Y,Z` on two residues -/
example :
    let atoms : List Atom := [⟨0, 1, "RA", "X"⟩, ⟨1, 1, "RA", "Y"⟩, ⟨2, 1, "RA", "Z"⟩, ⟨3, 1, "RA", "W"⟩,
                              ⟨4, 2, "RA", "X"⟩, ⟨5, 2, "RA", "Y"⟩, ⟨6, 3, "RB", "X"⟩]
    let sd : SplitDef := ⟨"RA", [("NX", ["X"]), ("NY", ["Y", "Z"])]⟩
    (splitResidue atoms 3 [sd]).toOption.map (·.residues) =
      some [(0, "NX", [0]), (1, "NY", [1, 2]), (2, "RA", [3]), (3, "NX", [4]), (4, "NY", [5]), (5, "RB", [6])] ∧
    (splitResidue atoms 3 [sd]).toOption.map (fun r => splitSpecB atoms sd r.residues) = some true := by
  decide

/-! ### `-lig` -/

/-- Attach → build → detach gives the molecule list back exactly (names, node keys, resids, resnames, in
order), for every topology whose nodes carry no `ligated` mark to begin with, every list of ligand
definitions and every position table. -/
theorem C18_ligand_roundtrip_structure {π} (mols : List Mol) (defs : List (Nat × LigDef))
    (mols1 : List Mol) (edges : List (Nat × Nat × Nat)) (h : attachAll mols defs = .ok (mols1, edges))
    (hfresh : ∀ m ∈ mols, ∀ v ∈ m.nodes, v.ligated = none) (pos : PosTable π) :
    (detachAll mols1 pos).1 = mols :=
  detach_structure mols mols1 (attachAll_inv mols defs (mols1, edges) h) hfresh pos

/-- … and each ligand residue holds the position generated for its attached node, the attached nodes are
gone, every other residue keeps the position generated for itself.  Hypotheses: no ligand residue is
itself an attached node (a ligand molecule that is also a host: the real `split_ligands` raises KeyError
there) and no ligand residue has two nodes attached. -/
theorem C18_ligand_roundtrip_positions {π} (mols1 : List Mol) (pos : PosTable π)
    (hsep : ∀ st ∈ ligatedNodes mols1, st.2 ∉ (ligatedNodes mols1).map (·.1))
    (hnd : ((ligatedNodes mols1).map (·.2)).Nodup) :
    (∀ st ∈ ligatedNodes mols1, (lookup pos st.1).isSome = true →
        lookup (detachAll mols1 pos).2 st.2 = lookup pos st.1) ∧
    (∀ k, k ∉ (ligatedNodes mols1).map (·.2) → k ∉ (ligatedNodes mols1).map (·.1) →
        lookup (detachAll mols1 pos).2 k = lookup pos k) ∧
    (∀ k ∈ (ligatedNodes mols1).map (·.1), lookup (detachAll mols1 pos).2 k = none) :=
  detach_positions mols1 pos hsep hnd

/-- The round trip in one statement: after attach → build (any positions) → detach the molecule list equals
the original and each ligand residue holds the position generated for its attached node. -/
theorem C18_ligand_roundtrip {π} (mols : List Mol) (defs : List (Nat × LigDef))
    (mols1 : List Mol) (edges : List (Nat × Nat × Nat)) (h : attachAll mols defs = .ok (mols1, edges))
    (hfresh : ∀ m ∈ mols, ∀ v ∈ m.nodes, v.ligated = none) (pos : PosTable π)
    (hsep : ∀ st ∈ ligatedNodes mols1, st.2 ∉ (ligatedNodes mols1).map (·.1))
    (hnd : ((ligatedNodes mols1).map (·.2)).Nodup) :
    (detachAll mols1 pos).1 = mols ∧
    ∀ st ∈ ligatedNodes mols1, (lookup pos st.1).isSome = true →
      lookup (detachAll mols1 pos).2 st.2 = lookup pos st.1 :=
  ⟨C18_ligand_roundtrip_structure mols defs mols1 edges h hfresh pos,
   (C18_ligand_roundtrip_positions mols1 pos hsep hnd).1⟩

/-- non-vacuity: `A-RA#2 : L` on two hosts and three ligands (fixtures in `Proofs/BuildFile.lean`) -/
example :
    (exampleAttached.map fun r => ligatedNodes r.1) = some [((0, 2), (2, 0)), ((1, 2), (3, 0))] ∧
    (exampleAttached.map fun r => (detachAll r.1 examplePos).1) = some exampleMols ∧
    (exampleAttached.map fun r => (detachAll r.1 examplePos).2) = some [((2, 0), "p"), ((3, 0), "q")] := by
  decide

end PolyplyVerif.C18
