/-
C18 — build options select exactly the molecules and residues they name.

  "A build-file [ molecule ] block applies to the molecules with the given name and an index in the stated
   half-open range, and its residue-level directives to the residues with the given name and an id in the
   stated half-open range, leaving all others untouched. -start, -lig and -split specifications select by
   molecule name, molecule index, residue name and residue id as written; splitting partitions the atoms of
   a residue into the named new residues without losing or duplicating any, and ligands are placed one step
   from the residue they are attached to and handed back to their own molecule with the molecule list
   unchanged."

Property theorems only (model: `Model/BuildFile.lean`, lemmas: `Proofs/BuildFile.lean`).  All theorems
quantify over every topology (list of molecules), every build file (list of blocks) and every option.

Partial / known shapes (the model mirrors the code; the counterexamples are proved below):
* `[ rw_restriction ]`: the table is keyed by molecule only and assigned, so of several lines written for one
  molecule only the last survives (`C18_rw_last_line`, `C18_rw_select_partial`,
  `C18_rw_last_line_wins_counterexample`);
* `[ distance_restraints ]` / `[ persistence_length ]` are applied by molecule index whatever the block's
  name (`C18_dist_sound`, `C18_dist_select_partial`, `C18_dist_ignores_name_counterexample`, same for
  persistence batches).
"One step from the host residue" is C05's step lemma; here: the ligand residue holds exactly the position
generated for its attached node.
-/
import PolyplyVerif.Model.BuildFile
import PolyplyVerif.Proofs.BuildFile
import PolyplyVerif.Generated.ResSpecTables
import PolyplyVerif.Model.BuildFileText
import PolyplyVerif.Proofs.BuildFileText
import PolyplyVerif.Model.BuildFileTextSizes
import PolyplyVerif.Proofs.BuildFileTextSizes

namespace PolyplyVerif.C18
open PolyplyVerif.BuildFile PolyplyVerif.Proofs.BuildFile PolyplyVerif.Proofs.BuildFileText

/-! ### build file: selection -/

/-- Exact form: the `restraints` attribute of EVERY node of EVERY molecule after parsing is the list of the
geometry lines whose block names the molecule (name ∧ lo ≤ i < hi) and whose resname / half-open resid
range selects the node — in file order, nothing more, nothing less (a node no line selects gets `[]`:
untouched). -/
theorem C18_select_exact (mols : List Mol) (blocks : List Block) (dir : Director)
    (h : parseBlocks mols blocks = .ok dir) (i : Nat) (v : ResNode) :
    restraintsOf dir mols i v = specRestraints blocks mols i v :=
  restraints_exact mols blocks dir h i v

/-- Node `v` of molecule `i` receives directive `o` (payload `p`) IFF the molecule's name is the block's,
`lo ≤ i < hi`, `resname v = o.res` and `rlo ≤ resid v < rhi`. -/
theorem C18_select_iff (mols : List Mol) (blocks : List Block) (dir : Director)
    (h : parseBlocks mols blocks = .ok dir) (i : Nat) (v : ResNode) (p : Nat) :
    p ∈ restraintsOf dir mols i v ↔
      ∃ b ∈ blocks, ∃ d : ResDir, Line.geometry d ∈ b.lines ∧ d.payload = p ∧
        (mols[i]?.map (·.name)) = some b.name ∧ b.lo ≤ i ∧ i < b.hi ∧
        v.resname = d.resname ∧ d.rlo ≤ v.resid ∧ v.resid < d.rhi := by
  rw [C18_select_exact mols blocks dir h i v]
  unfold specRestraints
  simp only [List.mem_flatMap]
  constructor
  · rintro ⟨b, hb, hp⟩
    by_cases hs : blockSelects mols b i = true
    · simp only [hs, if_true, List.mem_filterMap] at hp
      obtain ⟨l, hl, hg⟩ := hp
      cases l with
      | geometry d =>
        simp only [geomPayload] at hg
        by_cases hr : inRange d v = true
        · simp only [hr, if_true, Option.some.injEq] at hg
          simp only [blockSelects, Bool.and_eq_true, decide_eq_true_eq] at hs
          simp only [inRange, Bool.and_eq_true, decide_eq_true_eq] at hr
          exact ⟨b, hb, d, hl, hg, hs.1.1, hs.1.2, hs.2, hr.2, hr.1.1, hr.1.2⟩
        · simp [hr] at hg
      | rw d => simp [geomPayload] at hg
      | dist a c q => simp [geomPayload] at hg
      | pers s e q => simp [geomPayload] at hg
    · simp [hs] at hp
  · rintro ⟨b, hb, d, hl, hp, hn, h1, h2, h3, h4, h5⟩
    refine ⟨b, hb, ?_⟩
    have hs : blockSelects mols b i = true := by simp [blockSelects, hn, h1, h2]
    simp only [hs, if_true, List.mem_filterMap]
    exact ⟨.geometry d, hl, by simp [geomPayload, inRange, h3, h4, h5, hp]⟩

/-- non-vacuity (and the boundaries of both half-open ranges): block `A 1 3`, sphere `RA 2 4` -/
example :
    let mols : List Mol := [⟨"A", [⟨0, 2, "RA", none⟩]⟩, ⟨"A", [⟨0, 1, "RA", none⟩, ⟨1, 2, "RA", none⟩, ⟨2, 3, "RB", none⟩, ⟨3, 4, "RA", none⟩]⟩,
                            ⟨"B", [⟨0, 2, "RA", none⟩]⟩, ⟨"A", [⟨0, 3, "RA", none⟩]⟩]
    let blocks : List Block := [⟨"A", 1, 3, [.geometry ⟨"RA", 2, 4, 7⟩]⟩]
    (parseBlocks mols blocks).toOption.map (fun dir => (annotate dir mols).map (·.restraints)) =
      some [[], [], [7], [], [], [], []] := by
  decide

/-! ### build file: `[ rw_restriction ]` (known shape: last line wins) -/

/-- What the code does: of all `[ rw_restriction ]` lines written for molecule `(name, i)` only the last one
is applied. -/
theorem C18_rw_last_line (mols : List Mol) (blocks : List Block) (dir : Director)
    (h : parseBlocks mols blocks = .ok dir) (i : Nat) (v : ResNode) (m : Mol) (hm : mols[i]? = some m) :
    rwOf dir mols i v = tagged ((rwFor blocks m.name i).getLast?).toList v :=
  rw_exact mols blocks dir h i v m hm

/-- The selection rule holds for `rw_options` when at most one `[ rw_restriction ]` line is written for the
molecule.  MISSING for the full statement: with two or more lines the earlier ones are dropped
(`C18_rw_last_line_wins_counterexample`). -/
theorem C18_rw_select_partial (mols : List Mol) (blocks : List Block) (dir : Director)
    (h : parseBlocks mols blocks = .ok dir) (i : Nat) (v : ResNode) (m : Mol) (hm : mols[i]? = some m)
    (hone : (rwFor blocks m.name i).length ≤ 1) :
    rwOf dir mols i v = specRw blocks mols i v := by
  rw [C18_rw_last_line mols blocks dir h i v m hm, specRw_eq mols blocks i v m hm,
    getLast_toList_of_length_le_one _ hone]

example : (rwFor [⟨"A", 0, 2, [.rw ⟨"RA", 1, 3, 1⟩, .geometry ⟨"RA", 1, 2, 2⟩]⟩] "A" 1).length ≤ 1 := by decide

/-- The failing shape: two lines for different residues of one molecule; the first is lost. -/
theorem C18_rw_last_line_wins_counterexample :
    let mols : List Mol := [⟨"A", [⟨0, 1, "RA", none⟩, ⟨1, 3, "RB", none⟩]⟩]
    let blocks : List Block := [⟨"A", 0, 1, [.rw ⟨"RA", 1, 3, 1⟩, .rw ⟨"RB", 3, 5, 2⟩]⟩]
    (parseBlocks mols blocks).toOption.map (fun dir => (annotate dir mols).map (·.rw)) = some [[], [2]] ∧
    (specAnnotate blocks mols).map (·.rw) = [[1], [2]] := by
  decide

/-! ### build file: molecule-level directives (known shape: applied by index whatever the name) -/

/-- Every distance restraint the code applies to molecule `i` was written in a block whose index range
contains `i` (and molecule `i` exists).  The block's NAME is not part of what the code checks. -/
theorem C18_dist_sound (mols : List Mol) (blocks : List Block) (dir : Director)
    (h : parseBlocks mols blocks = .ok dir) (i a c p : Nat) (hin : (i, a, c, p) ∈ distApplied dir) :
    ∃ b ∈ blocks, Line.dist a c p ∈ b.lines ∧ b.lo ≤ i ∧ i < b.hi ∧ i < mols.length := by
  obtain ⟨name, inner, hk, hq⟩ := mem_distApplied dir i a c p hin
  obtain ⟨b, hb, hl, _, h1, h2, h3⟩ := parseBlocks_dist_ok mols blocks dir h (name, i) inner hk (a, c) p hq
  exact ⟨b, hb, hl, h1, h2, h3⟩

/-- When every block is written for molecules that carry its name (the range of a block covers only
molecules of that name), every applied distance restraint is one the specification selects.
MISSING for the full statement: the name check (`C18_dist_ignores_name_counterexample`). -/
theorem C18_dist_select_partial (mols : List Mol) (blocks : List Block) (dir : Director)
    (h : parseBlocks mols blocks = .ok dir)
    (hnames : ∀ b ∈ blocks, ∀ i, b.lo ≤ i → i < b.hi → i < mols.length → blockSelects mols b i = true)
    (i a c p : Nat) (hin : (i, a, c, p) ∈ distApplied dir) : (i, a, c, p) ∈ specDist blocks mols := by
  obtain ⟨b, hb, hl, h1, h2, h3⟩ := C18_dist_sound mols blocks dir h i a c p hin
  unfold specDist
  rw [List.mem_flatMap]
  refine ⟨b, hb, ?_⟩
  rw [List.mem_flatMap]
  refine ⟨.dist a c p, hl, ?_⟩
  simp only [List.mem_map, List.mem_filter]
  exact ⟨i, ⟨(mem_arange _ _ _).mpr ⟨h1, h2⟩, hnames b hb i h1 h2 h3⟩, rfl⟩

/-- The failing shape: a block named `B` over indices 0..2 restrains the molecules 0 and 1 named `A`. -/
theorem C18_dist_ignores_name_counterexample :
    let mols : List Mol := [⟨"A", [⟨0, 1, "RA", none⟩, ⟨1, 2, "RA", none⟩]⟩, ⟨"A", [⟨0, 1, "RA", none⟩, ⟨1, 2, "RA", none⟩]⟩]
    let blocks : List Block := [⟨"B", 0, 2, [.dist 0 1 5, .pers 0 1 6]⟩]
    (parseBlocks mols blocks).toOption.map (fun dir => (distApplied dir, persApplied dir)) =
      some ([(0, 0, 1, 5), (1, 0, 1, 5)], [(6, [0, 1])]) ∧
    specDist blocks mols = [] ∧ specPers blocks mols = [(6, [])] := by
  decide

/-- Persistence batches: exactly one batch per `[ persistence_length ]` line, restraining every index of
the block's range (again whatever the name). -/
theorem C18_pers_exact (mols : List Mol) (blocks : List Block) (dir : Director)
    (h : parseBlocks mols blocks = .ok dir) :
    dir.pers = blocks.flatMap fun b => b.lines.flatMap (persOf b) :=
  parseBlocks_pers mols blocks dir h

/-! ### residue specifications -/

/-- Round trip of the grammar `<mol>#<idx>-<res>#<resid>` with any subset of the four fields omitted:
writing a specification and reading it gives the same fields, for all names free of `#` and `-` and all
numbers. -/
theorem C18_spec_parse (sp : Spec) (h : sp.wellFormed) : parseSpec (renderSpec sp) = .ok sp := by
  unfold parseSpec renderSpec
  rw [String.toList_ofList]
  exact parse_render sp h

example : renderSpec ⟨some "PEO", some 12, none, some 7⟩ = "PEO#12-#7" ∧
    (parseSpec "PEO#12-#7").toOption = some ⟨some "PEO", some 12, none, some 7⟩ ∧
    (parseSpec "-RA").toOption = some ⟨none, none, some "RA", none⟩ ∧ (parseSpec "A#x").toOption = none := by
  decide

/-- decimal numerals are read back -/
theorem C18_spec_numbers (n : Nat) : readNat (showNat n) = some n := readNat_showNat n

/-! ### `-start` -/

/-- `-start` selects the stated node: for every list of specifications in which a molecule index and a
molecule name, when both are written, agree (the index-th molecule carries the name), an accepted list gives
exactly the start dictionary of the specification side — for each molecule, the LAST specification that
addresses it (index as written, name as written) selects the FIRST residue with the residue name / id
written; molecules nobody addresses have no start.
MISSING for the full statement: with an index AND a different name the code silently follows the index
(shape `start-name-index-mismatch-accepted`, example below). -/
theorem C18_start_select_partial (mols : List Mol) (specs : List Spec) (st : List (Option Nat))
    (hcons : ∀ sp ∈ specs, ∀ i n, sp.molIdx = some i → sp.molname = some n → (mols[i]?.map (·.name)) = some n)
    (h : findStart mols specs = .ok st) : st = specStart mols specs :=
  start_exact mols specs st hcons h

example :
    (findStart exampleMols [⟨some "A", none, none, some 2⟩, ⟨none, some 0, some "RA", none⟩]).toOption =
      some [some 0, some 1, none, none, none] ∧
    specStart exampleMols [⟨some "A", none, none, some 2⟩, ⟨none, some 0, some "RA", none⟩] =
      [some 0, some 1, none, none, none] ∧
    -- the excluded shape: `L#0-RA#2` — molecule 0 is an `A`
    (findStart exampleMols [⟨some "L", some 0, some "RA", some 2⟩]).toOption = some [some 1, none, none, none, none] ∧
    specStart exampleMols [⟨some "L", some 0, some "RA", some 2⟩] = [none, none, none, none, none] := by
  decide

/-- `-start` WITHOUT the consistency hypothesis of `C18_start_select_partial` — the exact content of the known
shape `start-name-index-mismatch-accepted`: for every accepted list of specifications each molecule starts at
the first residue matching the LAST specification that reaches it, where a specification that writes an index
reaches exactly that molecule (its name is not looked at) and one without index every molecule of the name. -/
theorem C18_start_follows_index (mols : List Mol) (specs : List Spec) (st : List (Option Nat))
    (h : findStart mols specs = .ok st) : st = codeStart mols specs :=
  start_code_exact mols specs st h

example : codeStart exampleMols [⟨some "L", some 0, some "RA", some 2⟩] = [some 1, none, none, none, none] ∧
    (findStart exampleMols [⟨some "L", some 0, some "RA", some 2⟩]).toOption = some [some 1, none, none, none, none] ∧
    codeStart exampleMols [⟨some "A", none, none, some 2⟩] = [some 1, some 1, none, none, none] := by
  decide

/-- The literals of the option-string grammars in the CURRENT source (translated, `decide`) are the ones the
model writes out: `parse_residue_spec` splits once at `-` (molecule part / residue part) and each part once at
`#`; it returns the four fields; `_find_nodes` compares `resname` and `resid`; `-start` looks at `mol_idx`
and `molname`; `-split` is `<resname>:<new>-<atom>,<atom>`. -/
theorem C18_spec_literals :
    ResSpecTables.specSplits = [('-', 1), ('#', 1), ('#', 1)] ∧
    ResSpecTables.specKeys = ["mol_idx", "molname", "resid", "resname"] ∧
    ResSpecTables.findNodesKeys = ["resname", "resid"] ∧ ResSpecTables.startKeys = ["mol_idx", "molname"] ∧
    ResSpecTables.splitSeparators = [':', '-', ','] := by
  refine ⟨by decide, by decide, by decide, by decide, by decide⟩

/-- the model's reader is the one these literals describe: first `-`, then the first `#` of either part -/
example : (parseSpec "A#x-C#2").toOption = none ∧
    (parseSpec "A#1-C#2").toOption = some ⟨some "A", some 1, some "C", some 2⟩ ∧
    (parseSpec "A#1-C-D#2").toOption = some ⟨some "A", some 1, some "C-D", some 2⟩ := by decide

/-- Exact content of the shape `start-name-index-mismatch-accepted` on a single specification: when a molecule
INDEX is written, the molecule NAME written next to it has no influence on `-start`, whatever the topology
and the start dictionary so far. -/
theorem C18_index_overrides_name (mols : List Mol) (sp : Spec) (i : Nat) (hidx : sp.molIdx = some i)
    (st : List (Option Nat)) : startOne mols st sp = startOne mols st { sp with molname := none } := by
  obtain ⟨mn, mi, rn, ri⟩ := sp
  simp only at hidx
  subst hidx
  have hm : nodeMatches ⟨none, some i, rn, ri⟩ = nodeMatches ⟨mn, some i, rn, ri⟩ := by
    funext v; simp [nodeMatches]
  simp only [startOne, findNodes, hm]

example : (startOne exampleMols [none, none, none, none, none] ⟨some "L", some 0, some "RA", some 2⟩).toOption =
    (startOne exampleMols [none, none, none, none, none] ⟨none, some 0, some "RA", some 2⟩).toOption ∧
    (startOne exampleMols [none, none, none, none, none] ⟨some "L", some 0, some "RA", some 2⟩).toOption =
      some [some 1, none, none, none, none] := by decide

/-! ### `-split` -/

/-- No atom is lost and none duplicated: for every molecule, every list of split definitions that is
accepted, the atom lists of the new residues together are a permutation of the atoms of the molecule. -/
theorem C18_split_no_loss_no_dup (atoms : List Atom) (maxResid : Int) (sds : List SplitDef) (r : SplitResult)
    (h : splitResidue atoms maxResid sds = .ok r) :
    (r.residues.flatMap (·.2.2)).Perm (atoms.map (·.key)) :=
  split_perm atoms maxResid sds r h

/-- A split definition is accepted iff no atom name is mentioned twice (a repeated name is rejected). -/
theorem C18_split_rejects_repeated_atom (atoms : List Atom) (sd : SplitDef) :
    (∃ m, interpretMapping atoms sd = .ok m) ↔ (listedNames sd).Nodup :=
  interpret_ok_iff atoms sd

example : (listedNames ⟨"RA", [("NX", ["X", "Y"]), ("NY", ["Z"])]⟩).Nodup ∧
    ¬ (listedNames ⟨"RA", [("NX", ["X", "Y"]), ("NY", ["X"])]⟩).Nodup := by decide

/-- The partition, for one split definition `<resname>:<new1>-<atoms…>:<new2>-<atoms…>` on ANY molecule with
distinct atom keys and resids in `1..maxResid`:
(1) every new residue is named as asked (`askedName`, the old name for atoms the definition does not
    name), all its atoms come from ONE old residue (same old resid) and are either all named or all
    unnamed — so the named new residues and the remainder of unnamed atoms are subsets of the old residue;
(2) atoms of one old residue that are asked to carry the same new name (or are all unnamed) are in one and
    the same new residue — the old residue is cut into exactly the named new residues plus the unnamed rest.
Together with `C18_split_no_loss_no_dup` (every atom in exactly one new residue): a partition. -/
theorem C18_split_partition (atoms : List Atom) (maxResid : Int) (sd : SplitDef) (r : SplitResult)
    (h : splitResidue atoms maxResid [sd] = .ok r) (hkeys : (atoms.map (·.key)).Nodup)
    (hres : ∀ a ∈ atoms, 1 ≤ a.resid ∧ a.resid ≤ maxResid) :
    (∀ res ∈ r.residues, ∀ x ∈ res.2.2, ∃ a ∈ atoms, a.key = x ∧
        res.2.1 = (askedName sd a).getD a.resname ∧
        ∀ y ∈ res.2.2, ∀ b ∈ atoms, b.key = y →
          b.resid = a.resid ∧ (askedName sd b).isSome = (askedName sd a).isSome) ∧
    (∀ a ∈ atoms, ∀ b ∈ atoms, a.resid = b.resid → a.resname = b.resname → askedName sd a = askedName sd b →
        ∃ res ∈ r.residues, a.key ∈ res.2.2 ∧ b.key ∈ res.2.2) := by
  obtain ⟨mapping, hmap, href⟩ := split_refines atoms maxResid [sd] r h hkeys hres
  have hask : ∀ a ∈ atoms, lookup mapping a.key = askedName sd a :=
    fun a ha => single_mapping atoms sd mapping hmap hkeys a ha
  constructor
  · intro res hr x hx
    obtain ⟨a, ha, hax, hname, hrest⟩ := href res hr x hx
    refine ⟨a, ha, hax, ?_, ?_⟩
    · rw [hname, hask a ha]; cases askedName sd a <;> rfl
    · intro y hy b hb hby
      have := hrest y hy b hb hby
      rw [hask a ha, hask b hb] at this
      exact this
  · intro a ha b hb h1 h2 h3
    apply split_groups_together atoms maxResid [sd] r mapping hmap h a b ha hb
    unfold newKey
    rw [hask a ha, hask b hb, h3]
    cases askedName sd b <;> simp [h1, h2]

/-- the partition on a concrete residue (test, by evaluation): `RA:NX-X:NY-Y,Z` on two residues -/
example :
    let atoms : List Atom := [⟨0, 1, "RA", "X"⟩, ⟨1, 1, "RA", "Y"⟩, ⟨2, 1, "RA", "Z"⟩, ⟨3, 1, "RA", "W"⟩,
                              ⟨4, 2, "RA", "X"⟩, ⟨5, 2, "RA", "Y"⟩, ⟨6, 3, "RB", "X"⟩]
    let sd : SplitDef := ⟨"RA", [("NX", ["X"]), ("NY", ["Y", "Z"])]⟩
    (splitResidue atoms 3 [sd]).toOption.map (·.residues) =
      some [(0, "NX", [0]), (1, "NY", [1, 2]), (2, "RA", [3]), (3, "NX", [4]), (4, "NY", [5]), (5, "RB", [6])] ∧
    (splitResidue atoms 3 [sd]).toOption.map (fun r => splitSpecB atoms sd r.residues) = some true := by
  decide

/-! ### `-lig` -/

/-- Attach → build → detach gives the molecule list back exactly (names, node keys, resids, resnames, in
order), for every topology whose nodes carry no `ligated` mark to begin with, every list of ligand
definitions and every position table. -/
theorem C18_ligand_roundtrip_structure {π} (mols : List Mol) (defs : List (Nat × LigDef))
    (mols1 : List Mol) (edges : List (Nat × Nat × Nat)) (h : attachAll mols defs = .ok (mols1, edges))
    (hfresh : ∀ m ∈ mols, ∀ v ∈ m.nodes, v.ligated = none) (pos : PosTable π) :
    (detachAll mols1 pos).1 = mols :=
  detach_structure mols mols1 (attachAll_inv mols defs (mols1, edges) h) hfresh pos

/-- … and each ligand residue holds the position generated for its attached node, the attached nodes are
gone, every other residue keeps the position generated for itself.  Hypotheses: no ligand residue is
itself an attached node (a ligand molecule that is also a host: the real `split_ligands` raises KeyError
there) and no ligand residue has two nodes attached. -/
theorem C18_ligand_roundtrip_positions {π} (mols1 : List Mol) (pos : PosTable π)
    (hsep : ∀ st ∈ ligatedNodes mols1, st.2 ∉ (ligatedNodes mols1).map (·.1))
    (hnd : ((ligatedNodes mols1).map (·.2)).Nodup) :
    (∀ st ∈ ligatedNodes mols1, (lookup pos st.1).isSome = true →
        lookup (detachAll mols1 pos).2 st.2 = lookup pos st.1) ∧
    (∀ k, k ∉ (ligatedNodes mols1).map (·.2) → k ∉ (ligatedNodes mols1).map (·.1) →
        lookup (detachAll mols1 pos).2 k = lookup pos k) ∧
    (∀ k ∈ (ligatedNodes mols1).map (·.1), lookup (detachAll mols1 pos).2 k = none) :=
  detach_positions mols1 pos hsep hnd

/-- The round trip in one statement: after attach → build (any positions) → detach the molecule list equals
the original and each ligand residue holds the position generated for its attached node. -/
theorem C18_ligand_roundtrip {π} (mols : List Mol) (defs : List (Nat × LigDef))
    (mols1 : List Mol) (edges : List (Nat × Nat × Nat)) (h : attachAll mols defs = .ok (mols1, edges))
    (hfresh : ∀ m ∈ mols, ∀ v ∈ m.nodes, v.ligated = none) (pos : PosTable π)
    (hsep : ∀ st ∈ ligatedNodes mols1, st.2 ∉ (ligatedNodes mols1).map (·.1))
    (hnd : ((ligatedNodes mols1).map (·.2)).Nodup) :
    (detachAll mols1 pos).1 = mols ∧
    ∀ st ∈ ligatedNodes mols1, (lookup pos st.1).isSome = true →
      lookup (detachAll mols1 pos).2 st.2 = lookup pos st.1 :=
  ⟨C18_ligand_roundtrip_structure mols defs mols1 edges h hfresh pos,
   (C18_ligand_roundtrip_positions mols1 pos hsep hnd).1⟩

/-- non-vacuity: `A-RA#2 : L` on two hosts and three ligands (fixtures in `Proofs/BuildFile.lean`) -/
example :
    (exampleAttached.map fun r => ligatedNodes r.1) = some [((0, 2), (2, 0)), ((1, 2), (3, 0))] ∧
    (exampleAttached.map fun r => (detachAll r.1 examplePos).1) = some exampleMols ∧
    (exampleAttached.map fun r => (detachAll r.1 examplePos).2) = some [((2, 0), "p"), ((3, 0), "q")] := by
  decide

/-! ### the build file as TEXT (token level: `Model/BuildFileText.lean`)

The theorems above start from parsed `Line`s.  The ones below close the gap to the text: the section table
and the field order are read from the current source by the translator (`Generated/BuildFileTables.lean`),
every directive the documented grammar writes is read back as exactly the record written, a line yields
exactly one table entry, and the selection theorem holds for files given as text. -/

section text
open PolyplyVerif.BuildFileText PolyplyVerif.Proofs.BuildFileText

/-- The documented sections of a build file and the parser each one is handed to (the decorators of
`BuildDirector`, translated): geometry sections carry their own name as `geom_type`. -/
def documentedSections : SecTable :=
  [(["bending"], "_bending", []), (["molecule"], "_molecule", []),
   (["molecule", "cylinder"], "_parse_geometry", [("geom_type", "cylinder")]),
   (["molecule", "distance_restraints"], "_distance_restraints", []),
   (["molecule", "persistence_length"], "_persistence_length", []),
   (["molecule", "rectangle"], "_parse_geometry", [("geom_type", "rectangle")]),
   (["molecule", "rw_restriction"], "_rw_restriction", []),
   (["molecule", "sphere"], "_parse_geometry", [("geom_type", "sphere")]),
   (["template"], "_template", []), (["template", "atoms"], "_template_atoms", []),
   (["template", "bonds"], "_template_bonds", []), (["volumes"], "_volume", [])]

/-- The literals of the CURRENT source are the documented ones (`decide` on translated tables): the section
table; `;` starts a comment; a template is stored when `[ template ] / [ bonds ]` ends; the node attributes
written are `restraints` (geometry) and `rw_options`; a geometry line is
`<resname> <start> <stop> <in|out> <x> <y> <z> <parameters…>` and its `parameters` entry is
`[in|out, point, parameters…, type]`. -/
theorem C18_text_tables :
    BuildFileTables.sectionParsers = documentedSections ∧ BuildFileTables.commentChar = ';' ∧
    BuildFileTables.templateTrigger = ["template", "bonds"] ∧
    BuildFileTables.tagKeywords = ["restraints", "rw_options"] ∧
    (BuildFileTables.geomResname = 0 ∧ BuildFileTables.geomStart = 1 ∧ BuildFileTables.geomStop = 2 ∧
      BuildFileTables.geomInOut = 3 ∧ BuildFileTables.geomPoint = (4, 5, 6) ∧ BuildFileTables.geomRest = 7) ∧
    BuildFileTables.geomLayout = ["inout", "point", "rest", "type"] := by
  refine ⟨by decide, by decide, by decide, by decide, by decide, by decide⟩

/-- consequences for the section machine, on the translated table: no section is registered twice, every
sub-section's parent is registered, the trigger section is parsed by `_template_bonds`, and every geometry
section hands its own name to the parser -/
theorem C18_text_sections_consistent :
    ((BuildFileTables.sectionParsers.map (·.1)).Nodup) ∧
    (∀ e ∈ BuildFileTables.sectionParsers, e.1.length ≤ 2 ∧
      (e.1.length = 2 → known BuildFileTables.sectionParsers (e.1.take 1) = true)) ∧
    (lookupSection BuildFileTables.sectionParsers BuildFileTables.templateTrigger).map (·.1) = some "_template_bonds" ∧
    (∀ e ∈ BuildFileTables.sectionParsers, e.2.1 = "_parse_geometry" →
      e.1.take 1 = ["molecule"] ∧ e.2.2 = [("geom_type", e.1.getLastD "")]) := by
  refine ⟨by decide, by decide, by decide, by decide⟩

example : enterSection BuildFileTables.sectionParsers ["molecule", "sphere"] "cylinder" = ["molecule", "cylinder"] ∧
    enterSection BuildFileTables.sectionParsers ["molecule", "sphere"] "volumes" = ["volumes"] ∧
    enterSection BuildFileTables.sectionParsers ["template", "bonds"] "atoms" = ["template", "atoms"] ∧
    -- a geometry section outside `[ molecule ]` is not registered: its data lines are rejected
    enterSection BuildFileTables.sectionParsers ["volumes"] "sphere" = ["sphere"] ∧
    known BuildFileTables.sectionParsers ["sphere"] = false := by decide

/-- `parse_header`, for every table and every current section: the new section is the LONGEST prefix of the
current one under which the header is registered, followed by the header — the header alone when there is
no such prefix. -/
theorem C18_text_header (tbl : SecTable) (cur : List String) (h : String) :
    ∃ n, n ≤ cur.length ∧ enterSection tbl cur h = cur.take n ++ [h] ∧
      (0 < n → known tbl (cur.take n ++ [h]) = true) ∧
      ∀ m, n < m → m ≤ cur.length → known tbl (cur.take m ++ [h]) = false := by
  obtain ⟨k, hk1, hk2, hk3, hk4⟩ := resolveRev_spec tbl h cur.reverse
  have hlen : cur.reverse.length = cur.length := List.length_reverse
  have hdrop : ∀ j, (cur.reverse.drop j).reverse = cur.take (cur.length - j) := by
    intro j; rw [List.drop_reverse, List.reverse_reverse]
  refine ⟨cur.length - k, by omega, ?_, ?_, ?_⟩
  · unfold enterSection; rw [hk2, hdrop]
  · intro hpos; rw [← hdrop]; exact hk3 (by omega)
  · intro m hm1 hm2
    have := hk4 (cur.length - m) (by omega)
    rw [hdrop] at this
    have he : cur.length - (cur.length - m) = m := by omega
    rwa [he] at this

/-- Numerals: `int()` and `float()` read back every integer and every decimal literal
`[-]digits[.digits*]` as the exact value written. -/
theorem C18_text_numbers (z : Int) (d : Dec) (hd : d.wf) :
    readInt (showInt z) = some z ∧ readFloat (showDec d) = some d.val :=
  ⟨readInt_showInt z, readFloat_showDec d hd⟩

example : showDec ⟨true, 12, some [0, 5]⟩ = "-12.05".toList ∧ (⟨true, 12, some [0, 5]⟩ : Dec).val = -241 / 20 ∧
    readFloat "5.".toList = some 5 ∧ readFloat ".5".toList = some (1 / 2) ∧ readFloat "+3".toList = some 3 ∧
    readInt "3.0".toList = none ∧ readFloat "1.2.3".toList = none ∧ readFloat ".".toList = none ∧
    readInt "-07".toList = some (-7) := by
  decide +kernel

/-- `line.split()` gives back the tokens that were joined by blanks. -/
theorem C18_text_tokens (toks : List Tok) (h : ∀ t ∈ toks, t ≠ [] ∧ ∀ c ∈ t, isSep c = false) :
    splitWs (joinToks toks) = toks :=
  splitWs_join toks h

example : splitWs " RA\t1  3 in ".toList = ["RA".toList, "1".toList, "3".toList, "in".toList] := by decide

/-- `parse (render d) = d` for EVERY directive: the parser registered for a record's section, applied to
the tokens the documented line format writes, yields exactly the record written (all names, all numbers,
any number of free parameters / coordinates, tolerance column present or absent). -/
theorem C18_text_parse_render (s : Syn) (h : s.wf) : parseBy s.method.1 s.method.2 s.tokens = .ok s.sem :=
  parse_tokens s h

example :
    let s : Syn := .geometry "cylinder" "RA".toList ⟨false, 1, none⟩ ⟨false, 4, some [0]⟩ "in".toList
      ⟨false, 1, some [5]⟩ ⟨true, 2, none⟩ ⟨false, 0, some [2, 5]⟩ [⟨false, 3, none⟩, ⟨false, 0, some [5]⟩]
    s.wf ∧ s.tokens.map String.ofList = ["RA", "1", "4.0", "in", "1.5", "-2", "0.25", "3", "0.5"] ∧
    s.sem = .geometry ⟨"RA", 1, 4, "in", (3 / 2, -2, 1 / 4), [3, 1 / 2], "cylinder"⟩ := by
  refine ⟨by decide, by decide, by decide +kernel⟩

/-- the tolerance column of `[ distance_restraints ]` is read iff the line has exactly four columns -/
example : (parseDist ["0".toList, "3".toList, "2.5".toList, "0.5".toList]).toOption = some (.dist ⟨0, 3, 5 / 2, 1 / 2⟩) ∧
    (parseDist ["0".toList, "3".toList, "2.5".toList, "0.5".toList, "9".toList]).toOption = some (.dist ⟨0, 3, 5 / 2, 0⟩) ∧
    (parseDist ["0".toList, "3".toList, "2.5".toList]).toOption = some (.dist ⟨0, 3, 5 / 2, 0⟩) ∧
    (parseRw ["RA".toList, "1.0".toList, "3".toList, "1".toList, "0".toList, "0".toList, "30".toList]).toOption = none := by
  decide +kernel

/-- The same at TEXT level: in the section registered for its parser, the line written for a record
(tokens joined by blanks) is read as exactly one event — that record — and nothing else changes.
Hypotheses on the NAMES only (non-empty words without white space, `;`, `$`, not starting with `[`); numerals
are arbitrary integers / decimal literals. -/
theorem C18_text_line (tbl : SecTable) (st : PState) (s : Syn) (hwf : s.wf) (hn : ∀ t ∈ s.names, NameTok t)
    (hsec : lookupSection tbl st.sec = some s.method) :
    stepLine tbl st (joinToks s.tokens) = .ok { st with events := st.events ++ [.data s.sem] } :=
  stepLine_data_names tbl st s hwf hn hsec

example :
    let s : Syn := .geometry "sphere" "RA".toList ⟨false, 2, none⟩ ⟨false, 4, some [0]⟩ "in".toList
      ⟨false, 1, none⟩ ⟨true, 2, some [5]⟩ ⟨false, 3, none⟩ [⟨false, 5, none⟩]
    String.ofList (joinToks s.tokens) = "RA 2 4.0 in 1 -2.5 3 5" ∧ s.wf ∧ (∀ t ∈ s.names, NameTok t) ∧
    lookupSection BuildFileTables.sectionParsers ["molecule", "sphere"] = some s.method := by
  refine ⟨by decide, by decide, ?_, by decide⟩
  intro t ht
  simp only [Syn.names, List.mem_cons, List.not_mem_nil, or_false] at ht
  rcases ht with rfl | rfl <;> exact ⟨⟨by decide, by decide⟩, by intro cs h; simp at h⟩

/-- One entry per line, with the documented fields and nothing else touched — for every block, every
director state and every key `(name, idx)`:
a geometry line appends exactly its own definition to the list of every `(name, idx)` the block addresses; -/
theorem C18_text_geometry_one_entry (mols : List Mol) (b : Block) (dir dir' : Director) (d : ResDir)
    (h : parseLine mols b dir (.geometry d) = .ok dir') (k : MKey) :
    (lookup dir'.buildOptions k).getD [] =
      (lookup dir.buildOptions k).getD [] ++ (if k.1 = b.name ∧ b.lo ≤ k.2 ∧ k.2 < b.hi then [d] else []) ∧
    dir'.rwOptions = dir.rwOptions ∧ dir'.dist = dir.dist ∧ dir'.pers = dir.pers :=
  geometry_one_entry mols b dir dir' d h k

/-- a `[ rw_restriction ]` line ASSIGNS the single slot of every `(name, idx)` the block addresses (this is
the exact content of the known shape `rw-restriction-last-line-wins`: whatever was there is replaced); -/
theorem C18_text_rw_assigns (mols : List Mol) (b : Block) (dir dir' : Director) (d : ResDir)
    (h : parseLine mols b dir (.rw d) = .ok dir') (k : MKey) :
    lookup dir'.rwOptions k = (if k.1 = b.name ∧ b.lo ≤ k.2 ∧ k.2 < b.hi then some d else lookup dir.rwOptions k) ∧
    dir'.buildOptions = dir.buildOptions ∧ dir'.dist = dir.dist ∧ dir'.pers = dir.pers :=
  rw_one_entry mols b dir dir' d h k

/-- a `[ persistence_length ]` line appends exactly one batch carrying the block's whole index list; -/
theorem C18_text_pers_one_entry (mols : List Mol) (b : Block) (dir dir' : Director) (s e p : Nat)
    (h : parseLine mols b dir (.pers s e p) = .ok dir') :
    dir'.pers = dir.pers ++ [(s, e, p, arange b.lo b.hi)] ∧
    dir'.buildOptions = dir.buildOptions ∧ dir'.rwOptions = dir.rwOptions ∧ dir'.dist = dir.dist :=
  pers_one_entry mols b dir dir' s e p h

/-- a `[ distance_restraints ]` line is ACCEPTED iff every index of the block's range is a molecule that
contains both nodes (the node-existence errors), -/
theorem C18_text_dist_ok_iff (mols : List Mol) (b : Block) (dir : Director) (a c p : Nat) :
    (∃ dir', parseLine mols b dir (.dist a c p) = .ok dir') ↔
      ∀ i, b.lo ≤ i → i < b.hi → ∃ m, mols[i]? = some m ∧ hasNode m a = true ∧ hasNode m c = true :=
  dist_line_ok_iff mols b dir a c p

/-- and then stores exactly the entry `(a, b) ↦ line` under every `(name, idx)` the block addresses — an
earlier line for the same pair of nodes of the same molecule is REPLACED, every other entry is kept. -/
theorem C18_text_dist_one_entry (mols : List Mol) (b : Block) (dir dir' : Director) (a c p : Nat)
    (h : parseLine mols b dir (.dist a c p) = .ok dir') (k : MKey) (ab : Nat × Nat) :
    lookup ((lookup dir'.dist k).getD []) ab =
      (if (k.1 = b.name ∧ b.lo ≤ k.2 ∧ k.2 < b.hi) ∧ ab = (a, c) then some p else lookup ((lookup dir.dist k).getD []) ab) ∧
    dir'.buildOptions = dir.buildOptions ∧ dir'.rwOptions = dir.rwOptions ∧ dir'.pers = dir.pers :=
  dist_one_entry mols b dir dir' a c p h k ab

example :
    let mols : List Mol := [⟨"A", [⟨0, 1, "RA", none⟩, ⟨1, 2, "RA", none⟩]⟩, ⟨"A", [⟨0, 1, "RA", none⟩]⟩]
    (parseLine mols ⟨"A", 0, 1, []⟩ {} (.dist 0 1 7)).toOption.map (·.dist) = some [(("A", 0), [((0, 1), 7)])] ∧
    -- molecule 1 has no node 1: the line is rejected when the block reaches it
    (parseLine mols ⟨"A", 0, 2, []⟩ {} (.dist 0 1 7)).toOption = none ∧
    (parseLine mols ⟨"A", 0, 2, []⟩ {} (.geometry ⟨"RA", 1, 3, 5⟩)).toOption.map (·.buildOptions) =
      some [(("A", 0), [⟨"RA", 1, 3, 5⟩]), (("A", 1), [⟨"RA", 1, 3, 5⟩])] := by
  decide

/-- The selection theorem for files given as TEXT: whenever the build file is accepted, the `restraints`
attribute of every node of every molecule is — in file order — the list of the geometry lines whose
`[ molecule ]` block names the molecule and whose residue name / half-open resid range selects the node
(`specRestraints` on the blocks the text denotes; payload = position of the line's record in the file). -/
theorem C18_text_select (mols : List Mol) (lines : List (List Char)) (p : Parsed)
    (h : readBuildFile mols lines = .ok p) (i : Nat) (v : ResNode) :
    restraintsOf p.dir mols i v = specRestraints p.blocks mols i v := by
  have hdir : parseBlocks mols p.blocks = .ok p.dir := by
    unfold readBuildFile readBuildFileWith at h
    obtain ⟨evs, _, h⟩ := bind_ok _ _ _ h
    obtain ⟨templates, _, h⟩ := bind_ok _ _ _ h
    obtain ⟨blocks, _, h⟩ := bind_ok _ _ _ h
    obtain ⟨dir, hd, h⟩ := bind_ok _ _ _ h
    simp only [pure, Except.pure, Except.ok.injEq] at h
    subst h
    exact hd
  exact C18_select_exact mols p.blocks p.dir hdir i v

/-- non-vacuity, from the text to the node: block `A 1 3`, sphere `RA 2 4` (compare the example of
`C18_select_exact`); the in/out token, the point and the type end up in the documented places -/
example :
    let mols : List Mol := [⟨"A", [⟨0, 2, "RA", none⟩]⟩, ⟨"A", [⟨0, 1, "RA", none⟩, ⟨1, 2, "RA", none⟩, ⟨2, 3, "RB", none⟩, ⟨3, 4, "RA", none⟩]⟩,
                            ⟨"B", [⟨0, 2, "RA", none⟩]⟩, ⟨"A", [⟨0, 3, "RA", none⟩]⟩]
    let text := ["; which residues go where", "[ molecule ]", "A 1 3", "[ Sphere ] ; comment", " RA  2 4.0 in 1 2 3 5"].map String.toList
    (readBuildFile mols text).toOption.map (fun p => ((annotate p.dir mols).map (·.restraints), p.blocks.map (·.lines))) =
      some ([[], [], [1], [], [], [], []], [[.geometry ⟨"RA", 2, 4, 1⟩]]) ∧
    (readBuildFile mols text).toOption.bind (fun p => p.geomOf 1) = some ⟨"RA", 2, 4, "in", (1, 2, 3), [5], "sphere"⟩ := by
  decide +kernel

/-- EXACT content of the distance-restraint table (sharpens `C18_dist_sound`): after an accepted build file,
under `(name, idx)` and the node pair `(a, b)` stands the LAST `[ distance_restraints ]` line written for that
pair in a block called `name` whose range contains `idx`; nothing else is stored. -/
theorem C18_dist_last_line (mols : List Mol) (blocks : List Block) (dir : Director)
    (h : parseBlocks mols blocks = .ok dir) (k : MKey) (ab : Nat × Nat) :
    lookup ((lookup dir.dist k).getD []) ab = lastFor (distEvents blocks) k ab :=
  parseBlocks_dist_last mols blocks dir h k ab

/-- … hence the restraints `set_restraints` applies to molecule `i` are exactly the last-written lines of the
blocks whose RANGE contains `i` — under whatever name (the known shape `dist-restraint-by-index-ignores-name`,
as an iff). -/
theorem C18_dist_applied_iff (mols : List Mol) (blocks : List Block) (dir : Director)
    (h : parseBlocks mols blocks = .ok dir) (i a c p : Nat) :
    (i, a, c, p) ∈ distApplied dir ↔ ∃ name, lastFor (distEvents blocks) (name, i) (a, c) = some p :=
  distApplied_iff mols blocks dir h i a c p

example :
    let mols : List Mol := [⟨"A", [⟨0, 1, "RA", none⟩, ⟨1, 2, "RA", none⟩]⟩]
    let blocks : List Block := [⟨"A", 0, 1, [.dist 0 1 5, .dist 1 0 6, .dist 0 1 7]⟩]
    (parseBlocks mols blocks).toOption.map distApplied = some [(0, 0, 1, 7), (0, 1, 0, 6)] ∧
    lastFor (distEvents blocks) ("A", 0) (0, 1) = some 7 ∧ lastFor (distEvents blocks) ("B", 0) (0, 1) = none := by
  decide

/-- `[ volumes ]` at text level: the size stored for a residue name is the value of the LAST line written for
it (user sizes are taken as written). -/
theorem C18_text_volumes_last (evs : List Event) (r : String) :
    lookup (volumesOf evs) r = (((volumeEvents evs).filter (fun e => decide (e.1 = r))).map (·.2)).getLast? :=
  volumesOf_lookup evs r

example : volumesOf [.data (.volume "RA" (1 / 2)), .data (.volume "RB" 1), .data (.volume "RA" (3 / 4))] =
    [("RA", 3 / 4), ("RB", 1)] := by decide +kernel

/-- `[ template ]` at text level: a complete block (`resname <name>`, atom lines, bond lines, end of the
`[ bonds ]` section) stores exactly ONE template with the residue name, the atoms (in order; a repeated
atom name keeps its place and takes the later line — with pairwise different names: exactly the lines
written) and the bonds written. -/
theorem C18_text_template_block (st : TState) (name : String) (atoms : List TAtom) (bonds : List (String × String))
    (hok : templateOk ⟨name, atoms.foldl setAtom [], bonds⟩ = true) :
    (templateBlockEvents name atoms bonds).foldlM templateStep st =
      .ok { cur := none, done := st.done ++ [⟨name, atoms.foldl setAtom [], bonds⟩] } ∧
    ((atoms.map (·.name)).Nodup → atoms.foldl setAtom [] = atoms) :=
  ⟨template_block st name atoms bonds hok, template_block_distinct atoms⟩

example : templateOk ⟨"RQ", [⟨"X", "P", [0, 0, 0]⟩, ⟨"Y", "P", [1 / 2, 0, 0]⟩], [("X", "Y")]⟩ = true := by decide +kernel

/-- What the code does with a template block that never reaches `[ bonds ]` (known finding of C15,
`template-without-bonds-ignored`, stated about the model): whatever lines are read, as long as no
`[ bonds ]` section ends, no template is stored. -/
theorem C18_text_template_needs_bonds (evs : List Event) (st st' : TState) (hne : ∀ e ∈ evs, e ≠ .endTemplate)
    (h : evs.foldlM templateStep st = .ok st') : st'.done = st.done :=
  template_without_bonds_dropped evs st st' hne h

example : (([.data (.templateHead "RQ"), .data (.templateAtom "X" "P" [0, 0, 0])] : List Event).foldlM templateStep {}).toOption.map (·.done) =
    some [] := by decide +kernel

/-- The hand-over to C15's precedence model (`Templ.readBuildFile`): the events it is fed from a build file
given as text are EXACTLY the `[ volumes ]` lines (in order, values as written) and the finished templates
(in order; residue name and positions as written — hash and `compute_volume` are the oracle's), nothing else. -/
theorem C18_text_sizes_ops (oracle : List (String × Rat)) (evs : List Event) (ops : List (Templ.BfOp Rat))
    (ts : List TemplateDef) (h : bfOpsOf oracle evs = .ok ops) (ht : templatesOf evs = .ok ts)
    (hlen : ts.length ≤ oracle.length) :
    ops.filterMap volPart = volumeEvents evs ∧ ops.filterMap tplPart = (ts.zip oracle).map mkTpl :=
  bfOps_exact oracle evs ops ts h ht hlen

example :
    let text := ["[ volumes ]", "RA 0.5", "[ template ]", "resname RQ", "[ atoms ]", "X P 0 0 0", "Y P 0.5 0 0",
                 "[ bonds ]", "X Y", "[ volumes ]", "RQ 2"].map String.toList
    (sizesOfText BuildFileTables.sectionParsers [] [("h1", 5 / 4)] text).toOption.map (·.1) =
      some [("RA", 1 / 2), ("h1", 2), ("RQ", 2)] ∧
    (sizesOfText BuildFileTables.sectionParsers [] [("h1", 5 / 4)] text).toOption.map
        (fun r => r.2.flatMap fun ht => ht.2.map fun np => (ht.1, np.1, [np.2.x, np.2.y, np.2.z])) =
      some [("h1", "X", [-1 / 4, 0, 0]), ("h1", "Y", [1 / 4, 0, 0])] := by
  decide +kernel

end text

end PolyplyVerif.C18
