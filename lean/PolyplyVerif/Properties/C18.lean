import PolyplyVerif.Model.BuildFile
import PolyplyVerif.Proofs.BuildFile

namespace PolyplyVerif.C18
open PolyplyVerif.BuildFile

theorem C18_placeholder : arange 2 5 = [2, 3, 4] := by decide

end PolyplyVerif.C18
