/-
C08 — a topology is read as its preprocessed, flattened equivalent.

Property (properties.jsonl): "Reading a .top file yields the same defaults, atom types, type tables,
defines, molecule types and molecule list as reading the single file obtained by textually inlining every
#include (resolved relative to the including file) whose enclosing #ifdef/#ifndef/#else condition holds for
the macros defined (outside conditionals) before that point, independent of comments, blank lines and
whitespace. The molecule list is the [molecules] section expanded in order with the stated counts, each
instance an independent copy of its molecule type, and an #error aborts reading exactly when its condition
is active."

Property theorems only (helper lemmas: Proofs/TopParse.lean, Proofs/TopFlatten.lean).  The model
(`Model/TopParse.lean`) follows `TOPDirector` literally, including the behaviours that break the property
outside the well-formed class; those are stated as proved counterexamples `C08_cx_*` (each a concrete file
tree evaluated by the kernel; the harness replays the same trees on the real code under
`VERIF_C08_FINDINGS=1`, see notes/C08_findings.md).
-/
import PolyplyVerif.Generated.Top
import PolyplyVerif.Model.TopParse
import PolyplyVerif.Proofs.TopParse
import PolyplyVerif.Proofs.C08Flatten
import PolyplyVerif.Proofs.C08FlattenConv
import PolyplyVerif.Proofs.C08WellFormedFlatten
import PolyplyVerif.Proofs.C08SyntacticNames

namespace PolyplyVerif.C08
open PolyplyVerif PolyplyVerif.TopParse PolyplyVerif.Proofs.TopParse PolyplyVerif.Proofs.C08Flatten

/-! ### the translated section table -/

/-- Every `moleculetype` section the director declares hands its lines to the itp reader (`_molecule`); no
such section is skipped or parsed by the director itself.  (Table fact about the decorators in the source,
re-established on every run.) -/
theorem C08_moleculetype_sections_collected :
    (Tables.Top.sections.all fun s => s.1.head? != some "moleculetype" || s.2 == "_molecule") = true ∧
    (Tables.Top.sections.all fun s => s.2 != "_molecule" || s.1.head? == some "moleculetype") = true ∧
    (["atoms", "bonds", "angles", "dihedrals", "constraints", "pairs", "exclusions", "position_restraints",
      "virtual_sitesn", "settles"].all fun x => handlerOf ["moleculetype", x] == some "_molecule") = true := by
  decide

/-! ### the translated literals of `top_parser.py`

The model reads `defaultNames`, `defaultNumbered`, the inserted `gen-pairs` default, the `[ atomtypes ]` field
names and its float fields from `Generated/Top.lean` (re-translated from the source on every run).  The literals
the model keeps (because `Proofs/C08Flatten*.lean` unfold them: `inverseCond`, the three executed pragmas of
`doPragma`, the comment character of `stripComment`, the `('moleculetype',)` header action of `doHeader`) are
tied to the translated tables by the theorems below: a change of such a literal in the source breaks a proof
obligation here instead of being sampled by the correspondence. -/

/-- the two lists have the same elements (tables that are Python dicts: the order is irrelevant) -/
def sameElems {α} [BEq α] (a b : List α) : Bool := a.all b.contains && b.all a.contains

/-- `TOPDirector.COMMENT_CHAR` is `;`, the character the model's `stripComment` cuts a raw line at. -/
theorem C08_comment_char :
    Tables.Top.commentChar = ';' ∧ ∀ l : List Char, stripComment l = l.takeWhile (· != Tables.Top.commentChar) :=
  ⟨by decide, fun _ => rfl⟩

example : tokenize "a b ; c" = ["a", "b"] ∧ tokenize "a # b" = ["a", "#", "b"] := by decide

/-- The model's `inverseCond` (what `#else` does to the open condition) IS the translated dict `inverse` of
`parse_top_pragma` — for every string —, it is an involution without fixed point, and it is defined exactly on
`ifdef` and `ifndef` (the two conditions `#ifdef/#ifndef` can store; anything else is a `KeyError` in the code and
an error in the model). -/
theorem C08_inverse_table :
    (∀ c, inverseCond c = assocGet Tables.Top.inverseCond c) ∧
    (∀ c c', inverseCond c = some c' → inverseCond c' = some c ∧ c' ≠ c) ∧
    (∀ c, (inverseCond c).isSome = (c == "ifdef" || c == "ifndef")) := by
  refine ⟨?_, ?_, ?_⟩
  · intro c
    simp only [inverseCond, assocGet, Tables.Top.inverseCond, List.find?]
    by_cases h1 : c = "ifdef"
    · subst h1; decide
    · by_cases h2 : c = "ifndef"
      · subst h2; decide
      · have e1 : ("ifdef" == c) = false := by simpa using fun h => h1 h.symm
        have e2 : ("ifndef" == c) = false := by simpa using fun h => h2 h.symm
        simp [h1, h2, e1, e2]
  · intro c c' h
    unfold inverseCond at h
    split at h
    · rename_i h1
      have : c = "ifdef" := by simpa using h1
      subst this; cases h; decide
    · split at h
      · rename_i _ h2
        have : c = "ifndef" := by simpa using h2
        subst this; cases h; decide
      · cases h
  · intro c
    unfold inverseCond
    by_cases h1 : c = "ifdef"
    · subst h1; decide
    · by_cases h2 : c = "ifndef"
      · subst h2; decide
      · simp [h1, h2]

example : inverseCond "ifdef" = some "ifndef" ∧ inverseCond "ifndef" = some "ifdef" ∧ inverseCond "else" = none := by decide

/-- `self.pragma_actions` of `TOPDirector.__init__` has exactly the keys `#define`, `#include`, `#error`, each bound
to the method the model's `doPragma` implements under that first token (`parse_define`, `parse_include`,
`parse_error`). -/
theorem C08_pragma_actions_anchor :
    sameElems Tables.Top.pragmaActions
      [("#define", "parse_define"), ("#include", "parse_include"), ("#error", "parse_error")] = true ∧
    Tables.Top.pragmaActions.length = 3 := by decide

/-- `doPragma` dispatches like `elif line.split()[0] in self.pragma_actions: ... else: raise IOError`: a pragma
line that is none of the conditional forms and whose first token is NOT a key of the translated `pragma_actions`
is the error "unknown-pragma" — for every token list.  (With `C08_pragma_actions_anchor`: the first tokens
`doPragma` executes are exactly the translated keys; `C08_error_iff` is the `#error` handler.) -/
theorem C08_pragma_dispatch (inc : Path → Glob → Except String Glob) (dir : Path) (g : Glob) (l : Loc) (toks : List String)
    (h0 : toks ≠ ["#endif"]) (h1 : startsWith (toks.headD "") "#else" = false)
    (h2 : startsWith (toks.headD "") "#ifdef" = false) (h3 : startsWith (toks.headD "") "#ifndef" = false)
    (h : assocGet Tables.Top.pragmaActions (toks.headD "") = none) :
    doPragma inc dir g l toks = .error "unknown-pragma" := by
  have e0 : (toks == ["#endif"]) = false := by simpa using h0
  have d1 : toks.headD "" ≠ "#define" := by
    intro d; rw [d] at h; revert h; decide
  have d2 : toks.headD "" ≠ "#include" := by
    intro d; rw [d] at h; revert h; decide
  have d3 : toks.headD "" ≠ "#error" := by
    intro d; rw [d] at h; revert h; decide
  simp only [List.headD_eq_head?_getD] at h1 h2 h3 d1 d2 d3
  simp [doPragma, e0, h1, h2, h3, d1, d2, d3]

example : errOf (readSingle ["#undef FLEXIBLE"]) = some "unknown-pragma" ∧
    assocGet Tables.Top.pragmaActions "#undef" = none ∧
    errOf (readSingle ["#define FLEXIBLE"]) = none ∧ assocGet Tables.Top.pragmaActions "#define" = some "parse_define" := by
  decide

/-- `self.header_actions` of `TOPDirector.__init__` is `{('moleculetype',): self._new_itp}`: the only section path
with a header action is the one `doHeader` tests for (for every path). -/
theorem C08_header_actions_anchor :
    Tables.Top.headerActions = [(["moleculetype"], "_new_itp")] ∧
    (∀ sec : List String, Tables.Top.headerActions.any (·.1 == sec) = (sec == ["moleculetype"])) := by
  refine ⟨by decide, ?_⟩
  intro sec
  simp only [Tables.Top.headerActions, List.any_cons, List.any_nil, Bool.or_false]
  rw [Bool.eq_iff_iff]; simp only [beq_iff_eq]; exact eq_comm

example : (doHeader {} "moleculetype").itp = some [.hdr "moleculetype"] ∧ (doHeader {} "atomtypes").itp = none := by decide

/-- The translated locals of `_defaults`: `nbfunc` is the first name (the Buckingham test reads it), the names
are distinct, `gen-pairs` is one of them and is the one that gets the default `"no"`, and the numbered terms are
exactly all the other names. -/
theorem C08_defaults_anchor :
    defaultNames.head? = some "nbfunc" ∧
    Tables.Top.genPairsDefault = ("gen-pairs", "no") ∧
    defaultNames.contains "gen-pairs" = true ∧
    defaultNumbered = defaultNames.filter (· != "gen-pairs") ∧
    defaultNames.eraseDups = defaultNames ∧
    defaultNames.length = 5 := by decide

/-- What a `[ defaults ]` line that is accepted leaves behind, for every token list: `gen-pairs` is always bound
(to the third token, to `"no"` when there are fewer than three), every key is one of the translated names, and
every value other than `gen-pairs` is a number token. -/
theorem C08_defaults_gen_pairs (toks : List String) (d : List (String × String)) (h : doDefaults toks = .ok d) :
    assocGet d "gen-pairs" = some (toks.getD 2 "no") ∧
    (∀ kv ∈ d, defaultNames.contains kv.1 = true) ∧
    (∀ kv ∈ d, kv.1 ≠ "gen-pairs" → isFloatTok kv.2 = true) := by
  unfold doDefaults at h
  rcases toks with _ | ⟨a, _ | ⟨b, _ | ⟨c, _ | ⟨e, _ | ⟨f, rest⟩⟩⟩⟩⟩ <;>
    simp [defaultNames, defaultNumbered, Tables.Top.defaultNames, Tables.Top.defaultNumbered, Tables.Top.genPairsDefault,
      assocGet, List.zip] at h
  all_goals
    split at h
    · cases h
    · split at h
      · cases h
      · rename_i hf
        injection h with h
        subst h
        simp only [not_or, Bool.not_eq_false] at hf
        simp [assocGet, defaultNames, Tables.Top.defaultNames, hf]

example : okOf (doDefaults ["1", "2"]) = some [("nbfunc", "1"), ("comb-rule", "2"), ("gen-pairs", "no")] ∧
    okOf (doDefaults ["1", "2", "yes", "0.5", "0.8333"])
      = some [("nbfunc", "1"), ("comb-rule", "2"), ("gen-pairs", "yes"), ("fudgeLJ", "0.5"), ("fudgeQQ", "0.8333")] ∧
    errOf (doDefaults ["1", "2", "yes", "0.5", "x"]) = some "defaults-not-a-number" := by decide

/-- The translated field list of `_atomtypes` has the seven names the model's `AtomTypeRow` is built from, at the
positions 0..6 of the REVERSED token list, and the translated `floats` are fields, namely those at the positions
0, 1, 3, 4, 5 (everything but `ptype` and `bond_type`). -/
theorem C08_atomtype_anchor :
    atomFloatIdxs = [0, 1, 3, 4, 5] ∧
    ["nb2", "nb1", "ptype", "charge", "mass", "atom_num", "bond_type"].map atomFieldIdx
      = [some 0, some 1, some 2, some 3, some 4, some 5, some 6] ∧
    atomTypeFields.length = 7 ∧
    (Tables.Top.atomTypeFloats.all atomTypeFields.contains) = true := by decide

example : okOf (doAtomType ["CT", "6", "12.011", "0.0", "A", "0.35", "0.276"])
      = some ("CT", ⟨some "0.276", some "0.35", some "A", some "0.0", some "12.011", some "6", none⟩) ∧
    errOf (doAtomType ["CT", "12.011", "0.0", "A", "x", "0.276"]) = some "atomtype-not-a-number" ∧
    errOf (doAtomType ["CT", "12.011", "0.0", "0.5", "0.35", "0.276"]) = none := by decide

/-! ### comments, blank lines, whitespace -/

/-- The reader sees a file only through its classified lines: two file trees whose files have the same
classified lines (same set of files) are read to the same result — in particular after any edit covered by
`C08_whitespace_line` / `C08_whitespace_blank`. -/
theorem C08_whitespace (fs fs' : FS) (top : Path) (hlen : fs.length = fs'.length)
    (h : ∀ p, (fsGet fs p).map parseLines = (fsGet fs' p).map parseLines) :
    readTop fs top = readTop fs' top := by
  unfold readTop
  rw [hlen, readFile_congr fs fs' h]

/-- Blanks or tabs before and after a line and a comment after it do not change how the line is classified;
a run of blanks/tabs between two tokens gives the same tokens as a single blank. -/
theorem C08_whitespace_line (ws l ws' cmt : List Char) (h : ∀ c ∈ ws, isWs c = true) (h' : ∀ c ∈ ws', isWs c = true)
    (hsemi : ';' ∉ l) :
    classifyChars (ws ++ l ++ ws') = classifyChars l ∧
    classifyChars (ws ++ l ++ ws' ++ ';' :: cmt) = classifyChars l ∧
    (∀ l2, ws ≠ [] → tokenizeChars (l ++ ws ++ l2) = tokenizeChars (l ++ ' ' :: l2)) :=
  ⟨(classify_pad ws l ws' cmt h h' hsemi).1, (classify_pad ws l ws' cmt h h' hsemi).2,
   fun l2 hne => tokenize_inner l ws l2 h hne hsemi⟩

/-- A blank line or a comment-only line may be inserted anywhere. -/
theorem C08_whitespace_blank (before after : List String) (blank : String) (ws cmt : List Char)
    (h : ∀ c ∈ ws, isWs c = true) (hb : blank.toList = ws ∨ blank.toList = ws ++ ';' :: cmt) :
    parseLines (before ++ blank :: after) = parseLines (before ++ after) := by
  have : classify blank = none := by
    unfold classify
    rcases hb with hb | hb <;> rw [hb]
    · exact (classify_blank ws cmt h).1
    · exact (classify_blank ws cmt h).2
  simp [parseLines, List.filterMap_append, this]

example : parseLines ["[ atoms ] ; the atoms", "", "  ; only a comment", "\t1  CT 1   RES A1\t1"]
    = parseLines ["[ atoms ]", "1 CT 1 RES A1 1"] := by decide

/-! ### `[molecules]` -/

/-- The molecule list is the `[molecules]` section expanded in order with the stated counts
(`flatMap replicate`), and `mol_idx_by_name name` lists exactly the positions of `name` — for every list,
repeated names included.  (Instances are values in the model, hence independent; the harness mutates a real
instance and looks at the others.)  Every name must be a known molecule type and every count an integer. -/
theorem C08_molecules_expand (g g' : Glob) (mols : List (String × String))
    (h0 : g.molecules = []) (h1 : g.molIdx = []) (h : expandMols g 0 mols = .ok g') :
    ∃ pm, parsedMols mols = some pm ∧ g'.molecules = expandSpec pm ∧
      (∀ name, (assocGet g'.molIdx name).getD [] = positionsOf g'.molecules name) ∧
      (∀ m ∈ mols, g.blockNames.contains m.1 = true) := by
  have hinv : IdxInv g := by
    intro n
    simp [h0, h1, assocGet, positionsOf]
  obtain ⟨pm, hpm, hmol, hinv', hnames, _, _⟩ := expandMols_spec mols g g' 0 (by simp [h0]) hinv h
  exact ⟨pm, hpm, by simpa [h0] using hmol, hinv', hnames⟩

example : (okOf (expandMols { blockNames := ["A", "B"] } 0 [("A", "2"), ("B", "1"), ("A", "1")])).map
    (fun g => (g.molecules, g.molIdx)) = some (["A", "A", "B", "A"], [("A", [0, 1, 3]), ("B", [2])]) := by decide

/-! ### `#error` -/

/-- An `#error` line aborts reading iff it is not switched off by the open conditional: unconditionally
outside a conditional, under `#ifdef T` iff `T` is defined, under `#ifndef T` iff `T` is not defined; `#else`
flips the condition.  (This is the director OUTSIDE a moleculetype; after a `[ moleculetype ]` header of the
same file the conditional lines are not evaluated at all — `C08_cx_conditional_after_moleculetype`.) -/
theorem C08_error_iff (inc : Path → Glob → Except String Glob) (dir : Path) (g : Glob) (l : Loc) (msg : List String) :
    (doPragma inc dir g l ("#error" :: msg) = if switchedOff g l.cond then .ok (g, l) else .error "error-directive") ∧
    (switchedOff g none = false) ∧
    (∀ T, switchedOff g (some ⟨"ifdef", T⟩) = !(assocGet g.defines T).isSome) ∧
    (∀ T, switchedOff g (some ⟨"ifndef", T⟩) = (assocGet g.defines T).isSome) ∧
    (∀ c T, itpActive l = false → l.cond = some ⟨c, T⟩ → (c = "ifdef" ∨ c = "ifndef") →
        ∃ l', doPragma inc dir g l ["#else"] = .ok (g, l') ∧ switchedOff g l'.cond = !switchedOff g l.cond) := by
  refine ⟨?_, rfl, ?_, ?_, ?_⟩
  · have e1 : (("#error" :: msg) == ["#endif"]) = false := by
      cases msg <;> simp
    have e2 : startsWith "#error" "#else" = false := by decide
    have e3 : startsWith "#error" "#ifdef" = false := by decide
    have e4 : startsWith "#error" "#ifndef" = false := by decide
    simp only [doPragma, List.headD, e1, e2, e3, e4, Bool.false_eq_true, if_false, Bool.or_self]
    have e5 : ("#error" == "#define") = false := by decide
    simp [e5]
  · intro T; simp [switchedOff]
  · intro T; simp [switchedOff]
  · intro c T hact hcond hc
    have e1 : startsWith "#else" "#else" = true := by decide
    have e0 : (["#else"] == ["#endif"]) = false := by decide
    rcases hc with rfl | rfl
    · refine ⟨{ l with cond := some ⟨"ifndef", T⟩ }, ?_, ?_⟩
      · simp [doPragma, e0, e1, hact, hcond, inverseCond]
      · simp [hcond, switchedOff]
    · refine ⟨{ l with cond := some ⟨"ifdef", T⟩ }, ?_, ?_⟩
      · simp [doPragma, e0, e1, hact, hcond, inverseCond]
      · simp [hcond, switchedOff]

example : errOf (readSingle ["#define WATER", "#ifndef WATER", "#error needs water", "#else", "#endif"]) = none ∧
    errOf (readSingle ["#define WATER", "#ifndef WATER", "#else", "#error has water", "#endif"]) = some "error-directive" := by
  decide

/-! ### the flattening theorem -/

def fsGood : FS :=
  [(["run", "system.top"], ["#define FLEXIBLE", "#include \"../ff/forcefield.itp\"", "#ifdef HEAVY", "#error no heavy hydrogens",
                            "#endif", "[ moleculetype ]", "MOL1 1", "[ atoms ]", "1 CT 1 RES A1 1", "#ifdef FLEXIBLE",
                            "[ bonds ]", "#endif", "#include \"../mols/water.itp\"", "[ system ]", "title",
                            "[ molecules ]", "SOL 2", "MOL1 1", "SOL 1"]),
   (["ff", "forcefield.itp"], ["[ defaults ]", "1 2 yes 0.5 0.8333", "#ifdef FLEXIBLE", "#include \"sub/flex.itp\"", "#else",
                               "#include \"sub/rigid.itp\"", "#endif", "[ atomtypes ]", "CT 12.011 0.0 A 0.35 0.276"]),
   (["ff", "sub", "flex.itp"], ["[ bondtypes ]", "CT CT 1 0.153 224262.4", "#include \"./common.itp\""]),
   (["ff", "sub", "rigid.itp"], ["[ constrainttypes ]", "CT CT 1 0.153"]),
   (["ff", "sub", "common.itp"], ["[ angletypes ]", "CT CT CT 1 112.7 488.273"]),
   (["mols", "water.itp"], ["[ moleculetype ]", "SOL 2", "[ atoms ]", "1 OW 1 SOL OW 1", "[ settles ]", "1 1 0.1 0.16"])]


/-- **Reading an include tree = reading its flattened text**, for every WELL-FORMED tree (`wellFormed`, a
purely syntactic scan defined in `Model/TopParse.lean`): any number of files, any include depth and tree shape,
repeated includes, conditionals around includes / type lines / `#error`, `#define` before and after use,
moleculetypes spread over files.  Proof: induction on the include depth (`sim_file`), inner induction on the
lines of a file (`sim_lines`), with a simulation relation between the stack of per-file directors and the single
director over the text flattened so far.

If the tree is read, then the flattened text (`flatten`, the file of the property statement) is read by the
single-file reader and both results have the same observables (`ObsEq`): defines, defaults, atom types,
non-bonded parameters, type tables WITHOUT the conditional tag, the collected molecule types as a multiset
(after `sealGroup`, which cuts what vermouth's itp reader ignores), molecule list and `mol_idx_by_name`.

`_partial` because
* well-formedness is a hypothesis — every dropped clause has a proved counterexample below that is replayed on
  the real code: includes inside a moleculetype (`C08_cx_include_in_moleculetype`), sections continued across a
  file boundary (`C08_cx_section_across_files`), conditionals after a moleculetype
  (`C08_cx_conditional_after_moleculetype`), `#define` inside a conditional (`C08_cx_define_inside_conditional`),
  `[ molecules ]` in an included file (`C08_cx_molecules_in_included_file`);
* only the direction "tree read ⇒ flattened text read, same result" is proved; the converse (an error in the
  tree is an error in the flattened text) is left to the correspondence/oracle (a molecule type with a malformed
  name line is reported when its file ends in the tree but only at the very end in the flattened text);
* molecule types are compared as collected line groups — `read_itp` itself is vermouth's (trusted, and compared
  on the real objects by the oracle), and two DIFFERENT moleculetypes with the same name are outside the
  statement (the last one read wins, and the reading order differs). -/
theorem C08_flatten_equiv_partial (fs : FS) (top : Path) (st : FlatSt) (gt : Glob)
    (hwf : wellFormed fs top = true) (hfl : flatten fs top = .ok st) (hrt : readTop fs top = .ok gt) :
    ∃ gf, readSingle st.out = .ok gf ∧ ObsEq gt gf :=
  (flatten_equiv fs top st gt hwf hfl hrt).2

/-- Converse, with no extra hypothesis: if the flattened text of a well-formed tree is read, then the tree is
read — or the tree reader stops with one of the two errors of a malformed moleculetype NAME line
(`isNameErr`: "moleculetype-line", "moleculetype-without-name").  That error is the only one the tree reports
earlier than the flattened text (when the FILE containing the moleculetype ends, not at the very end). -/
theorem C08_flatten_equiv_conv_partial (fs : FS) (top : Path) (st : FlatSt) (gf : Glob)
    (hwf : wellFormed fs top = true) (hfl : flatten fs top = .ok st) (hrs : readSingle st.out = .ok gf) :
    (∃ gt, readTop fs top = .ok gt) ∨ (∃ e, readTop fs top = .error e ∧ isNameErr e = true) :=
  flatten_equiv_conv fs top st gf hwf hfl hrs

/-- **Reading a well-formed include tree ⇔ reading its flattened text**, as an iff on success plus equality of
the observables, under `wellFormed` and the decidable side condition `noMalformedMolNames` (the tree reader does
not stop on a malformed moleculetype name line; without it only `C08_flatten_equiv_conv_partial` holds).
What remains open: replacing `noMalformedMolNames` (which evaluates the tree reader) by a purely syntactic
condition, or proving that it follows from the success of the flattened read; and the class `wellFormed`
itself (counterexamples `C08_cx_*`). -/
theorem C08_flatten_equiv (fs : FS) (top : Path) (st : FlatSt)
    (hwf : wellFormed fs top = true) (hfl : flatten fs top = .ok st) (hnm : noMalformedMolNames fs top = true) :
    ((∃ gt, readTop fs top = .ok gt) ↔ (∃ gf, readSingle st.out = .ok gf)) ∧
    (∀ gt gf, readTop fs top = .ok gt → readSingle st.out = .ok gf → ObsEq gt gf) := by
  constructor
  · constructor
    · rintro ⟨gt, hgt⟩
      obtain ⟨gf, hgf, _⟩ := (flatten_equiv fs top st gt hwf hfl hgt).2
      exact ⟨gf, hgf⟩
    · rintro ⟨gf, hgf⟩
      rcases flatten_equiv_conv fs top st gf hwf hfl hgf with h | ⟨e, he, hne⟩
      · exact h
      · unfold noMalformedMolNames at hnm
        simp [he, hne] at hnm
  · intro gt gf hgt hgf
    obtain ⟨gf', hgf', hobs⟩ := (flatten_equiv fs top st gt hwf hfl hgt).2
    rw [hgf] at hgf'
    injection hgf' with e
    rw [e]; exact hobs

example : noMalformedMolNames fsGood ["run", "system.top"] = true ∧ wellFormed fsGood ["run", "system.top"] = true := by
  decide

/-- Two well-formed trees with the same flattened text read alike: how the text is cut into files and
directories is irrelevant (the second tree is read whenever the first is, unless it stops on a malformed name
line, and the observables agree). -/
theorem C08_include_order_irrelevant_partial (fs1 fs2 : FS) (top1 top2 : Path) (st1 st2 : FlatSt) (g1 : Glob)
    (hwf1 : wellFormed fs1 top1 = true) (hwf2 : wellFormed fs2 top2 = true)
    (hfl1 : flatten fs1 top1 = .ok st1) (hfl2 : flatten fs2 top2 = .ok st2) (hsame : st1.out = st2.out)
    (hnm : noMalformedMolNames fs2 top2 = true) (hr1 : readTop fs1 top1 = .ok g1) :
    ∃ g2, readTop fs2 top2 = .ok g2 ∧ ObsEq g1 g2 := by
  obtain ⟨gf, hgf, hobs1⟩ := (flatten_equiv fs1 top1 st1 g1 hwf1 hfl1 hr1).2
  rw [hsame] at hgf
  obtain ⟨hiff, hobs⟩ := C08_flatten_equiv fs2 top2 st2 hwf2 hfl2 hnm
  obtain ⟨g2, hg2⟩ := hiff.mpr ⟨gf, hgf⟩
  exact ⟨g2, hg2, hobs1.trans' (hobs g2 gf hg2 hgf).symm'⟩

/-- non-vacuity: the tree `fsGood` and the one-file tree holding its flattened text are both well formed, have the
same flattening, and neither stops on a name line -/
example :
    (match flatten fsGood ["run", "system.top"] with
     | .ok st =>
       let fs2 : FS := [(["flat.top"], st.out)]
       wellFormed fs2 ["flat.top"] && noMalformedMolNames fs2 ["flat.top"] &&
         (match flatten fs2 ["flat.top"] with | .ok st2 => st2.out == st.out | .error _ => false)
     | .error _ => false) = true := by
  decide

/-- The `#error` clause on include trees, in the terms of the property statement: if, going through the tree
as the statement prescribes (`flatten`: macros defined outside conditionals, the condition enclosing each
line), some `#error` has an active condition (`abort`), then reading the tree does not succeed.  (Well-formed
trees; the converse — nothing else aborts a valid tree — is the oracle's `rejects-valid-tree` check.) -/
theorem C08_error_aborts_tree_partial (fs : FS) (top : Path) (st : FlatSt)
    (hwf : wellFormed fs top = true) (hfl : flatten fs top = .ok st) (hab : st.abort = true) :
    ∃ e, readTop fs top = .error e := by
  cases hrt : readTop fs top with
  | error e => exact ⟨e, rfl⟩
  | ok gt =>
    have := (flatten_equiv fs top st gt hwf hfl hrt).1
    rw [this] at hab
    cases hab

example :
    let fs : FS := [(["t.top"], ["#define A", "#include \"i.itp\""]), (["i.itp"], ["#ifdef A", "#error A is set", "#endif"])]
    wellFormed fs ["t.top"] = true ∧ (okOf (flatten fs ["t.top"])).map (·.abort) = some true ∧
      errOf (readTop fs ["t.top"]) = some "error-directive" := by decide

/-- non-vacuity: a tree with nested directories, a conditional include with `#else`, a nested include, an inactive
`#error`, a conditional inside a moleculetype and an include after it is well formed, is read, and the theorem's
conclusion can be observed on it -/
example : wellFormed fsGood ["run", "system.top"] = true ∧
    (okOf (readTop fsGood ["run", "system.top"])).map (fun g => (g.molecules, g.types.map (·.1), g.groups.length))
      = some (["SOL", "SOL", "MOL1", "SOL"], ["bonds", "angles"], 2) ∧
    (okOf (flatten fsGood ["run", "system.top"])).map (fun st => (okOf (readSingle st.out)).map (fun g => (g.molecules, g.types.map (·.1), g.groups.length)))
      = some (some (["SOL", "SOL", "MOL1", "SOL"], ["bonds", "angles"], 2)) := by
  decide

/-! ### counterexamples for the hypotheses of the flattening theorem (each replayed on the real code) -/

def fsPosre : FS :=
  [(["top.top"], ["[ moleculetype ]", "M 1", "[ atoms ]", "1 A 1 R a 1", "#ifdef POSRES", "#include \"posre.itp\"",
                  "#endif", "[ molecules ]", "M 1"]),
   (["posre.itp"], ["[ position_restraints ]", "1 1 1000 1000 1000"])]

/-- `#include` inside a `[ moleculetype ]` (the POSRES idiom): the conditional is not evaluated and the file
is read as a stand-alone topology — reading fails, while the flattened file (include dropped, POSRES not
defined) is read. -/
theorem C08_cx_include_in_moleculetype :
    wellFormed fsPosre ["top.top"] = false ∧
    errOf (readTop fsPosre ["top.top"]) = some "unknown-section" ∧
    ((okOf (flatten fsPosre ["top.top"])).map fun st => (st.abort, (errOf (readSingle st.out)))) = some (false, none) := by
  decide

def fsSection : FS :=
  [(["top.top"], ["[ bondtypes ]", "#include \"more.itp\"", "[ moleculetype ]", "M 1", "[ atoms ]", "1 A 1 R a 1",
                  "[ molecules ]", "M 1"]),
   (["more.itp"], ["A A 1 0.1 1000"])]

/-- Section state does not cross file boundaries: an included file that continues the includer's section is
rejected, the flattened file is read. -/
theorem C08_cx_section_across_files :
    wellFormed fsSection ["top.top"] = false ∧
    errOf (readTop fsSection ["top.top"]) = some "unknown-section" ∧
    (match flatten fsSection ["top.top"] with
     | .ok st => (match readSingle st.out with
        | .ok g => g.types.map (fun t => (t.1, t.2.map fun e => (e.1, e.2.map (·.params))))
                    == [("bonds", [(["A", "A"], [["1", "0.1", "1000"]])])]
        | .error _ => false)
     | .error _ => false) = true := by
  decide

/-- After a `[ moleculetype ]` header of the same file `#ifdef/#else/#endif` are stored as molecule lines,
not evaluated: an `#error` under a false condition aborts (single file, no include involved). -/
theorem C08_cx_conditional_after_moleculetype :
    wellFormed [(["t"], ["[ moleculetype ]", "M 1", "[ atoms ]", "1 A 1 R a 1", "[ system ]", "title",
                        "#ifdef NOT_DEFINED", "#error not meant for this system", "#endif", "[ molecules ]", "M 1"])] ["t"] = false ∧
    errOf (readSingle ["[ moleculetype ]", "M 1", "[ atoms ]", "1 A 1 R a 1", "[ system ]", "title",
                       "#ifdef NOT_DEFINED", "#error not meant for this system", "#endif", "[ molecules ]", "M 1"])
      = some "error-directive" := by
  decide

/-- A `#define` inside a conditional whose condition is false is executed all the same. -/
theorem C08_cx_define_inside_conditional :
    wellFormed [(["t"], ["#ifdef NOT_DEFINED", "#define HIDDEN", "#endif", "#ifdef HIDDEN", "#error hidden", "#endif"])] ["t"] = false ∧
    errOf (readSingle ["#ifdef NOT_DEFINED", "#define HIDDEN", "#endif", "#ifdef HIDDEN", "#error hidden", "#endif"])
      = some "error-directive" := by
  decide

def fsMolecules : FS :=
  [(["top.top"], ["[ moleculetype ]", "M 1", "[ atoms ]", "1 A 1 R a 1", "#include \"list.itp\""]),
   (["list.itp"], ["[ molecules ]", "M 2"])]

/-- `[ molecules ]` in an included file is expanded when THAT file ends, before the molecule types of the
including file have been read, and with a counter that restarts at 0 in every file. -/
theorem C08_cx_molecules_in_included_file :
    wellFormed fsMolecules ["top.top"] = false ∧
    errOf (readTop fsMolecules ["top.top"]) = some "unknown-molecule" ∧
    ((okOf (flatten fsMolecules ["top.top"])).map fun st => (okOf (readSingle st.out)).map (·.molecules))
      = some (some ["M", "M"]) := by
  decide

end PolyplyVerif.C08

/-! ### the flattened text as a one-file tree (`Proofs/C08WellFormedFlatten.lean`) -/

namespace PolyplyVerif.C08
open PolyplyVerif PolyplyVerif.TopParse PolyplyVerif.Proofs.TopParse PolyplyVerif.Proofs.C08Flatten

/-- **The flattened text of a well-formed include tree is well formed as a one-file tree**, whatever the name `p`
given to that file: the class `wellFormed` of the flattening theorems is closed under `flatten`.  For every tree
(any number of files, include depth, repeated and conditional includes).  Proof: a second simulation
(`Proofs/C08WellFormedFlatten.lean`) between the syntactic scan of the tree (`wfLines` per file, relation `RelW`)
and the scan of the text emitted so far; induction on the include depth (`wfile`) and on the lines (`wlines`).
No hypothesis besides the two of the statement: nothing is assumed about either reader. -/
theorem C08_wellFormed_flatten (fs : FS) (top : Path) (st : FlatSt) (p : Path)
    (hwf : wellFormed fs top = true) (hfl : flatten fs top = .ok st) :
    wellFormed [(p, st.out)] p = true :=
  wellFormed_flatten fs top st p hwf hfl

/-- non-vacuity: `fsGood` (nested directories, conditional includes with `#else`, nested include, conditional inside
a moleculetype, include after it) meets the hypotheses; the conclusion is observed on it, and it is NOT a
triviality of the scan: the one-file tree of a text that is not well formed is rejected -/
example : wellFormed fsGood ["run", "system.top"] = true ∧
    (match flatten fsGood ["run", "system.top"] with
     | .ok st => st.out.length == 34 && wellFormed [(["d", "flat.top"], st.out)] ["d", "flat.top"]
     | .error _ => false) = true ∧
    wellFormed [(["flat.top"], ["[ moleculetype ]", "M 1", "[ system ]", "#ifdef A", "#endif"])] ["flat.top"] = false := by
  decide

/-- **Flattening is idempotent on well-formed trees**: the flattened text contains no `#include` line any more,
so the one-file tree holding it flattens to the same text. -/
theorem C08_flatten_idempotent (fs : FS) (top : Path) (st : FlatSt) (p : Path)
    (hwf : wellFormed fs top = true) (hfl : flatten fs top = .ok st) :
    ∃ st2, flatten [(p, st.out)] p = .ok st2 ∧ st2.out = st.out :=
  flatten_idem fs top st p hwf hfl

example :
    let fs : FS := [(["t.top"], ["#define A", "#ifdef A", "#include \"i.itp\"", "#else", "#include \"j.itp\"", "#endif"]),
                    (["i.itp"], ["[ atomtypes ]", "#include \"j.itp\""]), (["j.itp"], ["[ system ]", "title"])]
    wellFormed fs ["t.top"] = true ∧
    (okOf (flatten fs ["t.top"])).map (·.out)
      = some ["#define A", "#ifdef A", "[ atomtypes ]", "[ system ]", "title", "#else", "#endif"] ∧
    (okOf (flatten [(["f"], ["#define A", "#ifdef A", "[ atomtypes ]", "[ system ]", "title", "#else", "#endif"])] ["f"])).map (·.out)
      = some ["#define A", "#ifdef A", "[ atomtypes ]", "[ system ]", "title", "#else", "#endif"] := by
  decide

/-- **Reading a well-formed include tree = reading the one-file tree of its flattened text, with the SAME reader**
(`readTop` on both sides; `C08_flatten_equiv_partial` has the auxiliary single-file reader `readSingle`, which
rejects every `#include`, on the right).  This is also the instance `fs2 = [(p, st1.out)]` of
`C08_include_order_irrelevant_partial` with its hypotheses `hwf2` (by `C08_wellFormed_flatten`), `hfl2`, `hsame`
(by `C08_flatten_idempotent`) and `hnm` discharged.  Forward: tree read ⇒ one-file tree read, same observables.
Converse: one-file tree read ⇒ the tree is read or stops on a malformed moleculetype name line (`isNameErr`,
see `C08_flatten_equiv_conv_partial`; with `noMalformedMolNames fs top` it is an iff). -/
theorem C08_flatten_equiv_same_reader (fs : FS) (top : Path) (st : FlatSt) (p : Path)
    (hwf : wellFormed fs top = true) (hfl : flatten fs top = .ok st) :
    (∀ gt, readTop fs top = .ok gt → ∃ gf, readTop [(p, st.out)] p = .ok gf ∧ ObsEq gt gf) ∧
    (∀ gf, readTop [(p, st.out)] p = .ok gf →
      (∃ gt, readTop fs top = .ok gt) ∨ (∃ e, readTop fs top = .error e ∧ isNameErr e = true)) ∧
    (noMalformedMolNames fs top = true →
      ((∃ gt, readTop fs top = .ok gt) ↔ (∃ gf, readTop [(p, st.out)] p = .ok gf))) := by
  have hrs : readTop [(p, st.out)] p = readSingle st.out :=
    readTop_single p st.out (flatten_noIncl fs top st hwf hfl)
  rw [hrs]
  refine ⟨fun gt hgt => (flatten_equiv fs top st gt hwf hfl hgt).2,
          fun gf hgf => flatten_equiv_conv fs top st gf hwf hfl hgf, fun hnm => ?_⟩
  exact (C08_flatten_equiv fs top st hwf hfl hnm).1

/-- non-vacuity: `fsGood` and the one-file tree of its flattened text are read by `readTop` to the same molecule
list, type tables and number of molecule types -/
example : wellFormed fsGood ["run", "system.top"] = true ∧
    (okOf (readTop fsGood ["run", "system.top"])).map (fun g => (g.molecules, g.types.map (·.1), g.groups.length))
      = some (["SOL", "SOL", "MOL1", "SOL"], ["bonds", "angles"], 2) ∧
    (okOf (flatten fsGood ["run", "system.top"])).map (fun st => (okOf (readTop [(["flat.top"], st.out)] ["flat.top"])).map
        (fun g => (g.molecules, g.types.map (·.1), g.groups.length)))
      = some (some (["SOL", "SOL", "MOL1", "SOL"], ["bonds", "angles"], 2)) := by
  decide

end PolyplyVerif.C08

/-! ### a purely syntactic replacement for `noMalformedMolNames` (`Proofs/C08SyntacticNames.lean`) -/

namespace PolyplyVerif.C08
open PolyplyVerif PolyplyVerif.TopParse PolyplyVerif.Proofs.TopParse PolyplyVerif.Proofs.C08Flatten

/-- **The syntactic name-line condition implies the semantic one, for EVERY tree** (well formed or not).
`molNamesSyntactic fs` scans the lines of each file of `fs` on its own (no reader is run, no include followed, no
conditional evaluated): every `[ moleculetype ]` header is followed — before the next section header of the same
file or the end of that file — by at least one content line, and the last such content line is `name nrexcl` with
`nrexcl` an `int()` token (`nameShape`); pragma, `*`, blank and comment lines in between are ignored.  Then the tree
reader never stops with "moleculetype-line" / "moleculetype-without-name" (`noMalformedMolNames`).
Proof: invariant `NmInv` between the scan state and the per-file director (`nm_step`, `nm_lines`), every other
error string of the director is not a name error (`doContent_frame`, `doPragma_frame`, `expandMols_notName`),
induction on the include depth (`readFile_notName`).
It is STRONGER than `noMalformedMolNames` only in that it also constrains what the reader never gets to: files of
`fs` that are not (actively) included, and files in which the reader stops earlier with another error; for a file
the reader runs through to its end without error and without an open conditional the two coincide (`finalize`
fails in `readGroups` exactly when a collected group has no good name line). -/
theorem C08_syntactic_names_sound (fs : FS) (top : Path) (hsyn : molNamesSyntactic fs = true) :
    noMalformedMolNames fs top = true :=
  molNames_sound fs top hsyn

/-- non-vacuity: `fsGood` (6 files, 2 moleculetypes, one with a stored conditional) satisfies the condition; a tree
with a malformed name line (three tokens; no integer; no name line at all; name line only in an included file)
violates it, and the first of them is indeed stopped by the tree reader with a name error; a name line between
stored conditional lines is accepted -/
example : molNamesSyntactic fsGood = true ∧
    molNamesSyntactic [(["t.top"], ["[ moleculetype ]", "MOL1 1 3", "[ atoms ]", "1 CT 1 RES A1 1"])] = false ∧
    noMalformedMolNames [(["t.top"], ["[ moleculetype ]", "MOL1 1 3", "[ atoms ]", "1 CT 1 RES A1 1"])] ["t.top"] = false ∧
    molNamesSyntactic [(["t.top"], ["[ moleculetype ]", "MOL1 x", "[ atoms ]"])] = false ∧
    molNamesSyntactic [(["t.top"], ["[ moleculetype ]", "[ atoms ]"])] = false ∧
    molNamesSyntactic [(["t.top"], ["[ moleculetype ]", "#include \"n.itp\"", "[ atoms ]"]), (["n.itp"], ["MOL1 1"])] = false ∧
    molNamesSyntactic [(["t.top"], ["[ moleculetype ]", "#ifdef A", "MOL1 1 ; name", "#endif", "[ atoms ]"])] = true := by
  decide

/-- **`C08_flatten_equiv` with the syntactic hypothesis**: for a well-formed tree whose files pass the syntactic
name-line scan, the tree is read iff its flattened text is read, and the observables agree. -/
theorem C08_flatten_equiv_syntactic (fs : FS) (top : Path) (st : FlatSt)
    (hwf : wellFormed fs top = true) (hfl : flatten fs top = .ok st) (hsyn : molNamesSyntactic fs = true) :
    ((∃ gt, readTop fs top = .ok gt) ↔ (∃ gf, readSingle st.out = .ok gf)) ∧
    (∀ gt gf, readTop fs top = .ok gt → readSingle st.out = .ok gf → ObsEq gt gf) :=
  C08_flatten_equiv fs top st hwf hfl (molNames_sound fs top hsyn)

example : wellFormed fsGood ["run", "system.top"] = true ∧ molNamesSyntactic fsGood = true ∧
    (okOf (flatten fsGood ["run", "system.top"])).isSome = true := by decide

/-- **`C08_flatten_equiv_same_reader` with the syntactic hypothesis**: `readTop` on both sides, an iff on success
plus equality of the observables. -/
theorem C08_flatten_equiv_same_reader_syntactic (fs : FS) (top : Path) (st : FlatSt) (p : Path)
    (hwf : wellFormed fs top = true) (hfl : flatten fs top = .ok st) (hsyn : molNamesSyntactic fs = true) :
    ((∃ gt, readTop fs top = .ok gt) ↔ (∃ gf, readTop [(p, st.out)] p = .ok gf)) ∧
    (∀ gt gf, readTop fs top = .ok gt → readTop [(p, st.out)] p = .ok gf → ObsEq gt gf) := by
  obtain ⟨hfwd, _, hiff⟩ := C08_flatten_equiv_same_reader fs top st p hwf hfl
  refine ⟨hiff (molNames_sound fs top hsyn), ?_⟩
  intro gt gf hgt hgf
  obtain ⟨gf', hgf', hobs⟩ := hfwd gt hgt
  rw [hgf] at hgf'
  injection hgf' with e
  rw [e]; exact hobs

example : wellFormed fsGood ["run", "system.top"] = true ∧ molNamesSyntactic fsGood = true ∧
    (okOf (flatten fsGood ["run", "system.top"])).map (fun st => (okOf (readTop [(["flat.top"], st.out)] ["flat.top"])).isSome)
      = some true := by decide

/-- `C08_include_order_irrelevant_partial` with the syntactic hypothesis on the second tree. -/
theorem C08_include_order_irrelevant_syntactic (fs1 fs2 : FS) (top1 top2 : Path) (st1 st2 : FlatSt) (g1 : Glob)
    (hwf1 : wellFormed fs1 top1 = true) (hwf2 : wellFormed fs2 top2 = true)
    (hfl1 : flatten fs1 top1 = .ok st1) (hfl2 : flatten fs2 top2 = .ok st2) (hsame : st1.out = st2.out)
    (hsyn : molNamesSyntactic fs2 = true) (hr1 : readTop fs1 top1 = .ok g1) :
    ∃ g2, readTop fs2 top2 = .ok g2 ∧ ObsEq g1 g2 :=
  C08_include_order_irrelevant_partial fs1 fs2 top1 top2 st1 st2 g1 hwf1 hwf2 hfl1 hfl2 hsame
    (molNames_sound fs2 top2 hsyn) hr1

end PolyplyVerif.C08

namespace PolyplyVerif.C08
open PolyplyVerif PolyplyVerif.TopParse PolyplyVerif.Proofs.TopParse PolyplyVerif.Proofs.C08Flatten

/-- **The syntactic name-line condition is preserved by flattening**: if the tree is well formed and every file
passes the scan, the flattened text passes it (as the one-file tree `[(p, st.out)]`, whatever `p`).  So the class
`wellFormed ∧ molNamesSyntactic` of `C08_flatten_equiv_syntactic` is closed under `flatten`
(with `C08_wellFormed_flatten`).  Proof: simulation `NmRel` between the scan of each file and the scan of the text
emitted so far, induction on the include depth (`nfile`) and on the lines (`nlines`); well-formedness is what makes
a moleculetype name section not straddle a file boundary (`nm_lookahead`: an `#include` is never placed between a
`[ moleculetype ]` header and its name line).  The converse does not hold (example below): the flattened text
knows nothing about files of `fs` that are not actively included. -/
theorem C08_syntactic_names_flatten (fs : FS) (top : Path) (st : FlatSt) (p : Path)
    (hwf : wellFormed fs top = true) (hfl : flatten fs top = .ok st) (hsyn : molNamesSyntactic fs = true) :
    molNamesSyntactic [(p, st.out)] = true :=
  molNames_flatten fs top st p hwf hfl hsyn

/-- non-vacuity: `fsGood` meets the hypotheses and the conclusion is observed on its flattened text; the conclusion
is not a triviality (a text with a malformed name line fails the scan); and the condition is strictly stronger than
`noMalformedMolNames` exactly through files the reader never reads: a well-formed tree with an unused file holding
a moleculetype without name line is read, its flattened text passes the scan, the tree does not. -/
example : wellFormed fsGood ["run", "system.top"] = true ∧ molNamesSyntactic fsGood = true ∧
    (match flatten fsGood ["run", "system.top"] with
     | .ok st => molNamesSyntactic [(["flat.top"], st.out)]
     | .error _ => false) = true ∧
    molNamesSyntactic [(["flat.top"], ["[ moleculetype ]", "M", "[ atoms ]"])] = false ∧
    (let fs : FS := [(["t.top"], ["[ system ]", "title"]), (["unused.itp"], ["[ moleculetype ]", "[ atoms ]"])]
     wellFormed fs ["t.top"] = true ∧ noMalformedMolNames fs ["t.top"] = true ∧ molNamesSyntactic fs = false ∧
     (match flatten fs ["t.top"] with
      | .ok st => molNamesSyntactic [(["flat.top"], st.out)]
      | .error _ => false) = true) := by
  decide

end PolyplyVerif.C08

namespace PolyplyVerif.C08
open PolyplyVerif PolyplyVerif.TopParse PolyplyVerif.Proofs.TopParse PolyplyVerif.Proofs.C08Flatten

/-- **How much stronger the syntactic condition is: not at all on a file that is read to its end.**  If the
director executes all lines of a file without error and no conditional is left open (whatever the include handler
`inc` does), then `finalize` of that file stops with a malformed-name error EXACTLY when the scan `nmFile` of the
file fails.  So `molNamesSyntactic` over-approximates `noMalformedMolNames` only through files (or ends of files)
the reader never reaches. -/
theorem C08_syntactic_names_exact_file (inc : Path → Glob → Except String Glob) (dir : Path) (raws : List String)
    (g g' : Glob) (l' : Loc)
    (hr : runLines inc dir (parseLines raws) (g, {}) = .ok (g', l')) (hc : l'.cond = none) :
    (nmFile raws = true → ∀ e, finalize g' l' = .error e → isNameErr e = false) ∧
    (nmFile raws = false → ∃ e, finalize g' l' = .error e ∧ isNameErr e = true) :=
  nmFile_exact inc dir raws g g' l' hr hc

/-- ... in particular for a one-file tree without `#include` the two conditions coincide. -/
theorem C08_syntactic_names_exact_single (p : Path) (raws : List String)
    (hn : ∀ raw ∈ raws, ∀ toks, classify raw = some (.pragma toks) → (toks.headD "" == "#include") = false)
    (g : Glob) (l : Loc) (hr : flatRun raws = .ok (g, l)) (hc : l.cond = none) :
    noMalformedMolNames [(p, raws)] p = molNamesSyntactic [(p, raws)] :=
  molNames_exact_single p raws hn g l hr hc

/-- non-vacuity: a file with a malformed name line and one with a good one are both run to the end with no open
conditional; the scan, the reader's verdict and the error are as the theorem says -/
example :
    (okOf (flatRun ["[ moleculetype ]", "MOL1 1 3", "[ atoms ]", "1 CT 1 RES A1 1"])).map (·.2.cond) = some none ∧
    nmFile ["[ moleculetype ]", "MOL1 1 3", "[ atoms ]", "1 CT 1 RES A1 1"] = false ∧
    errOf (readSingle ["[ moleculetype ]", "MOL1 1 3", "[ atoms ]", "1 CT 1 RES A1 1"]) = some "moleculetype-line" ∧
    (okOf (flatRun ["[ moleculetype ]", "MOL1 1", "[ atoms ]", "1 CT 1 RES A1 1"])).map (·.2.cond) = some none ∧
    nmFile ["[ moleculetype ]", "MOL1 1", "[ atoms ]", "1 CT 1 RES A1 1"] = true ∧
    errOf (readSingle ["[ moleculetype ]", "MOL1 1", "[ atoms ]", "1 CT 1 RES A1 1"]) = none := by
  decide

end PolyplyVerif.C08
