/-
C13 — generated topology is independent of labelling, ordering and run history.

"The result of gen_params depends only on the residue graph up to relabelling of its nodes (residue ids
fixed) and on the set of force-field definitions: node insertion order, edge orientation, the order of
definitions that do not define the same interaction, and earlier runs in the same process change neither
the atoms nor the multiset of interactions. Repeated runs give identical files apart from the command-line
header."

Theorems about the C01 model (Model/MapToMol.lean; tied to /repo by the correspondence of harness/c01.py
and re-run on every transformed input by harness/c13.py).  Property theorems only; lemmas are in
Proofs/MapToMol.lean.  Every theorem holds for all force fields, all graphs, all key types.
The last section is about `load_library.py` (Model/LoadLibrary.lean, suffix -> parser tables and the order of
the file loop TRANSLATED from the source on every run): which parser reads a file, in which order files are
read, and that permuting input files changes neither acceptance nor the multiset of definitions read.
-/
import PolyplyVerif.Generated.Tables
import PolyplyVerif.Model.MapToMol
import PolyplyVerif.Proofs.MapToMol
import PolyplyVerif.Model.LoadLibrary
import PolyplyVerif.Proofs.LoadLibrary

set_option linter.unusedSectionVars false

namespace PolyplyVerif.C13
open PolyplyVerif PolyplyVerif.MapToMol PolyplyVerif.Proofs.MapToMol

variable {κ κ' : Type} [DecidableEq κ] [DecidableEq κ']

/-- The stages after `match_nodes_to_blocks`, as `gen_params` chains them: `add_blocks`, link
application (for a given list of link operations and generated exclusions) and the `-mods` selection
(`none` = the default protein termini). -/
def pipeline (protein : List String) (ff : FF) (t : Tables κ) (nodes : List (ResNode κ)) (ops : List LinkOp)
    (genExcl : List Ixn) (mods : Option (List ModTarget)) : Except String Mol :=
  match addBlocks ff t nodes with
  | .error e => .error e
  | .ok st =>
    applyMods protein ff nodes st.graphs (applyLinks st.mol ops genExcl) (mods.getD (defaultTargets nodes))

/-! ### node insertion order -/

/-- **C13_insertion_order.**  `add_blocks` of any permutation of the node list equals `add_blocks` of the
list, as soon as the resids are pairwise distinct: the residues are processed sorted by resid, and
sorting by distinct resids is permutation invariant (Python's `sorted(zip(resids, keys))` never gets to
compare two keys). -/
theorem C13_insertion_order (ff : FF) (t : Tables κ) (ns ms : List (ResNode κ)) (hp : ns.Perm ms)
    (hd : (ns.map (·.resid)).Nodup) : addBlocks ff t ns = addBlocks ff t ms := by
  unfold addBlocks
  rw [sortByResid_of_perm ns ms hp hd]

example : addBlocks Example.ff Example.tbl Example.nodes =
    addBlocks Example.ff Example.tbl Example.nodes.reverse :=
  C13_insertion_order _ _ _ _ (List.reverse_perm _).symm (by decide)

/-- **C13_fragment_order.**  The nodes of a `from_itp` fragment reach the slicing step as a Python set;
whatever order the set is iterated in (any permutation of the component), the bookkeeping is the same,
because the fragment is sorted by (distinct) resid before it is cut into copies.  This is the statement the
fixed defect 86fda76 violated (`frag_nodes = list(fragment)`). -/
theorem C13_fragment_order (ff : FF) (g : ResGraph κ) (t : Tables κ) (comp comp' : List κ)
    (hp : comp.Perm comp') (hd : ((comp.filterMap g.node?).map (·.resid)).Nodup) :
    addFragment ff g t comp = addFragment ff g t comp' := by
  unfold addFragment
  rw [sortByResid_of_perm _ _ (hp.filterMap g.node?) hd]

example : addFragment Example.ff ⟨Example.nodes2, []⟩ ⟨[], [], []⟩ [28, 29, 30, 31] =
    addFragment Example.ff ⟨Example.nodes2, []⟩ ⟨[], [], []⟩ [31, 28, 30, 29] :=
  C13_fragment_order _ _ _ _ _ (by decide) (by decide)

/-! ### relabelling -/

/-- **C13_relabel.**  For every injective renaming `f` of the node keys (to any other key type), with the
bookkeeping tables renamed accordingly, the generated molecule — atoms and interactions, after
`add_blocks`, link application and modifications — is unchanged: keys are only ever compared for
equality, residues are found by resid (`_patch_protein_termini`, `apply_mod`), never by key.  This is the
statement the fixed defect 7e21536 violated (`meta_molecule.nodes[0]`, `nodes[resid - 1]`). -/
theorem C13_relabel (f : κ → κ') (hf : Injective f) (protein : List String) (ff : FF) (t : Tables κ)
    (nodes : List (ResNode κ)) (ops : List LinkOp) (genExcl : List Ixn) (mods : Option (List ModTarget)) :
    pipeline protein ff (renameTables f t) (nodes.map (renameNode f)) ops genExcl mods =
      pipeline protein ff t nodes ops genExcl mods := by
  unfold pipeline
  rw [addBlocks_rename f hf]
  cases addBlocks ff t nodes with
  | error e => rfl
  | ok st =>
    simp only [Except.map, defaultTargets_rename]
    exact applyMods_rename f hf protein ff nodes st.graphs _ _

/-- **C13_relabel_full.**  The same for the whole of `MapToMolecule.run_molecule`, INCLUDING
`match_nodes_to_blocks` (the edge list of the residue graph, connected components of the `from_itp`
nodes, slicing of fragments into copies): renaming the nodes of the graph (nodes, adjacency
lists) by any injective `f` gives the same molecule and exclusion distance, the same acceptance or
rejection, and the same per-residue atom lists under the new names. -/
theorem C13_relabel_full (f : κ → κ') (hf : Injective f) (ff : FF) (g : ResGraph κ) :
    mapToMolecule ff (renameGraph f g) = (mapToMolecule ff g).map (fun r => (renameSt f r.1, r.2)) :=
  mapToMolecule_rename f hf ff g

example : (renameSt (fun k : Nat => ("node", 7 * k + 3)) ⟨⟨[], []⟩, [(3, [0, 1])], [5], []⟩).mol = ⟨[], []⟩ := rfl

example : (mapToMolecule Example.ff (renameGraph (fun k : Nat => ("node", 1000 - k))
      ⟨Example.nodes2, adjOfEdges [30, 28, 32, 31, 29] [(28, 29), (29, 30), (30, 31), (31, 32)]⟩)).toOption.map (·.1.mol) =
    (mapToMolecule Example.ff
      ⟨Example.nodes2, adjOfEdges [30, 28, 32, 31, 29] [(28, 29), (29, 30), (30, 31), (31, 32)]⟩).toOption.map (·.1.mol) := by
  decide

/-- the per-residue atom lists (`graph` attributes) are the same under the new names -/
theorem C13_relabel_graphs (f : κ → κ') (hf : Injective f) (ff : FF) (t : Tables κ) (nodes : List (ResNode κ)) :
    addBlocks ff (renameTables f t) (nodes.map (renameNode f)) = (addBlocks ff t nodes).map (renameSt f) :=
  addBlocks_rename f hf ff t nodes

example : (pipeline Tables.proteinResnames Example.ff
      (renameTables (fun k : Nat => ("node", 1000 - k)) Example.tbl)
      (Example.nodes.map (renameNode (fun k : Nat => ("node", 1000 - k)))) [] [] none).toOption =
    (pipeline Tables.proteinResnames Example.ff Example.tbl Example.nodes [] [] none).toOption := by decide

/-- the renaming of the example above on the keys that occur; `C13_relabel` itself needs injectivity
on all keys, e.g. an order-reversing pairing with a tag -/
example : Injective (fun k : Nat => ("node", 7 * k + 3)) := by
  intro a b h
  have : 7 * a + 3 = 7 * b + 3 := congrArg Prod.snd h
  omega

example (t : Tables Nat) (nodes : List (ResNode Nat)) :
    pipeline Tables.proteinResnames Example.ff (renameTables (fun k : Nat => ("node", 7 * k + 3)) t)
      (nodes.map (renameNode (fun k : Nat => ("node", 7 * k + 3)))) [] [] none =
    pipeline Tables.proteinResnames Example.ff t nodes [] [] none :=
  C13_relabel _ (by
    intro a b h
    have : 7 * a + 3 = 7 * b + 3 := congrArg Prod.snd h
    omega) _ _ _ _ _ _ _

/-! ### edge orientation -/

/-- **C13_edge_orientation.**  Reversing any subset of the residue-graph edges leaves the adjacency
lists unchanged, hence everything computed from the graph (`match_nodes_to_blocks`, the molecule). -/
theorem C13_edge_orientation (ff : FF) (nodes : List (ResNode κ)) (edges : List (κ × κ)) (flags : List Bool) :
    mapToMolecule ff ⟨nodes, adjOfEdges (nodes.map (·.key)) (reorient flags edges)⟩ =
      mapToMolecule ff ⟨nodes, adjOfEdges (nodes.map (·.key)) edges⟩ := by
  rw [adjOfEdges_reorient]

example : adjOfEdges [1, 2, 3] (reorient [true, false] [(1, 2), (3, 2)]) = adjOfEdges [1, 2, 3] [(1, 2), (3, 2)] :=
  adjOfEdges_reorient _ _ _

example : reorient [true, false] [(1, 2), (3, 2)] = [(2, 1), (3, 2)] := by decide

/-! ### order of definitions -/

/-- **C13_definition_order** (blocks and modifications).  Any reordering of the block and modification
definitions with pairwise distinct names (no two definitions of the same thing) leaves the molecule after
`MapToMolecule`, the modification stage and the specification unchanged: the model reads the force field
only through look-ups by name. -/
theorem C13_definition_order (ff ff' : FF) (hb : ff.blocks.Perm ff'.blocks) (hm : ff.mods.Perm ff'.mods)
    (hbn : (ff.blocks.map (·.name)).Nodup) (hmn : (ff.mods.map (·.name)).Nodup)
    (g : ResGraph κ) (protein : List String) (graphs : List (κ × List Nat)) (m : Mol) (targets : List ModTarget) :
    mapToMolecule ff g = mapToMolecule ff' g ∧
    applyMods protein ff g.nodes graphs m targets = applyMods protein ff' g.nodes graphs m targets ∧
    specMol ff g.nodes = specMol ff' g.nodes := by
  have he := ffEquiv_of_perm ff ff' hb hm hbn hmn
  exact ⟨mapToMolecule_congr ff ff' he.1 g, applyMods_congr protein ff ff' he g.nodes graphs m targets,
    specGo_congr ff ff' he.1 _ 0 0 0⟩

example : mapToMolecule Example.ff (⟨Example.nodes, adjOfEdges [10, 3, 5] [(3, 10), (10, 5)]⟩ : ResGraph Nat) =
    mapToMolecule ⟨[Example.mr, Example.ala, Example.gly], [Example.nter]⟩
      ⟨Example.nodes, adjOfEdges [10, 3, 5] [(3, 10), (10, 5)]⟩ :=
  (C13_definition_order Example.ff ⟨[Example.mr, Example.ala, Example.gly], [Example.nter]⟩
    (by decide) (by decide) (by decide) (by decide) _ [] [] ⟨[], []⟩ []).1

/-- **C13_definition_order_links.**  Any reordering of the link applications (hence of the link
definitions and of the files that hold them) whose interactions have pairwise distinct keys — no two of
them define the same interaction — gives the same MULTISET of interactions (`List.Perm`); the atoms are
untouched by interaction inserts.  Block interactions overridden by a link are overridden in every order. -/
theorem C13_definition_order_links (m : Mol) (ops ops' : List LinkOp) (genExcl : List Ixn) (hp : ops.Perm ops')
    (hblock : (m.ixns.map keyOf).Nodup) (hins : ((insertedIxns ops).map keyOf).Nodup)
    (hnorem : removedNodes ops = []) :
    (applyLinks m ops genExcl).ixns.Perm (applyLinks m ops' genExcl).ixns :=
  applyLinks_perm m ops ops' genExcl hp hblock hins hnorem

example : (applyLinks ⟨[], [⟨"bonds", [0, 1], ["1"], []⟩]⟩
      [.insert ⟨"bonds", [1, 2], ["2"], []⟩, .insert ⟨"bonds", [0, 1], ["9"], []⟩] []).ixns.Perm
    (applyLinks ⟨[], [⟨"bonds", [0, 1], ["1"], []⟩]⟩
      [.insert ⟨"bonds", [0, 1], ["9"], []⟩, .insert ⟨"bonds", [1, 2], ["2"], []⟩] []).ixns :=
  C13_definition_order_links _ _ _ _ (List.Perm.swap _ _ _) (by decide) (by decide) (by decide)

/-! ### history -/

/-- one `gen_params` call: the files' content (as a force field), the residue graph, the link operations
the matcher produces for them, the `-mods` selection -/
structure Call (κ : Type) where
  ff : FF
  graph : ResGraph κ
  ops : List LinkOp
  genExcl : List Ixn
  mods : Option (List ModTarget)

/-- what one call computes from its own arguments -/
def genParams (protein : List String) (c : Call κ) : Except String (Mol × Nat) :=
  match mapToMolecule c.ff c.graph with
  | .error e => .error e
  | .ok (st, nrexcl) =>
    match applyMods protein c.ff c.graph.nodes st.graphs (applyLinks st.mol c.ops c.genExcl)
        (c.mods.getD (defaultTargets c.graph.nodes)) with
    | .error e => .error e
    | .ok m => .ok (m, nrexcl)

/-- The process state earlier calls leave behind: the force-field objects they loaded, with the in-place
changes `tag_exclusions` made to them (`nrexcl` of every block lowered to the minimum). -/
def tagged (ff : FF) : FF :=
  match ff.blocks.map (·.nrexcl) with
  | [] => ff
  | x :: xs => { ff with blocks := ff.blocks.map fun b => { b with nrexcl := xs.foldl min x } }

/-- `gen_params` in a process: it loads a FRESH force field from its files (gen_itp.py:91,
`load_ff_library(name, lib, inpath)` — the anchor is re-checked against the source on every run,
obligation `anchor:fresh-force-field-per-call`), so the state is only appended to, never read. -/
def genParamsIn (protein : List String) (state : List FF) (c : Call κ) :
    List FF × Except String (Mol × Nat) :=
  (state ++ [tagged c.ff], genParams protein c)

/-- run a sequence of calls in one process, collecting the results -/
def runAll (protein : List String) : List FF → List (Call κ) → List (Except String (Mol × Nat))
  | _, [] => []
  | s, c :: rest => (genParamsIn protein s c).2 :: runAll protein (genParamsIn protein s c).1 rest

/-- **C13_history.**  `gen_params` is a function of its arguments: after ANY sequence of earlier calls
(valid or failing), from any initial process state, a call returns what it returns in a fresh process;
in particular repeating a call repeats its result. -/
theorem C13_history (protein : List String) (state : List FF) (pre : List (Call κ)) (c : Call κ) :
    (runAll protein state (pre ++ [c])).getLast? = some (genParams protein c) := by
  induction pre generalizing state with
  | nil => simp [runAll, genParamsIn]
  | cons p rest ih =>
    simp only [List.cons_append, runAll]
    have := ih (genParamsIn protein state p).1
    cases hr : runAll protein (genParamsIn protein state p).1 (rest ++ [c]) with
    | nil => simp [hr] at this
    | cons x xs => rw [List.getLast?_cons_cons, ← hr]; exact this

example : (runAll Tables.proteinResnames []
    [(⟨Example.ff, ⟨Example.nodes, []⟩, [], [], none⟩ : Call Nat),
     ⟨⟨[], []⟩, ⟨[], []⟩, [], [], none⟩,
     ⟨Example.ff, ⟨Example.nodes, []⟩, [], [], none⟩]).getLast? =
    some (genParams Tables.proteinResnames ⟨Example.ff, ⟨Example.nodes, []⟩, [], [], none⟩) :=
  C13_history _ [] [_, _] _

section LoadLibrary
open PolyplyVerif.LoadLibrary PolyplyVerif.LibraryTables

/-! ### input files: which parser, which order (`load_library.py`) -/

/-- **C13_parser_table** (about the tables TRANSLATED from load_library.py on every run).  A force-field file is
read by the parser its suffix names — `.rtp` by `read_rtp`, `.ff` by `read_ff`, `.itp` by `read_polyply`,
`.bib` by `read_bib`, build files `.bld` by `read_build_file` — no suffix is listed twice (the dispatch is a
function whatever the order of the table), the suffix is taken without its dot, `paths` is
`[library files, user files]`, and the loop visits the user files before the library files. -/
theorem C13_parser_table :
    forceFieldParsers.Perm [("rtp", "read_rtp"), ("ff", "read_ff"), ("itp", "read_polyply"), ("bib", "read_bib")] ∧
    (forceFieldParsers.map (·.1)).Nodup ∧
    buildFileParsers = [("bld", "read_build_file")] ∧
    suffixDrop = 1 ∧ pathsUnpack = ["lib_files", "user_files"] ∧ readOrder = ["user_files", "lib_files"] := by
  decide

example : lookup forceFieldParsers "itp" = some "read_polyply" ∧ lookup forceFieldParsers "gro" = none := by decide

/-- **C13_read_order.**  `read_options_from_files([lib, user], …)` for ANY lists of files and ANY parser table:
it raises iff some file that is not (also) a library file has a suffix the table does not know — then the
exception names such a file — and otherwise parses exactly the files whose suffix the table knows, each with
the parser of its suffix, the user files first, then the library files, each group in the given order;
library files with other suffixes are skipped. -/
theorem C13_read_order (parsers : List (String × String)) (lib user : List File) :
    ((∀ f ∈ user ++ lib, ¬ Rejected parsers (lib, user) f) →
      readOptions parsers (lib, user) = .ok ((user ++ lib).filterMap (callOf parsers))) ∧
    ((∃ f ∈ user ++ lib, Rejected parsers (lib, user) f) →
      ∃ g ∈ user ++ lib, Rejected parsers (lib, user) g ∧ readOptions parsers (lib, user) = .error g.path) :=
  ⟨readOptions_ok parsers lib user, fun ⟨f, hf, hr⟩ => readOptions_error parsers lib user f hf hr⟩

/-- two user files and a library with a `.ff`, a `.bld` and a `README` -/
def exUser : List File := [⟨"u/a.itp", ".itp"⟩, ⟨"u/b.ff", ".ff"⟩]
def exLib : List File := [⟨"lib/x.ff", ".ff"⟩, ⟨"lib/x.bld", ".bld"⟩, ⟨"lib/README", ""⟩]

example : (readOptions forceFieldParsers (exLib, exUser)).toOption =
    some [("read_polyply", "u/a.itp"), ("read_ff", "u/b.ff"), ("read_ff", "lib/x.ff")] ∧
    (readOptions forceFieldParsers (exLib, exUser ++ [⟨"u/c.gro", ".gro"⟩])).toOption = none := by
  decide

/-- **C13_file_order.**  Permuting the user files among themselves and the library files among themselves
(the order of `-f` arguments, the order in which the OS lists a library directory) changes neither
acceptance nor the MULTISET of parse calls. -/
theorem C13_file_order (parsers : List (String × String)) (lib lib' user user' : List File)
    (hl : lib.Perm lib') (hu : user.Perm user') :
    match readOptions parsers (lib, user), readOptions parsers (lib', user') with
    | .ok cs, .ok cs' => cs.Perm cs'
    | .error _, .error _ => True
    | _, _ => False := by
  have hperm : (user ++ lib).Perm (user' ++ lib') := hu.append hl
  by_cases h : ∀ f ∈ user ++ lib, ¬ Rejected parsers (lib, user) f
  · have h' : ∀ f ∈ user' ++ lib', ¬ Rejected parsers (lib', user') f := by
      intro f hf hr
      exact h f (hperm.mem_iff.mpr hf) ((rejected_perm parsers lib lib' user user' hl f).mpr hr)
    rw [readOptions_ok parsers lib user h, readOptions_ok parsers lib' user' h']
    exact hperm.filterMap _
  · have hex : ∃ f, f ∈ user ++ lib ∧ Rejected parsers (lib, user) f := by
      apply Classical.byContradiction
      intro hne
      exact h (fun f hf hr => hne ⟨f, hf, hr⟩)
    obtain ⟨f, hf, hr⟩ := hex
    obtain ⟨g, _, _, he⟩ := readOptions_error parsers lib user f hf hr
    obtain ⟨g', _, _, he'⟩ := readOptions_error parsers lib' user' f (hperm.mem_iff.mp hf)
      ((rejected_perm parsers lib lib' user user' hl f).mp hr)
    rw [he, he']
    trivial

example : (readOptions forceFieldParsers (exLib.reverse, exUser.reverse)).toOption =
    some [("read_ff", "u/b.ff"), ("read_polyply", "u/a.itp"), ("read_ff", "lib/x.ff")] := by decide

/-- **C13_definitions_file_order.**  If no two of the files that are read define the same name, every
permutation of the parse calls (hence of the input files, `C13_file_order`) leaves the same definition under
every name in the storage; and in general the definition kept under a name is the LAST one in reading order
(so a library file overrides a user file that defines the same name — user files are read first). -/
theorem C13_definitions_file_order {δ : Type} (defs : String → List (String × δ)) (calls calls' : List (String × String))
    (k : String) :
    Links.lookupKV (storage defs calls) k = Links.lastFor (calls.flatMap (fun c => defs c.2)) k ∧
    (calls.Perm calls' → ((calls.flatMap (fun c => defs c.2)).map (·.1)).Nodup →
      Links.lookupKV (storage defs calls) k = Links.lookupKV (storage defs calls') k) :=
  ⟨storage_lookup defs calls k, fun hp hk => storage_perm defs calls calls' hp hk k⟩

example : Links.lookupKV (storage (fun p => if p == "u/a.itp" then [("PEO", 1)] else if p == "lib/x.ff" then [("PEO", 2), ("PS", 3)] else [])
    [("read_polyply", "u/a.itp"), ("read_ff", "lib/x.ff")]) "PEO" = some 2 := by decide

end LoadLibrary

end PolyplyVerif.C13
