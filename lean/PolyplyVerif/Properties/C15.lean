/-
C15 — One centred template and size per distinct residue; user values win.

Statement (properties.jsonl, fixed):
  "Residues whose atom-name-labelled bond graphs are isomorphic share one template and size while residues
   with different atom names get different ones; each template holds one position per atom name with zero
   centre of geometry, virtual sites sit where GROMACS constructs them from their defining atoms, and a
   template reported as optimised meets its bond, constraint, angle and improper targets within tolerance.
   Templates and sizes supplied in a build file are used unchanged in place of generated ones, and every
   size is positive."

Property theorems only; lemmas live in `Proofs/Templates.lean` (and `Proofs/Rotation.lean`, shared with C06).
The tables `TemplateTables.weights / tolerance / vsTable` are regenerated from `minimizer.py` and
`virtual_site_builder.py` on every run, so the table facts below are re-established against the current
source.

ORACLES (parameters of the model, not verified — DESIGN.md C15 "Partial"):
  * the Weisfeiler–Lehman graph hash `h` (networkx): assumed equal on isomorphic atom-name-labelled graphs
    and different for different atom-name multisets — both assumptions appear as explicit hypotheses;
  * Kamada–Kawai layout + L-BFGS-B optimisation + `compute_volume`'s square root: the function `gen`
    (every theorem holds for every `gen`), and the measured values handed to `verdict`;
  * the Euclidean norm `nrm` in the virtual-site constructions (any function; a square root where a
    distance statement needs it).
-/
import PolyplyVerif.Generated.TemplateTables
import PolyplyVerif.Model.Templates
import PolyplyVerif.Proofs.Templates

namespace PolyplyVerif.C15
open PolyplyVerif.Rot PolyplyVerif.Templ PolyplyVerif.Proofs.Rotation PolyplyVerif.Proofs.Templates

variable {K : Type} [Field K] {G : Type}

/-! ### sharing -/

/-- Sharing.  After `GenerateTemplates.run_system` (default grouping) the `template` attribute of every
residue IS the hash of its graph, and the one final `templates` dict and the one `volumes` dict both have an
entry under it.  Consequently (i) residues with isomorphic graphs — `h` is equal on them — carry the same
key, hence share one template and one size; (ii) residues whose atom names differ — `h` differs on them —
carry different keys.  Holds for every generator `gen`, every molecule mix, every build-file state
`st0` in which templated keys have sizes. -/
theorem C15_sharing (h : G → String) (gen : String → G → Generated K) (ms : List (Mol G K))
    (st0 fin : GTState K) (attrs : List (List String))
    (hinv : ∀ k, st0.templates.has k = true → st0.volumes.has k = true)
    (huser : ∀ m ∈ ms, ∀ k, (m.userTemplates.getD []).has k = true → st0.volumes.has k = true)
    (hrun : runSystem h gen false st0 ms = some (fin, attrs)) :
    attrs = ms.map (fun m => m.nodes.map (fun n => h n.graph)) ∧
    (∀ m ∈ ms, ∀ n ∈ m.nodes, fin.templates.has (h n.graph) = true ∧ fin.volumes.has (h n.graph) = true) ∧
    (∀ (iso : G → G → Prop), (∀ a b, iso a b → h a = h b) →
      ∀ m₁ ∈ ms, ∀ n₁ ∈ m₁.nodes, ∀ m₂ ∈ ms, ∀ n₂ ∈ m₂.nodes, iso n₁.graph n₂.graph →
        h n₁.graph = h n₂.graph ∧
        fin.templates.get? (h n₁.graph) = fin.templates.get? (h n₂.graph) ∧
        fin.volumes.get? (h n₁.graph) = fin.volumes.get? (h n₂.graph)) ∧
    (∀ (names : G → List String), (∀ a b, names a ≠ names b → h a ≠ h b) →
      ∀ m₁ ∈ ms, ∀ n₁ ∈ m₁.nodes, ∀ m₂ ∈ ms, ∀ n₂ ∈ m₂.nodes, names n₁.graph ≠ names n₂.graph →
        h n₁.graph ≠ h n₂.graph) := by
  obtain ⟨c1, _, _, _, c5⟩ := runSystem_covers h gen ms st0 fin attrs hinv huser hrun
  refine ⟨c1, c5, ?_, ?_⟩
  · intro iso hiso m₁ _ n₁ _ m₂ _ n₂ _ hi
    have e := hiso _ _ hi
    exact ⟨e, by rw [e], by rw [e]⟩
  · intro names hn m₁ _ n₁ _ m₂ _ n₂ _ hne
    exact hn _ _ hne

/-- … and the hypotheses of `C15_sharing` are what a build file establishes: after `read_build_file`
(any sequence of `[ template ]` / `[ volumes ]` blocks) every supplied template has a size, so a run that
starts from a fresh `GenerateTemplates` on molecules that all carry the build file's templates covers every
residue. -/
theorem C15_sharing_after_build_file (h : G → String) (gen : String → G → Generated K) (vols0 : Dict K)
    (ops : List (BfOp K)) (nodes : List (List (ResNode G))) (fin : GTState K) (attrs : List (List String))
    (hrun : runSystem h gen false ⟨[], (readBuildFile vols0 ops).1⟩
      (nodes.map fun ns => ⟨ns, some (readBuildFile vols0 ops).2⟩) = some (fin, attrs)) :
    attrs = nodes.map (fun ns => ns.map (fun n => h n.graph)) ∧
    ∀ ns ∈ nodes, ∀ n ∈ ns, fin.templates.has (h n.graph) = true ∧ fin.volumes.has (h n.graph) = true := by
  obtain ⟨c1, c2, _, _⟩ := C15_sharing h gen _ _ fin attrs
    (fun k hk => by simp [Dict.has, Dict.get?] at hk)
    (fun m hm k hk => by
      simp only [List.mem_map] at hm
      obtain ⟨ns, _, rfl⟩ := hm
      exact readBuildFile_sizes vols0 ops k (by simpa using hk))
    hrun
  refine ⟨by simpa [List.map_map, Function.comp_def] using c1, ?_⟩
  intro ns hns n hn
  exact c2 ⟨ns, some (readBuildFile vols0 ops).2⟩ (List.mem_map_of_mem hns) n hn

/-- non-vacuity: a build file with one template and a size for its residue name, two residues -/
example :
    let gen : String → String → Generated Rat := fun _ _ => ⟨[("A", ⟨1, 0, 0⟩)], 1/2, "RB"⟩
    let bf := readBuildFile ([] : Dict Rat) [.volume "RA" (3/4), .template "RA" "x" [("A", ⟨2, 2, 2⟩)] (1/3)]
    bf.1.get? "x" = some (3/4) ∧
    (runSystem (fun g => g) gen false ⟨[], bf.1⟩ ([[⟨"RA", "x"⟩, ⟨"RB", "y"⟩]].map fun ns => ⟨ns, some bf.2⟩)).map
      (fun r => (r.2, r.1.volumes.get? "x", r.1.volumes.get? "y")) = some ([["x", "y"]], some (3/4), some (1/2)) := by
  simp [readBuildFile, BfState.step, rekeyVolumes, rekeyPairs, r2hPairs, runSystem, runMolecule, extractTemplateGraphs,
    groupResiduesByHash, genTemplates, Dict.has, Dict.get?, Dict.set, Dict.update, mapFromCoG]

/-- With `skip_filter` the attributes are the hashes as well. -/
theorem C15_sharing_attrs (h : G → String) (gen : String → G → Generated K) (sf : Bool) (ms : List (Mol G K))
    (st0 fin : GTState K) (attrs : List (List String)) (hrun : runSystem h gen sf st0 ms = some (fin, attrs)) :
    attrs = ms.map (fun m => m.nodes.map (fun n => h n.graph)) :=
  runSystem_attrs h gen sf ms st0 fin attrs hrun

example :
    let gen : String → String → Generated Rat := fun _ _ => ⟨[("A", ⟨1, 0, 0⟩)], 1/2, "RA"⟩
    (runSystem (fun g => g) gen true ⟨[], []⟩ [⟨[⟨"RA", "x"⟩, ⟨"RA", "x"⟩], none⟩]).map (·.2) = some [["x", "x"]] := by
  simp [runSystem, runMolecule, extractTemplateGraphs, extractSkipFilter, genTemplates, Dict.has, Dict.get?,
    Dict.set, Dict.del, Dict.update]

/-- non-vacuity: two molecules, residues with hashes "x","y","x"; everything generated -/
example :
    let gen : String → String → Generated Rat := fun gh _ => ⟨[("A", ⟨1, 0, 0⟩), ("B", ⟨3, 0, 0⟩)], 1/2, "R" ++ gh⟩
    let ms : List (Mol String Rat) := [⟨[⟨"RA", "x"⟩, ⟨"RB", "y"⟩], none⟩, ⟨[⟨"RA", "x"⟩], none⟩]
    (runSystem (fun g => g) gen false ⟨[], []⟩ ms).map (·.2) = some [["x", "y"], ["x"]] := by
  simp [runSystem, runMolecule, extractTemplateGraphs, groupResiduesByHash, genTemplates, Dict.has, Dict.get?,
    Dict.set, Dict.update]

/-! ### user values win -/

/-- User templates win.  When the build file's templates `U` were handed to the molecules
(`BuildDirector.finalize` gives every molecule the same dict), the final `templates` hold, under every key of
`U`, exactly `U`'s value: nothing is generated for such a key and nothing overwrites it. -/
theorem C15_user_wins (h : G → String) (gen : String → G → Generated K) (sf : Bool)
    (U : Dict (Template K)) (hnd : U.keys.Nodup) (ms : List (Mol G K)) (hne : ms ≠ [])
    (hU : ∀ m ∈ ms, m.userTemplates = some U)
    (st0 fin : GTState K) (attrs : List (List String)) (hrun : runSystem h gen sf st0 ms = some (fin, attrs)) :
    ∀ k T, U.get? k = some T → fin.templates.get? k = some T :=
  runSystem_user_templates h gen sf U hnd ms hne hU st0 fin attrs hrun

example :
    let gen : String → String → Generated Rat := fun _ _ => ⟨[("A", ⟨9, 9, 9⟩)], 7, "RA"⟩
    let U : Dict (Template Rat) := [("x", [("A", ⟨0, 0, 0⟩)])]
    ((runSystem (fun g => g) gen false ⟨[], [("x", 1/3)]⟩ [⟨[⟨"RA", "x"⟩, ⟨"RB", "y"⟩], some U⟩]).map
      (fun r => (r.1.templates.get? "x", r.1.volumes.get? "x", r.1.volumes.get? "y")))
      = some (some [("A", ⟨0, 0, 0⟩)], some (1/3), some 7) := by
  simp [runSystem, runMolecule, extractTemplateGraphs, groupResiduesByHash, genTemplates, Dict.has, Dict.get?,
    Dict.set, Dict.update]

/-- User sizes win.
(1) `BuildDirector.finalize`: a `[ volumes ]` size of a residue name reaches the hash of EVERY user template
    of that name (`r2hPairs`: all (name, hash) pairs) and stays available under the name (hypotheses: no template hash of the build file is also
    one of its residue names; templates of other names with the same hash do not carry a different size).
(2) `gen_templates`: when a template is generated for a hash whose residue name has a size, that size is
    stored for the hash (the computed one only otherwise) — and the stored template is the centred one.
(3) A size stored under a key that has a template is never changed by `run_system`. -/
theorem C15_user_wins_size :
    (∀ (vols : Dict K) (r2h : Dict (List String)),
      (∀ rh ∈ r2hPairs r2h, ∀ rh' ∈ r2hPairs r2h, rh.2 ≠ rh'.1) →
      (∀ rh ∈ r2hPairs r2h, (rekeyVolumes vols r2h).get? rh.1 = vols.get? rh.1) ∧
      (∀ rh ∈ r2hPairs r2h, ∀ v, vols.get? rh.1 = some v →
        (∀ rh' ∈ r2hPairs r2h, rh'.2 = rh.2 → vols.get? rh'.1 = some v ∨ vols.get? rh'.1 = none) →
        (rekeyVolumes vols r2h).get? rh.2 = some v)) ∧
    (∀ (gen : String → G → Generated K) (st st' : GTState K) (gh : String) (g : G)
        (rest : List (String × Option G)),
      st.templates.has gh = false → genTemplates gen st ((gh, some g) :: rest) = some st' →
      (∀ v, st.volumes.get? (gen gh g).resname = some v → st'.volumes.get? gh = some v) ∧
      (st.volumes.get? (gen gh g).resname = none → st'.volumes.get? gh = some (gen gh g).volume)) ∧
    (∀ (h : G → String) (gen : String → G → Generated K) (sf : Bool) (ms : List (Mol G K))
        (st fin : GTState K) (attrs : List (List String)),
      runSystem h gen sf st ms = some (fin, attrs) →
      ∀ k, st.templates.has k = true → fin.volumes.get? k = st.volumes.get? k) := by
  refine ⟨fun vols r2h hd => rekeyPairs_spec vols (r2hPairs r2h) hd, ?_, ?_⟩
  · intro gen st st' gh g rest hnew hrun
    exact ⟨fun v hv => (genTemplates_user_volume gen st st' gh g rest v hnew hv hrun).1,
           fun hv => genTemplates_own_volume gen st st' gh g rest hnew hv hrun⟩
  · intro h gen sf ms st fin attrs hrun k hk
    exact runSystem_size_fixed h gen sf ms st fin attrs hrun k hk

example : (rekeyVolumes ([("RA", (77 : Rat) / 100)] : Dict Rat) [("RA", ["hashA", "hashB"])]).get? "hashA" = some (77 / 100) ∧
    (rekeyVolumes ([("RA", (77 : Rat) / 100)] : Dict Rat) [("RA", ["hashA", "hashB"])]).get? "hashB" = some (77 / 100) ∧
    (rekeyVolumes ([("RA", (77 : Rat) / 100)] : Dict Rat) [("RA", ["hashA", "hashB"])]).get? "RA" = some (77 / 100) := by
  simp [rekeyVolumes, rekeyPairs, r2hPairs, Dict.get?, Dict.set]

/-! ### templates are centred, one entry per atom name -/

/-- `map_from_CoG` keeps the keys (one entry per atom name, same order) and returns vectors that sum to zero,
i.e. a template with zero centre of geometry (field of characteristic 0, non-empty residue). -/
theorem C15_template_centred [CharZero K] (coords : Template K) (hne : coords ≠ []) :
    (mapFromCoG coords).map (·.1) = coords.map (·.1) ∧
    V3.sum ((mapFromCoG coords).map (·.2)) = 0 ∧
    centerOfGeometry ((mapFromCoG coords).map (·.2)) = 0 := by
  refine ⟨mapFromCoG_keys coords, mapFromCoG_sum coords hne, ?_⟩
  unfold centerOfGeometry
  rw [mapFromCoG_sum coords hne]
  ext <;> simp [sdiv_x, sdiv_y, sdiv_z, zero_x, zero_y, zero_z]

example : mapFromCoG ([("A", ⟨1, 0, 0⟩), ("B", ⟨3, 0, 6⟩)] : Template Rat)
    = [("A", ⟨-1, 0, -3⟩), ("B", ⟨1, 0, 3⟩)] := by
  simp [mapFromCoG, centerOfGeometry, V3.sum, V3.add, V3.zero]
  refine ⟨?_, ?_⟩ <;> ext <;> simp [sub_x, sub_y, sub_z, sdiv_x, sdiv_y, sdiv_z] <;> norm_num

/-! ### virtual sites -/

/-- Affine constructions (`virtual_sites2`, `virtual_sites3` type 1, `virtual_sitesn` type 1): what the code
computes (`np.average` with weights) is exactly the GROMACS weighting `(1−a, a)`, `(1−a−b, a, b)`, `1/N`, and
the construction commutes with EVERY affine map `x ↦ A·x + t`. -/
theorem C15_vs_affine [CharZero K] (A : M3 K) (t : V3 K) (a b : K) (ri rj rk : V3 K) (xs : List (V3 K))
    (hne : xs ≠ []) :
    (vs2 a ri rj = gmx2 a ri rj ∧ vs3 a b ri rj rk = gmx3 a b ri rj rk ∧ vsn1 xs = gmxCog xs) ∧
    vs2 a (aff A t ri) (aff A t rj) = aff A t (vs2 a ri rj) ∧
    vs3 a b (aff A t ri) (aff A t rj) (aff A t rk) = aff A t (vs3 a b ri rj rk) ∧
    vsn1 (xs.map (aff A t)) = aff A t (vsn1 xs) := by
  refine ⟨⟨vs2_eq a ri rj, vs3_eq a b ri rj rk, vsn1_eq xs⟩, ?_, ?_, ?_⟩
  · rw [vs2_eq, vs2_eq, gmx2_aff]
  · rw [vs3_eq, vs3_eq, gmx3_aff]
  · rw [vsn1_eq, vsn1_eq, gmxCog_aff A t xs hne]

example : vs2 (1/4 : Rat) ⟨0, 0, 0⟩ ⟨4, 8, 0⟩ = ⟨1, 2, 0⟩ := by
  rw [vs2_eq]; ext <;> simp [gmx2, add_x, add_y, add_z, smul_x, smul_y, smul_z] <;> norm_num

/-- Normalised constructions (3fd, 3fad, 3out, 4fdn): the code's expression is the GROMACS formula, and the
construction commutes with every rigid motion `x ↦ R·x + t`, `R` a proper rotation (C06's lemmas: norms, dot
and cross products are preserved), whatever function `nrm` stands for the norm. -/
theorem C15_vs_rigid (R : M3 K) (hR : Proper R) (t : V3 K) (nrm : K → K) (a b c : K) (ri rj rk rl : V3 K) :
    (vs3fd nrm a b ri rj rk = gmx3fd nrm a b ri rj rk ∧ vs3fad nrm a b c ri rj rk = gmx3fad nrm a b c ri rj rk ∧
     vs3out a b c ri rj rk = gmx3out a b c ri rj rk ∧ vs4fdn nrm a b c ri rj rk rl = gmx4fdn nrm a b c ri rj rk rl) ∧
    vs3fd nrm a b (aff R t ri) (aff R t rj) (aff R t rk) = aff R t (vs3fd nrm a b ri rj rk) ∧
    vs3fad nrm a b c (aff R t ri) (aff R t rj) (aff R t rk) = aff R t (vs3fad nrm a b c ri rj rk) ∧
    vs3out a b c (aff R t ri) (aff R t rj) (aff R t rk) = aff R t (vs3out a b c ri rj rk) ∧
    vs4fdn nrm a b c (aff R t ri) (aff R t rj) (aff R t rk) (aff R t rl)
      = aff R t (vs4fdn nrm a b c ri rj rk rl) := by
  refine ⟨⟨vs3fd_eq .., vs3fad_eq .., vs3out_eq .., vs4fdn_eq ..⟩, ?_, ?_, ?_, ?_⟩
  · rw [vs3fd_eq, vs3fd_eq, gmx3fd_rigid hR]
  · rw [vs3fad_eq, vs3fad_eq, gmx3fad_rigid hR]
  · rw [vs3out_eq, vs3out_eq, gmx3out_rigid hR]
  · rw [vs4fdn_eq, vs4fdn_eq, gmx4fdn_rigid hR]

/-- non-vacuity: a proper rotation exists (C06) and 3out of an orthonormal frame is computed -/
example : Proper (rotMat (⟨3/5, 4/5, 5/13, 12/13, 8/17, 15/17⟩ : Angles Rat)) ∧
    vs3out (1 : Rat) 1 2 ⟨0, 0, 0⟩ ⟨1, 0, 0⟩ ⟨0, 1, 0⟩ = ⟨1, 1, 2⟩ := by
  refine ⟨rotMat_proper _ (by norm_num) (by norm_num) (by norm_num), ?_⟩
  ext <;> simp [vs3out, V3.cross, add_x, add_y, add_z, sub_x, sub_y, sub_z, smul_x, smul_y, smul_z]

/-- With a genuine square root for `nrm`, a 3fd site lies at distance `|b|` from atom i. -/
theorem C15_vs_3fd_distance (nrm : K → K) (a b : K) (ri rj rk : V3 K)
    (hn : nrm (V3.normSq ((rj - ri) + V3.smul a (rk - rj))) * nrm (V3.normSq ((rj - ri) + V3.smul a (rk - rj)))
      = V3.normSq ((rj - ri) + V3.smul a (rk - rj)))
    (h0 : nrm (V3.normSq ((rj - ri) + V3.smul a (rk - rj))) ≠ 0) :
    V3.normSq (vs3fd nrm a b ri rj rk - ri) = b * b := by
  rw [vs3fd_eq]; exact gmx3fd_dist nrm a b ri rj rk hn h0

example : (fun q : Rat => if q = 25 then 5 else 0) (V3.normSq (((⟨3, 4, 0⟩ : V3 Rat) - ⟨0, 0, 0⟩) +
    V3.smul 0 ((⟨9, 9, 9⟩ : V3 Rat) - ⟨3, 4, 0⟩))) = 5 := by
  simp [V3.normSq, V3.dot, add_x, add_y, add_z, sub_x, sub_y, sub_z, smul_x, smul_y, smul_z]; norm_num

/-- The dispatch table of the code against the GROMACS definitions — PARTIAL: for every `(section, function
type)` of the GROMACS manual EXCEPT `virtual_sitesn` types 2 (COM) and 3 (COW), whenever the GROMACS
construction is defined for the given arity, `construct_vs` through the current `VIRTUAL_SITES` table
computes exactly it.  What is missing for the full statement is refuted below
(`C15_vsn_com_built_as_cog`): the table maps `virtual_sitesn` 2 and 3 to the plain centre of geometry
(known finding `vsn-com-as-cog`). -/
theorem C15_vs_gromacs_partial (nrm : K → K) (vsType func : String) (params masses : List K) (xs : List (V3 K))
    (v : V3 K) (hnot : ¬ (vsType = "virtual_sitesn" ∧ (func = "2" ∨ func = "3")))
    (hg : gmxConstruct nrm vsType func params masses xs = some v) :
    constructVS TemplateTables.vsTable nrm vsType func params xs = some v := by
  unfold gmxConstruct at hg
  split at hg
  all_goals first
    | exact absurd ⟨rfl, Or.inl rfl⟩ hnot
    | exact absurd ⟨rfl, Or.inr rfl⟩ hnot
    | (simp only [Option.some.injEq] at hg; subst hg;
       simp [constructVS, TemplateTables.vsTable, List.find?, constructByName,
         vs2_eq, vs3_eq, vs3fd_eq, vs3fad_eq, vs3out_eq, vs4fdn_eq, vsn1_eq])
    | (simp at hg)

example : gmxConstruct (fun q : Rat => q) "virtual_sites3" "4" [1, 1, 2] [] [⟨0, 0, 0⟩, ⟨1, 0, 0⟩, ⟨0, 1, 0⟩]
    = some (gmx3out 1 1 2 ⟨0, 0, 0⟩ ⟨1, 0, 0⟩ ⟨0, 1, 0⟩) := rfl

/-- The excluded case is a real difference (known finding `vsn-com-as-cog`): for `virtual_sitesn` type 2 with
masses 3 : 1 on the points 0 and 4 the code's table yields the centre of geometry 2, GROMACS the centre of
mass 1. -/
theorem C15_vsn_com_built_as_cog :
    constructVS TemplateTables.vsTable (fun q : Rat => q) "virtual_sitesn" "2" [] [⟨0, 0, 0⟩, ⟨4, 0, 0⟩]
      = some ⟨2, 0, 0⟩ ∧
    gmxConstruct (fun q : Rat => q) "virtual_sitesn" "2" [] [3, 1] [⟨0, 0, 0⟩, ⟨4, 0, 0⟩] = some ⟨1, 0, 0⟩ := by
  constructor
  · simp [constructVS, TemplateTables.vsTable, List.find?, constructByName, vsn1_eq, gmxCog, V3.sum, V3.add, V3.zero]
    ext <;> simp [smul_x, smul_y, smul_z] <;> norm_num
  · simp [gmxConstruct, gmxWeighted, V3.sum, V3.add, V3.zero, V3.smul]
    norm_num

/-! ### the optimisation verdict -/

/-- Table facts (re-established against the current `WEIGHTS`, `tolerance`, `INTER_METHODS` and the penalty
functions on every run): for each of the four interaction types the weight its penalty function multiplies
with is positive and not smaller than the weight of the threshold (`compute_bond` uses `WEIGHTS["bonds"]` for
constraints as well, the threshold uses `WEIGHTS["constraints"]`), and the tolerance is non-negative. -/
theorem C15_tables_positive :
    ∀ k ∈ ["bonds", "constraints", "angles", "dihedrals"],
      0 < penaltyWeight TemplateTables.weights TemplateTables.interMethods TemplateTables.penaltyWeightKey k ∧
      lookupD TemplateTables.weights k
        ≤ penaltyWeight TemplateTables.weights TemplateTables.interMethods TemplateTables.penaltyWeightKey k ∧
      0 ≤ lookupD TemplateTables.tolerance k := by
  have hkey : ∀ k ∈ ["bonds", "constraints", "angles", "dihedrals"],
      penaltyKey TemplateTables.interMethods TemplateTables.penaltyWeightKey k
        ∈ ["bonds", "constraints", "angles", "dihedrals"] := by decide
  have hpos : ∀ k ∈ ["bonds", "constraints", "angles", "dihedrals"],
      0 < lookupD TemplateTables.weights k ∧ 0 ≤ lookupD TemplateTables.tolerance k := by
    intro k hk
    simp only [List.mem_cons, List.mem_nil_iff, or_false] at hk
    rcases hk with rfl | rfl | rfl | rfl <;>
      simp [lookupD, Dict.get?, TemplateTables.weights, TemplateTables.tolerance]
  have hle : ∀ k ∈ ["bonds", "constraints", "angles", "dihedrals"],
      lookupD TemplateTables.weights k
        ≤ lookupD TemplateTables.weights (penaltyKey TemplateTables.interMethods TemplateTables.penaltyWeightKey k) := by
    intro k hk
    simp only [List.mem_cons, List.mem_nil_iff, or_false] at hk
    rcases hk with rfl | rfl | rfl | rfl
    · rw [show penaltyKey TemplateTables.interMethods TemplateTables.penaltyWeightKey "bonds" = "bonds" by decide]
    · rw [show penaltyKey TemplateTables.interMethods TemplateTables.penaltyWeightKey "constraints" = "bonds" by decide]
      simp [lookupD, Dict.get?, TemplateTables.weights]
    · rw [show penaltyKey TemplateTables.interMethods TemplateTables.penaltyWeightKey "angles" = "angles" by decide]
    · rw [show penaltyKey TemplateTables.interMethods TemplateTables.penaltyWeightKey "dihedrals" = "dihedrals" by decide]
  intro k hk
  exact ⟨(hpos _ (hkey k hk)).1, hle k hk, (hpos k hk).2⟩

/-- A template reported as optimised meets its targets: if the verdict loop of `optimize_geometry` (current
`WEIGHTS`, current default `tolerance`, current penalty functions) returns `True` for the measured values,
then every bond, constraint, angle and improper dihedral is within its tolerance
(`|value − target| ≤ tol`), for interaction lists of any length. -/
theorem C15_optimised_within_tol (items : List Item)
    (hk : ∀ it ∈ items, it.kind ∈ ["bonds", "constraints", "angles", "dihedrals"])
    (h : verdict TemplateTables.weights TemplateTables.tolerance TemplateTables.interMethods
      TemplateTables.penaltyWeightKey items = true) :
    withinTolerance TemplateTables.tolerance items = true ∧
    ∀ it ∈ items, ¬ (it.kind = "dihedrals" ∧ it.improper = false) →
      |it.value - it.target| ≤ lookupD TemplateTables.tolerance it.kind := by
  have hw := verdict_within TemplateTables.weights TemplateTables.tolerance TemplateTables.interMethods
    TemplateTables.penaltyWeightKey items (fun it hit => C15_tables_positive it.kind (hk it hit)) h
  refine ⟨hw, ?_⟩
  intro it hit hnot
  unfold withinTolerance at hw
  rw [List.all_eq_true] at hw
  have := hw it hit
  simp only [Bool.or_eq_true, Bool.and_eq_true, decide_eq_true_eq, Bool.not_eq_true'] at this
  rcases this with hd | hd
  · exact absurd hd hnot
  · rwa [rabs_eq_abs] at hd

example : verdict TemplateTables.weights TemplateTables.tolerance TemplateTables.interMethods
      TemplateTables.penaltyWeightKey
      [⟨"bonds", false, 13/40, 3/10⟩, ⟨"angles", false, 123, 120⟩, ⟨"dihedrals", true, -2, 0⟩] = true ∧
    verdict TemplateTables.weights TemplateTables.tolerance TemplateTables.interMethods
      TemplateTables.penaltyWeightKey [⟨"constraints", false, 2/5, 3/10⟩] = false := by
  have k1 : penaltyKey TemplateTables.interMethods TemplateTables.penaltyWeightKey "bonds" = "bonds" := by decide
  have k2 : penaltyKey TemplateTables.interMethods TemplateTables.penaltyWeightKey "angles" = "angles" := by decide
  have k3 : penaltyKey TemplateTables.interMethods TemplateTables.penaltyWeightKey "dihedrals" = "dihedrals" := by decide
  have k4 : penaltyKey TemplateTables.interMethods TemplateTables.penaltyWeightKey "constraints" = "bonds" := by decide
  constructor <;>
    simp [verdict, penalty, penaltyWeight, k1, k2, k3, k4, lookupD, Dict.get?, TemplateTables.weights,
      TemplateTables.tolerance] <;> norm_num

/-! ### sizes -/

/-- Every size is positive (exact arithmetic, residues of any number of atoms).  For an input as
`compute_volume` builds it — differences taken from the centre of geometry (they sum to zero), `nrm` the
genuine norm of each difference, positive self σ, non-negative threshold, at least one atom — the result is
never the error case and is positive in both branches: atoms off the centre are pushed out along their own
direction by a positive factor, so the pushed-out vectors cannot all coincide (their differences sum to
zero) and the radius of gyration is non-zero; if all atoms sit on the centre the largest σ is returned. -/
theorem C15_size_positive (thr : Rat) (atoms : List VolAtom) (hin : VolInput thr atoms) :
    (computeVolume thr atoms).positive :=
  computeVolume_positive_full thr atoms hin

/-- non-vacuity: two beads 1 nm apart (3-4-5 norms are rational), σ = 0.47 -/
example : VolInput TemplateTables.volThreshold
    [⟨⟨3/10, 4/10, 0⟩, 1/2, 47/100⟩, ⟨⟨-3/10, -4/10, 0⟩, 1/2, 47/100⟩] := by
  refine ⟨by simp [TemplateTables.volThreshold], ?_, ?_, ?_, ?_, by simp⟩
  · intro a ha; simp at ha; rcases ha with rfl | rfl <;> norm_num
  · intro a ha; simp at ha; rcases ha with rfl | rfl <;> norm_num
  · intro a ha; simp at ha; rcases ha with rfl | rfl <;> simp [V3.normSq, V3.dot] <;> norm_num
  · simp [V3.sum, V3.add, V3.zero]; ext <;> simp [zero_x, zero_y, zero_z] <;> norm_num

/-- Sizes are positive — PARTIAL (weaker hypotheses than `C15_size_positive`: nothing is assumed about `nrm`
or about centring, only positive σ).  The squared radius of gyration is never negative, so the size `√q` of
the radius-of-gyration branch is positive as soon as `q ≠ 0`; the size of the largest-radius branch (all
atoms on the centre: single beads, stacked beads) is positive.  What stays outside both theorems is the
floating point evaluation: `sqrt` and the comparison with the threshold 1e-18, which is below the rounding
noise of the centred coordinates (an atom exactly on the centre is then pushed out along a noise direction;
the size stays positive but depends on the noise — see notes/C15_findings.md). -/
theorem C15_size_positive_partial (thr : Rat) (atoms : List VolAtom) (hrad : ∀ a ∈ atoms, 0 < a.rad) :
    (∀ pts, 0 ≤ radiusOfGyrationSq pts) ∧
    (∀ q, computeVolume thr atoms = .sqrtOf q → q ≠ 0 → (computeVolume thr atoms).positive) ∧
    (∀ r, computeVolume thr atoms = .exact r → (computeVolume thr atoms).positive) := by
  obtain ⟨p1, p2⟩ := computeVolume_positive thr atoms hrad
  refine ⟨radiusOfGyrationSq_nonneg, ?_, ?_⟩
  · intro q hq hne; rw [hq]; exact p1 q hq hne
  · intro r hr; rw [hr]; exact p2 r hr

example : computeVolume TemplateTables.volThreshold [⟨⟨0, 0, 0⟩, 0, 47/100⟩] = .exact (47/100) := by
  simp [computeVolume, geomVects, nearRadii, maxList, TemplateTables.volThreshold, isZero]

end PolyplyVerif.C15
