/-
C15 — One centred template and size per distinct residue; user values win.

Statement (properties.jsonl, fixed):
  "Residues whose atom-name-labelled bond graphs are isomorphic share one template and size while residues
   with different atom names get different ones; each template holds one position per atom name with zero
   centre of geometry, virtual sites sit where GROMACS constructs them from their defining atoms, and a
   template reported as optimised meets its bond, constraint, angle and improper targets within tolerance.
   Templates and sizes supplied in a build file are used unchanged in place of generated ones, and every
   size is positive."

Property theorems only; lemmas live in `Proofs/Templates.lean` (and `Proofs/Rotation.lean`, shared with C06).
The tables `TemplateTables.weights / tolerance / vsTable` are regenerated from `minimizer.py` and
`virtual_site_builder.py` on every run, so the table facts below are re-established against the current
source.

ORACLES (parameters of the model, not verified — DESIGN.md C15 "Partial"):
  * the Weisfeiler–Lehman graph hash `h` (networkx): assumed equal on isomorphic atom-name-labelled graphs
    and different for different atom-name multisets — both assumptions appear as explicit hypotheses;
  * Kamada–Kawai layout + L-BFGS-B optimisation + `compute_volume`'s square root: the function `gen`
    (every theorem holds for every `gen`), and the measured values handed to `verdict`;
  * the Euclidean norm `nrm` in the virtual-site constructions (any function; a square root where a
    distance statement needs it).

Extension (`Model/TemplatesBlock.lean`, `Proofs/TemplatesBlock.lean`; section `block` at the end): the
per-residue block of `extract_block` (which atoms / interactions / edges; relabelling; defines), the search of
`find_interaction_involving`, `_good_impropers`, the loop of `_expand_inital_coords`, `renew_vs` and the energy
of `target_function`.  Further parameters there: the dihedral angle handed to `_good_impropers`, numpy's
`isclose` tolerance `atol`, the layout sequence of `kamada_kawai_layout`, vermouth's `meta['edge']` flag; the
literal interaction-type lists, the two type tests and the improper function string come from the translator
(`TemplateTables.findSearchTypes / findClass / edgeTypes / improperFunc / renewVsTypes`).
-/
import PolyplyVerif.Generated.TemplateTables
import PolyplyVerif.Model.Templates
import PolyplyVerif.Proofs.Templates
import PolyplyVerif.Model.TemplatesBlock
import PolyplyVerif.Proofs.TemplatesBlock

namespace PolyplyVerif.C15
open PolyplyVerif.Rot PolyplyVerif.Templ PolyplyVerif.Proofs.Rotation PolyplyVerif.Proofs.Templates

variable {K : Type} [Field K] {G : Type}

/-! ### sharing -/

/-- Sharing.  After `GenerateTemplates.run_system` (default grouping) the `template` attribute of every
residue IS the hash of its graph, and the one final `templates` dict and the one `volumes` dict both have an
entry under it.  Consequently (i) residues with isomorphic graphs — `h` is equal on them — carry the same
key, hence share one template and one size; (ii) residues whose atom names differ — `h` differs on them —
carry different keys.  Holds for every generator `gen`, every molecule mix, every build-file state
`st0` in which templated keys have sizes. -/
theorem C15_sharing (h : G → String) (gen : String → G → Generated K) (ms : List (Mol G K))
    (st0 fin : GTState K) (attrs : List (List String))
    (hinv : ∀ k, st0.templates.has k = true → st0.volumes.has k = true)
    (huser : ∀ m ∈ ms, ∀ k, (m.userTemplates.getD []).has k = true → st0.volumes.has k = true)
    (hrun : runSystem h gen false st0 ms = some (fin, attrs)) :
    attrs = ms.map (fun m => m.nodes.map (fun n => h n.graph)) ∧
    (∀ m ∈ ms, ∀ n ∈ m.nodes, fin.templates.has (h n.graph) = true ∧ fin.volumes.has (h n.graph) = true) ∧
    (∀ (iso : G → G → Prop), (∀ a b, iso a b → h a = h b) →
      ∀ m₁ ∈ ms, ∀ n₁ ∈ m₁.nodes, ∀ m₂ ∈ ms, ∀ n₂ ∈ m₂.nodes, iso n₁.graph n₂.graph →
        h n₁.graph = h n₂.graph ∧
        fin.templates.get? (h n₁.graph) = fin.templates.get? (h n₂.graph) ∧
        fin.volumes.get? (h n₁.graph) = fin.volumes.get? (h n₂.graph)) ∧
    (∀ (names : G → List String), (∀ a b, names a ≠ names b → h a ≠ h b) →
      ∀ m₁ ∈ ms, ∀ n₁ ∈ m₁.nodes, ∀ m₂ ∈ ms, ∀ n₂ ∈ m₂.nodes, names n₁.graph ≠ names n₂.graph →
        h n₁.graph ≠ h n₂.graph) := by
  obtain ⟨c1, _, _, _, c5⟩ := runSystem_covers h gen ms st0 fin attrs hinv huser hrun
  refine ⟨c1, c5, ?_, ?_⟩
  · intro iso hiso m₁ _ n₁ _ m₂ _ n₂ _ hi
    have e := hiso _ _ hi
    exact ⟨e, by rw [e], by rw [e]⟩
  · intro names hn m₁ _ n₁ _ m₂ _ n₂ _ hne
    exact hn _ _ hne

/-- … and the hypotheses of `C15_sharing` are what a build file establishes: after `read_build_file`
(any sequence of `[ template ]` / `[ volumes ]` blocks) every supplied template has a size, so a run that
starts from a fresh `GenerateTemplates` on molecules that all carry the build file's templates covers every
residue. -/
theorem C15_sharing_after_build_file (h : G → String) (gen : String → G → Generated K) (vols0 : Dict K)
    (ops : List (BfOp K)) (nodes : List (List (ResNode G))) (fin : GTState K) (attrs : List (List String))
    (hrun : runSystem h gen false ⟨[], (readBuildFile vols0 ops).1⟩
      (nodes.map fun ns => ⟨ns, some (readBuildFile vols0 ops).2⟩) = some (fin, attrs)) :
    attrs = nodes.map (fun ns => ns.map (fun n => h n.graph)) ∧
    ∀ ns ∈ nodes, ∀ n ∈ ns, fin.templates.has (h n.graph) = true ∧ fin.volumes.has (h n.graph) = true := by
  obtain ⟨c1, c2, _, _⟩ := C15_sharing h gen _ _ fin attrs
    (fun k hk => by simp [Dict.has, Dict.get?] at hk)
    (fun m hm k hk => by
      simp only [List.mem_map] at hm
      obtain ⟨ns, _, rfl⟩ := hm
      exact readBuildFile_sizes vols0 ops k (by simpa using hk))
    hrun
  refine ⟨by simpa [List.map_map, Function.comp_def] using c1, ?_⟩
  intro ns hns n hn
  exact c2 ⟨ns, some (readBuildFile vols0 ops).2⟩ (List.mem_map_of_mem hns) n hn

/-- non-vacuity: a build file with one template and a size for its residue name, two residues -/
example :
    let gen : String → String → Generated Rat := fun _ _ => ⟨[("A", ⟨1, 0, 0⟩)], 1/2, "RB"⟩
    let bf := readBuildFile ([] : Dict Rat) [.volume "RA" (3/4), .template "RA" "x" [("A", ⟨2, 2, 2⟩)] (1/3)]
    bf.1.get? "x" = some (3/4) ∧
    (runSystem (fun g => g) gen false ⟨[], bf.1⟩ ([[⟨"RA", "x"⟩, ⟨"RB", "y"⟩]].map fun ns => ⟨ns, some bf.2⟩)).map
      (fun r => (r.2, r.1.volumes.get? "x", r.1.volumes.get? "y")) = some ([["x", "y"]], some (3/4), some (1/2)) := by
  simp [readBuildFile, BfState.step, rekeyVolumes, rekeyPairs, r2hPairs, runSystem, runMolecule, extractTemplateGraphs,
    groupResiduesByHash, genTemplates, Dict.has, Dict.get?, Dict.set, Dict.update, mapFromCoG]

/-- With `skip_filter` the attributes are the hashes as well. -/
theorem C15_sharing_attrs (h : G → String) (gen : String → G → Generated K) (sf : Bool) (ms : List (Mol G K))
    (st0 fin : GTState K) (attrs : List (List String)) (hrun : runSystem h gen sf st0 ms = some (fin, attrs)) :
    attrs = ms.map (fun m => m.nodes.map (fun n => h n.graph)) :=
  runSystem_attrs h gen sf ms st0 fin attrs hrun

example :
    let gen : String → String → Generated Rat := fun _ _ => ⟨[("A", ⟨1, 0, 0⟩)], 1/2, "RA"⟩
    (runSystem (fun g => g) gen true ⟨[], []⟩ [⟨[⟨"RA", "x"⟩, ⟨"RA", "x"⟩], none⟩]).map (·.2) = some [["x", "x"]] := by
  simp [runSystem, runMolecule, extractTemplateGraphs, extractSkipFilter, genTemplates, Dict.has, Dict.get?,
    Dict.set, Dict.del, Dict.update]

/-- non-vacuity: two molecules, residues with hashes "x","y","x"; everything generated -/
example :
    let gen : String → String → Generated Rat := fun gh _ => ⟨[("A", ⟨1, 0, 0⟩), ("B", ⟨3, 0, 0⟩)], 1/2, "R" ++ gh⟩
    let ms : List (Mol String Rat) := [⟨[⟨"RA", "x"⟩, ⟨"RB", "y"⟩], none⟩, ⟨[⟨"RA", "x"⟩], none⟩]
    (runSystem (fun g => g) gen false ⟨[], []⟩ ms).map (·.2) = some [["x", "y"], ["x"]] := by
  simp [runSystem, runMolecule, extractTemplateGraphs, groupResiduesByHash, genTemplates, Dict.has, Dict.get?,
    Dict.set, Dict.update]

/-! ### user values win -/

/-- User templates win.  When the build file's templates `U` were handed to the molecules
(`BuildDirector.finalize` gives every molecule the same dict), the final `templates` hold, under every key of
`U`, exactly `U`'s value: nothing is generated for such a key and nothing overwrites it. -/
theorem C15_user_wins (h : G → String) (gen : String → G → Generated K) (sf : Bool)
    (U : Dict (Template K)) (hnd : U.keys.Nodup) (ms : List (Mol G K)) (hne : ms ≠ [])
    (hU : ∀ m ∈ ms, m.userTemplates = some U)
    (st0 fin : GTState K) (attrs : List (List String)) (hrun : runSystem h gen sf st0 ms = some (fin, attrs)) :
    ∀ k T, U.get? k = some T → fin.templates.get? k = some T :=
  runSystem_user_templates h gen sf U hnd ms hne hU st0 fin attrs hrun

example :
    let gen : String → String → Generated Rat := fun _ _ => ⟨[("A", ⟨9, 9, 9⟩)], 7, "RA"⟩
    let U : Dict (Template Rat) := [("x", [("A", ⟨0, 0, 0⟩)])]
    ((runSystem (fun g => g) gen false ⟨[], [("x", 1/3)]⟩ [⟨[⟨"RA", "x"⟩, ⟨"RB", "y"⟩], some U⟩]).map
      (fun r => (r.1.templates.get? "x", r.1.volumes.get? "x", r.1.volumes.get? "y")))
      = some (some [("A", ⟨0, 0, 0⟩)], some (1/3), some 7) := by
  simp [runSystem, runMolecule, extractTemplateGraphs, groupResiduesByHash, genTemplates, Dict.has, Dict.get?,
    Dict.set, Dict.update]

/-- User sizes win.
(1) `BuildDirector.finalize`: a `[ volumes ]` size of a residue name reaches the hash of EVERY user template
    of that name (`r2hPairs`: all (name, hash) pairs) and stays available under the name (hypotheses: no template hash of the build file is also
    one of its residue names; templates of other names with the same hash do not carry a different size).
(2) `gen_templates`: when a template is generated for a hash whose residue name has a size, that size is
    stored for the hash (the computed one only otherwise) — and the stored template is the centred one.
(3) A size stored under a key that has a template is never changed by `run_system`. -/
theorem C15_user_wins_size :
    (∀ (vols : Dict K) (r2h : Dict (List String)),
      (∀ rh ∈ r2hPairs r2h, ∀ rh' ∈ r2hPairs r2h, rh.2 ≠ rh'.1) →
      (∀ rh ∈ r2hPairs r2h, (rekeyVolumes vols r2h).get? rh.1 = vols.get? rh.1) ∧
      (∀ rh ∈ r2hPairs r2h, ∀ v, vols.get? rh.1 = some v →
        (∀ rh' ∈ r2hPairs r2h, rh'.2 = rh.2 → vols.get? rh'.1 = some v ∨ vols.get? rh'.1 = none) →
        (rekeyVolumes vols r2h).get? rh.2 = some v)) ∧
    (∀ (gen : String → G → Generated K) (st st' : GTState K) (gh : String) (g : G)
        (rest : List (String × Option G)),
      st.templates.has gh = false → genTemplates gen st ((gh, some g) :: rest) = some st' →
      (∀ v, st.volumes.get? (gen gh g).resname = some v → st'.volumes.get? gh = some v) ∧
      (st.volumes.get? (gen gh g).resname = none → st'.volumes.get? gh = some (gen gh g).volume)) ∧
    (∀ (h : G → String) (gen : String → G → Generated K) (sf : Bool) (ms : List (Mol G K))
        (st fin : GTState K) (attrs : List (List String)),
      runSystem h gen sf st ms = some (fin, attrs) →
      ∀ k, st.templates.has k = true → fin.volumes.get? k = st.volumes.get? k) := by
  refine ⟨fun vols r2h hd => rekeyPairs_spec vols (r2hPairs r2h) hd, ?_, ?_⟩
  · intro gen st st' gh g rest hnew hrun
    exact ⟨fun v hv => (genTemplates_user_volume gen st st' gh g rest v hnew hv hrun).1,
           fun hv => genTemplates_own_volume gen st st' gh g rest hnew hv hrun⟩
  · intro h gen sf ms st fin attrs hrun k hk
    exact runSystem_size_fixed h gen sf ms st fin attrs hrun k hk

example : (rekeyVolumes ([("RA", (77 : Rat) / 100)] : Dict Rat) [("RA", ["hashA", "hashB"])]).get? "hashA" = some (77 / 100) ∧
    (rekeyVolumes ([("RA", (77 : Rat) / 100)] : Dict Rat) [("RA", ["hashA", "hashB"])]).get? "hashB" = some (77 / 100) ∧
    (rekeyVolumes ([("RA", (77 : Rat) / 100)] : Dict Rat) [("RA", ["hashA", "hashB"])]).get? "RA" = some (77 / 100) := by
  simp [rekeyVolumes, rekeyPairs, r2hPairs, Dict.get?, Dict.set]

/-! ### templates are centred, one entry per atom name -/

/-- `map_from_CoG` keeps the keys (one entry per atom name, same order) and returns vectors that sum to zero,
i.e. a template with zero centre of geometry (field of characteristic 0, non-empty residue). -/
theorem C15_template_centred [CharZero K] (coords : Template K) (hne : coords ≠ []) :
    (mapFromCoG coords).map (·.1) = coords.map (·.1) ∧
    V3.sum ((mapFromCoG coords).map (·.2)) = 0 ∧
    centerOfGeometry ((mapFromCoG coords).map (·.2)) = 0 := by
  refine ⟨mapFromCoG_keys coords, mapFromCoG_sum coords hne, ?_⟩
  unfold centerOfGeometry
  rw [mapFromCoG_sum coords hne]
  ext <;> simp [sdiv_x, sdiv_y, sdiv_z, zero_x, zero_y, zero_z]

example : mapFromCoG ([("A", ⟨1, 0, 0⟩), ("B", ⟨3, 0, 6⟩)] : Template Rat)
    = [("A", ⟨-1, 0, -3⟩), ("B", ⟨1, 0, 3⟩)] := by
  simp [mapFromCoG, centerOfGeometry, V3.sum, V3.add, V3.zero]
  refine ⟨?_, ?_⟩ <;> ext <;> simp [sub_x, sub_y, sub_z, sdiv_x, sdiv_y, sdiv_z] <;> norm_num

/-! ### virtual sites -/

/-- Affine constructions (`virtual_sites2`, `virtual_sites3` type 1, `virtual_sitesn` type 1): what the code
computes (`np.average` with weights) is exactly the GROMACS weighting `(1−a, a)`, `(1−a−b, a, b)`, `1/N`, and
the construction commutes with EVERY affine map `x ↦ A·x + t`. -/
theorem C15_vs_affine [CharZero K] (A : M3 K) (t : V3 K) (a b : K) (ri rj rk : V3 K) (xs : List (V3 K))
    (hne : xs ≠ []) :
    (vs2 a ri rj = gmx2 a ri rj ∧ vs3 a b ri rj rk = gmx3 a b ri rj rk ∧ vsn1 xs = gmxCog xs) ∧
    vs2 a (aff A t ri) (aff A t rj) = aff A t (vs2 a ri rj) ∧
    vs3 a b (aff A t ri) (aff A t rj) (aff A t rk) = aff A t (vs3 a b ri rj rk) ∧
    vsn1 (xs.map (aff A t)) = aff A t (vsn1 xs) := by
  refine ⟨⟨vs2_eq a ri rj, vs3_eq a b ri rj rk, vsn1_eq xs⟩, ?_, ?_, ?_⟩
  · rw [vs2_eq, vs2_eq, gmx2_aff]
  · rw [vs3_eq, vs3_eq, gmx3_aff]
  · rw [vsn1_eq, vsn1_eq, gmxCog_aff A t xs hne]

example : vs2 (1/4 : Rat) ⟨0, 0, 0⟩ ⟨4, 8, 0⟩ = ⟨1, 2, 0⟩ := by
  rw [vs2_eq]; ext <;> simp [gmx2, add_x, add_y, add_z, smul_x, smul_y, smul_z] <;> norm_num

/-- Normalised constructions (3fd, 3fad, 3out, 4fdn): the code's expression is the GROMACS formula, and the
construction commutes with every rigid motion `x ↦ R·x + t`, `R` a proper rotation (C06's lemmas: norms, dot
and cross products are preserved), whatever function `nrm` stands for the norm. -/
theorem C15_vs_rigid (R : M3 K) (hR : Proper R) (t : V3 K) (nrm : K → K) (a b c : K) (ri rj rk rl : V3 K) :
    (vs3fd nrm a b ri rj rk = gmx3fd nrm a b ri rj rk ∧ vs3fad nrm a b c ri rj rk = gmx3fad nrm a b c ri rj rk ∧
     vs3out a b c ri rj rk = gmx3out a b c ri rj rk ∧ vs4fdn nrm a b c ri rj rk rl = gmx4fdn nrm a b c ri rj rk rl) ∧
    vs3fd nrm a b (aff R t ri) (aff R t rj) (aff R t rk) = aff R t (vs3fd nrm a b ri rj rk) ∧
    vs3fad nrm a b c (aff R t ri) (aff R t rj) (aff R t rk) = aff R t (vs3fad nrm a b c ri rj rk) ∧
    vs3out a b c (aff R t ri) (aff R t rj) (aff R t rk) = aff R t (vs3out a b c ri rj rk) ∧
    vs4fdn nrm a b c (aff R t ri) (aff R t rj) (aff R t rk) (aff R t rl)
      = aff R t (vs4fdn nrm a b c ri rj rk rl) := by
  refine ⟨⟨vs3fd_eq .., vs3fad_eq .., vs3out_eq .., vs4fdn_eq ..⟩, ?_, ?_, ?_, ?_⟩
  · rw [vs3fd_eq, vs3fd_eq, gmx3fd_rigid hR]
  · rw [vs3fad_eq, vs3fad_eq, gmx3fad_rigid hR]
  · rw [vs3out_eq, vs3out_eq, gmx3out_rigid hR]
  · rw [vs4fdn_eq, vs4fdn_eq, gmx4fdn_rigid hR]

/-- non-vacuity: a proper rotation exists (C06) and 3out of an orthonormal frame is computed -/
example : Proper (rotMat (⟨3/5, 4/5, 5/13, 12/13, 8/17, 15/17⟩ : Angles Rat)) ∧
    vs3out (1 : Rat) 1 2 ⟨0, 0, 0⟩ ⟨1, 0, 0⟩ ⟨0, 1, 0⟩ = ⟨1, 1, 2⟩ := by
  refine ⟨rotMat_proper _ (by norm_num) (by norm_num) (by norm_num), ?_⟩
  ext <;> simp [vs3out, V3.cross, add_x, add_y, add_z, sub_x, sub_y, sub_z, smul_x, smul_y, smul_z]

/-- With a genuine square root for `nrm`, a 3fd site lies at distance `|b|` from atom i. -/
theorem C15_vs_3fd_distance (nrm : K → K) (a b : K) (ri rj rk : V3 K)
    (hn : nrm (V3.normSq ((rj - ri) + V3.smul a (rk - rj))) * nrm (V3.normSq ((rj - ri) + V3.smul a (rk - rj)))
      = V3.normSq ((rj - ri) + V3.smul a (rk - rj)))
    (h0 : nrm (V3.normSq ((rj - ri) + V3.smul a (rk - rj))) ≠ 0) :
    V3.normSq (vs3fd nrm a b ri rj rk - ri) = b * b := by
  rw [vs3fd_eq]; exact gmx3fd_dist nrm a b ri rj rk hn h0

example : (fun q : Rat => if q = 25 then 5 else 0) (V3.normSq (((⟨3, 4, 0⟩ : V3 Rat) - ⟨0, 0, 0⟩) +
    V3.smul 0 ((⟨9, 9, 9⟩ : V3 Rat) - ⟨3, 4, 0⟩))) = 5 := by
  simp [V3.normSq, V3.dot, add_x, add_y, add_z, sub_x, sub_y, sub_z, smul_x, smul_y, smul_z]; norm_num

/-- The dispatch table of the code against the GROMACS definitions — PARTIAL: for every `(section, function
type)` of the GROMACS manual EXCEPT `virtual_sitesn` types 2 (COM) and 3 (COW), whenever the GROMACS
construction is defined for the given arity, `construct_vs` through the current `VIRTUAL_SITES` table
computes exactly it.  What is missing for the full statement is refuted below
(`C15_vsn_com_built_as_cog`): the table maps `virtual_sitesn` 2 and 3 to the plain centre of geometry
(known finding `vsn-com-as-cog`). -/
theorem C15_vs_gromacs_partial (nrm : K → K) (vsType func : String) (params masses : List K) (xs : List (V3 K))
    (v : V3 K) (hnot : ¬ (vsType = "virtual_sitesn" ∧ (func = "2" ∨ func = "3")))
    (hg : gmxConstruct nrm vsType func params masses xs = some v) :
    constructVS TemplateTables.vsTable nrm vsType func params xs = some v := by
  unfold gmxConstruct at hg
  split at hg
  all_goals first
    | exact absurd ⟨rfl, Or.inl rfl⟩ hnot
    | exact absurd ⟨rfl, Or.inr rfl⟩ hnot
    | (simp only [Option.some.injEq] at hg; subst hg;
       simp [constructVS, TemplateTables.vsTable, List.find?, constructByName,
         vs2_eq, vs3_eq, vs3fd_eq, vs3fad_eq, vs3out_eq, vs4fdn_eq, vsn1_eq])
    | (simp at hg)

example : gmxConstruct (fun q : Rat => q) "virtual_sites3" "4" [1, 1, 2] [] [⟨0, 0, 0⟩, ⟨1, 0, 0⟩, ⟨0, 1, 0⟩]
    = some (gmx3out 1 1 2 ⟨0, 0, 0⟩ ⟨1, 0, 0⟩ ⟨0, 1, 0⟩) := rfl

/-- The excluded case is a real difference (known finding `vsn-com-as-cog`): for `virtual_sitesn` type 2 with
masses 3 : 1 on the points 0 and 4 the code's table yields the centre of geometry 2, GROMACS the centre of
mass 1. -/
theorem C15_vsn_com_built_as_cog :
    constructVS TemplateTables.vsTable (fun q : Rat => q) "virtual_sitesn" "2" [] [⟨0, 0, 0⟩, ⟨4, 0, 0⟩]
      = some ⟨2, 0, 0⟩ ∧
    gmxConstruct (fun q : Rat => q) "virtual_sitesn" "2" [] [3, 1] [⟨0, 0, 0⟩, ⟨4, 0, 0⟩] = some ⟨1, 0, 0⟩ := by
  constructor
  · simp [constructVS, TemplateTables.vsTable, List.find?, constructByName, vsn1_eq, gmxCog, V3.sum, V3.add, V3.zero]
    ext <;> simp [smul_x, smul_y, smul_z] <;> norm_num
  · simp [gmxConstruct, gmxWeighted, V3.sum, V3.add, V3.zero, V3.smul]
    norm_num

/-! ### the optimisation verdict -/

/-- Table facts (re-established against the current `WEIGHTS`, `tolerance`, `INTER_METHODS` and the penalty
functions on every run): for each of the four interaction types the weight its penalty function multiplies
with is positive and not smaller than the weight of the threshold (`compute_bond` uses `WEIGHTS["bonds"]` for
constraints as well, the threshold uses `WEIGHTS["constraints"]`), and the tolerance is non-negative. -/
theorem C15_tables_positive :
    ∀ k ∈ ["bonds", "constraints", "angles", "dihedrals"],
      0 < penaltyWeight TemplateTables.weights TemplateTables.interMethods TemplateTables.penaltyWeightKey k ∧
      lookupD TemplateTables.weights k
        ≤ penaltyWeight TemplateTables.weights TemplateTables.interMethods TemplateTables.penaltyWeightKey k ∧
      0 ≤ lookupD TemplateTables.tolerance k := by
  have hkey : ∀ k ∈ ["bonds", "constraints", "angles", "dihedrals"],
      penaltyKey TemplateTables.interMethods TemplateTables.penaltyWeightKey k
        ∈ ["bonds", "constraints", "angles", "dihedrals"] := by decide
  have hpos : ∀ k ∈ ["bonds", "constraints", "angles", "dihedrals"],
      0 < lookupD TemplateTables.weights k ∧ 0 ≤ lookupD TemplateTables.tolerance k := by
    intro k hk
    simp only [List.mem_cons, List.mem_nil_iff, or_false] at hk
    rcases hk with rfl | rfl | rfl | rfl <;>
      simp [lookupD, Dict.get?, TemplateTables.weights, TemplateTables.tolerance]
  have hle : ∀ k ∈ ["bonds", "constraints", "angles", "dihedrals"],
      lookupD TemplateTables.weights k
        ≤ lookupD TemplateTables.weights (penaltyKey TemplateTables.interMethods TemplateTables.penaltyWeightKey k) := by
    intro k hk
    simp only [List.mem_cons, List.mem_nil_iff, or_false] at hk
    rcases hk with rfl | rfl | rfl | rfl
    · rw [show penaltyKey TemplateTables.interMethods TemplateTables.penaltyWeightKey "bonds" = "bonds" by decide]
    · rw [show penaltyKey TemplateTables.interMethods TemplateTables.penaltyWeightKey "constraints" = "bonds" by decide]
      simp [lookupD, Dict.get?, TemplateTables.weights]
    · rw [show penaltyKey TemplateTables.interMethods TemplateTables.penaltyWeightKey "angles" = "angles" by decide]
    · rw [show penaltyKey TemplateTables.interMethods TemplateTables.penaltyWeightKey "dihedrals" = "dihedrals" by decide]
  intro k hk
  exact ⟨(hpos _ (hkey k hk)).1, hle k hk, (hpos k hk).2⟩

/-- A template reported as optimised meets its targets: if the verdict loop of `optimize_geometry` (current
`WEIGHTS`, current default `tolerance`, current penalty functions) returns `True` for the measured values,
then every bond, constraint, angle and improper dihedral is within its tolerance
(`|value − target| ≤ tol`), for interaction lists of any length. -/
theorem C15_optimised_within_tol (items : List Item)
    (hk : ∀ it ∈ items, it.kind ∈ ["bonds", "constraints", "angles", "dihedrals"])
    (h : verdict TemplateTables.weights TemplateTables.tolerance TemplateTables.interMethods
      TemplateTables.penaltyWeightKey items = true) :
    withinTolerance TemplateTables.tolerance items = true ∧
    ∀ it ∈ items, ¬ (it.kind = "dihedrals" ∧ it.improper = false) →
      |it.value - it.target| ≤ lookupD TemplateTables.tolerance it.kind := by
  have hw := verdict_within TemplateTables.weights TemplateTables.tolerance TemplateTables.interMethods
    TemplateTables.penaltyWeightKey items (fun it hit => C15_tables_positive it.kind (hk it hit)) h
  refine ⟨hw, ?_⟩
  intro it hit hnot
  unfold withinTolerance at hw
  rw [List.all_eq_true] at hw
  have := hw it hit
  simp only [Bool.or_eq_true, Bool.and_eq_true, decide_eq_true_eq, Bool.not_eq_true'] at this
  rcases this with hd | hd
  · exact absurd hd hnot
  · rwa [rabs_eq_abs] at hd

example : verdict TemplateTables.weights TemplateTables.tolerance TemplateTables.interMethods
      TemplateTables.penaltyWeightKey
      [⟨"bonds", false, 13/40, 3/10⟩, ⟨"angles", false, 123, 120⟩, ⟨"dihedrals", true, -2, 0⟩] = true ∧
    verdict TemplateTables.weights TemplateTables.tolerance TemplateTables.interMethods
      TemplateTables.penaltyWeightKey [⟨"constraints", false, 2/5, 3/10⟩] = false := by
  have k1 : penaltyKey TemplateTables.interMethods TemplateTables.penaltyWeightKey "bonds" = "bonds" := by decide
  have k2 : penaltyKey TemplateTables.interMethods TemplateTables.penaltyWeightKey "angles" = "angles" := by decide
  have k3 : penaltyKey TemplateTables.interMethods TemplateTables.penaltyWeightKey "dihedrals" = "dihedrals" := by decide
  have k4 : penaltyKey TemplateTables.interMethods TemplateTables.penaltyWeightKey "constraints" = "bonds" := by decide
  constructor <;>
    simp [verdict, penalty, penaltyWeight, k1, k2, k3, k4, lookupD, Dict.get?, TemplateTables.weights,
      TemplateTables.tolerance] <;> norm_num

/-! ### sizes -/

/-- Every size is positive (exact arithmetic, residues of any number of atoms).  For an input as
`compute_volume` builds it — differences taken from the centre of geometry (they sum to zero), `nrm` the
genuine norm of each difference, positive self σ, non-negative threshold, at least one atom — the result is
never the error case and is positive in both branches: atoms off the centre are pushed out along their own
direction by a positive factor, so the pushed-out vectors cannot all coincide (their differences sum to
zero) and the radius of gyration is non-zero; if all atoms sit on the centre the largest σ is returned. -/
theorem C15_size_positive (thr : Rat) (atoms : List VolAtom) (hin : VolInput thr atoms) :
    (computeVolume thr atoms).positive :=
  computeVolume_positive_full thr atoms hin

/-- non-vacuity: two beads 1 nm apart (3-4-5 norms are rational), σ = 0.47 -/
example : VolInput TemplateTables.volThreshold
    [⟨⟨3/10, 4/10, 0⟩, 1/2, 47/100⟩, ⟨⟨-3/10, -4/10, 0⟩, 1/2, 47/100⟩] := by
  refine ⟨by simp [TemplateTables.volThreshold], ?_, ?_, ?_, ?_, by simp⟩
  · intro a ha; simp at ha; rcases ha with rfl | rfl <;> norm_num
  · intro a ha; simp at ha; rcases ha with rfl | rfl <;> norm_num
  · intro a ha; simp at ha; rcases ha with rfl | rfl <;> simp [V3.normSq, V3.dot] <;> norm_num
  · simp [V3.sum, V3.add, V3.zero]; ext <;> simp [zero_x, zero_y, zero_z] <;> norm_num

/-- Sizes are positive — PARTIAL (weaker hypotheses than `C15_size_positive`: nothing is assumed about `nrm`
or about centring, only positive σ).  The squared radius of gyration is never negative, so the size `√q` of
the radius-of-gyration branch is positive as soon as `q ≠ 0`; the size of the largest-radius branch (all
atoms on the centre: single beads, stacked beads) is positive.  What stays outside both theorems is the
floating point evaluation: `sqrt` and the comparison with the threshold 1e-18, which is below the rounding
noise of the centred coordinates (an atom exactly on the centre is then pushed out along a noise direction;
the size stays positive but depends on the noise — see notes/C15_findings.md). -/
theorem C15_size_positive_partial (thr : Rat) (atoms : List VolAtom) (hrad : ∀ a ∈ atoms, 0 < a.rad) :
    (∀ pts, 0 ≤ radiusOfGyrationSq pts) ∧
    (∀ q, computeVolume thr atoms = .sqrtOf q → q ≠ 0 → (computeVolume thr atoms).positive) ∧
    (∀ r, computeVolume thr atoms = .exact r → (computeVolume thr atoms).positive) := by
  obtain ⟨p1, p2⟩ := computeVolume_positive thr atoms hrad
  refine ⟨radiusOfGyrationSq_nonneg, ?_, ?_⟩
  · intro q hq hne; rw [hq]; exact p1 q hq hne
  · intro r hr; rw [hr]; exact p2 r hr

example : computeVolume TemplateTables.volThreshold [⟨⟨0, 0, 0⟩, 0, 47/100⟩] = .exact (47/100) := by
  simp [computeVolume, geomVects, nearRadii, maxList, TemplateTables.volThreshold, isZero]

/-! ## per-residue blocks (`extract_block`), `find_interaction_involving`, `_good_impropers`,
`_expand_inital_coords`, `renew_vs`, energy -/

section block
open PolyplyVerif.TemplBlock PolyplyVerif.Proofs.TemplatesBlock

/-- Table facts about the literal interaction-type lists (re-established against the current source on every
run): `extract_block` makes edges from exactly the types `find_interaction_involving` searches, in the same
order; every searched type is classified by one of the two type tests (so the inner loop can return for it);
the bond-like ones are exactly `bonds` and `constraints`; the ones classified as virtual sites are exactly the
sections `renew_vs` constructs, in the same order, and each of them has an entry in `VIRTUAL_SITES`; the
layout check and the optimiser look at the same improper function type. -/
theorem C15_block_tables :
    TemplateTables.edgeTypes = TemplateTables.findSearchTypes ∧
    TemplateTables.findSearchTypes.Nodup ∧
    (∀ t ∈ TemplateTables.findSearchTypes, (TemplateTables.findClass.lookup t).isSome = true) ∧
    (TemplateTables.findSearchTypes.filter fun t => TemplateTables.findClass.lookup t == some false)
      = ["bonds", "constraints"] ∧
    (TemplateTables.findSearchTypes.filter fun t => TemplateTables.findClass.lookup t == some true)
      = TemplateTables.renewVsTypes ∧
    (∀ t ∈ TemplateTables.renewVsTypes, (TemplateTables.vsTable.any fun e => e.1.1 == t) = true) ∧
    TemplateTables.improperFunc = TemplateTables.improperFuncMinimizer := by
  refine ⟨by decide, by decide, by decide, by decide, by decide, by decide, by decide⟩

/-- FRAME / PARTITION of `extract_block`.  For a molecule whose `interactions` dict has distinct keys (a dict),
every residue node list `nodes`, every `defines`, every interaction type `t`:
(1) `block.interactions.get(t, [])` is the FILTER of `molecule.interactions.get(t, [])` by "all atoms lie in
    the residue", order preserved, each kept interaction relabelled node ↦ atom name with its defines
    substituted;
(2) hence membership: `b` is in the block iff it is the image of a molecule interaction of that type lying
    inside the residue; an interaction with an atom OUTSIDE the residue never contributes;
(3) the block has a key only for types with at least one kept interaction, its keys are a sublist of the
    molecule's (same relative order);
(4) the interactions of the molecule are afterwards unchanged except that the KEPT ones carry the substituted
    parameters (the in-place side effect of `replace_defined_interaction`); atoms never change. -/
theorem C15_block_interactions {A : Type} (edgeTypes : List String) (name : Nat → String) (attr : Nat → A)
    (mol : Dict (List (Ixn Nat))) (hnd : mol.keys.Nodup) (nodes : List Nat) (defines : Dict (List String))
    (t : String) :
    let block := extractBlock edgeTypes name attr mol nodes defines
    getInters block.interactions t
      = ((getInters mol t).filter (insideResidue nodes)).map (image name defines) ∧
    (∀ b, b ∈ getInters block.interactions t ↔
      ∃ i ∈ getInters mol t, (∀ a ∈ i.atoms, a ∈ nodes) ∧ b = image name defines i) ∧
    (∀ i ∈ getInters mol t, (∃ a ∈ i.atoms, a ∉ nodes) →
      i ∉ (getInters mol t).filter (insideResidue nodes)) ∧
    ((∀ e ∈ block.interactions, e.2 ≠ []) ∧ List.Sublist block.interactions.keys mol.keys) ∧
    getInters (moleculeAfter defines (mapping name nodes) mol) t
      = (getInters mol t).map fun i =>
          if insideResidue nodes i then substIxn defines i else i := by
  intro block
  have h1 : getInters block.interactions t
      = ((getInters mol t).filter (insideResidue nodes)).map (image name defines) := by
    show getInters (blockInteractions defines (mapping name nodes) mol) t = _
    rw [blockInteractions_get defines _ mol hnd t, extractType_eq]
    congr 1
    exact List.filter_congr (fun i _ => keepIxn_eq_inside name nodes i)
  have hin : ∀ i : Ixn Nat, insideResidue nodes i = true ↔ ∀ a ∈ i.atoms, a ∈ nodes := by
    intro i; simp [insideResidue]
  refine ⟨h1, ?_, ?_, ⟨blockInteractions_nonempty defines _ mol, blockInteractions_keys_sublist defines _ mol⟩,
    ?_⟩
  · intro b
    rw [h1, List.mem_map]
    constructor
    · rintro ⟨i, hi, rfl⟩
      rw [List.mem_filter] at hi
      exact ⟨i, hi.1, (hin i).1 hi.2, rfl⟩
    · rintro ⟨i, hi, hall, rfl⟩
      exact ⟨i, List.mem_filter.2 ⟨hi, (hin i).2 hall⟩, rfl⟩
  · rintro i _ ⟨a, ha, hout⟩ hmem
    exact hout ((hin i).1 (List.mem_filter.1 hmem).2 a ha)
  · exact moleculeAfter_get defines name nodes mol t

/-- non-vacuity: residue {0, 1} of a three-atom molecule: the bond 0-1 is kept (define substituted), the bond
1-2 across the residue border is not; the molecule's own 0-1 bond carries the substituted parameters after -/
example :
    let mol : Dict (List (Ixn Nat)) := [("bonds", [⟨[0, 1], ["1", "LEN"], true⟩, ⟨[1, 2], ["1", "LEN"], true⟩])]
    let name : Nat → String := fun n => if n = 0 then "A" else if n = 1 then "B" else "A"
    let block := extractBlock TemplateTables.edgeTypes name (fun n => n) mol [0, 1] [("LEN", ["0.47", "1250"])]
    block.interactions = [("bonds", [⟨["A", "B"], ["1", "0.47", "1250"], true⟩])] ∧
    block.edges = [("A", "B")] ∧ block.nodes = [("A", 0), ("B", 1)] ∧
    moleculeAfter [("LEN", ["0.47", "1250"])] (mapping name [0, 1]) mol
      = [("bonds", [⟨[0, 1], ["1", "0.47", "1250"], true⟩, ⟨[1, 2], ["1", "LEN"], true⟩])] := by
  decide

/-- Edges of the block: `(a, b)` is added iff it is a pair of CONSECUTIVE atoms of a block interaction (with
`meta.get('edge', True)`) of one of the edge-making types — so edges only join names of atoms of the residue
and only come from bonds, constraints and virtual-site definitions lying inside it. -/
theorem C15_block_edges {A : Type} (name : Nat → String) (attr : Nat → A) (mol : Dict (List (Ixn Nat)))
    (nodes : List Nat) (defines : Dict (List String)) (a b : String) :
    let block := extractBlock TemplateTables.edgeTypes name attr mol nodes defines
    (a, b) ∈ block.edges ↔
      ∃ t ∈ TemplateTables.findSearchTypes, ∃ i ∈ getInters block.interactions t,
        i.edge = true ∧ (a, b) ∈ consecutive i.atoms := by
  intro block
  show (a, b) ∈ blockEdges TemplateTables.edgeTypes block.interactions ↔ _
  rw [C15_block_tables.1]
  simp only [blockEdges, edgesOfType, List.mem_flatMap]
  constructor
  · rintro ⟨t, ht, i, hi, hab⟩
    by_cases he : i.edge = true
    · rw [if_pos he] at hab; exact ⟨t, ht, i, hi, he, hab⟩
    · rw [if_neg he] at hab; cases hab
  · rintro ⟨t, ht, i, hi, he, hab⟩
    exact ⟨t, ht, i, hi, by rw [if_pos he]; exact hab⟩

example : consecutive ["V", "A", "B", "C"] = [("V", "A"), ("A", "B"), ("B", "C")] := by decide

/-- One block node per atom NAME.  The nodes of the block are the distinct atom names of the residue in order
of first occurrence (never a repeated node); the block has as many nodes as the residue has atoms IF AND ONLY
IF the atom names of the residue are pairwise distinct — then the node list is the name list and relabelling
is injective on the residue (distinct atoms stay distinct, the relabelled atom lists of two interactions agree
only if the atom lists do).  OTHERWISE atoms with equal names COLLAPSE into one node: the block has strictly
fewer nodes than the residue has atoms, and the collapsed node carries the attributes of the LAST residue atom
of that name — the template (one position per block node) then has one position per distinct name, not per
atom. -/
theorem C15_block_nodes {A : Type} (edgeTypes : List String) (name : Nat → String) (attr : Nat → A)
    (mol : Dict (List (Ixn Nat))) (nodes : List Nat) (defines : Dict (List String)) :
    let block := extractBlock edgeTypes name attr mol nodes defines
    block.nodes.keys = firstOccurrences (nodes.map name) ∧ block.nodes.keys.Nodup ∧
    (∀ s, s ∈ block.nodes.keys ↔ ∃ n ∈ nodes, name n = s) ∧
    (∀ s, block.nodes.get? s = (nodes.reverse.find? (fun n => name n = s)).map attr) ∧
    block.nodes.keys.length ≤ nodes.length ∧
    (block.nodes.keys.length = nodes.length ↔ (nodes.map name).Nodup) ∧
    ((nodes.map name).Nodup →
      block.nodes.keys = nodes.map name ∧
      (∀ a ∈ nodes, ∀ b ∈ nodes, name a = name b → a = b) ∧
      (∀ i j : Ixn Nat, (∀ a ∈ i.atoms, a ∈ nodes) → (∀ a ∈ j.atoms, a ∈ nodes) →
        i.atoms.map name = j.atoms.map name → i.atoms = j.atoms)) ∧
    (¬ (nodes.map name).Nodup → block.nodes.keys.length < nodes.length) := by
  intro block
  have hk : block.nodes.keys = firstOccurrences (nodes.map name) := blockNodes_keys name attr nodes
  have hlen := firstOccurrences_length_le (nodes.map name)
  have hiff := firstOccurrences_length_eq_iff (nodes.map name)
  rw [List.length_map] at hlen hiff
  refine ⟨hk, hk ▸ firstOccurrences_nodup _, ?_, blockNodes_get? name attr nodes, hk ▸ hlen, hk ▸ hiff, ?_, ?_⟩
  · intro s; rw [hk, mem_firstOccurrences, List.mem_map]
  · intro hnd
    have hinj : ∀ a ∈ nodes, ∀ b ∈ nodes, name a = name b → a = b :=
      fun a ha b hb e => List.inj_on_of_nodup_map hnd ha hb e
    refine ⟨by rw [hk, firstOccurrences_of_nodup _ hnd], hinj, ?_⟩
    intro i j hi hj e
    exact map_inj_on name nodes hinj i.atoms j.atoms hi hj e
  · intro hnd
    rw [hk]
    exact lt_of_le_of_ne hlen (fun e => hnd (hiff.1 e))

/-- non-vacuity, both cases: distinct names keep three nodes; with the name "A" used twice the residue's three
atoms collapse into two block nodes and node "A" carries the attributes of atom 2 (the last "A") -/
example :
    (extractBlock TemplateTables.edgeTypes (fun n => if n = 0 then "A" else if n = 1 then "B" else "C")
      (fun n => n) [] [0, 1, 2] []).nodes = [("A", 0), ("B", 1), ("C", 2)] ∧
    (extractBlock TemplateTables.edgeTypes (fun n => if n = 0 then "A" else if n = 1 then "B" else "A")
      (fun n => n) [] [0, 1, 2] []).nodes = [("A", 2), ("B", 1)] := by
  decide

/-- `find_interaction_involving` returns the FIRST interaction, in the (translated) literal order of the types
and within a type in the order of the block, that contains both nodes — together with the flag of its type
(bond-like: false, virtual site: true) — and raises iff no interaction of any searched type contains both:
`some (vs, i, t)` iff `t` is a searched type with flag `vs`, `i` is in `block.interactions[t]` with both nodes
among its atoms, no earlier interaction of `t` contains both, and no interaction of a type searched before
`t` contains both. -/
theorem C15_find_interaction_first (inters : Dict (List (Ixn String))) (cur prev : String) :
    (∀ vs i t, findInteraction TemplateTables.findSearchTypes TemplateTables.findClass inters cur prev
        = some (vs, i, t) ↔
      ∃ pre post, TemplateTables.findSearchTypes = pre ++ t :: post ∧
        TemplateTables.findClass.lookup t = some vs ∧
        (∀ t' ∈ pre, ∀ j ∈ getInters inters t', both cur prev j = false) ∧
        both cur prev i = true ∧
        ∃ before after, getInters inters t = before ++ i :: after ∧ ∀ j ∈ before, both cur prev j = false) ∧
    (findInteraction TemplateTables.findSearchTypes TemplateTables.findClass inters cur prev = none ↔
      ∀ t ∈ TemplateTables.findSearchTypes, ∀ j ∈ getInters inters t, both cur prev j = false) := by
  have hcls := C15_block_tables.2.2.1
  have hnone : ∀ t ∈ TemplateTables.findSearchTypes,
      (hitOfType TemplateTables.findClass inters cur prev t = none ↔
        ∀ j ∈ getInters inters t, both cur prev j = false) := by
    intro t ht
    rw [hitOfType_eq_none_iff]
    constructor
    · rintro (h | h)
      · have := hcls t ht; rw [h] at this; cases this
      · exact h
    · exact Or.inr
  constructor
  · intro vs i t
    rw [findInteraction_eq, List.findSome?_eq_some_iff]
    constructor
    · rintro ⟨pre, t0, post, hsplit, hhit, hpre⟩
      obtain ⟨hl, ht, hb, before, after, hs, hbefore⟩ :=
        (hitOfType_eq_some_iff _ inters cur prev t0 (vs, i, t)).1 hhit
      simp only at hl ht hb hs hbefore
      subst ht
      refine ⟨pre, post, hsplit, hl, ?_, hb, before, after, hs, hbefore⟩
      intro t' ht'
      exact (hnone t' (by rw [hsplit]; simp [ht'])).1 (hpre t' ht')
    · rintro ⟨pre, post, hsplit, hl, hpre, hb, before, after, hs, hbefore⟩
      refine ⟨pre, t, post, hsplit, ?_, ?_⟩
      · exact (hitOfType_eq_some_iff _ inters cur prev t (vs, i, t)).2 ⟨hl, rfl, hb, before, after, hs, hbefore⟩
      · intro t' ht'
        exact (hnone t' (by rw [hsplit]; simp [ht'])).2 (hpre t' ht')
  · rw [findInteraction_eq, List.findSome?_eq_none_iff]
    constructor
    · intro h t ht; exact (hnone t ht).1 (h t ht)
    · intro h t ht; exact (hnone t ht).2 (h t ht)

/-- non-vacuity: a constraint A-B is found before the virtual site that also contains A and B; a pair only a
virtual site links is reported as virtual; an unlinked pair raises -/
example :
    let inters : Dict (List (Ixn String)) :=
      [("virtual_sites2", [⟨["V", "A", "B"], ["1", "0.5"], true⟩]), ("constraints", [⟨["A", "B"], ["1", "0.3"], true⟩]),
       ("angles", [⟨["A", "B", "C"], ["1", "120", "10"], true⟩])]
    findInteraction TemplateTables.findSearchTypes TemplateTables.findClass inters "A" "B"
      = some (false, ⟨["A", "B"], ["1", "0.3"], true⟩, "constraints") ∧
    findInteraction TemplateTables.findSearchTypes TemplateTables.findClass inters "V" "B"
      = some (true, ⟨["V", "A", "B"], ["1", "0.5"], true⟩, "virtual_sites2") ∧
    findInteraction TemplateTables.findSearchTypes TemplateTables.findClass inters "B" "C" = none := by
  decide

/-- `_good_impropers` is true iff EVERY dihedral of the (translated) improper function type "2" whose reference
angle is not (numerically) zero has a dihedral angle of the same sign as its reference — equivalently
`angle · ref > 0`; dihedrals of other function types and impropers with zero reference are ignored. -/
theorem C15_good_impropers_iff (atol : Rat) (hatol : 0 ≤ atol) (ds : List Improper) :
    goodImpropers TemplateTables.improperFunc atol ds = true ↔
      ∀ d ∈ ds, d.func = "2" → atol < |d.ref| → 0 < d.angle * d.ref := by
  rw [goodImpropers_iff]
  have hf : TemplateTables.improperFunc = "2" := by decide
  constructor
  · intro h d hd hfun hz
    have hne : d.ref ≠ 0 := by
      intro e; rw [e, abs_zero] at hz; exact absurd hz (not_lt.2 hatol)
    rw [← sgn_eq_iff_mul_pos _ _ hne]
    exact h d hd (hf ▸ hfun) (by rw [rabs_eq_abs]; exact not_le.2 hz)
  · intro h d hd hfun hz
    rw [rabs_eq_abs] at hz
    have hz' := not_le.1 hz
    have hne : d.ref ≠ 0 := by
      intro e; rw [e, abs_zero] at hz'; exact absurd hz' (not_lt.2 hatol)
    rw [sgn_eq_iff_mul_pos _ _ hne]
    exact h d hd (hf ▸ hfun) hz'

example : goodImpropers TemplateTables.improperFunc (1 / 100000000)
      [⟨"2", 25, 35⟩, ⟨"1", -170, 180⟩, ⟨"2", -3, 0⟩] = true ∧
    goodImpropers TemplateTables.improperFunc (1 / 100000000) [⟨"2", 25, 35⟩, ⟨"2", 25, -35⟩] = false := by
  constructor <;> simp [goodImpropers, TemplateTables.improperFunc, rabs, sgn] <;> norm_num

/-- `_expand_inital_coords`: with `layout k` the result of the k-th layout call, the function returns
`layout (n − 1)` where `n ≥ 1` is the number of layouts drawn, `n ≤ max_count + 1`, every earlier layout
failed the improper test, and the returned one passes it unless the bound was hit (`n = max_count + 1`). -/
theorem C15_expand_initial_coords {C : Type} (layout : Nat → C) (good : C → Bool) (maxCount : Nat) :
    let r := expandInitialCoords layout good maxCount
    1 ≤ r.2 ∧ r.2 ≤ maxCount + 1 ∧ r.1 = layout (r.2 - 1) ∧
    (∀ k, k < r.2 - 1 → good (layout k) = false) ∧ (good r.1 = true ∨ r.2 = maxCount + 1) :=
  expandLoop_spec layout good maxCount (maxCount + 1) 0 (by omega) (by omega) (fun k hk => absurd hk (by omega))

example : expandInitialCoords (fun k => k) (fun c => c == 3) 50 = (3, 4) ∧
    expandInitialCoords (fun k => k) (fun _ => false) 2 = (2, 3) := by decide

/-- FRAME of `renew_vs`: when it succeeds, the keys (atoms, row order) of the positions are unchanged and the
position of every atom that is not the SITE (first atom) of a virtual-site interaction of one of the
constructed sections is unchanged — only virtual sites are recomputed. -/
theorem C15_renew_vs_frame (nrm : Rat → Rat) (inters : Dict (List VsIxn)) (pos pos' : Template Rat)
    (h : renewVS TemplateTables.renewVsTypes TemplateTables.vsTable nrm inters pos = some pos') :
    pos'.map (·.1) = pos.map (·.1) ∧
    ∀ k, (∀ t ∈ TemplateTables.renewVsTypes, ∀ vs ∈ (Dict.get? inters t).getD [], siteOf vs ≠ some k) →
      Dict.get? pos' k = Dict.get? pos k :=
  renewVS_frame _ _ nrm inters pos pos' h

/-- non-vacuity: one `virtual_sites2` site V halfway between A and B; A and B keep their positions -/
example : renewVS TemplateTables.renewVsTypes TemplateTables.vsTable (fun q => q)
      [("virtual_sites2", [⟨["V", "A", "B"], "1", [1 / 2]⟩])]
      [("A", ⟨0, 0, 0⟩), ("V", ⟨9, 9, 9⟩), ("B", ⟨4, 2, 0⟩)]
    = some [("A", ⟨0, 0, 0⟩), ("V", ⟨2, 1, 0⟩), ("B", ⟨4, 2, 0⟩)] := by
  simp [renewVS, renewType, renewOne, lookupAll, Dict.get?, Dict.set, TemplateTables.renewVsTypes,
    TemplateTables.vsTable, constructVS, List.find?, constructByName, vs2, weightedAverage, V3.sum, V3.add,
    V3.zero, V3.smul, V3.sdiv]
  norm_num

/-- The energy `target_function` minimises is the SUM of the penalties `W·(value − target)²` of the requested
bonds, constraints, angles and type-2 impropers (other dihedrals contribute 0); with the current tables every
term is non-negative, so the energy is non-negative and it is zero iff every such interaction sits exactly at
its target. -/
theorem C15_energy_terms (items : List Item)
    (hk : ∀ it ∈ items, it.kind ∈ ["bonds", "constraints", "angles", "dihedrals"]) :
    let E := energy TemplateTables.weights TemplateTables.interMethods TemplateTables.penaltyWeightKey items
    E = (items.map (penalty TemplateTables.weights TemplateTables.interMethods TemplateTables.penaltyWeightKey)).sum ∧
    0 ≤ E ∧
    (E = 0 ↔ ∀ it ∈ items, ¬ (it.kind = "dihedrals" ∧ it.improper = false) → it.value = it.target) := by
  intro E
  have hsum := energy_eq_sum TemplateTables.weights TemplateTables.interMethods TemplateTables.penaltyWeightKey items
  have hnn : ∀ x ∈ items.map (penalty TemplateTables.weights TemplateTables.interMethods
      TemplateTables.penaltyWeightKey), 0 ≤ x := by
    intro x hx
    obtain ⟨it, hit, rfl⟩ := List.mem_map.1 hx
    exact penalty_nonneg _ _ _ it (le_of_lt (C15_tables_positive it.kind (hk it hit)).1)
  refine ⟨hsum, ?_, ?_⟩
  · show 0 ≤ energy _ _ _ items
    rw [hsum]; exact sum_nonneg_of_forall _ hnn
  show energy _ _ _ items = 0 ↔ _
  rw [hsum, sum_eq_zero_iff_of_nonneg _ hnn]
  constructor
  · intro h it hit hnot
    have h0 := h _ (List.mem_map.2 ⟨it, hit, rfl⟩)
    unfold penalty at h0
    have hc : (it.kind = "dihedrals" && !it.improper) = false := by
      cases hi : it.improper
      · have : ¬ it.kind = "dihedrals" := fun e => hnot ⟨e, hi⟩
        simp [this]
      · simp
    rw [hc] at h0
    simp only [Bool.false_eq_true, if_false] at h0
    have hw := (C15_tables_positive it.kind (hk it hit)).1
    rcases mul_eq_zero.1 h0 with h1 | h1
    · exact absurd h1 (ne_of_gt hw)
    · have := mul_self_eq_zero.1 h1
      linarith
  · intro h x hx
    obtain ⟨it, hit, rfl⟩ := List.mem_map.1 hx
    unfold penalty
    split
    · rfl
    · rename_i hc
      have hnot : ¬ (it.kind = "dihedrals" ∧ it.improper = false) := by
        rintro ⟨e1, e2⟩; apply hc; simp [e1, e2]
      rw [h it hit hnot]; simp

example : energy TemplateTables.weights TemplateTables.interMethods TemplateTables.penaltyWeightKey
    [⟨"bonds", false, 31/100, 3/10⟩, ⟨"angles", false, 123, 120⟩, ⟨"dihedrals", false, 50, 0⟩] = 10 := by
  have k1 : penaltyKey TemplateTables.interMethods TemplateTables.penaltyWeightKey "bonds" = "bonds" := by decide
  have k2 : penaltyKey TemplateTables.interMethods TemplateTables.penaltyWeightKey "angles" = "angles" := by decide
  simp [energy, penalty, penaltyWeight, k1, k2, lookupD, Dict.get?, TemplateTables.weights]
  norm_num

end block

end PolyplyVerif.C15
