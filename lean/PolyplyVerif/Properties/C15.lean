import PolyplyVerif.Generated.TemplateTables
import PolyplyVerif.Model.Templates
namespace PolyplyVerif.C15
theorem C15_placeholder_table : PolyplyVerif.TemplateTables.maxOpt = 10 := by decide
end PolyplyVerif.C15
