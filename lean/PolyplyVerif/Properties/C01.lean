/-
C01 — every residue is a verbatim, re-indexed copy of its force-field block.

"For any residue graph and force field that gen_params accepts, the generated molecule contains every
residue exactly once, laid out in residue-id order and numbered by its residue id, with exactly the atoms
of the block its residue name refers to (names, order, types, charges, masses, charge groups shifted),
including residues that stem from multi-residue blocks, and every interaction defined inside a block
reappears once per instance with unchanged parameters on that instance's atoms. Only atoms and
interactions explicitly targeted by an applicable link or terminal modification may differ, and a
modification changes nothing but the atoms it names in its target residue."

Property theorems only; helper lemmas are in Proofs/MapToMol.lean, the model (tied to /repo by the
correspondence of harness/c01.py on every run) in Model/MapToMol.lean.  All theorems hold for every
force field, every number of residues, every block size and every node-key type `κ`.

The specification side is `specMol` / `specGo` (Model/MapToMol.lean): walk over the resid-sorted
residues, place the block the residue name refers to at the running atom offset, numbered by the residue
id, charge groups shifted by the charge group of the last atom placed so far, all attributes verbatim;
its interactions are the block's interactions shifted by the same offset.  `C01_spec_regular` and
`C01_spec_multires` spell one step of that walk out.
-/
import PolyplyVerif.Model.MapToMol
import PolyplyVerif.Proofs.MapToMol

set_option linter.unusedSectionVars false

namespace PolyplyVerif.C01
open PolyplyVerif PolyplyVerif.MapToMol PolyplyVerif.Proofs.MapToMol

variable {κ : Type} [DecidableEq κ]

namespace Ex
export PolyplyVerif.Proofs.MapToMol.Example (ff tbl tbl2 nodes nodes2 gly ala mr nter)
end Ex

/-! ### what the specification says, one step at a time -/

/-- a regular residue contributes its block, re-indexed: atom `i` of the block becomes node `off + i`,
its resid is the residue's id (`place`: `r.resid + (resid in block − resid of the block's first atom)`),
its charge group is shifted by `cg`, its attributes are verbatim; the
block's interactions are shifted by `off`; the walk continues after the block -/
theorem C01_spec_regular (ff : FF) (off cg : Nat) (r : ResNode κ) (rest : List (ResNode κ)) (b : Block)
    (hfi : r.fromItp = none) (hb : ff.block? r.resname = some b) :
    specGo ff off cg 0 (r :: rest) =
      ⟨place off r.resid (blockBase b) cg b.atoms ++ (specGo ff (off + b.atoms.length) (cg + lastCg b) 0 rest).atoms,
       b.ixns.map (shiftIxn off) ++ (specGo ff (off + b.atoms.length) (cg + lastCg b) 0 rest).ixns⟩ := by
  simp [specGo, hfi, hb]

/-- a `from_itp` residue starts one copy of its multi-residue block; the copy covers the following
`nres - 1` residues, atom `i` of the block is numbered `r.resid + (resid inside the block - 1)` -/
theorem C01_spec_multires (ff : FF) (off cg : Nat) (r : ResNode κ) (covered rest : List (ResNode κ))
    (bn : String) (b : Block) (hfi : r.fromItp = some bn) (hb : ff.block? bn = some b)
    (hcov : covered.length = b.nres - 1) :
    specGo ff off cg 0 (r :: (covered ++ rest)) =
      ⟨place off r.resid (blockBase b) cg b.atoms ++ (specGo ff (off + b.atoms.length) (cg + lastCg b) 0 rest).atoms,
       b.ixns.map (shiftIxn off) ++ (specGo ff (off + b.atoms.length) (cg + lastCg b) 0 rest).ixns⟩ := by
  simp only [specGo, hfi, Option.getD_some, hb, Option.isSome_some, if_true, ← hcov, specGo_skip]

example : place 4 7 1 2 [⟨1, 1, [("atomname", "BB")]⟩, ⟨1, 2, [("atomname", "SC1")]⟩] =
    [⟨4, 7, 3, [("atomname", "BB")]⟩, ⟨5, 7, 4, [("atomname", "SC1")]⟩] := by decide

/-! ### layout and interactions -/

/-- **C01_layout** (`_partial`: two hypotheses are forced by known findings of the program, everything else
is the quantifier of the property — missing: residue ids starting at 0, `1 ≤ start`, finding resid-start-0,
`C01_layout_resid0_counterexample`; single-residue blocks whose atoms carry a resid other than 1,
`SingleBlock`, finding block-resid-not-1, `C01_layout_block_resid_counterexample`).  For every force field, every table `node_to_block` and every residue list whose
resids are pairwise distinct and contiguous (a permutation of `start, start+1, …`, any `start ≥ 1`, any
insertion order) and whose residue names resolve to single-residue blocks, `add_blocks` succeeds and
the atom list is exactly the specification's: the concatenation, in resid order, of the re-indexed
blocks.  Induction over the sorted list: any number of residues, any block sizes. -/
theorem C01_layout_partial (ff : FF) (t : Tables κ) (nodes : List (ResNode κ)) (start : Nat)
    (hne : nodes ≠ []) (hstart : 1 ≤ start)
    (hres : (nodes.map (·.resid)).Perm (List.range' start nodes.length))
    (hreg : ∀ n ∈ nodes, RegularNode ff t n) :
    ∃ st, addBlocks ff t nodes = .ok st ∧ st.mol.atoms = (specMol ff nodes).atoms := by
  have hperm := sortByResid_perm nodes
  have hne' : sortByResid nodes ≠ [] := by
    intro h
    have := hperm.length_eq
    rw [h] at this
    exact hne (List.length_eq_zero_iff.mp this.symm)
  obtain ⟨st, h1, h2, _⟩ := addBlocksSorted_regular ff t (sortByResid nodes) start hne' hstart
    (fun n hn => hreg n (hperm.mem_iff.mp hn)) (sortByResid_range nodes start hres)
  exact ⟨st, h1, h2⟩

/-- **C01_interactions** (`_partial` for the same two reasons).  Under the same hypotheses every block interaction occurs once per instance,
its atoms shifted by the instance's atom offset, parameters and meta unchanged, and nothing else is
present before links: the interaction list IS the specification's list. -/
theorem C01_interactions_partial (ff : FF) (t : Tables κ) (nodes : List (ResNode κ)) (start : Nat)
    (hne : nodes ≠ []) (hstart : 1 ≤ start)
    (hres : (nodes.map (·.resid)).Perm (List.range' start nodes.length))
    (hreg : ∀ n ∈ nodes, RegularNode ff t n) :
    ∃ st, addBlocks ff t nodes = .ok st ∧ st.mol.ixns = (specMol ff nodes).ixns := by
  have hperm := sortByResid_perm nodes
  have hne' : sortByResid nodes ≠ [] := by
    intro h
    have := hperm.length_eq
    rw [h] at this
    exact hne (List.length_eq_zero_iff.mp this.symm)
  obtain ⟨st, h1, _, h3⟩ := addBlocksSorted_regular ff t (sortByResid nodes) start hne' hstart
    (fun n hn => hreg n (hperm.mem_iff.mp hn)) (sortByResid_range nodes start hres)
  exact ⟨st, h1, h3⟩

/-- **C01_graphs** (`_partial` for the same two reasons as `C01_layout_partial`).  The `graph` attribute of
every residue node — what links and modifications later address as "the atoms of this residue" — is exactly
the atom range of the residue's block copy: residue `r` owns nodes `off r, …, off r + size − 1`. -/
theorem C01_graphs_partial (ff : FF) (t : Tables κ) (nodes : List (ResNode κ)) (start : Nat)
    (hne : nodes ≠ []) (hstart : 1 ≤ start)
    (hres : (nodes.map (·.resid)).Perm (List.range' start nodes.length))
    (hreg : ∀ n ∈ nodes, RegularNode ff t n) :
    ∃ st, addBlocks ff t nodes = .ok st ∧ st.graphs = specGraphs ff 0 (sortByResid nodes) := by
  have hperm := sortByResid_perm nodes
  have hne' : sortByResid nodes ≠ [] := by
    intro h
    have := hperm.length_eq
    rw [h] at this
    exact hne (List.length_eq_zero_iff.mp this.symm)
  exact addBlocksSorted_regular_graphs ff t (sortByResid nodes) start hne' hstart
    (fun n hn => hreg n (hperm.mem_iff.mp hn)) (sortByResid_range nodes start hres)

/-- **C01_multires** (`_partial`: missing is a copy on the first residues of a graph whose resids do not
start at 1, hypothesis `hfirst`, known finding multires-first-resid-not-1).  The same two statements for any mix of regular residues and copies of
multi-residue blocks (`from_itp`): whenever the resid-sorted residue list is cut into segments — single
regular residues, and runs of `nres` residues forming one copy of a multi-residue block whose fragment
bookkeeping is in place (`SegsOK`: the copy is some fragment, in any numbering, and the fragment lists
exactly the copy's nodes) — `k·m` `from_itp` nodes become `k` copies of the `m`-residue block, resids
offset per copy.  When the very first residue belongs to a copy the program does not re-base the block's
resids, hence `start = 1` is required there (known finding multires-first-resid-not-1, counterexample
`C01_multires_first_resid_counterexample`). -/
theorem C01_multires_partial (ff : FF) (t : Tables κ) (nodes : List (ResNode κ)) (segs : List (Seg κ)) (start : Nat)
    (hsorted : sortByResid nodes = segNodes segs)
    (hne : segs ≠ []) (hstart : 1 ≤ start)
    (hfirst : ∀ n others rest, segs = .multi n others :: rest → start = 1)
    (hkeys : (nodes.map (·.key)).Nodup)
    (hok : SegsOK ff t segs)
    (hres : (nodes.map (·.resid)).Perm (List.range' start nodes.length)) :
    ∃ st, addBlocks ff t nodes = .ok st ∧ st.mol.atoms = (specMol ff nodes).atoms ∧
      st.mol.ixns = (specMol ff nodes).ixns := by
  have hperm := sortByResid_perm nodes
  have hr := sortByResid_range nodes start hres
  have hk : ((sortByResid nodes).map (·.key)).Nodup := ((hperm.map _).nodup_iff).mpr hkeys
  unfold addBlocks specMol
  rw [hsorted] at hr hk ⊢
  exact addBlocksSorted_segs ff t segs start hne hstart hfirst hk hok hr

/-- The hypothesis `hfirst` of `C01_multires_partial` cannot be dropped — known finding
multires-first-resid-not-1: a copy of the two-residue block on the FIRST residues of a graph whose resids
start at 7 keeps the block's own resids 1, 2 (the specification demands 7, 8). -/
theorem C01_multires_first_resid_counterexample :
    (addBlocks Ex.ff ⟨[(1, "MR"), (2, "MR")], [(1, 0), (2, 0)], [[1, 2]]⟩
        [⟨1, 7, "R1", some "MR"⟩, ⟨2, 8, "R2", some "MR"⟩]).toOption.map (fun st => st.mol.atoms.map (·.resid)) =
      some [1, 1, 2] ∧
    (specMol Ex.ff ([⟨1, 7, "R1", some "MR"⟩, ⟨2, 8, "R2", some "MR"⟩] : List (ResNode Nat))).atoms.map (·.resid) =
      [7, 7, 8] := by decide

/-- The hypothesis `1 ≤ start` of `C01_layout_partial` cannot be dropped — known finding resid-start-0 (vermouth's
`merge_molecule` reads the charge-group offset from the FIRST atom when every resid so far is 0): charge
groups 1,2 | 2,3 where the specification demands 1,2 | 3,4. -/
theorem C01_layout_resid0_counterexample :
    (addBlocks Ex.ff ⟨[(1, "GLY"), (2, "GLY")], [], []⟩
        [⟨1, 0, "GLY", none⟩, ⟨2, 1, "GLY", none⟩]).toOption.map (fun st => st.mol.atoms.map (·.cgrp)) =
      some [1, 2, 2, 3] ∧
    (specMol Ex.ff ([⟨1, 0, "GLY", none⟩, ⟨2, 1, "GLY", none⟩] : List (ResNode Nat))).atoms.map (·.cgrp) =
      [1, 2, 3, 4] := by decide

/-- The hypothesis `SingleBlock` (block atoms carry resid 1) of `C01_layout_partial` cannot be dropped — known
finding block-resid-not-1: merged copies add the block's own resid to the running resid. -/
theorem C01_layout_block_resid_counterexample :
    (addBlocks ⟨[⟨"X", 1, [⟨5, 1, []⟩], []⟩], []⟩ ⟨[(1, "X"), (2, "X"), (3, "X")], [], []⟩
        [⟨1, 1, "X", none⟩, ⟨2, 2, "X", none⟩, ⟨3, 3, "X", none⟩]).toOption.map (fun st => st.mol.atoms.map (·.resid)) =
      some [1, 6, 11] := by decide

/-- The hypothesis `hres` (the residue ids are CONTIGUOUS, `start, start+1, …`) of `C01_layout_partial` cannot be
weakened to "pairwise distinct": vermouth's `merge_molecule` numbers a merged block `last resid + resid in the
block`, so residue ids 1, 3 come out as 1, 2 (the real `MapToMolecule` does the same: checked on /repo HEAD, round 5).
The property's quantifier asks for contiguous ids, so this is the boundary of the statement, not a finding. -/
theorem C01_layout_gap_counterexample :
    (addBlocks Ex.ff ⟨[(1, "GLY"), (2, "GLY")], [], []⟩
        [⟨1, 1, "GLY", none⟩, ⟨2, 3, "GLY", none⟩]).toOption.map (fun st => st.mol.atoms.map (·.resid)) =
      some [1, 1, 2, 2] ∧
    (specMol Ex.ff ([⟨1, 1, "GLY", none⟩, ⟨2, 3, "GLY", none⟩] : List (ResNode Nat))).atoms.map (·.resid) =
      [1, 1, 3, 3] := by decide

/-! ### frame: links -/

/-- **C01_frame_links** (`_partial`: missing are blocks with two interactions of the same key, hypothesis
`hkeys`, known finding dup-key-in-block, `C01_frame_links_dupkey_counterexample`; and links that remove
atoms, hypothesis `hnorem`, known finding atom-removed-by-link — the residues are renumbered then).
For ANY sequence of link operations (whatever the matcher found; no atom
removal) applied to a molecule whose block interactions have pairwise distinct keys `(section, atoms,
version)`: the interaction list is `core ++ generated exclusions`, where `core` has no duplicates,
contains every block interaction whose key no link writes (so it stays, once, with its parameters and
meta), and contains nothing but block interactions and link interactions; every atom keeps node, resid
and charge group, and an atom that no link `replace`s is unchanged altogether. -/
theorem C01_frame_links_partial (m : Mol) (ops : List LinkOp) (genExcl : List Ixn)
    (hkeys : (m.ixns.map keyOf).Nodup) (hnorem : removedNodes ops = []) :
    ∃ core, (applyLinks m ops genExcl).ixns = core ++ genExcl ∧ core.Nodup ∧
      (∀ i ∈ m.ixns, keyOf i ∉ (insertedIxns ops).map keyOf → i ∈ core) ∧
      (∀ j ∈ core, j ∈ m.ixns ∨ j ∈ insertedIxns ops) ∧
      (applyLinks m ops genExcl).atoms.map proj = m.atoms.map proj ∧
      (∀ a ∈ m.atoms, a.node ∉ replacedNodes ops → a ∈ (applyLinks m ops genExcl).atoms) :=
  applyLinks_frame m ops genExcl hkeys hnorem

/-- The hypothesis "pairwise distinct keys" of `C01_frame_links_partial` cannot be dropped — this is the known
finding dup-key-in-block: two block interactions on the same atoms with the same version (a multi-term
dihedral without version tags) — the first is lost although no link targets it. -/
theorem C01_frame_links_dupkey_counterexample :
    (applyLinks ⟨[], [⟨"dihedrals", [0, 1, 2, 3], ["9", "0", "1", "1"], []⟩,
                      ⟨"dihedrals", [0, 1, 2, 3], ["9", "0", "2", "2"], []⟩]⟩ [] []).ixns =
      [⟨"dihedrals", [0, 1, 2, 3], ["9", "0", "2", "2"], []⟩] := by decide

/-! ### frame: modifications -/

/-- **C01_frame_mods.**  One selected modification (whatever it is, applicable or not): node, resid and
charge group of every atom are unchanged; every atom that is not named by the modification inside its
target residue (`namedAtoms`: atoms of the target residue's `graph` whose atom name the modification
lists) is unchanged altogether; interactions are only appended, and only between such named atoms. -/
theorem C01_frame_mods (protein : List String) (ff : FF) (nodes : List (ResNode κ))
    (graphs : List (κ × List Nat)) (m m' : Mol) (t : ModTarget)
    (h : applyOneMod protein ff nodes graphs m t = .ok m') :
    m'.atoms.map proj = m.atoms.map proj ∧
    (∀ a ∈ m.atoms, a.node ∉ namedAtoms protein ff nodes graphs m t → a ∈ m'.atoms) ∧
    ∃ added, m'.ixns = m.ixns ++ added ∧
      ∀ j ∈ added, ∀ v ∈ j.atoms, v ∈ namedAtoms protein ff nodes graphs m t :=
  applyOneMod_frame protein ff nodes graphs m m' t h

/-- the same for the whole `-mods` selection: nothing outside the target residues changes -/
theorem C01_frame_mods_all (protein : List String) (ff : FF) (nodes : List (ResNode κ))
    (graphs : List (κ × List Nat)) (targets : List ModTarget) (m m' : Mol)
    (h : applyMods protein ff nodes graphs m targets = .ok m') :
    m'.atoms.map proj = m.atoms.map proj ∧
    (∀ a ∈ m.atoms, (∀ t ∈ targets, a.node ∉ targetGraph nodes graphs t) → a ∈ m'.atoms) ∧
    ∃ added, m'.ixns = m.ixns ++ added ∧
      ∀ j ∈ added, ∃ t ∈ targets, ∀ v ∈ j.atoms, v ∈ targetGraph nodes graphs t := by
  unfold applyMods at h
  by_cases he : ff.mods.isEmpty = true
  · simp only [he, if_true, Except.ok.injEq] at h
    subst h
    exact ⟨rfl, fun a ha _ => ha, [], by simp, by simp⟩
  · simp only [he, Bool.false_eq_true, if_false] at h
    exact applyTargets_frame protein ff nodes graphs targets m m' h

/-! ### non-vacuity: concrete instances meet the hypotheses -/

namespace Example
open PolyplyVerif.Proofs.MapToMol.Example

theorem regular : ∀ n ∈ nodes, RegularNode ff tbl n := by
  intro n hn
  simp only [nodes, List.mem_cons, List.not_mem_nil, or_false] at hn
  rcases hn with rfl | rfl | rfl
  · exact ⟨rfl, by decide, ala, by decide, by decide, by decide⟩
  · exact ⟨rfl, by decide, gly, by decide, by decide, by decide⟩
  · exact ⟨rfl, by decide, gly, by decide, by decide, by decide⟩

theorem resids : (nodes.map (·.resid)).Perm (List.range' 7 nodes.length) := by decide

def segs2 : List (Seg Nat) :=
  [.multi ⟨28, 1, "R1", some "MR"⟩ [⟨29, 2, "R2", some "MR"⟩],
   .multi ⟨30, 3, "R1", some "MR"⟩ [⟨31, 4, "R2", some "MR"⟩],
   .single ⟨32, 5, "ALA", none⟩]

theorem mrBlock : MultiBlock mr := ⟨by decide, by decide, ⟨2, 2, [("atomname", "a"), ("resname", "R2")]⟩, by decide, by decide⟩

theorem segsOK : SegsOK ff tbl2 segs2 := by
  refine ⟨⟨"MR", mr, 0, rfl, by decide, mrBlock, by decide, by decide, by decide, by decide, by decide⟩,
    ⟨"MR", mr, 1, rfl, by decide, mrBlock, by decide, by decide, by decide, by decide, by decide⟩,
    ⟨rfl, by decide, ala, by decide, by decide, by decide⟩, trivial⟩

end Example

/-- `C01_layout` / `C01_interactions` are not vacuous: the hypotheses hold for a concrete force field
and an out-of-order residue list starting at resid 7, and the conclusion is a concrete molecule -/
example : ∃ st, addBlocks Ex.ff Ex.tbl Ex.nodes = .ok st ∧
    st.mol.atoms = (specMol Ex.ff Ex.nodes).atoms :=
  C01_layout_partial Ex.ff Ex.tbl Ex.nodes 7 (by decide) (by decide) Example.resids Example.regular

example : (specMol Ex.ff Ex.nodes).atoms.map (fun a => (a.node, a.resid, a.cgrp)) =
    [(0, 7, 1), (1, 7, 2), (2, 8, 3), (3, 9, 4), (4, 9, 5)] := by decide

example : ∃ st, addBlocks Ex.ff Ex.tbl Ex.nodes = .ok st ∧
    st.mol.ixns = (specMol Ex.ff Ex.nodes).ixns :=
  C01_interactions_partial Ex.ff Ex.tbl Ex.nodes 7 (by decide) (by decide) Example.resids Example.regular

example : (specMol Ex.ff Ex.nodes).ixns =
    [⟨"bonds", [0, 1], ["1", "0.3", "5000"], []⟩, ⟨"bonds", [3, 4], ["1", "0.3", "5000"], []⟩] := by decide

example : ∃ st, addBlocks Ex.ff Ex.tbl Ex.nodes = .ok st ∧ st.graphs = [(3, [0, 1]), (10, [2]), (5, [3, 4])] :=
  C01_graphs_partial Ex.ff Ex.tbl Ex.nodes 7 (by decide) (by decide) Example.resids Example.regular

/-- `C01_multires` is not vacuous: 2·2 `from_itp` nodes (keys 28..31, inserted out of order) become two
copies of the two-residue block, followed by a regular residue -/
example : ∃ st, addBlocks Ex.ff Ex.tbl2 Ex.nodes2 = .ok st ∧
    st.mol.atoms = (specMol Ex.ff Ex.nodes2).atoms ∧
    st.mol.ixns = (specMol Ex.ff Ex.nodes2).ixns :=
  C01_multires_partial Ex.ff Ex.tbl2 Ex.nodes2 Example.segs2 1 (by decide) (by decide) (by decide)
    (fun _ _ _ _ => rfl) (by decide) Example.segsOK (by decide)

example : (specMol Ex.ff Ex.nodes2).atoms.map (fun a => (a.node, a.resid, a.cgrp)) =
    [(0, 1, 1), (1, 1, 1), (2, 2, 2), (3, 3, 3), (4, 3, 3), (5, 4, 4), (6, 5, 5)] := by decide

/-- `C01_frame_links` is not vacuous: a link overriding one block bond and adding a backbone bond -/
example : (applyLinks ⟨[⟨0, 1, 1, []⟩, ⟨1, 1, 2, []⟩, ⟨2, 2, 3, []⟩],
      [⟨"bonds", [0, 1], ["1", "0.3"], []⟩, ⟨"angles", [0, 1, 2], ["2", "120"], []⟩]⟩
    [.insert ⟨"bonds", [0, 1], ["1", "0.9"], [("version", "1")]⟩, .insert ⟨"bonds", [1, 2], ["1", "0.35"], []⟩,
     .replace 2 [("charge", "0.75")]] []).ixns =
    [⟨"bonds", [0, 1], ["1", "0.9"], [("version", "1")]⟩, ⟨"angles", [0, 1, 2], ["2", "120"], []⟩,
     ⟨"bonds", [1, 2], ["1", "0.35"], []⟩] := by decide

/-- `C01_frame_mods` is not vacuous: N-ter on residue 7 of the example changes atom 0 only -/
example : (applyOneMod ["GLY", "ALA"] Ex.ff Ex.nodes [(3, [0, 1]), (10, [2]), (5, [3, 4])]
    (specMol Ex.ff Ex.nodes) ⟨7, "N-ter", none⟩).toOption =
    some ⟨(specMol Ex.ff Ex.nodes).atoms.map (fun a =>
          if a.node = 0 then setAttrs a [("atype", "Q5"), ("charge", "1.0")] else a),
        (specMol Ex.ff Ex.nodes).ixns⟩ := by decide

end PolyplyVerif.C01
