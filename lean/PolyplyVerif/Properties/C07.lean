/-
C07 — Build-file restraints hold for every residue they select.

  "Every generated residue satisfies all geometric restraints (inside/outside sphere, cylinder,
   rectangle) and growth-direction restrictions declared for it. For each distance restraint,
   ring-shaped molecule declared cyclic (d = 0 between the two residues joined by the closing edge) or
   sampled persistence-length end-to-end distance, the restrained pair ends within
   [d - tol, d + tol + one average residue-pair size] under the minimum-image convention, and sampled
   end-to-end distances lie between one step and the contour length."

Property theorems only (helper lemmas: Proofs/Restraints.lean).  The model (Model/Restraints.lean)
mirrors `random_walk.in_sphere/in_cylinder/in_rectangle/fulfill_geometrical_constraints/is_restricted/
checks_milestones/update_positions`, `restraints.set_distance_restraint`, `gen_coords._initialize_cylces`,
`MetaMolecule.search_tree` (networkx traversals in adjacency order) and the `np.arange` grid of
`persistence.generate_end_end_distances`; it is tied to the code by the correspondence streams of
harness/c07.py on every run.  `Tables.searchTreeIfDfs` is regenerated from the source of
`MetaMolecule.search_tree` on every run: the ring theorem is re-established against the constructor the
`dfs` branch calls NOW.

All distances are compared through their squares (`distLe s r` is `√s ≤ r`, `distGe s r` is `√s ≥ r`),
which is exact over the reals; the implementation takes float square roots (trusted, see harness).
-/
import PolyplyVerif.Generated.Tables
import PolyplyVerif.Model.Restraints
import PolyplyVerif.Proofs.Restraints

namespace PolyplyVerif.C07
open PolyplyVerif PolyplyVerif.Restraints PolyplyVerif.Proofs.Restraints

/-- A position accepted by `update_positions` satisfies every region restraint declared for the residue:
sphere-in `‖p−c‖ ≤ R`, sphere-out `‖p−c‖ ≥ R`, rectangle-in all `|Δᵢ| ≤ aᵢ`, rectangle-out some
`|Δᵢ| ≥ aᵢ`, cylinder-in radial `≤ R` and `|Δz| ≤ h`, cylinder-out radial `≥ R` or `|Δz| ≥ |h|`
(the code's `out` test is one-sided in `z`; it never accepts a point inside).  Any number and mix of
restraints, any `bendiness`/overlap outcome. -/
theorem C07_geom_sound (regions : List Region) (drs : List DRestr) (opt : Option RwOption)
    (posOf : Nat → Option V3) (box last step : V3) (bend overlap : Bool)
    (h : acceptStep regions drs opt posOf box last step bend overlap = true) :
    ∀ r ∈ regions, regionHolds (wrapV (last.add step) box) r :=
  fulfill_sound _ regions (acceptStep_parts h).1

example : acceptStep [.sphere .inside ⟨5, 5, 5⟩ 3, .rectangle .outside ⟨5, 5, 5⟩ 1 1 1,
    .cylinder .outside ⟨5, 5, 5⟩ 1 1] [] none (fun _ => none) ⟨10, 10, 10⟩ ⟨5, 5, 4⟩ ⟨0, 0, -1⟩ true false = true := by decide +kernel

/-- The first residue of a molecule is placed at the start point only if the start point satisfies the
residue's own region restraints. -/
theorem C07_geom_sound_start (regions : List Region) (start : V3) (overlap : Bool)
    (h : acceptStart regions start overlap = true) : ∀ r ∈ regions, regionHolds start r := by
  simp only [acceptStart, Bool.and_eq_true] at h
  exact fulfill_sound start regions h.1

example : acceptStart [.sphere .outside ⟨5, 5, 5⟩ 3, .cylinder .inside ⟨5, 5, 1⟩ 1 2] ⟨5, 5, 1⟩ false = true := by decide +kernel

/-- An accepted step has `sign(n·step) = sign(angle)` and makes an angle of at most `|angle|` with the
normal: `n·step ≥ cos|angle|·‖n‖‖step‖` (`cosGe`, decided on squares).  `step` is the trial step itself
(`unwrapped_point - last_point`, fix b739cad), also when the new position is wrapped across a box face. -/
theorem C07_direction (regions : List Region) (drs : List DRestr) (o : RwOption)
    (posOf : Nat → Option V3) (box last step : V3) (bend overlap : Bool)
    (h : acceptStep regions drs (some o) posOf box last step bend overlap = true) :
    directionHolds o step :=
  isRestricted_sound o step (acceptStep_parts h).2.2.1

/-- the same for an acute bound and a positive angle, in the form
`(n·step)² ≥ cos²·‖n‖²‖step‖²` with `n·step > 0` -/
theorem C07_direction_acute (regions : List Region) (drs : List DRestr) (o : RwOption)
    (posOf : Nat → Option V3) (box last step : V3) (bend overlap : Bool)
    (hs : o.sgn = 1) (hc : 0 < o.cosRef)
    (h : acceptStep regions drs (some o) posOf box last step bend overlap = true) :
    0 < o.normal.dot step ∧
      o.cosRef * o.cosRef * (o.normal.nsq * step.nsq) ≤ o.normal.dot step * o.normal.dot step := by
  obtain ⟨h1, h2⟩ := C07_direction regions drs o posOf box last step bend overlap h
  have hpos : 0 < o.normal.dot step := by
    rw [hs] at h1
    unfold ratSign at h1
    split at h1
    · exact absurd h1 (by decide)
    · split at h1
      · assumption
      · exact absurd h1 (by decide)
  refine ⟨hpos, ?_⟩
  rcases h2 with ⟨_, h3 | h3⟩ | ⟨h3, _⟩
  · exact absurd h3 (not_le.mpr hc)
  · exact h3
  · exact absurd h3 (not_lt.mpr hpos.le)

example : acceptStep [] [] (some ⟨⟨0, 0, 1⟩, 1, 1 / 2⟩) (fun _ => none) ⟨10, 10, 10⟩ ⟨5, 5, 5⟩ ⟨0, 1 / 2, 1⟩
    true false = true := by decide +kernel

-- a step upward through the top face of a 3 nm box is accepted (new position z = 3/10), the same step
-- downward through the bottom face is rejected: the direction is judged on the step, not on the wrapped point
example : acceptStep [] [] (some ⟨⟨0, 0, 1⟩, 1, 0⟩) (fun _ => none) ⟨3, 3, 3⟩ ⟨1, 1, 14 / 5⟩ ⟨0, 0, 1 / 2⟩ true false = true ∧
    wrapV ((⟨1, 1, 14 / 5⟩ : V3).add ⟨0, 0, 1 / 2⟩) ⟨3, 3, 3⟩ = ⟨1, 1, 3 / 10⟩ ∧
    acceptStep [] [] (some ⟨⟨0, 0, 1⟩, 1, 0⟩) (fun _ => none) ⟨3, 3, 3⟩ ⟨1, 1, 1 / 5⟩ ⟨0, 0, -1 / 2⟩ true false = false := by
  decide +kernel

/-- Distance restraints.  For a restraint `(ref, target, d, tol)` accepted by `set_distance_restraint`
on ANY search tree, the two nodes are joined by a tree path `r … t` of any length (`r` the earlier
placed end), and — tree paths do not repeat nodes — the entry appended to `t` is
`(r, d + tol + avg, d - tol)`; every position of `t` accepted by `update_positions` while `r` is placed
has its minimum-image distance to `r` inside `[d - tol, d + tol + avg]`. -/
theorem C07_distance_window (tree : List (Nat × Nat)) (store store' : DStore) (target ref : Nat)
    (d avg tol : Rat) (hset : setDistanceRestraint tree store target ref d avg tol = .ok store') :
    ∃ r t mid, ((r = ref ∧ t = target) ∨ (r = target ∧ t = ref)) ∧
      pathFrom tree r t = some (r :: mid ++ [t]) ∧
      (t ∉ r :: mid →
        store'.get t = store.get t ++ [⟨r, d + tol + avg, d - tol⟩] ∧
        ∀ (regions : List Region) (opt : Option RwOption) (posOf : Nat → Option V3) (box last step q : V3)
          (bend overlap : Bool),
          acceptStep regions (store'.get t) opt posOf box last step bend overlap = true → posOf r = some q →
          inWindow (miSq (wrapV (last.add step) box) q box) (d - tol) (d + tol + avg)) := by
  obtain ⟨r, t, mid, hrt, hpath, hstore⟩ := setDistanceRestraint_target tree store store' target ref d avg tol hset
  refine ⟨r, t, mid, hrt, hpath, fun hnd => ⟨hstore hnd, ?_⟩⟩
  intro regions opt posOf box last step q bend overlap hacc hq
  have hm := milestones_sound posOf box _ (store'.get t) (acceptStep_parts hacc).2.1
    ⟨r, d + tol + avg, d - tol⟩ (by rw [hstore hnd]; simp) q hq
  exact hm

example : setDistanceRestraint [(0, 1), (1, 2), (2, 3)] [] 3 0 2 1 (1 / 4)
    = .ok [(1, [⟨0, 17 / 4, 5 / 12⟩]), (2, [⟨0, 13 / 4, 13 / 12⟩]), (3, [⟨0, 13 / 4, 7 / 4⟩])] := by decide +kernel

/-- The window test itself, for any stored entry: an accepted position lies inside every window whose
reference residue is already placed. -/
theorem C07_milestones_sound (regions : List Region) (drs : List DRestr) (opt : Option RwOption)
    (posOf : Nat → Option V3) (box last step : V3) (bend overlap : Bool)
    (h : acceptStep regions drs opt posOf box last step bend overlap = true) :
    ∀ r ∈ drs, ∀ q, posOf r.ref = some q → inWindow (miSq (wrapV (last.add step) box) q box) r.lb r.ub :=
  milestones_sound posOf box _ drs (acceptStep_parts h).2.1

example : acceptStep [] [⟨0, 2, 1⟩] none (fun _ => some ⟨1 / 2, 0, 0⟩) ⟨4, 4, 4⟩ ⟨3, 1, 0⟩ ⟨0, -1, 0⟩ true false = true := by decide +kernel

/-- Ring closure, every ring size.  For a ring of `n ≥ 3` residues grown from residue 0 with the tree
constructor that `MetaMolecule.search_tree` calls for `dfs = True` (read from the source by the
translator), `list(search_tree.edges)` is the Hamiltonian path `0 → 1 → … → n-1`, so the pair that
`_initialize_cylces` restrains, (source of the first tree edge, target of the last), is `(0, n-1)`: the
two residues joined by the ring-closing edge.  (Induction on `n` through the stack machine of
`networkx.dfs_edges`; residue graph of a ring whose bonds are listed `(i, i+1)`, then `(n-1, 0)`.) -/
theorem C07_cycle_closing (n : Nat) (hn : 3 ≤ n) :
    closingPair (ringTree Tables.searchTreeIfDfs n) = some (0, n - 1) ∧ ringAdjacent n 0 (n - 1) := by
  have hk : Tables.searchTreeIfDfs = "dfs_tree" := by decide
  rw [hk]
  refine ⟨(ring_dfs_tree n hn).2, ?_⟩
  unfold ringAdjacent
  omega

example : ringTree Tables.searchTreeIfDfs 5 = [(0, 1), (1, 2), (2, 3), (3, 4)] := by decide +kernel

/-- Ring closure for ANY ring: any residue keys, any root, any adjacency order.  List the ring from the
root `v0` in the direction of the root's first neighbour: `v0, v1, …, vₗ` (distinct), the root's
neighbours being `[v1, vₗ]` and every other residue having exactly its predecessor and successor on the
ring as neighbours, in either order (`chainOk`).  Then the tree built for `dfs = True` is the path along
the listing and `_initialize_cylces` restrains `(v0, vₗ)` — and `vₗ` is a ring neighbour of `v0`: the
pair joined by the ring-closing edge.  Every ring size (induction over the listing). -/
theorem C07_cycle_closing_general (nb : Nat → List Nat) (v0 v1 : Nat) (rest : List Nat) (fuel : Nat)
    (hnd : (v0 :: v1 :: rest).Nodup)
    (h0 : nb v0 = [v1, (v1 :: rest).getLast (List.cons_ne_nil _ _)])
    (hok : chainOk nb v0 v0 (v1 :: rest)) (hf : 3 * (rest.length + 2) ≤ fuel) :
    closingPair (searchTreeEdges Tables.searchTreeIfDfs nb fuel v0)
        = some (v0, (v1 :: rest).getLast (List.cons_ne_nil _ _)) ∧
      v0 ∈ nb ((v1 :: rest).getLast (List.cons_ne_nil _ _)) := by
  have hk : Tables.searchTreeIfDfs = "dfs_tree" := by decide
  rw [hk]
  exact ⟨(cycle_dfs_tree nb v0 v1 rest fuel hnd h0 hok hf).2, chainOk_last nb v0 rest v0 v1 hok⟩

-- a ring with keys 4, 2, 7, 1 (in ring order), rooted at 4, mixed adjacency orders
example : let nb : Nat → List Nat := fun v => if v = 4 then [2, 1] else if v = 2 then [7, 4] else if v = 7 then [2, 1]
      else if v = 1 then [4, 7] else []
    (([4, 2, 7, 1] : List Nat).Nodup ∧ nb 4 = [2, ([2, 7, 1] : List Nat).getLast (List.cons_ne_nil _ _)] ∧
      chainOk nb 4 4 [2, 7, 1]) ∧
    searchTreeEdges Tables.searchTreeIfDfs nb 12 4 = [(4, 2), (2, 7), (7, 1)] := by
  refine ⟨⟨by decide, by decide, ?_⟩, by decide⟩
  simp [chainOk, okNbrs]

-- the restraint `_initialize_cylces` puts on that pair (`d = 0`, tolerance `tol`) is an instance of
-- `C07_distance_window`: the window stored on residue `n-1` is `[-tol, tol + avg]` (here n = 5)
example : setDistanceRestraint (ringTree Tables.searchTreeIfDfs 5) [] 4 0 0 1 (3 / 10)
    = .ok [(1, [⟨0, 33 / 10, -3 / 10⟩]), (2, [⟨0, 23 / 10, -3 / 10⟩]), (3, [⟨0, 13 / 10, -3 / 10⟩]),
           (4, [⟨0, 13 / 10, -3 / 10⟩])] := by decide +kernel

/-- Why the tree kind matters: for a breadth-first tree the pair restrained by `_initialize_cylces` is
NOT joined by a ring edge (ring of 6: residues 0 and 3) — the ring would stay open.  (This is the
defect fixed in e644c23; the reverse patch turns `Tables.searchTreeIfDfs` into "bfs_tree" and
`C07_cycle_closing` stops checking.) -/
theorem C07_cycle_bfs_counterexample :
    closingPair (ringTree "bfs_tree" 6) = some (0, 3) ∧ ¬ ringAdjacent 6 0 3 := by
  decide

/-- What the square-free predicates used above mean over the reals: `distLe s r` is `√s ≤ r`,
`distGe s r` is `r ≤ √s`, and `cosGe d c m` is `c·√m ≤ d` — with `s = ‖p − c‖²`, `d = n·step`,
`c = cos|angle|`, `m = ‖n‖²‖step‖²` these are the inequalities of the property statement. -/
theorem C07_real_reading (s r d c m : Rat) (hm : 0 ≤ m) :
    (distLe s r ↔ Real.sqrt (s : ℝ) ≤ (r : ℝ)) ∧ (distGe s r ↔ (r : ℝ) ≤ Real.sqrt (s : ℝ)) ∧
    (cosGe d c m ↔ (c : ℝ) * Real.sqrt (m : ℝ) ≤ (d : ℝ)) :=
  ⟨distLe_iff_sqrt s r, distGe_iff_sqrt s r, cosGe_iff_sqrt d c m hm⟩

example : distLe 25 5 ∧ distGe 25 5 ∧ cosGe 1 (1 / 2) 4 := by decide +kernel

/-- Sampled end-to-end distances: every candidate of `np.arange(avg, contour, avg)` is a positive
multiple `k·avg` of the average step with `avg ≤ k·avg < contour`; the sample is drawn from these. -/
theorem C07_ee_range (avg contour : Rat) (h : 0 < avg) :
    ∀ x ∈ eeCandidates avg contour, ∃ k : Nat, 1 ≤ k ∧ x = (k : Rat) * avg ∧ eeInRange avg contour x :=
  eeCandidates_range avg contour h

example : eeCandidates (1 / 2) (9 / 4) = [1 / 2, 1, 3 / 2, 2] := by decide +kernel

end PolyplyVerif.C07
