/-
C07 — Build-file restraints hold for every residue they select.

  "Every generated residue satisfies all geometric restraints (inside/outside sphere, cylinder,
   rectangle) and growth-direction restrictions declared for it. For each distance restraint,
   ring-shaped molecule declared cyclic (d = 0 between the two residues joined by the closing edge) or
   sampled persistence-length end-to-end distance, the restrained pair ends within
   [d - tol, d + tol + one average residue-pair size] under the minimum-image convention, and sampled
   end-to-end distances lie between one step and the contour length."

Property theorems only (helper lemmas: Proofs/Restraints.lean).  The model (Model/Restraints.lean)
mirrors `random_walk.in_sphere/in_cylinder/in_rectangle/fulfill_geometrical_constraints/is_restricted/
checks_milestones/update_positions`, `restraints.set_distance_restraint`, `gen_coords._initialize_cylces`,
`MetaMolecule.search_tree` (networkx traversals in adjacency order) and the `np.arange` grid of
`persistence.generate_end_end_distances`; it is tied to the code by the correspondence streams of
harness/c07.py on every run.  `Tables.searchTreeIfDfs` is regenerated from the source of
`MetaMolecule.search_tree` on every run: the ring theorem is re-established against the constructor the
`dfs` branch calls NOW.

The ordering comparisons of the restraint tests (strict or not) are read from the source by the translator
(`Generated/RestraintTables.lean`, harness/tables/restraints.py): the soundness theorems are proved for every
table whose relations point the right way (`C07_table_sound`, re-established by `decide` against the operators
the source contains NOW), `C07_boundary_table` / `C07_boundary_cases` pin the strictness itself.
`graph_utils.compute_avg_step_length` / `_compute_path_length_cartesian` / `is_branched`,
`restraints.set_restraints` and the batch bookkeeping of `persistence.sample_end_to_end_distances` are modelled
too (`C07_avg_is_mean`, `C07_distance_window_registered`, `C07_ee_assignment`, `C07_ee_window`,
`C07_ee_grid_uniform`, `C07_is_branched`).

All distances are compared through their squares (`distLe s r` is `√s ≤ r`, `distGe s r` is `√s ≥ r`),
which is exact over the reals; the implementation takes float square roots (trusted, see harness).
-/
import PolyplyVerif.Generated.Tables
import PolyplyVerif.Generated.RestraintTables
import PolyplyVerif.Model.Restraints
import PolyplyVerif.Proofs.Restraints

namespace PolyplyVerif.C07
open PolyplyVerif PolyplyVerif.Restraints PolyplyVerif.Proofs.Restraints

/-- A position accepted by `update_positions` satisfies every region restraint declared for the residue:
sphere-in `‖p−c‖ ≤ R`, sphere-out `‖p−c‖ ≥ R`, rectangle-in all `|Δᵢ| ≤ aᵢ`, rectangle-out some
`|Δᵢ| ≥ aᵢ`, cylinder-in radial `≤ R` and `|Δz| ≤ h`, cylinder-out radial `≥ R` or `|Δz| ≥ |h|`
(the code's `out` test is one-sided in `z`; it never accepts a point inside).  Any number and mix of
restraints, any `bendiness`/overlap outcome. -/
theorem C07_geom_sound (regions : List Region) (drs : List DRestr) (opt : Option RwOption)
    (posOf : Nat → Option V3) (box last step : V3) (bend overlap : Bool)
    (h : acceptStep regions drs opt posOf box last step bend overlap = true) :
    ∀ r ∈ regions, regionHolds (wrapV (last.add step) box) r :=
  fulfill_sound _ regions (acceptStep_parts h).1

example : acceptStep [.sphere .inside ⟨5, 5, 5⟩ 3, .rectangle .outside ⟨5, 5, 5⟩ 1 1 1,
    .cylinder .outside ⟨5, 5, 5⟩ 1 1] [] none (fun _ => none) ⟨10, 10, 10⟩ ⟨5, 5, 4⟩ ⟨0, 0, -1⟩ true false = true := by decide +kernel

/-- The first residue of a molecule is placed at the start point only if the start point satisfies the
residue's own region restraints. -/
theorem C07_geom_sound_start (regions : List Region) (start : V3) (overlap : Bool)
    (h : acceptStart regions start overlap = true) : ∀ r ∈ regions, regionHolds start r := by
  simp only [acceptStart, Bool.and_eq_true] at h
  exact fulfill_sound start regions h.1

example : acceptStart [.sphere .outside ⟨5, 5, 5⟩ 3, .cylinder .inside ⟨5, 5, 1⟩ 1 2] ⟨5, 5, 1⟩ false = true := by decide +kernel

/-- An accepted step has `sign(n·step) = sign(angle)` and makes an angle of at most `|angle|` with the
normal: `n·step ≥ cos|angle|·‖n‖‖step‖` (`cosGe`, decided on squares).  `step` is the trial step itself
(`unwrapped_point - last_point`, fix b739cad), also when the new position is wrapped across a box face. -/
theorem C07_direction (regions : List Region) (drs : List DRestr) (o : RwOption)
    (posOf : Nat → Option V3) (box last step : V3) (bend overlap : Bool)
    (h : acceptStep regions drs (some o) posOf box last step bend overlap = true) :
    directionHolds o step :=
  isRestricted_sound o step (acceptStep_parts h).2.2.1

/-- the same for an acute bound and a positive angle, in the form
`(n·step)² ≥ cos²·‖n‖²‖step‖²` with `n·step > 0` -/
theorem C07_direction_acute (regions : List Region) (drs : List DRestr) (o : RwOption)
    (posOf : Nat → Option V3) (box last step : V3) (bend overlap : Bool)
    (hs : o.sgn = 1) (hc : 0 < o.cosRef)
    (h : acceptStep regions drs (some o) posOf box last step bend overlap = true) :
    0 < o.normal.dot step ∧
      o.cosRef * o.cosRef * (o.normal.nsq * step.nsq) ≤ o.normal.dot step * o.normal.dot step := by
  obtain ⟨h1, h2⟩ := C07_direction regions drs o posOf box last step bend overlap h
  have hpos : 0 < o.normal.dot step := by
    rw [hs] at h1
    unfold ratSign at h1
    split at h1
    · exact absurd h1 (by decide)
    · split at h1
      · assumption
      · exact absurd h1 (by decide)
  refine ⟨hpos, ?_⟩
  rcases h2 with ⟨_, h3 | h3⟩ | ⟨h3, _⟩
  · exact absurd h3 (not_le.mpr hc)
  · exact h3
  · exact absurd h3 (not_lt.mpr hpos.le)

example : acceptStep [] [] (some ⟨⟨0, 0, 1⟩, 1, 1 / 2⟩) (fun _ => none) ⟨10, 10, 10⟩ ⟨5, 5, 5⟩ ⟨0, 1 / 2, 1⟩
    true false = true := by decide +kernel

-- a step upward through the top face of a 3 nm box is accepted (new position z = 3/10), the same step
-- downward through the bottom face is rejected: the direction is judged on the step, not on the wrapped point
example : acceptStep [] [] (some ⟨⟨0, 0, 1⟩, 1, 0⟩) (fun _ => none) ⟨3, 3, 3⟩ ⟨1, 1, 14 / 5⟩ ⟨0, 0, 1 / 2⟩ true false = true ∧
    wrapV ((⟨1, 1, 14 / 5⟩ : V3).add ⟨0, 0, 1 / 2⟩) ⟨3, 3, 3⟩ = ⟨1, 1, 3 / 10⟩ ∧
    acceptStep [] [] (some ⟨⟨0, 0, 1⟩, 1, 0⟩) (fun _ => none) ⟨3, 3, 3⟩ ⟨1, 1, 1 / 5⟩ ⟨0, 0, -1 / 2⟩ true false = false := by
  decide +kernel

/-- Distance restraints.  For a restraint `(ref, target, d, tol)` accepted by `set_distance_restraint`
on ANY search tree, the two nodes are joined by a tree path `r … t` of any length (`r` the earlier
placed end), and — tree paths do not repeat nodes — the entry appended to `t` is
`(r, d + tol + avg, d - tol)`; every position of `t` accepted by `update_positions` while `r` is placed
has its minimum-image distance to `r` inside `[d - tol, d + tol + avg]`. -/
theorem C07_distance_window (tree : List (Nat × Nat)) (store store' : DStore) (target ref : Nat)
    (d avg tol : Rat) (hset : setDistanceRestraint tree store target ref d avg tol = .ok store') :
    ∃ r t mid, ((r = ref ∧ t = target) ∨ (r = target ∧ t = ref)) ∧
      pathFrom tree r t = some (r :: mid ++ [t]) ∧
      (t ∉ r :: mid →
        store'.get t = store.get t ++ [⟨r, d + tol + avg, d - tol⟩] ∧
        ∀ (regions : List Region) (opt : Option RwOption) (posOf : Nat → Option V3) (box last step q : V3)
          (bend overlap : Bool),
          acceptStep regions (store'.get t) opt posOf box last step bend overlap = true → posOf r = some q →
          inWindow (miSq (wrapV (last.add step) box) q box) (d - tol) (d + tol + avg)) := by
  obtain ⟨r, t, mid, hrt, hpath, hstore⟩ := setDistanceRestraint_target tree store store' target ref d avg tol hset
  refine ⟨r, t, mid, hrt, hpath, fun hnd => ⟨hstore hnd, ?_⟩⟩
  intro regions opt posOf box last step q bend overlap hacc hq
  have hm := milestones_sound posOf box _ (store'.get t) (acceptStep_parts hacc).2.1
    ⟨r, d + tol + avg, d - tol⟩ (by rw [hstore hnd]; simp) q hq
  exact hm

example : setDistanceRestraint [(0, 1), (1, 2), (2, 3)] [] 3 0 2 1 (1 / 4)
    = .ok [(1, [⟨0, 17 / 4, 5 / 12⟩]), (2, [⟨0, 13 / 4, 13 / 12⟩]), (3, [⟨0, 13 / 4, 7 / 4⟩])] := by decide +kernel

/-- The window test itself, for any stored entry: an accepted position lies inside every window whose
reference residue is already placed. -/
theorem C07_milestones_sound (regions : List Region) (drs : List DRestr) (opt : Option RwOption)
    (posOf : Nat → Option V3) (box last step : V3) (bend overlap : Bool)
    (h : acceptStep regions drs opt posOf box last step bend overlap = true) :
    ∀ r ∈ drs, ∀ q, posOf r.ref = some q → inWindow (miSq (wrapV (last.add step) box) q box) r.lb r.ub :=
  milestones_sound posOf box _ drs (acceptStep_parts h).2.1

example : acceptStep [] [⟨0, 2, 1⟩] none (fun _ => some ⟨1 / 2, 0, 0⟩) ⟨4, 4, 4⟩ ⟨3, 1, 0⟩ ⟨0, -1, 0⟩ true false = true := by decide +kernel

/-- Ring closure, every ring size.  For a ring of `n ≥ 3` residues grown from residue 0 with the tree
constructor that `MetaMolecule.search_tree` calls for `dfs = True` (read from the source by the
translator), `list(search_tree.edges)` is the Hamiltonian path `0 → 1 → … → n-1`, so the pair that
`_initialize_cylces` restrains, (source of the first tree edge, target of the last), is `(0, n-1)`: the
two residues joined by the ring-closing edge.  (Induction on `n` through the stack machine of
`networkx.dfs_edges`; residue graph of a ring whose bonds are listed `(i, i+1)`, then `(n-1, 0)`.) -/
theorem C07_cycle_closing (n : Nat) (hn : 3 ≤ n) :
    closingPair (ringTree Tables.searchTreeIfDfs n) = some (0, n - 1) ∧ ringAdjacent n 0 (n - 1) := by
  have hk : Tables.searchTreeIfDfs = "dfs_tree" := by decide
  rw [hk]
  refine ⟨(ring_dfs_tree n hn).2, ?_⟩
  unfold ringAdjacent
  omega

example : ringTree Tables.searchTreeIfDfs 5 = [(0, 1), (1, 2), (2, 3), (3, 4)] := by decide +kernel

/-- Ring closure for ANY ring: any residue keys, any root, any adjacency order.  List the ring from the
root `v0` in the direction of the root's first neighbour: `v0, v1, …, vₗ` (distinct), the root's
neighbours being `[v1, vₗ]` and every other residue having exactly its predecessor and successor on the
ring as neighbours, in either order (`chainOk`).  Then the tree built for `dfs = True` is the path along
the listing and `_initialize_cylces` restrains `(v0, vₗ)` — and `vₗ` is a ring neighbour of `v0`: the
pair joined by the ring-closing edge.  Every ring size (induction over the listing). -/
theorem C07_cycle_closing_general (nb : Nat → List Nat) (v0 v1 : Nat) (rest : List Nat) (fuel : Nat)
    (hnd : (v0 :: v1 :: rest).Nodup)
    (h0 : nb v0 = [v1, (v1 :: rest).getLast (List.cons_ne_nil _ _)])
    (hok : chainOk nb v0 v0 (v1 :: rest)) (hf : 3 * (rest.length + 2) ≤ fuel) :
    closingPair (searchTreeEdges Tables.searchTreeIfDfs nb fuel v0)
        = some (v0, (v1 :: rest).getLast (List.cons_ne_nil _ _)) ∧
      v0 ∈ nb ((v1 :: rest).getLast (List.cons_ne_nil _ _)) := by
  have hk : Tables.searchTreeIfDfs = "dfs_tree" := by decide
  rw [hk]
  exact ⟨(cycle_dfs_tree nb v0 v1 rest fuel hnd h0 hok hf).2, chainOk_last nb v0 rest v0 v1 hok⟩

-- a ring with keys 4, 2, 7, 1 (in ring order), rooted at 4, mixed adjacency orders
example : let nb : Nat → List Nat := fun v => if v = 4 then [2, 1] else if v = 2 then [7, 4] else if v = 7 then [2, 1]
      else if v = 1 then [4, 7] else []
    (([4, 2, 7, 1] : List Nat).Nodup ∧ nb 4 = [2, ([2, 7, 1] : List Nat).getLast (List.cons_ne_nil _ _)] ∧
      chainOk nb 4 4 [2, 7, 1]) ∧
    searchTreeEdges Tables.searchTreeIfDfs nb 12 4 = [(4, 2), (2, 7), (7, 1)] := by
  refine ⟨⟨by decide, by decide, ?_⟩, by decide⟩
  simp [chainOk, okNbrs]

-- the restraint `_initialize_cylces` puts on that pair (`d = 0`, tolerance `tol`) is an instance of
-- `C07_distance_window`: the window stored on residue `n-1` is `[-tol, tol + avg]` (here n = 5)
example : setDistanceRestraint (ringTree Tables.searchTreeIfDfs 5) [] 4 0 0 1 (3 / 10)
    = .ok [(1, [⟨0, 33 / 10, -3 / 10⟩]), (2, [⟨0, 23 / 10, -3 / 10⟩]), (3, [⟨0, 13 / 10, -3 / 10⟩]),
           (4, [⟨0, 13 / 10, -3 / 10⟩])] := by decide +kernel

/-- Why the tree kind matters: for a breadth-first tree the pair restrained by `_initialize_cylces` is
NOT joined by a ring edge (ring of 6: residues 0 and 3) — the ring would stay open.  (This is the
defect fixed in e644c23; the reverse patch turns `Tables.searchTreeIfDfs` into "bfs_tree" and
`C07_cycle_closing` stops checking.) -/
theorem C07_cycle_bfs_counterexample :
    closingPair (ringTree "bfs_tree" 6) = some (0, 3) ∧ ¬ ringAdjacent 6 0 3 := by
  decide

/-- What the square-free predicates used above mean over the reals: `distLe s r` is `√s ≤ r`,
`distGe s r` is `r ≤ √s`, and `cosGe d c m` is `c·√m ≤ d` — with `s = ‖p − c‖²`, `d = n·step`,
`c = cos|angle|`, `m = ‖n‖²‖step‖²` these are the inequalities of the property statement. -/
theorem C07_real_reading (s r d c m : Rat) (hm : 0 ≤ m) :
    (distLe s r ↔ Real.sqrt (s : ℝ) ≤ (r : ℝ)) ∧ (distGe s r ↔ (r : ℝ) ≤ Real.sqrt (s : ℝ)) ∧
    (cosGe d c m ↔ (c : ℝ) * Real.sqrt (m : ℝ) ≤ (d : ℝ)) :=
  ⟨distLe_iff_sqrt s r, distGe_iff_sqrt s r, cosGe_iff_sqrt d c m hm⟩

example : distLe 25 5 ∧ distGe 25 5 ∧ cosGe 1 (1 / 2) 4 := by decide +kernel

/-- Sampled end-to-end distances: every candidate of `np.arange(avg, contour, avg)` is a positive
multiple `k·avg` of the average step with `avg ≤ k·avg < contour`; the sample is drawn from these. -/
theorem C07_ee_range (avg contour : Rat) (h : 0 < avg) :
    ∀ x ∈ eeCandidates avg contour, ∃ k : Nat, 1 ≤ k ∧ x = (k : Rat) * avg ∧ eeInRange avg contour x :=
  eeCandidates_range avg contour h

example : eeCandidates (1 / 2) (9 / 4) = [1 / 2, 1, 3 / 2, 2] := by decide +kernel

/-! ### the comparison operators of the source (translator: `Generated/RestraintTables.lean`) -/

/-- **Table soundness.**  Every ordering comparison that the restraint tests of the CURRENT source make
(`in_sphere`, `in_cylinder`, `in_rectangle`, `checks_milestones`, `is_restricted`; read by the translator on
every run and normalised to "accepted iff quantity REL length") points the way the property needs: the
"inside"/upper-bound tests accept only `≤`/`<`, the "outside"/lower-bound tests only `≥`/`>`.  All soundness
theorems above are proved from this fact alone, for strict and non-strict operators alike; turning a comparison
around in the source makes this theorem (and with it all of them) fail. -/
theorem C07_table_sound :
    upperRel RestraintTables.sphereIn ∧ lowerRel RestraintTables.sphereOut ∧
    upperRel RestraintTables.cylInRadius ∧ upperRel RestraintTables.cylInHeight ∧
    lowerRel RestraintTables.cylOutRadius ∧ lowerRel RestraintTables.cylOutHeight ∧
    upperRel RestraintTables.rectInside ∧
    upperRel RestraintTables.msUpper ∧ lowerRel RestraintTables.msLower ∧
    upperRel RestraintTables.dirAngle := table_sound

example : upperRel .lt ∧ upperRel .le ∧ lowerRel .gt ∧ lowerRel .ge ∧ ¬ upperRel .ge ∧ ¬ lowerRel .lt := by decide

/-- **The operators themselves** (strictness = the fate of a point exactly on a boundary).  Changing `<` into
`<=` (or `>` into `>=`) anywhere in the five functions changes the generated table and this theorem stops
checking, although `C07_table_sound` still holds. -/
theorem C07_boundary_table :
    [RestraintTables.sphereIn, RestraintTables.sphereOut, RestraintTables.cylInRadius,
      RestraintTables.cylInHeight, RestraintTables.cylOutRadius, RestraintTables.cylOutHeight,
      RestraintTables.rectInside, RestraintTables.msUpper, RestraintTables.msLower, RestraintTables.dirAngle]
    = [.le, .ge, .lt, .lt, .gt, .gt, .lt, .le, .ge, .le] := by decide

/-- **Boundary cases**, for every centre, size and point: a point exactly ON a sphere is accepted by the `in` and
by the `out` restraint; a point exactly ON the wall of a cylinder (inside the slab) is rejected by both; a point
exactly on a face of a rectangle is rejected by `in` and accepted by `out`; a distance exactly equal to the upper
or to the lower bound of a distance restraint is accepted. -/
theorem C07_boundary_cases (p c : V3) (r h a b e : Rat) :
    ((c.sub p).nsq = r * r → 0 ≤ r → inSphere p .inside c r = true ∧ inSphere p .outside c r = true) ∧
    ((c.x - p.x) * (c.x - p.x) + (c.y - p.y) * (c.y - p.y) = r * r → 0 ≤ r → c.z - p.z ≤ rabs h →
        inCylinder p .inside c r h = false ∧ inCylinder p .outside c r h = false) ∧
    (rabs (c.x - p.x) = a → inRectangle p .inside c a b e = false ∧ inRectangle p .outside c a b e = true) ∧
    (∀ (posOf : Nat → Option V3) (box q : V3) (k : Nat) (ub lb : Rat), posOf k = some q →
        ((miSq p q box = ub * ub ∧ 0 ≤ ub ∧ lb ≤ 0) ∨ (miSq p q box = lb * lb ∧ 0 ≤ lb ∧ lb ≤ ub)) →
        checksMilestones posOf box p [⟨k, ub, lb⟩] = true) := by
  refine ⟨?_, ?_, ?_, ?_⟩
  · intro hs hr
    simp only [inSphere, RestraintTables.sphereIn, RestraintTables.sphereOut, cmpNorm, normGt, normLt, hs]
    simp [not_lt.mpr hr]
  · intro hs hr hz
    simp only [inCylinder, V3.sub, RestraintTables.cylInRadius, RestraintTables.cylInHeight,
      RestraintTables.cylOutRadius, RestraintTables.cylOutHeight, cmpNorm, cmpNum, normGt, normLt, hs]
    simp only [lt_irrefl, decide_false, Bool.and_false, Bool.false_and, Bool.or_false, true_and]
    have : ¬ (rabs h < c.z - p.z) := not_lt.mpr hz
    simp [not_lt.mpr hr, this]
  · intro ha
    simp only [inRectangle, V3.sub, RestraintTables.rectInside, cmpNum, ha]
    simp
  · intro posOf box q k ub lb hq hcase
    simp only [checksMilestones, List.all_cons, List.all_nil, hq, Bool.and_true, RestraintTables.msUpper,
      RestraintTables.msLower, cmpNorm, normGt, normLt]
    rcases hcase with ⟨hs, hu, hl⟩ | ⟨hs, hl, hlu⟩
    · rw [hs]
      simp [not_lt.mpr hu, not_lt.mpr hl]
    · rw [hs]
      have h1 : ¬ (ub < 0) := not_lt.mpr (hl.trans hlu)
      have h2 : ¬ (ub * ub < lb * lb) := not_lt.mpr (by nlinarith)
      simp [h1, h2]

example : inSphere ⟨3, 0, 0⟩ .inside ⟨0, 4, 0⟩ 5 = true ∧ inSphere ⟨3, 0, 0⟩ .outside ⟨0, 4, 0⟩ 5 = true ∧
    inCylinder ⟨3, 0, 0⟩ .inside ⟨0, 4, 0⟩ 5 1 = false ∧ inCylinder ⟨3, 0, 0⟩ .outside ⟨0, 4, 0⟩ 5 1 = false ∧
    inRectangle ⟨3, 0, 0⟩ .inside ⟨0, 0, 0⟩ 3 1 1 = false ∧ inRectangle ⟨3, 0, 0⟩ .outside ⟨0, 0, 0⟩ 3 1 1 = true := by
  decide +kernel

/-- the angle bound is closed as well: a step that makes EXACTLY the reference angle with the normal
(`(n·step)² = cos²·‖n‖²‖step‖²`, acute case) on the declared side is accepted -/
theorem C07_boundary_direction (o : RwOption) (step : V3)
    (hs : ratSign (o.normal.dot step) = o.sgn) (hd : 0 ≤ o.normal.dot step)
    (he : o.cosRef * o.cosRef * (o.normal.nsq * step.nsq) = o.normal.dot step * o.normal.dot step) :
    isRestricted (some o) step = true := by
  simp only [isRestricted, hs, bne_self_eq_false, Bool.false_eq_true, if_false, RestraintTables.dirAngle,
    angleCmpB, cosGeB, hd, if_true, he]
  simp

-- 60° between (0,0,1) and (0,√3,1)·k is not rational; a 3-4-5 instance: cos = 3/5, n = (0,0,1), step = (0,4,3)
example : isRestricted (some ⟨⟨0, 0, 1⟩, 1, 3 / 5⟩) ⟨0, 4, 3⟩ = true ∧
    isRestricted (some ⟨⟨0, 0, 1⟩, 1, 3 / 5⟩) ⟨0, 4, 3 - 1 / 100⟩ = false := by decide +kernel

/-! ### the average step length the windows are built with (`graph_utils.compute_avg_step_length`) -/

/-- **`avg` is the mean pair size over the path edges**, the contour length their sum, for a path of ANY
length: `avg · len(path) = contour = Σ size(u, v)`; the mean lies between the smallest and the largest pair size
on the path, and (no negative size) between 0 and the contour length. -/
theorem C07_avg_is_mean (size : Nat → Nat → Rat) (path : List (Nat × Nat)) (a c : Rat)
    (h : computeAvgStepLength size path = some (a, c)) :
    path ≠ [] ∧ c = (path.map fun e => size e.1 e.2).sum ∧ a * (path.length : Rat) = c ∧
      (∀ lo hi, (∀ e ∈ path, lo ≤ size e.1 e.2 ∧ size e.1 e.2 ≤ hi) → lo ≤ a ∧ a ≤ hi) ∧
      ((∀ e ∈ path, 0 ≤ size e.1 e.2) → 0 ≤ a ∧ a ≤ c) := by
  obtain ⟨h1, h2, h3, _⟩ := computeAvg_spec size path a c h
  exact ⟨h1, h2, h3, fun lo hi hb => computeAvg_between size path a c lo hi h hb,
    fun hb => computeAvg_le_contour size path a c h hb⟩

/-- pair sizes 2/5, 1/2, 3/5 along a path of three edges: contour 3/2, average 1/2 -/
example : computeAvgStepLength (fun u v => if u + v = 1 then 2 / 5 else if u + v = 3 then 1 / 2 else 3 / 5)
    [(0, 1), (1, 2), (2, 3)] = some (1 / 2, 3 / 2) := by decide +kernel

/-- **Declared distance restraints with the average the program uses.**  `set_restraints` registers every
declared restraint `(ref, target, d, tol)` of a molecule with `avg` = the mean pair size over ALL edges of the
search tree; if all registrations succeed then for every declared restraint the two residues are joined by a tree
path `r … t` (`r` the earlier placed end) and every position of `t` accepted by `update_positions` while `r` is
placed has its minimum-image distance to `r` inside `[d − tol, d + tol + avg]` with THIS `avg` — whatever other
restraints were registered before or after it, for every tree and path length. -/
theorem C07_distance_window_registered (tree : List (Nat × Nat)) (size : Nat → Nat → Rat) (store store' : DStore)
    (ds : List Declared) (hset : setRestraints tree size store ds = .ok store') :
    ∀ r ∈ ds, ∃ avg c rr tt mid, computeAvgStepLength size tree = some (avg, c) ∧
      avg * (tree.length : Rat) = (tree.map fun e => size e.1 e.2).sum ∧
      ((rr = r.ref ∧ tt = r.target) ∨ (rr = r.target ∧ tt = r.ref)) ∧
      pathFrom tree rr tt = some (rr :: mid ++ [tt]) ∧
      (tt ∉ rr :: mid →
        ∀ (regions : List Region) (opt : Option RwOption) (posOf : Nat → Option V3) (box last step q : V3)
          (bend overlap : Bool),
          acceptStep regions (store'.get tt) opt posOf box last step bend overlap = true → posOf rr = some q →
          inWindow (miSq (wrapV (last.add step) box) q box) (r.d - r.tol) (r.d + r.tol + avg)) := by
  intro r hr
  obtain ⟨avg, c, rr, tt, mid, havg, hrt, hp, hmem⟩ := (setRestraints_entries tree size ds store store' hset).2 r hr
  obtain ⟨_, hc, hmul, _⟩ := computeAvg_spec size tree avg c havg
  refine ⟨avg, c, rr, tt, mid, havg, by rw [hmul, hc], hrt, hp, fun hnd => ?_⟩
  intro regions opt posOf box last step q bend overlap hacc hq
  exact milestones_sound posOf box _ (store'.get tt) (acceptStep_parts hacc).2.1
    ⟨rr, r.d + r.tol + avg, r.d - r.tol⟩ (hmem hnd) q hq

/-- a chain 0-1-2-3 with pair sizes 2/5, 1/2, 3/5 (mean 1/2) and two declared restraints -/
example : setRestraints [(0, 1), (1, 2), (2, 3)]
      (fun u v => if u + v = 1 then 2 / 5 else if u + v = 3 then 1 / 2 else 3 / 5) []
      [⟨0, 3, 1, 1 / 4⟩, ⟨2, 0, 1 / 2, 0⟩]
    = .ok [(1, [⟨0, 9 / 4, 1 / 12⟩, ⟨0, 1, 1 / 4⟩]), (2, [⟨0, 7 / 4, 5 / 12⟩, ⟨0, 1, 1 / 2⟩]),
           (3, [⟨0, 7 / 4, 3 / 4⟩])] := by decide +kernel

/-- **Persistence batches: who receives which sampled distance.**  For one batch `(start, stop, mol_idxs)` the
average step and the contour length are those of the tree path `start … stop` (mean and sum of the pair sizes
over ITS edges, `len(path) − 1` of them), and the k-th molecule of the batch is restrained with the k-th sampled
distance — `set_distance_restraint(molecule k, stop, start, sample k, avg, tolerance 0)` — nothing else. -/
theorem C07_ee_assignment (tree : List (Nat × Nat)) (size : Nat → Nat → Rat) (start stop : Nat)
    (molIdxs : List Nat) (samples : List Rat) (avg contour : Rat) (calls : List EeCall)
    (h : sampleBatch tree size start stop molIdxs samples = some (avg, contour, calls)) :
    ∃ mid, pathFrom tree start stop = some (start :: mid ++ [stop]) ∧
      computeAvgStepLength size (edgePath (start :: mid ++ [stop])) = some (avg, contour) ∧
      (edgePath (start :: mid ++ [stop])).length = mid.length + 1 ∧
      calls.length = min molIdxs.length samples.length ∧
      ∀ k (hk : k < calls.length), ∃ (h1 : k < molIdxs.length) (h2 : k < samples.length),
        calls[k] = ⟨molIdxs[k], stop, start, samples[k], avg⟩ := by
  obtain ⟨mid, hp, hc, hl, hk⟩ := sampleBatch_spec tree size start stop molIdxs samples avg contour calls h
  refine ⟨mid, hp, hc, ?_, hl, hk⟩
  rw [edgePath_length]; simp

example : sampleBatch [(0, 1), (1, 2), (2, 3)] (fun _ _ => 1 / 2) 0 3 [4, 7] [1, 1 / 2]
    = some (1 / 2, 3 / 2, [⟨4, 3, 0, 1, 1 / 2⟩, ⟨7, 3, 0, 1 / 2, 1 / 2⟩]) := by decide +kernel

/-- … and what such a call enforces: the end-to-end distance of that molecule lies in
`[sample, sample + avg]` (an instance of `C07_distance_window` with tolerance 0). -/
theorem C07_ee_window (tree : List (Nat × Nat)) (store store' : DStore) (call : EeCall)
    (hset : setDistanceRestraint tree store call.target call.ref call.d call.avg 0 = .ok store') :
    ∃ r t mid, ((r = call.ref ∧ t = call.target) ∨ (r = call.target ∧ t = call.ref)) ∧
      pathFrom tree r t = some (r :: mid ++ [t]) ∧
      (t ∉ r :: mid →
        ∀ (regions : List Region) (opt : Option RwOption) (posOf : Nat → Option V3) (box last step q : V3)
          (bend overlap : Bool),
          acceptStep regions (store'.get t) opt posOf box last step bend overlap = true → posOf r = some q →
          inWindow (miSq (wrapV (last.add step) box) q box) call.d (call.d + call.avg)) := by
  obtain ⟨r, t, mid, hrt, hp, hw⟩ := C07_distance_window tree store store' call.target call.ref call.d call.avg 0 hset
  refine ⟨r, t, mid, hrt, hp, fun hnd => ?_⟩
  intro regions opt posOf box last step q bend overlap hacc hq
  have := (hw hnd).2 regions opt posOf box last step q bend overlap hacc hq
  simpa using this

example : setDistanceRestraint [(0, 1), (1, 2), (2, 3)] [] 3 0 1 (1 / 2) 0
    = .ok [(1, [⟨0, 2, 1 / 3⟩]), (2, [⟨0, 3 / 2, 2 / 3⟩]), (3, [⟨0, 3 / 2, 1⟩])] := by decide +kernel

/-- **The candidate grid of a stretch of `n` equal steps** is exactly `avg, 2·avg, …, (n−1)·avg`: `n − 1`
candidates, none for a stretch of a single edge (the program then fails in `np.random.choice`). -/
theorem C07_ee_grid_uniform (avg : Rat) (n : Nat) (h : 0 < avg) :
    eeCandidates avg ((n : Rat) * avg) = (List.range (n - 1)).map fun (i : Nat) => avg + (i : Rat) * avg :=
  eeCandidates_uniform avg n h

example : eeCandidates (1 / 2) ((4 : Nat) * (1 / 2)) = [1 / 2, 1, 3 / 2] ∧ eeCandidates (1 / 2) ((1 : Nat) * (1 / 2)) = [] := by
  decide +kernel

/-- `is_branched`: false exactly when no residue has more than two neighbours -/
theorem C07_is_branched (g : Adj) : isBranched g = false ↔ ∀ e ∈ g, e.2.length ≤ 2 := by
  unfold isBranched
  rw [Bool.eq_false_iff]
  simp only [ne_eq, List.any_eq_true, decide_eq_true_eq, not_exists, not_and, not_lt]

example : isBranched [(0, [1]), (1, [0, 2, 3]), (2, [1]), (3, [1])] = true ∧ isBranched (ringAdj 5) = false := by
  decide +kernel

end PolyplyVerif.C07
