/-
C03 — gen_coords writes one finite coordinate per topology atom, in topology order.

  "For every topology and option set that gen_coords accepts, the output structure lists exactly the
   atoms of the expanded [molecules] section, in topology order with their residue numbers, residue
   names and atom names, each with finite coordinates. It carries the box that was requested, or the box
   of the input structure when one is given, or a cubic box whose volume equals total mass over requested
   density."

Property theorems only (helper lemmas: Proofs/Coords.lean).  The model (Model/Coords.lean) mirrors the
`[ molecules ]` loop of `TOPDirector.finalize`, `convert_to_vermouth_system` + `write_gro`, the box
decision of `gen_coords` / `BuildSystem.__init__`, `_compute_box_size`, `_compose_system` and
`Backmap._place_init_coords`; it is tied to the code by harness/c03.py on every run, the constants
`1.6605410` and `round(…, 5)` are regenerated from `build_system.py` (Generated/CoordsTables.lean).

PARTIAL where the truth lives in floating point or in another property: "finite" is modelled as "a
position is present" (`Option`), the finiteness of a backmapped coordinate rests on scipy's optimiser
returning finite angles; that a successful random walk has placed every residue is C17's completeness
theorem and enters `C03_all_positioned` as the hypothesis `hwalk`; the cube root and the rounding are
real-number functions, the implementation uses doubles.
-/
import PolyplyVerif.Generated.CoordsTables
import PolyplyVerif.Model.Coords
import PolyplyVerif.Proofs.Coords

namespace PolyplyVerif.C03
open PolyplyVerif PolyplyVerif.Coords PolyplyVerif.Proofs.Coords

/-- The atom lines written (loop over `[ molecules ]`, inner loop over the count, `write_gro` loop over
molecules and atoms) are exactly the `[ molecules ]` section expanded in order, each atom with the
`(resid, resname, atomname)` of its topology line — for every list of molecule types and every
`[ molecules ]` section (any number of lines, repeated and non-adjacent names, any counts incl. 0);
the run is rejected exactly when a listed name is not a defined molecule type. -/
theorem C03_listing (types : List MolType) (mols : List (String × Nat)) :
    listing types mols = specListing types mols :=
  listing_eq_spec types mols

example : listing [⟨"A", [⟨1, "RA", "C1"⟩, ⟨1, "RA", "C2"⟩, ⟨2, "RB", "C1"⟩]⟩, ⟨"B", [⟨1, "W", "W"⟩]⟩]
    [("A", 1), ("B", 2), ("A", 1)]
    = some [⟨1, "RA", "C1"⟩, ⟨1, "RA", "C2"⟩, ⟨2, "RB", "C1"⟩, ⟨1, "W", "W"⟩, ⟨1, "W", "W"⟩,
            ⟨1, "RA", "C1"⟩, ⟨1, "RA", "C2"⟩, ⟨2, "RB", "C1"⟩] := by decide

/-- The number of atom lines is the sum over the `[ molecules ]` lines of count × atoms per molecule. -/
theorem C03_listing_length (types : List MolType) (mols : List (String × Nat)) (out : List Atom)
    (h : listing types mols = some out) :
    ∃ ts : List MolType, mols.map (fun e => findType types e.1) = ts.map some ∧
      out.length = ((mols.zip ts).map fun p => p.1.2 * p.2.atoms.length).sum := by
  rw [C03_listing] at h
  induction mols generalizing out with
  | nil => simp [specListing] at h; subst h; exact ⟨[], by simp⟩
  | cons e rest ih =>
    obtain ⟨name, n⟩ := e
    simp only [specListing] at h
    cases hf : findType types name with
    | none => simp [hf] at h
    | some t =>
      cases hs : specListing types rest with
      | none => simp [hf, hs] at h
      | some tail =>
        simp only [hf, hs, Option.some.injEq] at h
        obtain ⟨ts, h1, h2⟩ := ih tail hs
        refine ⟨t :: ts, by simp [hf, h1], ?_⟩
        subst h
        simp [h2, List.length_flatten, List.map_replicate, List.sum_replicate]

/-- The box of the run, stated outright: the box of the input structure if one is given, else the box
requested with `-box`, else the cube built from the density (none of the three: the run is rejected). -/
theorem C03_box_decision (cli input : Option Box) (edge : Option Rat) :
    chooseBox cli input edge =
      match input with
      | some i => some i
      | none => match cli with
        | some c => some c
        | none => edge.map fun e => (e, e, e) :=
  chooseBox_eq_spec cli input edge

example : chooseBox (some (5, 5, 5)) (some (11, 11, 11)) (some 3) = some (11, 11, 11) := by decide +kernel
example : chooseBox (some (8, 11, 11)) none none = some (8, 11, 11) := by decide +kernel
example : chooseBox none none (some (79273 / 100000)) = some (79273 / 100000, 79273 / 100000, 79273 / 100000) := by
  decide +kernel

/-- the constants of `build_system.py` as the source has them NOW: amu/nm³ → kg/m³ factor `1.6605410`
and rounding of the edge to 5 decimals -/
theorem C03_box_constants :
    CoordsTables.amuFactor = 1660541 / 1000000 ∧ CoordsTables.roundDigits = 5 := by
  decide +kernel

/-- The density cube over the reals: with `e₀ = (mass · 1.6605410 / ρ)^(1/3)` the exact edge,
`e₀³ = mass · 1.6605410 / ρ` (volume = total mass over density in the code's units) and the edge the code
uses, `round(e₀, 5)`, differs from `e₀` by at most `5·10⁻⁶`. -/
theorem C03_box_cube (mass rho : ℝ) (hm : 0 ≤ mass) (hr : 0 < rho) :
    let v := mass * (CoordsTables.amuFactor : ℝ) / rho
    let e0 := v ^ ((1 : ℝ) / 3)
    let edge := (round (e0 * 10 ^ CoordsTables.roundDigits) : ℝ) / 10 ^ CoordsTables.roundDigits
    e0 ^ 3 = v ∧ |edge - e0| ≤ 5 / 10 ^ 6 := by
  intro v e0 edge
  have hv : 0 ≤ v := by
    have hf : (0 : ℝ) ≤ (CoordsTables.amuFactor : ℝ) := by
      rw [C03_box_constants.1]; norm_num
    positivity
  refine ⟨cube_rpow_third v hv, ?_⟩
  have h := round_decimals_error CoordsTables.roundDigits e0
  rw [C03_box_constants.2] at h
  show |(round (e0 * 10 ^ CoordsTables.roundDigits) : ℝ) / 10 ^ CoordsTables.roundDigits - e0| ≤ 5 / 10 ^ 6
  rw [C03_box_constants.2]
  calc |(round (e0 * 10 ^ 5) : ℝ) / 10 ^ 5 - e0| ≤ 1 / 2 / 10 ^ 5 := h
    _ = 5 / 10 ^ 6 := by norm_num

example : (0 : ℝ) ≤ 720 ∧ (0 : ℝ) < 1000 := by norm_num

/-- At successful termination every atom has a position, for every schedule of failed and successful
placement attempts: `_compose_system` returns only after each molecule either carried positions for all
residues or had a successful random walk, and backmapping then gives a position to every atom of every
residue flagged `backmap`, the others having complete input coordinates (`inputOk`, guaranteed by
`add_positions_from_file`).  `hwalk` — a successful `RandomWalk.run_molecule` leaves every residue with a
position and does not touch flags or atom positions — is C17's completeness statement, a hypothesis
here (see the module docstring: partial). -/
theorem C03_all_positioned {P : Type} (walk : Nat → Nat → Mol P → Option (Mol P)) (place : P → Nat → P)
    (fuel : Nat)
    (hwalk : ∀ idx k m m', walk idx k m = some m' → m'.allPlaced = true ∧ (m.inputOk = true → m'.inputOk = true))
    (mols out : List (Mol P)) (hin : ∀ m ∈ mols, m.inputOk = true)
    (h : compose walk fuel 0 mols = some out) :
    ∀ m ∈ out, (backmapMol place m).atomsPlaced = true := by
  intro m hm
  obtain ⟨h1, h2⟩ := compose_spec walk fuel hwalk mols 0 out h hin m hm
  exact backmap_places place m h1 h2

-- two molecules: the first supplied completely (nothing to do), the second built at the third attempt
example : compose (P := Nat)
    (fun _ k m => if k < 2 then none else some (m.map fun r => { r with pos := some 7 })) 5 0
    [[⟨false, false, some 1, [some 1, some 2]⟩], [⟨true, true, none, [none, none, none]⟩]]
    = some [[⟨false, false, some 1, [some 1, some 2]⟩], [⟨true, true, some 7, [none, none, none]⟩]] := by
  decide

end PolyplyVerif.C03
