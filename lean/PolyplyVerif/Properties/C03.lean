/-
C03 — gen_coords writes one finite coordinate per topology atom, in topology order.

  "For every topology and option set that gen_coords accepts, the output structure lists exactly the
   atoms of the expanded [molecules] section, in topology order with their residue numbers, residue
   names and atom names, each with finite coordinates. It carries the box that was requested, or the box
   of the input structure when one is given, or a cubic box whose volume equals total mass over requested
   density."

Property theorems only (helper lemmas: Proofs/Coords.lean).  The model (Model/Coords.lean) mirrors the
`[ molecules ]` loop of `TOPDirector.finalize`, `convert_to_vermouth_system` + `write_gro`, the box
decision of `gen_coords` / `BuildSystem.__init__`, `_compute_box_size`, `_compose_system` and
`Backmap._place_init_coords`; it is tied to the code by harness/c03.py on every run, the constants
`1.6605410` and `round(…, 5)` are regenerated from `build_system.py` (Generated/CoordsTables.lean).

PARTIAL where the truth lives in floating point or in another property: "finite" is modelled as "a
position is present" (`Option`), the finiteness of a backmapped coordinate rests on scipy's optimiser
returning finite angles; that a successful random walk has placed every residue is C17's completeness
theorem and is USED as a theorem by `C03_all_positioned` (no hypothesis about the walk; the older abstract
form with the hypothesis `hwalk` is kept as `C03_compose_positioned_partial`); the cube root and the rounding
are real-number functions, the implementation uses doubles.
-/
import PolyplyVerif.Generated.CoordsTables
import PolyplyVerif.Model.Coords
import PolyplyVerif.Proofs.Coords
import PolyplyVerif.Model.Walk
import PolyplyVerif.Proofs.Walk
import PolyplyVerif.Proofs.ComposeTopCoords

namespace PolyplyVerif.C03
open PolyplyVerif PolyplyVerif.Coords PolyplyVerif.Proofs.Coords

/-- The atom lines written (loop over `[ molecules ]`, inner loop over the count, `write_gro` loop over
molecules and atoms) are exactly the `[ molecules ]` section expanded in order, each atom with the
`(resid, resname, atomname)` of its topology line — for every list of molecule types and every
`[ molecules ]` section (any number of lines, repeated and non-adjacent names, any counts incl. 0);
the run is rejected exactly when a listed name is not a defined molecule type. -/
theorem C03_listing (types : List MolType) (mols : List (String × Nat)) :
    listing types mols = specListing types mols :=
  listing_eq_spec types mols

example : listing [⟨"A", [⟨1, "RA", "C1"⟩, ⟨1, "RA", "C2"⟩, ⟨2, "RB", "C1"⟩]⟩, ⟨"B", [⟨1, "W", "W"⟩]⟩]
    [("A", 1), ("B", 2), ("A", 1)]
    = some [⟨1, "RA", "C1"⟩, ⟨1, "RA", "C2"⟩, ⟨2, "RB", "C1"⟩, ⟨1, "W", "W"⟩, ⟨1, "W", "W"⟩,
            ⟨1, "RA", "C1"⟩, ⟨1, "RA", "C2"⟩, ⟨2, "RB", "C1"⟩] := by decide

/-- The number of atom lines is the sum over the `[ molecules ]` lines of count × atoms per molecule. -/
theorem C03_listing_length (types : List MolType) (mols : List (String × Nat)) (out : List Atom)
    (h : listing types mols = some out) :
    ∃ ts : List MolType, mols.map (fun e => findType types e.1) = ts.map some ∧
      out.length = ((mols.zip ts).map fun p => p.1.2 * p.2.atoms.length).sum := by
  rw [C03_listing] at h
  induction mols generalizing out with
  | nil => simp [specListing] at h; subst h; exact ⟨[], by simp⟩
  | cons e rest ih =>
    obtain ⟨name, n⟩ := e
    simp only [specListing] at h
    cases hf : findType types name with
    | none => simp [hf] at h
    | some t =>
      cases hs : specListing types rest with
      | none => simp [hf, hs] at h
      | some tail =>
        simp only [hf, hs, Option.some.injEq] at h
        obtain ⟨ts, h1, h2⟩ := ih tail hs
        refine ⟨t :: ts, by simp [hf, h1], ?_⟩
        subst h
        simp [h2, List.length_flatten, List.map_replicate, List.sum_replicate]

/-- The box of the run, stated outright: the box of the input structure if one is given, else the box
requested with `-box`, else the cube built from the density (none of the three: the run is rejected). -/
theorem C03_box_decision (cli input : Option Box) (edge : Option Rat) :
    chooseBox cli input edge =
      match input with
      | some i => some i
      | none => match cli with
        | some c => some c
        | none => edge.map fun e => (e, e, e) :=
  chooseBox_eq_spec cli input edge

example : chooseBox (some (5, 5, 5)) (some (11, 11, 11)) (some 3) = some (11, 11, 11) := by decide +kernel
example : chooseBox (some (8, 11, 11)) none none = some (8, 11, 11) := by decide +kernel
example : chooseBox none none (some (79273 / 100000)) = some (79273 / 100000, 79273 / 100000, 79273 / 100000) := by
  decide +kernel

/-- the constants of `build_system.py` as the source has them NOW: amu/nm³ → kg/m³ factor `1.6605410`
and rounding of the edge to 5 decimals -/
theorem C03_box_constants :
    CoordsTables.amuFactor = 1660541 / 1000000 ∧ CoordsTables.roundDigits = 5 := by
  decide +kernel

/-- The density cube over the reals: with `e₀ = (mass · 1.6605410 / ρ)^(1/3)` the exact edge,
`e₀³ = mass · 1.6605410 / ρ` (volume = total mass over density in the code's units) and the edge the code
uses, `round(e₀, 5)`, differs from `e₀` by at most `5·10⁻⁶`. -/
theorem C03_box_cube (mass rho : ℝ) (hm : 0 ≤ mass) (hr : 0 < rho) :
    let v := mass * (CoordsTables.amuFactor : ℝ) / rho
    let e0 := v ^ ((1 : ℝ) / 3)
    let edge := (round (e0 * 10 ^ CoordsTables.roundDigits) : ℝ) / 10 ^ CoordsTables.roundDigits
    e0 ^ 3 = v ∧ |edge - e0| ≤ 5 / 10 ^ 6 := by
  intro v e0 edge
  have hv : 0 ≤ v := by
    have hf : (0 : ℝ) ≤ (CoordsTables.amuFactor : ℝ) := by
      rw [C03_box_constants.1]; norm_num
    positivity
  refine ⟨cube_rpow_third v hv, ?_⟩
  have h := round_decimals_error CoordsTables.roundDigits e0
  rw [C03_box_constants.2] at h
  show |(round (e0 * 10 ^ CoordsTables.roundDigits) : ℝ) / 10 ^ CoordsTables.roundDigits - e0| ≤ 5 / 10 ^ 6
  rw [C03_box_constants.2]
  calc |(round (e0 * 10 ^ 5) : ℝ) / 10 ^ 5 - e0| ≤ 1 / 2 / 10 ^ 5 := h
    _ = 5 / 10 ^ 6 := by norm_num

example : (0 : ℝ) ≤ 720 ∧ (0 : ℝ) < 1000 := by norm_num

/-! ### the default start grid (`BuildSystem.__init__`, repaired by 28d4aca) -/

/-- **Every start point is a legal position, for ALL box lengths and spacings.**  The default grid
`np.mgrid[0:box:spacing]` (x3, reshaped) filtered by `< box` holds exactly the points
`(i·s, j·s, k·s)` with `i·s < box_x`, `j·s < box_y`, `k·s < box_z` (iff), so every one of them lies in
`[0, box)` in every dimension — for every box (also non-cubic, also an exact multiple of the spacing,
where the point `box` itself is NOT produced) and every positive spacing. -/
theorem C03_grid_inside (box : Box) (s : Rat) (hs : 0 < s) :
    (∀ p, p ∈ startGrid box s ↔ ∃ i j k : Nat, p = ((i : Rat) * s, (j : Rat) * s, (k : Rat) * s) ∧
      (i : Rat) * s < box.1 ∧ (j : Rat) * s < box.2.1 ∧ (k : Rat) * s < box.2.2) ∧
    ∀ p ∈ startGrid box s, (0 ≤ p.1 ∧ p.1 < box.1) ∧ (0 ≤ p.2.1 ∧ p.2.1 < box.2.1) ∧ (0 ≤ p.2.2 ∧ p.2.2 < box.2.2) :=
  ⟨mem_startGrid box s hs, fun p hp => (insideBox_iff box p).mp (startGrid_inside box s hs p hp)⟩

-- box 21/10 with spacing 3/10 (the input of the repaired defect): 7 points per axis, the last is 18/10
example : (startGrid (21 / 10, 21 / 10, 21 / 10) (3 / 10)).length = 343 ∧
    ((18 / 10, 18 / 10, 18 / 10) : Box) ∈ startGrid (21 / 10, 21 / 10, 21 / 10) (3 / 10) ∧
    ((21 / 10, 0, 0) : Box) ∉ startGrid (21 / 10, 21 / 10, 21 / 10) (3 / 10) := by
  decide +kernel

/-- **The grid is never empty**: for every box with positive edges and every positive spacing the
origin is a grid point, so `np.random.randint(len(box_grid))` is defined; the number of points is the
product of the per-axis counts `⌈box/s⌉`; and (exact arithmetic) the filter of 28d4aca drops nothing. -/
theorem C03_grid_nonempty (box : Box) (s : Rat) (hs : 0 < s) (hb : 0 < box.1 ∧ 0 < box.2.1 ∧ 0 < box.2.2) :
    ((0, 0, 0) : Box) ∈ startGrid box s ∧ specGrid box (startGrid box s) = true ∧
    (startGrid box s).length = mgridCount box.1 s * (mgridCount box.2.1 s * mgridCount box.2.2 s) ∧
    startGrid box s = product3 (mgridAxis box.1 s) (mgridAxis box.2.1 s) (mgridAxis box.2.2 s) :=
  ⟨origin_mem_startGrid box s hs hb, specGrid_startGrid box s hs hb, startGrid_length box s hs,
   startGrid_eq_product box s hs⟩

example : startGrid (1, 1 / 2, 3 / 4) (1 / 2) = [(0, 0, 0), (0, 0, 1 / 2), (1 / 2, 0, 0), (1 / 2, 0, 1 / 2)] := by
  decide +kernel

/-- **… and this does not rest on exact arithmetic**: whatever per-axis values `np.mgrid` produces in
floating point (rounded quotient, one point more or less, rounded products) — as long as they are not
negative, every point that survives the filter `< box` is inside `[0, box)`; a point ON the upper box
face (the defect before 28d4aca: box 2.1, spacing 0.3 gives `7·0.3 = 2.1`) is removed. -/
theorem C03_grid_filter (box : Box) (xs ys zs : List Rat)
    (hx : ∀ x ∈ xs, 0 ≤ x) (hy : ∀ y ∈ ys, 0 ≤ y) (hz : ∀ z ∈ zs, 0 ≤ z) :
    (∀ p ∈ gridFilter box (product3 xs ys zs), insideBox box p = true) ∧
    ∀ p ∈ gridFilter box (product3 xs ys zs), p.1 ≠ box.1 ∧ p.2.1 ≠ box.2.1 ∧ p.2.2 ≠ box.2.2 := by
  refine ⟨gridFilter_inside box xs ys zs hx hy hz, ?_⟩
  intro p hp
  have h := (insideBox_iff box p).mp (gridFilter_inside box xs ys zs hx hy hz p hp)
  exact ⟨ne_of_lt h.1.2, ne_of_lt h.2.1.2, ne_of_lt h.2.2.2⟩

-- the float case of the repaired defect: the axis carries the value 21/10 = box; the filter removes it
example : gridFilter (21 / 10, 1, 1) (product3 [0, 18 / 10, 21 / 10] [0] [0]) = [(0, 0, 0), (18 / 10, 0, 0)] := by
  decide +kernel

/-- **At successful termination every atom has a position — no hypothesis about the walk.**
The placement state machine is the one of C17 (`Walk.run`, tied to `RandomWalk`/`BuildSystem` by the
scripted-schedule correspondence): for EVERY schedule of trial outcomes (rewinds, abandoned attempts,
give-ups after `maxiter`), every rewind depth, every system whose built molecules are well formed — if
`_compose_system` leaves its loop, then for every molecule of the topology, after
`update_positions_in_molecules` (`writeBack`) and `Backmap._place_init_coords` (`backmapMol`) every atom
of every residue carries a position.  The residue data `rs` (flags, atom positions on entry) is arbitrary
up to what `add_positions_from_file` guarantees: a residue that is not backmapped has all its atom
positions (`hin`, C04_consume), and an ignored molecule — which the engine never sees — carries a
position for every residue (`hign`: `-ign` needs complete input for the ignored types).  That a finished
run has positioned every residue is `C17_complete`, used here as a THEOREM. -/
theorem C03_all_positioned (cfg : Walk.Cfg) (mols : List Walk.Mol) (wfs : Walk.AllWF mols) (sched : List Bool)
    (hdone : (Walk.run cfg mols sched (Walk.init mols)).phase = .done)
    (place : Nat → Nat → Nat) (j : Nat) (m : Walk.Mol) (hm : mols[j]? = some m) (rs : Walk.Node → Res Nat)
    (hin : ∀ n ∈ m.nodes, ((rs n).backmap || (rs n).atoms.all Option.isSome) = true)
    (hign : m.ignored = true → ∀ n ∈ m.nodes, (rs n).pos.isSome = true) :
    (backmapMol place (writeBack (Walk.run cfg mols sched (Walk.init mols)).eng j m rs)).atomsPlaced = true := by
  apply backmap_places
  · -- every residue has a position: supplied for an ignored molecule, C17_complete otherwise
    simp only [Mol.allPlaced, writeBack, List.all_map, List.all_eq_true]
    intro n hn
    cases hig : m.ignored with
    | true => simpa [hig] using hign hig n hn
    | false =>
      simpa [hig] using Proofs.Walk.complete cfg mols wfs sched hdone j m hm hig n hn
  · simp only [Mol.inputOk, writeBack, List.all_map, List.all_eq_true]
    intro n hn
    cases hig : m.ignored with
    | true => simpa [hig] using hin n hn
    | false => simpa [hig] using hin n hn

/-- non-vacuity: the system of `C17` (chain with a supplied residue, an ignored molecule, a three-residue
molecule) under a schedule with a rewind; the run ends and molecule 0 has positions for every atom -/
example :
    let mols : List Walk.Mol := [⟨[0, 1, 2, 3], [(1, 0), (1, 2), (2, 3)], 1, [0, 2, 3], [(1, 900)], false⟩,
      ⟨[0, 1], [(0, 1)], 0, [], [(0, 901), (1, 902)], true⟩, ⟨[5, 6, 7], [(5, 6), (5, 7)], 5, [5, 6, 7], [], false⟩]
    let sched := [true, true, false, true, true, true, true, true]
    let fin := Walk.run ⟨2, 80⟩ mols sched (Walk.init mols)
    let rs : Walk.Node → Res Nat := fun n => if n = 1 then ⟨false, false, some 900, [some 1, some 2]⟩ else ⟨true, true, none, [none, none]⟩
    fin.phase = .done ∧
    (backmapMol (fun cg k => cg + k) (writeBack fin.eng 0 mols[0] rs)).atomsPlaced = true ∧
    ((writeBack fin.eng 0 mols[0] rs).map (·.pos)) = [some 0, some 900, some 2, some 3] := by
  decide

/-- The same conclusion for the abstract form of `_compose_system` in which one complete attempt of
`_handle_random_walk` is an arbitrary function `walk`.  PARTIAL: `hwalk` (a successful attempt leaves every
residue positioned and does not touch flags or atom positions) is a hypothesis about that function; for the
real placement machine it is discharged by `C03_all_positioned` above. -/
theorem C03_compose_positioned_partial {P : Type} (walk : Nat → Nat → Mol P → Option (Mol P)) (place : P → Nat → P)
    (fuel : Nat)
    (hwalk : ∀ idx k m m', walk idx k m = some m' → m'.allPlaced = true ∧ (m.inputOk = true → m'.inputOk = true))
    (mols out : List (Mol P)) (hin : ∀ m ∈ mols, m.inputOk = true)
    (h : compose walk fuel 0 mols = some out) :
    ∀ m ∈ out, (backmapMol place m).atomsPlaced = true := by
  intro m hm
  obtain ⟨h1, h2⟩ := compose_spec walk fuel hwalk mols 0 out h hin m hm
  exact backmap_places place m h1 h2

-- two molecules: the first supplied completely (nothing to do), the second built at the third attempt
example : compose (P := Nat)
    (fun _ k m => if k < 2 then none else some (m.map fun r => { r with pos := some 7 })) 5 0
    [[⟨false, false, some 1, [some 1, some 2]⟩], [⟨true, true, none, [none, none, none]⟩]]
    = some [[⟨false, false, some 1, [some 1, some 2]⟩], [⟨true, true, some 7, [none, none, none]⟩]] := by
  decide

end PolyplyVerif.C03

/-! ## end-to-end composition (appended; helper lemmas and bridge functions: Proofs/ComposeTopCoords.lean) -/

namespace PolyplyVerif.C03
open PolyplyVerif PolyplyVerif.Coords

/-! ### composition with the topology reader (C03 ∘ C08) -/

/-- **C03_listing_of_topology.**  The atom listing is determined by the READ topology, for EVERY topology
text the (single-file) reader of C08 accepts and EVERY reading `atomsOf` of a collected molecule type's atom
lines (vermouth's `read_itp`, a parameter of the C08 model).  Bridge (functions of `Proofs/ComposeTopCoords.lean`):
`Compose.molLines raws` = the `[ molecules ]` lines of the text found by an independent scan;
`parsedMols` = their counts as numbers; `Compose.bridgeTypes atomsOf g` = the collected molecule types of
the read topology `g` as `Coords.MolType`s (last one read under a name wins).  Then the listing
`gen_coords` writes (`Coords.listing`, C03) is defined and equals the `[ molecules ]` lines, in order, each
expanded `count` times into the atoms of the molecule type of that name — which is also
`topology.molecules` (`g.molecules`, C08_molecules_expand) mapped to atoms. -/
theorem C03_listing_of_topology (atomsOf : TopParse.Group → List Atom) (raws : List String) (g : TopParse.Glob)
    (h : TopParse.readSingle raws = .ok g) :
    ∃ pm, Proofs.TopParse.parsedMols (Compose.molLines raws) = some pm ∧ g.molecules = TopParse.expandSpec pm ∧
      listing (Compose.bridgeTypes atomsOf g) pm =
        some (pm.flatMap fun m => (List.replicate m.2 (Compose.atomsOfName atomsOf g m.1)).flatten) ∧
      listing (Compose.bridgeTypes atomsOf g) pm = some (g.molecules.flatMap (Compose.atomsOfName atomsOf g)) :=
  Compose.listing_of_readSingle atomsOf raws g h

/-- the same for every WELL-FORMED include tree the tree reader accepts (`readTop`; `wellFormed` is the
syntactic class of `C08_flatten_equiv`): the `[ molecules ]` lines are those of the flattened text -/
theorem C03_listing_of_topology_tree (atomsOf : TopParse.Group → List Atom) (fs : TopParse.FS) (top : TopParse.Path)
    (st : TopParse.FlatSt) (gt : TopParse.Glob)
    (hwf : TopParse.wellFormed fs top = true) (hfl : TopParse.flatten fs top = .ok st)
    (hrt : TopParse.readTop fs top = .ok gt) :
    ∃ pm, Proofs.TopParse.parsedMols (Compose.molLines st.out) = some pm ∧ gt.molecules = TopParse.expandSpec pm ∧
      listing (Compose.bridgeTypes atomsOf gt) pm =
        some (pm.flatMap fun m => (List.replicate m.2 (Compose.atomsOfName atomsOf gt m.1)).flatten) ∧
      listing (Compose.bridgeTypes atomsOf gt) pm = some (gt.molecules.flatMap (Compose.atomsOfName atomsOf gt)) :=
  Compose.listing_of_readTop atomsOf fs top st gt hwf hfl hrt

/-- Non-vacuity (one text): two molecule types, three `[ molecules ]` lines with a repeated name; the text is
read, the scan finds the three lines, and the listing is what the theorem says (atoms read with the concrete
`Compose.groupAtoms`). -/
example :
    let raws := ["[ moleculetype ]", "MOL1 1", "[ atoms ]", "1 CT 1 RES A1 1", "2 CT 2 RES A2 1 ; second residue",
                 "[ bonds ]", "1 2 1 0.15 1000", "[ moleculetype ]", "SOL 2", "[ atoms ]", "1 OW 1 SOL OW 1",
                 "[ system ]", "title", "[ molecules ]", "SOL 2", "MOL1 1", "SOL 1"]
    Compose.molLines raws = [("SOL", "2"), ("MOL1", "1"), ("SOL", "1")] ∧
    (TopParse.okOf (TopParse.readSingle raws)).map (fun g =>
        (g.molecules, listing (Compose.bridgeTypes Compose.groupAtoms g) [("SOL", 2), ("MOL1", 1), ("SOL", 1)])) =
      some (["SOL", "SOL", "MOL1", "SOL"],
            some [⟨1, "SOL", "OW"⟩, ⟨1, "SOL", "OW"⟩, ⟨1, "RES", "A1"⟩, ⟨2, "RES", "A2"⟩, ⟨1, "SOL", "OW"⟩]) := by
  decide

/-- Non-vacuity (include tree): the tree `Compose.exTree` (= `C08.fsGood`: six files, conditional includes, a molecule type in an
included file) is well formed, flattened and read; its listing -/
example :
    TopParse.wellFormed Compose.exTree ["run", "system.top"] = true ∧
    (TopParse.okOf (TopParse.flatten Compose.exTree ["run", "system.top"])).map (fun st => Compose.molLines st.out) =
      some [("SOL", "2"), ("MOL1", "1"), ("SOL", "1")] ∧
    (TopParse.okOf (TopParse.readTop Compose.exTree ["run", "system.top"])).map (fun g =>
        listing (Compose.bridgeTypes Compose.groupAtoms g) [("SOL", 2), ("MOL1", 1), ("SOL", 1)]) =
      some (some [⟨1, "SOL", "OW"⟩, ⟨1, "SOL", "OW"⟩, ⟨1, "RES", "A1"⟩, ⟨1, "SOL", "OW"⟩]) := by
  decide

end PolyplyVerif.C03
