/-
C19 — dsDNA completion adds the antiparallel Watson–Crick complement.

"Completing a strand of n nucleotides yields 2n residues: the original strand unchanged plus a second,
separate strand in which residue n+k is the complement of residue n+1-k with 5' and 3' terminal roles
exchanged, connected in that order with edge labels copied, a circular strand giving a circular
complement. Complementing the added strand again recovers the original sequence, and unknown residue
names are rejected."

Theorems: `C19_table_watson_crick`, `C19_table_involution`, `C19_table_eq` (finite table facts, `decide`);
`C19_complement` (model = specification, literally, for every strand; induction over the loop),
`C19_second_strand` (what that means residue by residue and edge by edge), `C19_reject`,
`C19_involutive`, `C19_involutive_model`, `C19_spec_defined_iff`, `C19_labels_literal`;
for residue graphs whose node keys start at any `k0` and whose resids start at any `r0` (`.json` input,
the added strand itself): `C19_complement_offset`, `C19_reject_offset` (keys only: `…_offset_key`),
`C19_offset_zero`, `C19_offset_one`, `C19_key_shift_equivariant`, `C19_resid_shift_equivariant`; for the `gen_params -dsdna` pipeline
(strand from `-seq` or `-seqf`): `C19_gen_params_dsdna`.
The model (`Model/Dna.lean`) is tied to the real code by the correspondence in `harness/c19.py`.

Property theorems only (helper lemmas live in Proofs/).  Each theorem is followed by a non-vacuity
`example`.  `Tables.baseLibrary` is regenerated from `gen_dna.BASE_LIBRARY` on every run, so the table
facts below are re-established against what the source says now.
-/
import PolyplyVerif.Generated.Tables
import PolyplyVerif.Generated.DnaTables
import PolyplyVerif.Model.Dna
import PolyplyVerif.Proofs.Dna

namespace PolyplyVerif.C19
open PolyplyVerif PolyplyVerif.Dna

/-- The repository's pairing table is exactly Watson–Crick pairing with 5'/3' roles exchanged:
same size, and every entry the property demands is what the table answers. -/
theorem C19_table_watson_crick :
    Tables.baseLibrary.length = watsonCrick.length ∧
    (Tables.baseLibrary.map (·.1)).Nodup ∧
    ∀ kv ∈ watsonCrick, lookup Tables.baseLibrary kv.1 = some kv.2 := by
  decide

/-- The pairing is an involution on the table: complementing twice gives the name back. -/
theorem C19_table_involution :
    ∀ kv ∈ Tables.baseLibrary, lookup Tables.baseLibrary kv.2 = some kv.1 := by
  decide

example : lookup Tables.baseLibrary "DA5" = some "DT3" := by decide

/-- Complementing the added strand again recovers the original sequence, for every sequence of known
residues of any length: the added strand is `map comp (reverse names)`; doing that twice is the
identity.  (`mapM` = "every residue name is known".) -/
theorem C19_involutive (names comps comps2 : List String)
    (h1 : names.reverse.mapM (lookup Tables.baseLibrary) = some comps)
    (h2 : comps.reverse.mapM (lookup Tables.baseLibrary) = some comps2) :
    comps2 = names :=
  Proofs.Dna.mapM_reverse_involutive Tables.baseLibrary C19_table_involution names comps comps2 h1 h2

example : ["DA5", "DC", "DG3"].reverse.mapM (lookup Tables.baseLibrary) = some ["DC5", "DG", "DT3"] := by decide

/-- Every residue of a complementable strand is known and the complement of an arbitrary-length strand
always exists exactly when all its names are in the table. -/
theorem C19_spec_defined_iff (names : List String) (labels : List Attrs) (circ : Option Attrs) :
    (specGraph Tables.baseLibrary names labels circ).isSome ↔
      ∀ nm ∈ names, (lookup Tables.baseLibrary nm).isSome :=
  Proofs.Dna.specGraph_isSome_iff Tables.baseLibrary names labels circ

example : (specGraph Tables.baseLibrary ["DA5", "DC", "DG3"] [] none).isSome = true := by decide

/-- The repository's table and the pairing written in the property answer every query alike (also the
unknown names: neither table knows a name the other does not). -/
theorem C19_table_eq (nm : String) : lookup Tables.baseLibrary nm = lookup watsonCrick nm :=
  Proofs.Dna.lookup_eq_of_tables Tables.baseLibrary watsonCrick (by decide) C19_table_watson_crick.2.2 nm

example : lookup Tables.baseLibrary "DG5" = lookup watsonCrick "DG5" ∧
    lookup watsonCrick "DG5" = some "DC3" ∧ lookup watsonCrick "XX" = none := by decide

/-- **Main theorem (unbounded).**  For every strand of `n ≥ 1` residues whose names the table knows —
linear, or circular with `n ≥ 3` — and arbitrary edge labels, the model of `complement_dsDNA` run with
the repository's table returns *literally* the graph of the specification evaluated with the property's
own Watson–Crick pairing: same node list, same edge list in creation order (strand edges untouched, then
the `n-1` mirrored complement edges, then the closing edge iff circular), same `max_resid`.
Proof: induction over the interleaved loop with the invariant `Proofs.Dna.stAt`.

No hypothesis on the labels is needed: they may be arbitrary item lists (the specification copies them
through `normAttrs` = "assign the items one by one to `{}`", the identity on real dictionaries, see
`C19_labels_literal`).  The linear strand with n = 2 is the one place where this matters: there the
iterator yields a closing edge (0,1) and the loop body re-assigns the attributes of the existing edge
(3,2), which is harmless because assigning the same items twice is idempotent
(`Proofs.Dna.Attrs.update_update_self`).  `circ.isSome → 3 ≤ n`: a 2-ring is the same edge twice and
cannot be represented in a `networkx.Graph`. -/
theorem C19_complement (names : List String) (labels : List Attrs) (circ : Option Attrs)
    (hn : 1 ≤ names.length) (hc : circ.isSome → 3 ≤ names.length)
    (hk : ∀ nm ∈ names, (lookup Tables.baseLibrary nm).isSome) :
    ∃ g, specGraph watsonCrick names labels circ = some g ∧
      complement Tables.baseLibrary (strandGraph names labels circ) = .ok g := by
  refine ⟨Proofs.Dna.finalGraph Tables.baseLibrary names labels circ, ?_, ?_⟩
  · rw [← Proofs.Dna.specGraph_congr Tables.baseLibrary watsonCrick C19_table_eq]
    exact Proofs.Dna.specGraph_eq_final Tables.baseLibrary names labels circ hk
  · exact Proofs.Dna.complement_eq_final Tables.baseLibrary names labels circ hn hc hk

-- non-vacuity: a 3-residue linear and a 4-residue circular strand meet the hypotheses …
example : ∃ g, specGraph watsonCrick ["DA5", "DC", "DG3"] [[("a", "1")], [("b", "2"), ("c", "3")]] none = some g ∧
    complement Tables.baseLibrary (strandGraph ["DA5", "DC", "DG3"] [[("a", "1")], [("b", "2"), ("c", "3")]] none) = .ok g :=
  C19_complement _ _ _ (by decide) (by decide) (by decide)

example : ∃ g, specGraph watsonCrick ["DA", "DC", "DG", "DT"] [[("a", "1")], [], [("b", "2")]] (some [("x", "9")]) = some g ∧
    complement Tables.baseLibrary (strandGraph ["DA", "DC", "DG", "DT"] [[("a", "1")], [], [("b", "2")]] (some [("x", "9")])) = .ok g :=
  C19_complement _ _ _ (by decide) (by decide) (by decide)

-- the n = 2 linear quirk (closing edge yielded on a linear strand) is inside the theorem's domain
example : ∃ g, specGraph watsonCrick ["DA5", "DG3"] [[("a", "1"), ("b", "2")]] none = some g ∧
    complement Tables.baseLibrary (strandGraph ["DA5", "DG3"] [[("a", "1"), ("b", "2")]] none) = .ok g :=
  C19_complement _ _ _ (by decide) (by decide) (by decide)

/-- On real dictionaries (distinct keys) the copied label is literally the original label. -/
theorem C19_labels_literal (a : Attrs) (h : (a.map (·.1)).Nodup) : normAttrs a = a :=
  Proofs.Dna.normAttrs_nodup a h

example : normAttrs [("a", "1"), ("b", "2")] = [("a", "1"), ("b", "2")] :=
  C19_labels_literal _ (by decide)

-- … and the graph is the expected one (a test, by evaluation)
example : (complement Tables.baseLibrary (strandGraph ["DA5", "DC", "DG3"] [[("a", "1")], [("b", "2")]] none)).toOption =
    some ⟨[⟨0, 1, "DA5"⟩, ⟨1, 2, "DC"⟩, ⟨2, 3, "DG3"⟩, ⟨3, 4, "DC5"⟩, ⟨4, 5, "DG"⟩, ⟨5, 6, "DT3"⟩],
         [⟨0, 1, [("a", "1")]⟩, ⟨1, 2, [("b", "2")]⟩, ⟨3, 4, [("b", "2")]⟩, ⟨4, 5, [("a", "1")]⟩], 6⟩ := by decide

/-- **Unknown residue names are rejected (unbounded).**  If any name of the strand (any length ≥ 1,
linear, or circular with n ≥ 3) is not in the table, the model raises — the `KeyError` of the first lookup or the
`IOError` inside the loop — and returns no graph. -/
theorem C19_reject (names : List String) (labels : List Attrs) (circ : Option Attrs)
    (hn : 1 ≤ names.length) (hc : circ.isSome → 3 ≤ names.length)
    (hbad : ∃ nm ∈ names, lookup watsonCrick nm = none) :
    complement Tables.baseLibrary (strandGraph names labels circ) = .error "unknown-resname" := by
  apply Proofs.Dna.complement_reject Tables.baseLibrary names labels circ hn hc
  obtain ⟨nm, hm, hnone⟩ := hbad
  exact ⟨nm, hm, by rw [C19_table_eq]; exact hnone⟩

example : complement Tables.baseLibrary (strandGraph ["DA5", "ALA", "DG3"] [] none) = .error "unknown-resname" :=
  C19_reject _ _ _ (by decide) (by decide) ⟨"ALA", by decide, by decide⟩

example : complement Tables.baseLibrary (strandGraph ["DA", "DC", "DG", "DX"] [] (some [])) = .error "unknown-resname" :=
  C19_reject _ _ _ (by decide) (by decide) ⟨"DX", by decide, by decide⟩

/-- **The second strand (corollary of `C19_complement` and the table facts).**  The model's output
keeps the first strand (first `n` nodes and the strand's edges, unchanged and in place); the added nodes
are named `map comp (reverse names)` with the property's Watson–Crick `comp`, have keys `n..2n-1` and
resids `n+1..2n`; the added edges are exactly the `n-1` chain edges `(n+k, n+k+1)` carrying the label of
the mirrored edge `(n-2-k, n-1-k)`, followed by the closing edge `(2n-1, n)` with the closing label iff
the input is circular; no edge joins the two strands. -/
theorem C19_second_strand (names : List String) (labels : List Attrs) (circ : Option Attrs)
    (hn : 1 ≤ names.length) (hc : circ.isSome → 3 ≤ names.length)
    (hk : ∀ nm ∈ names, (lookup Tables.baseLibrary nm).isSome)
    (hl : ∀ l ∈ labels, (l.map (·.1)).Nodup)
    (hcn : ∀ a, circ = some a → (a.map (·.1)).Nodup) :
    ∃ g, complement Tables.baseLibrary (strandGraph names labels circ) = .ok g ∧
      g.nodes.length = 2 * names.length ∧
      g.nodes.take names.length = (strandGraph names labels circ).nodes ∧
      (g.nodes.drop names.length).map (fun x => some x.resname) = names.reverse.map (lookup watsonCrick) ∧
      (g.nodes.drop names.length).map (·.key) = (List.range names.length).map (names.length + ·) ∧
      (g.nodes.drop names.length).map (·.resid) = (List.range names.length).map (names.length + · + 1) ∧
      g.edges = (strandGraph names labels circ).edges
        ++ (List.range (names.length - 1)).map
            (fun k => (⟨names.length + k, names.length + k + 1, labels.getD (names.length - 2 - k) []⟩ : REdge))
        ++ (circ.map (fun a => (⟨2 * names.length - 1, names.length, a⟩ : REdge))).toList ∧
      (g.edges.drop (strandGraph names labels circ).edges.length).length =
        names.length - 1 + (if circ.isSome then 1 else 0) ∧
      (∀ e ∈ g.edges, (e.u < names.length ∧ e.v < names.length) ∨
                       (names.length ≤ e.u ∧ names.length ≤ e.v)) ∧
      (3 ≤ names.length → g.hasEdge (2 * names.length - 1) names.length = circ.isSome) := by
  refine ⟨Proofs.Dna.finalGraph Tables.baseLibrary names labels circ,
    Proofs.Dna.complement_eq_final Tables.baseLibrary names labels circ hn hc hk, ?_,
    Proofs.Dna.final_nodes_take _ _ _ _, ?_,
    Proofs.Dna.final_second_keys _ _ _ _, Proofs.Dna.final_second_resids _ _ _ _,
    Proofs.Dna.final_edges_nodup _ _ _ _ hl hcn,
    Proofs.Dna.final_edges_drop_length _ _ _ _,
    Proofs.Dna.final_no_cross _ _ _ _ hn hc,
    Proofs.Dna.final_hasEdge_closing _ _ _ _ hc⟩
  · simp [Proofs.Dna.finalGraph, Proofs.Dna.strand_nodes_length]; omega
  · rw [Proofs.Dna.final_second_names Tables.baseLibrary names labels circ hk]
    exact List.map_congr_left (fun nm _ => C19_table_eq nm)

example :=
  C19_second_strand ["DA5", "DC", "DG3"] [[("a", "1")], [("b", "2")]] none (by decide) (by decide) (by decide) (by decide) (by decide)

example :=
  C19_second_strand ["DA", "DC", "DG", "DT"] [[("a", "1")], [], [("b", "2")]] (some [("x", "9")]) (by decide) (by decide) (by decide) (by decide) (by decide)

-- the same two instances by evaluation (tests)
example : (match complement Tables.baseLibrary (strandGraph ["DA5", "DC", "DG3"] [[("a", "1")], [("b", "2")]] none) with
    | .ok g => some ((g.nodes.drop 3).map (·.resname), g.hasEdge 5 3, g.hasEdge 2 3)
    | .error _ => none) = some (["DC5", "DG", "DT3"], false, false) := by decide

example : (match complement Tables.baseLibrary
      (strandGraph ["DA", "DC", "DG", "DT"] [[("a", "1")], [], [("b", "2")]] (some [("x", "9")])) with
    | .ok g => some ((g.nodes.drop 4).map (·.resname), (g.edge? 7 4).map (·.attrs), g.hasEdge 3 4)
    | .error _ => none) = some (["DA", "DC", "DG", "DT"], some [("x", "9")], false) := by decide

/-- **Involution at the level of the model (unbounded).**  Run the model on a strand; take the names of
the added strand; they are all known, and running the model on a strand made of them (any labels, linear
or circular) adds a strand whose names are the original sequence. -/
theorem C19_involutive_model (names : List String) (labels : List Attrs) (circ : Option Attrs)
    (hn : 1 ≤ names.length) (hc : circ.isSome → 3 ≤ names.length)
    (hk : ∀ nm ∈ names, (lookup Tables.baseLibrary nm).isSome) :
    ∃ g, complement Tables.baseLibrary (strandGraph names labels circ) = .ok g ∧
      ∀ (labels2 : List Attrs) (circ2 : Option Attrs), (circ2.isSome → 3 ≤ names.length) →
        ∃ g2, complement Tables.baseLibrary
            (strandGraph ((g.nodes.drop names.length).map (·.resname)) labels2 circ2) = .ok g2 ∧
          (g2.nodes.drop names.length).map (·.resname) = names :=
  Proofs.Dna.complement_involutive Tables.baseLibrary C19_table_involution names labels circ hn hc hk

example := C19_involutive_model ["DA5", "DC", "DG3"] [[("a", "1")], []] none (by decide) (by decide) (by decide)

-- by evaluation (a test): complement of the complement of DA5-DC-DG3
example : (match complement Tables.baseLibrary (strandGraph ["DC5", "DG", "DT3"] [] none) with
    | .ok g => some ((g.nodes.drop 3).map (·.resname)) | .error _ => none) = some ["DA5", "DC", "DG3"] := by decide

/-! ### node keys that do not start at 0 (`.json` sequence files) -/

/-- **Main theorem for arbitrary first node key (unbounded in `k0` and in the strand).**  For every `k0`,
on the strand whose node keys are `k0..k0+n-1` (resids `1..n`) the model returns literally
`specGraphFrom k0`: the strand unchanged, new nodes with keys `k0+n..k0+2n-1` and resids `n+1..2n` named
by the antiparallel Watson–Crick complement, edges `(k0+n+k, k0+n+k+1)` with the mirrored labels, closing
edge `(k0+2n-1, k0+n)` iff circular.  Proof: `Proofs.Dna.complement_shift` (the model commutes with
renaming the keys `x ↦ x + k0` of any residue graph) applied to `C19_complement`'s graph. -/
theorem C19_complement_offset_key (k0 : Nat) (names : List String) (labels : List Attrs) (circ : Option Attrs)
    (hn : 1 ≤ names.length) (hc : circ.isSome → 3 ≤ names.length)
    (hk : ∀ nm ∈ names, (lookup Tables.baseLibrary nm).isSome) :
    ∃ g, specGraphFrom k0 watsonCrick names labels circ = some g ∧
      complement Tables.baseLibrary (strandGraphFrom k0 names labels circ) = .ok g := by
  rw [← Proofs.Dna.specGraphFrom_congr k0 Tables.baseLibrary watsonCrick C19_table_eq]
  exact Proofs.Dna.complement_offset k0 Tables.baseLibrary names labels circ hn hc hk

example : ∃ g, specGraphFrom 7 watsonCrick ["DA5", "DC", "DG3"] [[("a", "1")], [("b", "2")]] none = some g ∧
    complement Tables.baseLibrary (strandGraphFrom 7 ["DA5", "DC", "DG3"] [[("a", "1")], [("b", "2")]] none) = .ok g :=
  C19_complement_offset_key 7 _ _ _ (by decide) (by decide) (by decide)

example : ∃ g, specGraphFrom 4 watsonCrick ["DA", "DC", "DG", "DT"] [] (some [("linktype", "circle")]) = some g ∧
    complement Tables.baseLibrary (strandGraphFrom 4 ["DA", "DC", "DG", "DT"] [] (some [("linktype", "circle")])) = .ok g :=
  C19_complement_offset_key 4 _ _ _ (by decide) (by decide) (by decide)

-- by evaluation (a test): keys 1..3 get the complement on keys 4..6, resids 4..6
example : (complement Tables.baseLibrary (strandGraphFrom 1 ["DA5", "DC", "DG3"] [[("a", "1")], []] none)).toOption =
    some ⟨[⟨1, 1, "DA5"⟩, ⟨2, 2, "DC"⟩, ⟨3, 3, "DG3"⟩, ⟨4, 4, "DC5"⟩, ⟨5, 5, "DG"⟩, ⟨6, 6, "DT3"⟩],
         [⟨1, 2, [("a", "1")]⟩, ⟨2, 3, []⟩, ⟨4, 5, []⟩, ⟨5, 6, [("a", "1")]⟩], 6⟩ := by decide

/-- `C19_complement` is the `k0 = 0` instance: the two strand graphs and the two specifications coincide. -/
theorem C19_offset_zero (names : List String) (labels : List Attrs) (circ : Option Attrs) :
    strandGraphFrom 0 names labels circ = strandGraph names labels circ ∧
    specGraphFrom 0 watsonCrick names labels circ = specGraph watsonCrick names labels circ :=
  ⟨Proofs.Dna.strandGraphFrom_zero names labels circ, Proofs.Dna.specGraphFrom_zero watsonCrick names labels circ⟩

example : strandGraphFrom 0 ["DA5", "DG3"] [[("a", "1")]] none = ⟨[⟨0, 1, "DA5"⟩, ⟨1, 2, "DG3"⟩], [⟨0, 1, [("a", "1")]⟩], 2⟩ := by
  decide

/-- **Rejection for arbitrary first node key.** -/
theorem C19_reject_offset_key (k0 : Nat) (names : List String) (labels : List Attrs) (circ : Option Attrs)
    (hn : 1 ≤ names.length) (hc : circ.isSome → 3 ≤ names.length)
    (hbad : ∃ nm ∈ names, lookup watsonCrick nm = none) :
    complement Tables.baseLibrary (strandGraphFrom k0 names labels circ) = .error "unknown-resname" := by
  apply Proofs.Dna.complement_reject_offset k0 Tables.baseLibrary names labels circ hn hc
  obtain ⟨nm, hm, hnone⟩ := hbad
  exact ⟨nm, hm, by rw [C19_table_eq]; exact hnone⟩

example : complement Tables.baseLibrary (strandGraphFrom 4 ["DA5", "XYDC", "DG3"] [] none) = .error "unknown-resname" :=
  C19_reject_offset_key 4 _ _ _ (by decide) (by decide) ⟨"XYDC", by decide, by decide⟩

/-- **Equivariance (the reason the offset does not matter).**  For *every* residue graph — not only
strands — renaming the node keys `x ↦ x + k` commutes with the model of `complement_dsDNA`. -/
theorem C19_key_shift_equivariant (g : RGraph) (k : Nat) :
    complement Tables.baseLibrary (g.shiftKeys k) = (complement Tables.baseLibrary g).map (·.shiftKeys k) :=
  Proofs.Dna.complement_shift Tables.baseLibrary g k

example : (strandGraph ["DA", "DC", "DG"] [] (some [])).shiftKeys 4 = strandGraphFrom 4 ["DA", "DC", "DG"] [] (some []) := by
  decide

/-! ### resids that do not start at 1 (`.json` residue graphs; the added strand itself) -/

/-- **Main theorem for arbitrary first node key AND first resid (unbounded in `k0`, `r0`, the strand).**
On the strand with node keys `k0..k0+n-1` and resids `r0..r0+n-1` (`max_resid = r0+n-1`) the model returns
literally `specGraphAt k0 r0`: the strand unchanged, new nodes with keys `k0+n..k0+2n-1` and resids
`r0+n..r0+2n-1` (numbering continues after `max_resid`) named by the antiparallel Watson–Crick complement,
the mirrored labelled edges, the closing edge iff circular.  In particular (k0 := k0+n, r0 := r0+n) this
covers the strand that a first completion ADDED, circular included: complementing it again closes the
ring again.  Proof: `Proofs.Dna.complement_shiftResids` (the model commutes with renumbering the resids
of any residue graph) and `C19_complement_offset_key`. -/
theorem C19_complement_offset (k0 r0 : Nat) (names : List String) (labels : List Attrs) (circ : Option Attrs)
    (hn : 1 ≤ names.length) (hc : circ.isSome → 3 ≤ names.length)
    (hk : ∀ nm ∈ names, (lookup Tables.baseLibrary nm).isSome) :
    ∃ g, specGraphAt k0 r0 watsonCrick names labels circ = some g ∧
      complement Tables.baseLibrary (strandGraphAt k0 r0 names labels circ) = .ok g := by
  rw [← Proofs.Dna.specGraphAt_congr k0 r0 Tables.baseLibrary watsonCrick C19_table_eq]
  exact Proofs.Dna.complement_at k0 r0 Tables.baseLibrary names labels circ hn hc hk

example : ∃ g, specGraphAt 7 101 watsonCrick ["DA", "DC", "DG"] [[("a", "0")], []] (some []) = some g ∧
    complement Tables.baseLibrary (strandGraphAt 7 101 ["DA", "DC", "DG"] [[("a", "0")], []] (some [])) = .ok g :=
  C19_complement_offset 7 101 _ _ _ (by decide) (by decide) (by decide)

-- by evaluation (a test): a ring with keys 3..5, resids 4..6 and an UNLABELLED closing edge — i.e. the
-- strand a first completion added — gets a ring as complement
example : (complement Tables.baseLibrary (strandGraphAt 3 4 ["DC", "DG", "DT"] [] (some []))).toOption =
    some ⟨[⟨3, 4, "DC"⟩, ⟨4, 5, "DG"⟩, ⟨5, 6, "DT"⟩, ⟨6, 7, "DA"⟩, ⟨7, 8, "DC"⟩, ⟨8, 9, "DG"⟩],
         [⟨3, 4, []⟩, ⟨3, 5, []⟩, ⟨4, 5, []⟩, ⟨6, 7, []⟩, ⟨7, 8, []⟩, ⟨8, 6, []⟩], 9⟩ := by decide

/-- `C19_complement_offset_key` is the `r0 = 1` instance. -/
theorem C19_offset_one (k0 : Nat) (names : List String) (labels : List Attrs) (circ : Option Attrs) :
    strandGraphAt k0 1 names labels circ = strandGraphFrom k0 names labels circ ∧
    specGraphAt k0 1 watsonCrick names labels circ = specGraphFrom k0 watsonCrick names labels circ :=
  ⟨Proofs.Dna.strandGraphAt_one k0 names labels circ,
   Proofs.Dna.specGraphAt_one k0 watsonCrick names labels circ⟩

example : strandGraphAt 0 1 ["DA5", "DG3"] [[("a", "1")]] none = strandGraph ["DA5", "DG3"] [[("a", "1")]] none := by
  decide

/-- **Rejection for arbitrary first node key and first resid.** -/
theorem C19_reject_offset (k0 r0 : Nat) (names : List String) (labels : List Attrs) (circ : Option Attrs)
    (hn : 1 ≤ names.length) (hc : circ.isSome → 3 ≤ names.length)
    (hbad : ∃ nm ∈ names, lookup watsonCrick nm = none) :
    complement Tables.baseLibrary (strandGraphAt k0 r0 names labels circ) = .error "unknown-resname" := by
  apply Proofs.Dna.complement_reject_at k0 r0 Tables.baseLibrary names labels circ hn hc
  obtain ⟨nm, hm, hnone⟩ := hbad
  exact ⟨nm, hm, by rw [C19_table_eq]; exact hnone⟩

example : complement Tables.baseLibrary (strandGraphAt 4 11 ["DA5", "XYDC", "DG3"] [] none) = .error "unknown-resname" :=
  C19_reject_offset 4 11 _ _ _ (by decide) (by decide) ⟨"XYDC", by decide, by decide⟩

/-- **Equivariance in the resids.**  For *every* residue graph, renumbering the resids `r ↦ r + d`
commutes with the model of `complement_dsDNA`. -/
theorem C19_resid_shift_equivariant (g : RGraph) (d : Nat) :
    complement Tables.baseLibrary (g.shiftResids d) = (complement Tables.baseLibrary g).map (·.shiftResids d) :=
  Proofs.Dna.complement_shiftResids Tables.baseLibrary g d

example : (strandGraphAt 4 0 ["DA", "DC", "DG"] [] (some [])).shiftResids 5 = strandGraphAt 4 5 ["DA", "DC", "DG"] [] (some []) := by
  decide

/-! ### the `gen_params … -dsdna` pipeline (`gen_itp.py`) -/

/-- **`-dsdna` completes the strand whichever way it was given.**  For the model of `gen_params` up to
`MapToMolecule` (`genParamsDsdna`: strand from `-seq` *or* from `-seqf`, then
`if dsdna: complement_dsDNA`), for every strand of `n ≥ 1` known residues: with `dsdna = true` the residue
graph handed to `MapToMolecule` has the `2n` residue names `names ++ map comp (reverse names)` (Watson–Crick
`comp` of the property) in node order — for BOTH sources; with `dsdna = false` it has the names `names`. -/
theorem C19_gen_params_dsdna (inp : SeqInput)
    (hn : 1 ≤ inp.names.length) (hc : inp.circ.isSome → 3 ≤ inp.names.length)
    (hk : ∀ nm ∈ inp.names, (lookup Tables.baseLibrary nm).isSome) :
    (∃ g, genParamsDsdna Tables.baseLibrary inp true = .ok g ∧
        g.nodes.map (fun x => some x.resname) =
          inp.names.map some ++ inp.names.reverse.map (lookup watsonCrick)) ∧
    (∃ g, genParamsDsdna Tables.baseLibrary inp false = .ok g ∧ g.nodes.map (·.resname) = inp.names) := by
  obtain ⟨⟨g, h1, h2⟩, h3⟩ := Proofs.Dna.genParams_dsdna Tables.baseLibrary inp hn hc hk
  refine ⟨⟨g, h1, ?_⟩, h3⟩
  rw [h2, List.map_congr_left (fun nm _ => C19_table_eq nm)]

example := C19_gen_params_dsdna (.seq ["DA5", "DC", "DG3"]) (by decide) (by decide) (by decide)
example := C19_gen_params_dsdna (.seqFile 4 1 ["DA", "DC", "DG", "DT"] [] (some [("linktype", "circle")]))
  (by decide) (by decide) (by decide)

-- by evaluation (tests): both sources, with and without the flag
example : ((genParamsDsdna Tables.baseLibrary (.seq ["DA5", "DC", "DG3"]) true).toOption.map
    (·.nodes.map (·.resname))) = some ["DA5", "DC", "DG3", "DC5", "DG", "DT3"] := by decide
example : ((genParamsDsdna Tables.baseLibrary (.seqFile 1 101 ["DA5", "DC", "DG3"] [] none) true).toOption.map
    (·.nodes.map (·.resname))) = some ["DA5", "DC", "DG3", "DC5", "DG", "DT3"] := by decide
example : ((genParamsDsdna Tables.baseLibrary (.seq ["DA5", "DC", "DG3"]) false).toOption.map
    (·.nodes.map (·.resname))) = some ["DA5", "DC", "DG3"] := by decide

/-! ### Round 5: translator anchors of `gen_dna.py` (`Generated/DnaTables.lean`) and closure of the table -/

/-- Translator anchor (round 5): the descending-resid traversal of the model steps by the constant the CURRENT source
of `_dna_edge_iterator` compares the resid difference with (`rfl` for EVERY graph: it stops checking when the source
says something else), the step is one residue, and the code reads exactly the two node attributes the model's
nodes carry. -/
theorem C19_anchor_iterator :
    (∀ (g : RGraph) (first src : Nat), iterStep g first src =
      match g.resid? src with
      | none => none
      | some rs =>
        (g.neighbors src).findSome? fun nn =>
          match g.resid? nn with
          | none => none
          | some rn =>
            if rs = rn + DnaTables.iteratorStep then some (nn, false)
            else if rn > rs && nn == first then some (nn, true)
            else none) ∧
    DnaTables.iteratorStep = 1 ∧ DnaTables.nodeAttrs = ["resid", "resname"] :=
  ⟨fun _ _ _ => rfl, by decide, by decide⟩

example : iterStep (strandGraph ["DA5", "DT", "DG3"] [] none) 2 2 = some (1, false) ∧
    iterStep (strandGraph ["DA", "DT", "DG"] [] (some [("linktype", "circle")])) 2 0 = some (2, true) := by decide

/-- The translated pairing table is closed under complement (every value is a key), has no repeated key and no
fixed point, and covers exactly the twelve names of the specification: there is no residue name whose complement
could not be complemented again.  `decide` on the translated literal. -/
theorem C19_table_closed :
    (Tables.baseLibrary.map (·.1)).Nodup ∧
    (∀ kv ∈ Tables.baseLibrary, (lookup Tables.baseLibrary kv.2).isSome ∧ kv.2 ≠ kv.1) ∧
    Tables.baseLibrary.length = 12 ∧ (∀ kv ∈ watsonCrick, (lookup Tables.baseLibrary kv.1) = some kv.2) := by
  decide

example : lookup Tables.baseLibrary "DA5" = some "DT3" ∧ lookup Tables.baseLibrary "DU" = none := by decide
end PolyplyVerif.C19
