/-
C19 — dsDNA completion adds the antiparallel Watson–Crick complement.
Property theorems only (helper lemmas live in Proofs/).  Each theorem is followed by a non-vacuity
`example`.  `Tables.baseLibrary` is regenerated from `gen_dna.BASE_LIBRARY` on every run, so the table
facts below are re-established against what the source says now.
-/
import PolyplyVerif.Generated.Tables
import PolyplyVerif.Model.Dna
import PolyplyVerif.Proofs.Dna

namespace PolyplyVerif.C19
open PolyplyVerif PolyplyVerif.Dna

/-- The repository's pairing table is exactly Watson–Crick pairing with 5'/3' roles exchanged:
same size, and every entry the property demands is what the table answers. -/
theorem C19_table_watson_crick :
    Tables.baseLibrary.length = watsonCrick.length ∧
    (Tables.baseLibrary.map (·.1)).Nodup ∧
    ∀ kv ∈ watsonCrick, lookup Tables.baseLibrary kv.1 = some kv.2 := by
  decide

/-- The pairing is an involution on the table: complementing twice gives the name back. -/
theorem C19_table_involution :
    ∀ kv ∈ Tables.baseLibrary, lookup Tables.baseLibrary kv.2 = some kv.1 := by
  decide

example : lookup Tables.baseLibrary "DA5" = some "DT3" := by decide

/-- Complementing the added strand again recovers the original sequence, for every sequence of known
residues of any length: the added strand is `map comp (reverse names)`; doing that twice is the
identity.  (`mapM` = "every residue name is known".) -/
theorem C19_involutive (names comps comps2 : List String)
    (h1 : names.reverse.mapM (lookup Tables.baseLibrary) = some comps)
    (h2 : comps.reverse.mapM (lookup Tables.baseLibrary) = some comps2) :
    comps2 = names :=
  Proofs.Dna.mapM_reverse_involutive Tables.baseLibrary C19_table_involution names comps comps2 h1 h2

example : ["DA5", "DC", "DG3"].reverse.mapM (lookup Tables.baseLibrary) = some ["DC5", "DG", "DT3"] := by decide

/-- Every residue of a complementable strand is known and the complement of an arbitrary-length strand
always exists exactly when all its names are in the table. -/
theorem C19_spec_defined_iff (names : List String) (labels : List Attrs) (circ : Option Attrs) :
    (specGraph Tables.baseLibrary names labels circ).isSome ↔
      ∀ nm ∈ names, (lookup Tables.baseLibrary nm).isSome :=
  Proofs.Dna.specGraph_isSome_iff Tables.baseLibrary names labels circ

end PolyplyVerif.C19
