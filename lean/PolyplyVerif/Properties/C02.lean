/-
C02 — links are applied exactly where their definition matches.

properties.jsonl: "An inter-residue interaction, bond edge or atom-attribute replacement appears in the
generated molecule if and only if a link of the force field matches: residues connected as in the
link's residue pattern, with matching residue names, relative residue order and edge labels, in which
every link atom identifies exactly one atom and no forbidden edge or failing pattern vetoes it; the
interaction then carries the link's parameters on exactly those atoms. If several matches define the
same atoms and version the one from the link defined last wins, and dangling interactions in monomer
.itp files behave as the equivalent next-residue links (present for every window that fits inside the
chain, absent at its end)."

Property theorems only; helper lemmas are in `Proofs/Links.lean`.  All statements are about the model
`Links.applyLinks` of `ApplyLinks.run_molecule` (tied to the code by the correspondence check) and hold
for every input: any number of atoms, residues, links, interactions.

Reading guide: `evs inp` is the list of ACCEPTED link applications (link + atom correspondence) in the
order the double loop visits them; `C02_matches_iff` / `C02_cands_iff` / `C02_accepted_iff` say which
applications are accepted (sound and complete: the enumeration standing for VF2 returns exactly the
injective, residue-name- and linktype-respecting induced-subgraph matches); `C02_iff` /
`C02_present_iff` / `C02_edges_iff` / `C02_attrs_last` / `C02_atoms_keys` say that the interactions /
edges / atom attributes / atoms of the result are exactly what the blocks and the accepted applications
define, later ones winning (`C02_fold_insert_last`); `C02_matchOrder_table` gives the meaning of the
order tokens for all integers, `C02_check_relative_order` the whole of `_check_relative_order`;
`C02_dangling_equiv`, `C02_versions_distinct` and
`C02_dangling_windows` (every chain length) cover the dangling interactions of monomer .itp files;
`C02_explicit_ok_iff` / `C02_explicit_iff` / `C02_explicit_edges_iff` / `C02_run_explicit` cover the links
that address atoms by number (`by_atom_id`, `apply_explicit_link`): applied iff every addressed atom
exists, later wins, edges between consecutive atoms, exception otherwise.

Partial / not covered:
* The enumeration order of the matches of ONE link is that of `Links.resMatches`; the real code uses the
  order of networkx' VF2.  `C02_iff` is exact for "the link defined last wins" and leaves the order among
  matches of the same link as the model's (the check compares only cases in which that order cannot be
  observed, `Links.sameLinkCollisions = 0`, and counts the others).
* The candidate list contains the code's residue-name pre-filter (`Links.prefilter`): a link none of whose
  atoms names a residue is never a candidate (known finding `link-without-resname-skipped`; the oracle's
  `Links.specCands` has no such filter).
-/
import PolyplyVerif.Model.Links
import PolyplyVerif.Proofs.Links
import PolyplyVerif.Proofs.LinksWindows

namespace PolyplyVerif.C02
open PolyplyVerif PolyplyVerif.Links

/-- the accepted link applications of a run, in order -/
def evs (inp : Input) : List Event := events inp (initSt inp) (cands inp)

/-- atoms scheduled for removal (`nodes_to_remove`) -/
def removed (inp : Input) : List Nat := (evs inp).flatMap Event.removals

/-! ### a concrete instance used by the non-vacuity examples

two residues named A with atoms A X B (keys 0 1 2 | 3 4 5), block bonds A-B in each; one link `B +A`
that also replaces the atom type of `+A` and, if `removeX`, removes atom `X` of the first residue
(node key 1). -/

def exAtom (key : Nat) (resid : Int) (name : String) : Atom :=
  ⟨key, resid, [("atomname", name), ("resname", "s:A"), ("resid", "i:" ++ toString resid)]⟩

/-- link `B +A` between consecutive residues named A, with `C {replace: {atomname: null}}` -/
def exLink (removeX : Bool) : Link :=
  { atoms := [⟨"B", .num 0, [("atomname", .eq "s:B"), ("resname", .eq "s:A")], [], false⟩,
              ⟨"+A", .num 1, [("atomname", .eq "s:A"), ("resname", .eq "s:A")], [("atype", "s:Z")], false⟩] ++
             (if removeX then [⟨"X", .num 0, [("atomname", .eq "s:X"), ("resname", .eq "s:A")], [], true⟩] else []),
    ixns := [⟨"bonds", ["B", "+A"], 1, ["1", "0.2"], []⟩],
    edges := [("B", "+A", none)], nonEdges := [], patterns := [], molMeta := [] }

/-- two residues A(0) X(1) B(2) | A(3) X(4) B(5), block bonds A-B, B-X -/
def exInput (removeX : Bool) : Input :=
  let ats := [exAtom 0 1 "s:A", exAtom 1 1 "s:X", exAtom 2 1 "s:B", exAtom 3 2 "s:A", exAtom 4 2 "s:X", exAtom 5 2 "s:B"]
  { atoms := ats, edges := [(0, 2), (2, 1), (3, 5), (5, 4)],
    ixns := [(⟨"bonds", [0, 2], 1⟩, ⟨["1", "0.1"], []⟩), (⟨"bonds", [3, 5], 1⟩, ⟨["1", "0.1"], []⟩)],
    molMeta := [],
    res := [⟨0, 1, [("resname", "s:A")], (ats.take 3).map (fun a => (a.key, a.attrs))⟩,
            ⟨1, 2, [("resname", "s:A")], (ats.drop 3).map (fun a => (a.key, a.attrs))⟩],
    redges := [(0, 1, none)], links := [exLink removeX] }

/-! ### later wins (general) -/

/-- After folding `insert` over any list of key/value pairs the value under `k` is the value of the
LAST pair with key `k`; it is absent iff neither the list nor the initial dictionary has the key. -/
theorem C02_fold_insert_last {κ ν : Type} [BEq κ] [LawfulBEq κ] (l d : List (κ × ν)) (k : κ) :
    lookupKV (l.foldl (fun d kv => insertKV d kv.1 kv.2) d) k = (lastFor l k).or (lookupKV d k) ∧
    (lastFor l k = none ↔ ∀ p ∈ l, ¬ (p.1 == k) = true) :=
  ⟨fold_insert_last l d k, lastFor_eq_none_iff l k⟩

example : lookupKV ([(1, "a"), (2, "b"), (1, "c")].foldl (fun d kv => insertKV d kv.1 kv.2) [(3, "z")]) 1 = some "c" := by
  decide

/-! ### which residue tuples are matches -/

/-- The enumeration that stands for VF2 is sound and complete: it returns exactly the assignments of
residue-graph nodes to the link's residues that are injective, respect `_res_match` (residue name,
also through `Choice`) and are induced-subgraph isomorphisms with equal `linktype` edge labels.  The
oracle's independent enumeration (`specMatches`: filter over ALL tuples) returns the same set. -/
theorem C02_matches_iff (inp : Input) (l : Link) (m : List Nat) :
    (m ∈ resMatches inp l ↔ isResMatch inp l m) ∧ (m ∈ specMatches inp l ↔ isResMatch inp l m) :=
  ⟨mem_resMatches_iff inp l m, mem_specMatches_iff inp l m⟩

example : [0, 1] ∈ resMatches (exInput false) (exLink false) ∧ [1, 0] ∈ specMatches (exInput false) (exLink false) := by
  decide

/-- which (link, residue tuple) pairs the double loop visits -/
theorem C02_cands_iff (inp : Input) (l : Link) (m : List Nat) :
    (l, m) ∈ cands inp ↔ l ∈ inp.links ∧ prefilter inp l = true ∧ isResMatch inp l m :=
  mem_cands_iff inp l m

/-- A link application is accepted iff its candidate is visited and, in the state produced by the
candidates before it, passes every check: relative residue order, exactly one atom per link atom,
no forbidden edge, and (no patterns or some pattern matches). -/
theorem C02_accepted_iff (inp : Input) (e : Event) :
    e ∈ evs inp ↔
      ∃ pre m post, cands inp = pre ++ (e.link, m) :: post ∧
        checkRelativeOrder (e.link.orders.zip (m.map (fun n => ((inp.resNode? n).map (·.resid)).getD 0))) = true ∧
        matchAtoms inp e.link m = some e.amap ∧
        nonEdgesOK (stateAfter inp (initSt inp) pre) e.link e.amap = true ∧
        (e.link.patterns.isEmpty = true ∨ anyPatternMatch (stateAfter inp (initSt inp) pre) e.link e.amap = true) := by
  unfold evs
  rw [mem_events_iff]
  constructor
  · rintro ⟨pre, c, post, hcs, hc⟩
    obtain ⟨h1, h2, h3, h4, h5⟩ := (tryCand_eq_some_iff inp _ c.1 c.2 e).mp hc
    refine ⟨pre, c.2, post, ?_, ?_, ?_, ?_, ?_⟩
    · rw [hcs, h5]
    · rw [h5]; exact h1
    · rw [h5]; exact h2
    · rw [h5]; exact h3
    · rw [h5]; exact h4
  · rintro ⟨pre, m, post, hcs, h1, h2, h3, h4⟩
    exact ⟨pre, (e.link, m), post, hcs, (tryCand_eq_some_iff inp _ e.link m e).mpr ⟨h1, h2, h3, h4, rfl⟩⟩

example : (cands (exInput false)).length = 2 ∧ (evs (exInput false)).length = 1 ∧
    (evs (exInput false)).map (·.amap) = [[("B", 2), ("+A", 3)]] := by decide

/-! ### the result -/

theorem C02_loop_state (inp : Input) : loopSt inp = (evs inp).foldl St.apply (initSt inp) := by
  rw [loopSt_eq_stateAfter, stateAfter_eq_events]; rfl

/-- the atoms the run removes are those scheduled by the accepted applications -/
theorem C02_removed (inp : Input) : (applyLinks inp).removed = removed inp := by
  unfold applyLinks finish removed
  simp only [C02_loop_state, apply_fold_removed, initSt, List.nil_append]

/-- **C02_iff (interactions).**  The interaction stored under key `k = (section, atoms, version)` in
the result is: nothing, if one of its atoms is scheduled for removal; otherwise the parameters of the
LAST accepted link application (definition order of links, then enumeration order of matches) one of
whose interactions maps to `k`; otherwise the last block interaction with that key; otherwise nothing. -/
theorem C02_iff (inp : Input) (k : Key) :
    lookupKV (applyLinks inp).ixns k =
      if atomsHitRemoved (removed inp) k then none else specLookup inp (evs inp) k := by
  have hrem : (loopSt inp).removed = removed inp := by
    simp only [C02_loop_state, apply_fold_removed, initSt, List.nil_append, removed]
  unfold applyLinks finish
  simp only []
  rw [lookupKV_filter_key (loopSt inp).store (fun k => !atomsHitRemoved (loopSt inp).removed k) k, hrem]
  by_cases h : atomsHitRemoved (removed inp) k
  · simp [h]
  · simp only [h, Bool.not_false, if_true, Bool.false_eq_true, if_false]
    rw [C02_loop_state, apply_fold_store, fold_insert_last]
    unfold specLookup initSt
    simp only []
    rw [fold_insert_last, lookupKV_nil]
    cases lastFor inp.ixns k <;> rfl

example : lookupKV (applyLinks (exInput false)).ixns ⟨"bonds", [2, 3], 1⟩ = some ⟨["1", "0.2"], []⟩ ∧
    lookupKV (applyLinks (exInput false)).ixns ⟨"bonds", [0, 2], 1⟩ = some ⟨["1", "0.1"], []⟩ ∧
    lookupKV (applyLinks (exInput false)).ixns ⟨"bonds", [1, 2], 1⟩ = none := by decide

/-- **presence, as an iff.**  An interaction with key `k` is in the result iff none of its atoms is
scheduled for removal and it is a block interaction or some accepted link application has an interaction mapping to `k`. -/
theorem C02_present_iff (inp : Input) (k : Key) :
    (∃ v, (k, v) ∈ (applyLinks inp).ixns) ↔
      atomsHitRemoved (removed inp) k = false ∧
      ((∃ v, (k, v) ∈ inp.ixns) ∨
       ∃ e ∈ evs inp, ∃ i ∈ e.link.ixns, (⟨i.sect, i.atoms.map (AMap.get e.amap), i.version⟩ : Key) = k) := by
  rw [← lookupKV_isSome_iff, C02_iff]
  by_cases h : atomsHitRemoved (removed inp) k
  · simp [h]
  · simp only [h, Bool.false_eq_true, if_false, true_and]
    unfold specLookup
    have hor : ∀ a b : Option IVal, (a.or b).isSome = true ↔ a.isSome = true ∨ b.isSome = true := by
      intro a b; cases a <;> cases b <;> simp
    rw [hor, lastFor_isSome_iff, lastFor_isSome_iff]
    constructor
    · rintro (⟨v, hv⟩ | h)
      · right
        obtain ⟨e, he, hc⟩ := List.mem_flatMap.mp hv
        obtain ⟨i, hi, heq⟩ := List.mem_map.mp hc
        exact ⟨e, he, i, hi, (Prod.mk.inj heq).1⟩
      · exact Or.inl h
    · rintro (h | ⟨e, he, i, hi, heq⟩)
      · exact Or.inr h
      · left
        exact ⟨⟨i.params, i.imeta⟩, List.mem_flatMap.mpr ⟨e, he, List.mem_map.mpr ⟨i, hi, by rw [← heq]⟩⟩⟩

/-- Regression statement for repository commit 18c3f8a (the flush used to test the dictionary key
`(*atoms, version)`): in this instance the link removes the atom with node key 1; the block bond on atoms
0 and 2 (neither is removed) carries the default version 1.  The old condition `keyHitsRemoved` drops
it, the property and the repaired code keep it.  (`regress/revert_18c3f8a.diff` turns the check red.) -/
theorem C02_version_clash_regression :
    removed (exInput true) = [1] ∧
    keyHitsRemoved (removed (exInput true)) ⟨"bonds", [0, 2], 1⟩ = true ∧
    atomsHitRemoved (removed (exInput true)) ⟨"bonds", [0, 2], 1⟩ = false ∧
    lookupKV (applyLinks (exInput true)).ixns ⟨"bonds", [0, 2], 1⟩ = some ⟨["1", "0.1"], []⟩ := by
  decide

/-- **edges.**  `{a,b}` is an edge of the result iff it was an edge of the mapped molecule or an edge of
an accepted link application maps to it, and neither end was removed. -/
theorem C02_edges_iff (inp : Input) (a b : Nat) :
    hasEdge (applyLinks inp).edges a b = true ↔
      (hasEdge inp.edges a b = true ∨ ∃ e ∈ evs inp, hasEdge e.newEdges a b = true) ∧
      (removed inp).contains a = false ∧ (removed inp).contains b = false := by
  have hrem : (loopSt inp).removed = removed inp := by
    simp only [C02_loop_state, apply_fold_removed, initSt, List.nil_append, removed]
  unfold applyLinks finish
  simp only [hrem]
  have hfilter : ∀ (es : List (Nat × Nat)),
      hasEdge (es.filter (fun e => !(removed inp).contains e.1 && !(removed inp).contains e.2)) a b = true ↔
        hasEdge es a b = true ∧ (removed inp).contains a = false ∧ (removed inp).contains b = false := by
    intro es
    simp only [hasEdge, List.any_eq_true, List.mem_filter, Bool.or_eq_true, Bool.and_eq_true, beq_iff_eq,
      Bool.not_eq_true']
    constructor
    · rintro ⟨x, ⟨hx, h1, h2⟩, h3 | h3⟩
      · exact ⟨⟨x, hx, Or.inl h3⟩, by rw [← h3.1]; exact h1, by rw [← h3.2]; exact h2⟩
      · exact ⟨⟨x, hx, Or.inr h3⟩, by rw [← h3.2]; exact h2, by rw [← h3.1]; exact h1⟩
    · rintro ⟨⟨x, hx, h3 | h3⟩, h1, h2⟩
      · exact ⟨x, ⟨hx, by rw [h3.1]; exact h1, by rw [h3.2]; exact h2⟩, Or.inl h3⟩
      · exact ⟨x, ⟨hx, by rw [h3.1]; exact h2, by rw [h3.2]; exact h1⟩, Or.inr h3⟩
  rw [hfilter, C02_loop_state, apply_fold_edges, hasEdge_foldl_addEdge]
  have hflat : hasEdge ((evs inp).flatMap Event.newEdges) a b = true ↔ ∃ e ∈ evs inp, hasEdge e.newEdges a b = true := by
    simp only [hasEdge, List.any_eq_true, List.mem_flatMap]
    constructor
    · rintro ⟨x, ⟨e, he, hx⟩, h⟩; exact ⟨e, he, x, hx, h⟩
    · rintro ⟨e, he, x, hx, h⟩; exact ⟨x, ⟨e, he, hx⟩, h⟩
  simp only [Bool.or_eq_true, hflat]
  rfl

example : hasEdge (applyLinks (exInput false)).edges 2 3 = true ∧ hasEdge (applyLinks (exInput false)).edges 1 3 = false ∧
    hasEdge (applyLinks (exInput true)).edges 2 1 = false := by decide

/-- **replaced attributes.**  After the loop the value of attribute `k` of atom `x` is the value given by
the LAST `replace` entry for `k` among the accepted link applications that map a (non-removing) link
atom to `x`; if there is none it is the value the mapped molecule had.  (`replacesOn` concatenates the
`replace` dictionaries aimed at `x` in application order.) -/
theorem C02_attrs_last (inp : Input) (x : Nat) (k : String) (a₀ : MAttrs)
    (hx : lookupKV (initSt inp).attrs x = some a₀) :
    ∃ a, lookupKV (loopSt inp).attrs x = some a ∧
      MAttrs.find a k = (lastFor (replacesOn ((evs inp).flatMap Event.replaces) x) k).or (MAttrs.find a₀ k) := by
  rw [C02_loop_state, apply_fold_attrs, lookup_foldl_updAttrs, hx]
  exact ⟨_, rfl, find_update _ _ _⟩

example : (lookupKV (loopSt (exInput false)).attrs 3).map (fun a => MAttrs.find a "atype") = some (some "s:Z") ∧
    (lookupKV (initSt (exInput false)).attrs 3).map (fun a => MAttrs.find a "atype") = some none := by decide

/-- the atoms of the result are the atoms of the mapped molecule that are not scheduled for removal -/
theorem C02_atoms_keys (inp : Input) (x : Nat) :
    x ∈ (applyLinks inp).atoms.map (·.1) ↔ x ∈ inp.atoms.map (·.key) ∧ (removed inp).contains x = false := by
  have hrem : (loopSt inp).removed = removed inp := by
    simp only [C02_loop_state, apply_fold_removed, initSt, List.nil_append, removed]
  have hkeys : ∀ (rs : List (Nat × MAttrs)) (attrs : List (Nat × MAttrs)),
      (rs.foldl updAttrs attrs).map (·.1) = attrs.map (·.1) := by
    intro rs
    induction rs with
    | nil => intro attrs; rfl
    | cons r rs ih =>
      intro attrs
      rw [List.foldl_cons, ih]
      unfold updAttrs
      rw [List.map_map]
      apply List.map_congr_left
      intro p _
      simp only [Function.comp]
      split <;> rfl
  have hattrs : (loopSt inp).attrs.map (·.1) = inp.atoms.map (·.key) := by
    rw [C02_loop_state, apply_fold_attrs, hkeys]
    simp [initSt, List.map_map]
  unfold applyLinks finish
  simp only [hrem]
  have hren : ∀ l : List (Nat × MAttrs), (renumber l).map (·.1) = l.map (·.1) := by
    intro l; unfold renumber; simp [List.map_map]
  have hmem : x ∈ ((loopSt inp).attrs.filter (fun p => !(removed inp).contains p.1)).map (·.1) ↔
      x ∈ inp.atoms.map (·.key) ∧ (removed inp).contains x = false := by
    rw [← hattrs]
    simp only [List.mem_map, List.mem_filter, Bool.not_eq_true']
    constructor
    · rintro ⟨p, ⟨hp, h1⟩, h2⟩; exact ⟨⟨p, hp, h2⟩, by rw [← h2]; exact h1⟩
    · rintro ⟨⟨p, hp, h2⟩, h1⟩; exact ⟨p, ⟨hp, by rw [h2]; exact h1⟩, h2⟩
  split
  · exact hmem
  · rw [hren]; exact hmem

example : (applyLinks (exInput true)).atoms.map (·.1) = [0, 2, 3, 4, 5] := by decide

/-! ### explicit links (`by_atom_id`: atoms addressed by number) -/

/-- molecule of the examples: nodes 0..5, block bonds 0-1 (no version) and 2-3 (version 2) -/
def exXSt : XSt :=
  ⟨[(⟨"bonds", [0, 1], "i:0"⟩, ⟨["1", "0.3"], []⟩), (⟨"bonds", [2, 3], "i:2"⟩, ⟨["1", "0.3"], [("version", "i:2")]⟩)],
   [(0, 1), (2, 3)]⟩

/-- an explicit link: bond 1-2 (replaces the block bond), bond 2-5, angle 1-3-5 -/
def exXs : List XIxn :=
  [⟨"bonds", [some 1, some 2], ["1", "0.9"], []⟩, ⟨"bonds", [some 2, some 5], ["1", "0.5"], []⟩,
   ⟨"angles", [some 1, some 3, some 5], ["2", "120"], []⟩]

/-- **C02_explicit_ok_iff.**  The explicit links of a force field are applied (no exception) iff every
one of their interactions addresses existing atoms: every atom token is a number `a ≥ 1` and `a - 1` is a
node of the molecule.  Otherwise the FIRST interaction that does not ends the run — with `ValueError` if a
token is not a number, with `IOError` if a numbered atom does not exist — whatever follows it. -/
theorem C02_explicit_ok_iff (nodes : List Nat) (s : XSt) (xs : List XIxn) :
    ((∃ s', applyExplicit nodes s xs = .ok s') ↔ ∀ i ∈ xs, i.wellAddressed nodes) ∧
    (∀ pre i post, xs = pre ++ i :: post → (∀ j ∈ pre, j.wellAddressed nodes) → ¬ i.wellAddressed nodes →
        applyExplicit nodes s xs = .error (if i.ints = none then .value else .io)) :=
  ⟨applyExplicit_ok_iff nodes xs s, fun pre i post he hp hi => by
    rw [he]; exact applyExplicit_first_error nodes pre i post s hp hi⟩

example : (applyExplicit [0, 1, 2, 3, 4, 5] exXSt exXs).toOption.isSome = true ∧
    xerr (applyExplicit [0, 1, 2, 3, 4, 5] exXSt (exXs ++ [⟨"bonds", [some 6, some 7], [], []⟩])) = some .io ∧
    xerr (applyExplicit [0, 1, 2, 3, 4, 5] exXSt [⟨"bonds", [some 0, some 1], [], []⟩]) = some .io ∧
    xerr (applyExplicit [0, 1, 2, 3, 4, 5] exXSt [⟨"bonds", [none, none], [], []⟩, ⟨"bonds", [some 6, some 7], [], []⟩]) = some .value := by
  decide

/-- **C02_explicit_iff (interactions).**  When the explicit links are applied, the interaction stored under
`(section, atoms, version)` is the one of the LAST explicit interaction that addresses exactly these atoms
(numbers lowered by one) with that version; if there is none, it is what the molecule had after the
flush.  Nothing else changes: every other key keeps its value, no key disappears. -/
theorem C02_explicit_iff (nodes : List Nat) (s s' : XSt) (xs : List XIxn)
    (h : applyExplicit nodes s xs = .ok s') (k : XKey) :
    lookupKV s'.ixns k = (lastFor (xs.map XIxn.contrib) k).or (lookupKV s.ixns k) := by
  have hw := (applyExplicit_ok_iff nodes xs s).mp ⟨s', h⟩
  rw [applyExplicit_of_wellAddressed nodes xs s hw] at h
  cases h
  exact fold_insert_last _ _ _

example : (applyExplicit [0, 1, 2, 3, 4, 5] exXSt exXs).toOption.map (fun s' =>
      (lookupKV s'.ixns ⟨"bonds", [0, 1], "i:0"⟩, lookupKV s'.ixns ⟨"bonds", [2, 3], "i:2"⟩,
       lookupKV s'.ixns ⟨"angles", [0, 2, 4], "i:0"⟩)) =
    some (some ⟨["1", "0.9"], []⟩, some ⟨["1", "0.3"], [("version", "i:2")]⟩, some ⟨["2", "120"], []⟩) := by
  decide

/-- **C02_explicit_edges_iff.**  `{a,b}` is an edge afterwards iff it was one before or `a` and `b` are
consecutive atoms of an explicit interaction. -/
theorem C02_explicit_edges_iff (nodes : List Nat) (s s' : XSt) (xs : List XIxn)
    (h : applyExplicit nodes s xs = .ok s') (a b : Nat) :
    hasEdge s'.edges a b = true ↔
      hasEdge s.edges a b = true ∨
      ∃ i ∈ xs, ∃ pre post, i.nodes = pre ++ a :: b :: post ∨ i.nodes = pre ++ b :: a :: post := by
  have hw := (applyExplicit_ok_iff nodes xs s).mp ⟨s', h⟩
  rw [applyExplicit_of_wellAddressed nodes xs s hw] at h
  cases h
  simp only []
  rw [hasEdge_foldl_addEdge, Bool.or_eq_true, hasEdge_flatMap]
  simp only [hasEdge_consecutive_iff]

example : (applyExplicit [0, 1, 2, 3, 4, 5] exXSt exXs).toOption.map (fun s' =>
      (hasEdge s'.edges 1 4, hasEdge s'.edges 4 2, hasEdge s'.edges 0 4)) = some (true, true, false) := by
  decide

/-- **C02_run_explicit.**  The whole of `run_molecule` up to `expand_excl`: it succeeds iff every explicit
interaction addresses, by number, atoms of the mapped molecule that no link scheduled for removal; then
the interactions are those of `C02_iff`, overridden by the explicit ones (later wins). -/
theorem C02_run_explicit (inp : Input) (xs : List XIxn) :
    ((∃ s', runMolecule inp xs = .ok s') ↔
      ∀ i ∈ xs, ∃ as, i.ints = some as ∧
        ∀ a ∈ as, 1 ≤ a ∧ (a - 1).toNat ∈ inp.atoms.map (·.key) ∧ (removed inp).contains (a - 1).toNat = false) ∧
    ∀ s', runMolecule inp xs = .ok s' → ∀ k,
      lookupKV s'.ixns k = (lastFor (xs.map XIxn.contrib) k).or (lookupKV (applyLinks inp).xst.ixns k) := by
  unfold runMolecule
  refine ⟨?_, fun s' h k => C02_explicit_iff _ _ _ _ h k⟩
  rw [applyExplicit_ok_iff]
  unfold XIxn.wellAddressed
  simp only [C02_atoms_keys]

example : (runMolecule (exInput true) [⟨"bonds", [some 1, some 6], ["1", "0.7"], []⟩]).toOption.map
      (fun s' => lookupKV s'.ixns ⟨"bonds", [0, 5], "i:0"⟩) = some (some ⟨["1", "0.7"], []⟩) ∧
    xerr (runMolecule (exInput true) [⟨"bonds", [some 1, some 2], ["1", "0.7"], []⟩]) = some .io := by
  decide

/-! ### literals of the link machinery read from the source; the `[ edges ]` directive -/

/-- **C02_link_tables** (about the lists TRANSLATED from apply_links.py / ff_parser_sub.py on every run).
The list of link-atom attributes that `match_link_and_residue_atoms` does NOT compare with the residue atoms,
as the current source writes it, is the one the model and the specification use (as a set) — bookkeeping only
(`order`, `replace`, `resid`, `charge_group`): atom name and residue name ARE compared ("every link atom
identifies exactly one atom").  The `[ edges ]` directive never turns `atomname`/`order`/`resname` into an edge
label and does keep `linktype`.  Two link interactions are "the same" when atoms and version agree, the version
defaulting to 1 (vermouth's `add_or_replace_interaction`, used by the explicit links, defaults it to 0: `verTok`). -/
theorem C02_link_tables :
    LinkTables.matchIgnore.Perm matchIgnore ∧
    "atomname" ∉ LinkTables.matchIgnore ∧ "resname" ∉ LinkTables.matchIgnore ∧
    "linktype" ∉ LinkTables.edgePoppedKeys ∧
    "atomname" ∈ LinkTables.edgePoppedKeys ∧ "order" ∈ LinkTables.edgePoppedKeys ∧ "resname" ∈ LinkTables.edgePoppedKeys ∧
    LinkTables.versionDefault = 1 := by
  decide

/-- **C02_edge_label.**  `_parse_edges_new` adds an edge iff the section is not a negated one, nothing but
`atomname`/`order`/`resname` is written after the FIRST atom and — in a modification — the first character of
both references names an existing atom; the edge then joins the two references as written and carries exactly
the attributes written after the SECOND atom minus `atomname`/`order`/`resname` (so `{"linktype": …}` after the
second atom is the edge label `_linktype_match` compares).  Otherwise: `KeyError` in the modification case,
`IOError` in the other two. -/
theorem C02_edge_label (ct : String) (negate : Bool) (nodes : List String) (a b : EdgeAtom) (x y : String) (attrs : MAttrs) :
    parseEdgesNew ct negate nodes a b = .edge x y attrs ↔
      negate = false ∧ edgeExtra a = [] ∧
      (ct ≠ "modification" ∨ (firstChar a.ref ∈ nodes ∧ firstChar b.ref ∈ nodes)) ∧
      x = a.ref ∧ y = b.ref ∧ attrs = edgeExtra b := by
  unfold parseEdgesNew
  cases negate
  · by_cases h1 : (edgeExtra a).isEmpty = true
    · have h1' : edgeExtra a = [] := List.isEmpty_iff.mp h1
      by_cases h2 : (ct == "modification" && !(nodes.contains (firstChar a.ref) && nodes.contains (firstChar b.ref))) = true
      · simp only [Bool.false_eq_true, if_false, h1, Bool.not_true, h2, if_true]
        simp only [Bool.and_eq_true, beq_iff_eq, Bool.not_eq_true', Bool.and_eq_false_iff, List.contains_eq_mem,
          decide_eq_false_iff_not] at h2
        constructor
        · intro hc; cases hc
        · rintro ⟨_, _, h3, _⟩
          rcases h3 with h3 | ⟨h3, h4⟩
          · exact absurd h2.1 h3
          · rcases h2.2 with h5 | h5
            · exact absurd h3 h5
            · exact absurd h4 h5
      · simp only [Bool.false_eq_true, if_false, h1, Bool.not_true, h2, EdgeParse.edge.injEq]
        simp only [Bool.and_eq_true, beq_iff_eq, Bool.not_eq_true', Bool.and_eq_false_iff, List.contains_eq_mem,
          decide_eq_false_iff_not, not_and, not_or, Classical.not_not] at h2
        constructor
        · rintro ⟨hx, hy, ha⟩
          refine ⟨trivial, h1', ?_, hx.symm, hy.symm, ha.symm⟩
          by_cases hct : ct = "modification"
          · right
            have := h2 hct
            exact Classical.byContradiction (fun hn => by
              rcases Classical.not_and_iff_not_or_not.mp hn with h | h
              · exact h (Classical.byContradiction (fun hh => by
                  have := this; simp_all))
              · simp_all)
          · exact Or.inl hct
        · rintro ⟨_, _, _, hx, hy, ha⟩; exact ⟨hx.symm, hy.symm, ha.symm⟩
    · have h1' : edgeExtra a ≠ [] := fun h => h1 (List.isEmpty_iff.mpr h)
      simp only [Bool.false_eq_true, if_false, h1, Bool.not_false, if_true]
      constructor
      · intro hc; cases hc
      · rintro ⟨_, h, _⟩; exact absurd h h1'
  · simp only [if_true]
    constructor
    · intro hc; cases hc
    · rintro ⟨h, _⟩; cases h

example : parseEdgesNew "link" false [] ⟨"BB", [("resname", "s:A")]⟩ ⟨"+BB", [("linktype", "s:x"), ("resname", "s:A")]⟩ =
      .edge "BB" "+BB" [("linktype", "s:x")] ∧
    parseEdgesNew "link" false [] ⟨"BB", [("a", "i:1")]⟩ ⟨"+BB", []⟩ = .ioError ∧
    parseEdgesNew "block" true ["BB", "SC"] ⟨"BB", []⟩ ⟨"SC", []⟩ = .ioError ∧
    parseEdgesNew "modification" false ["BB", "SC"] ⟨"BB", []⟩ ⟨"SC", []⟩ = .keyError ∧
    parseEdgesNew "modification" false ["B", "S"] ⟨"B", []⟩ ⟨"S", []⟩ = .edge "B" "S" [] := by decide

/-! ### `match_order` -/

/-- `matchOrder` (= vermouth's `match_order`) has the declarative meaning of the order tokens, for all
integers: numbers — the resid difference equals the order difference; a `>`/`<` run against the
reference residue 0 — the sign of the resid difference; two runs — longer `>` run means larger resid,
`<` runs below, equal runs the same residue; `*` runs — different from the reference, equal stars iff
equal residue; every other combination ("!" in vermouth's table) is unconstrained; and the relation is
symmetric (so the order in which `_check_relative_order` pairs the residues is immaterial). -/
theorem C02_matchOrder_table :
    (∀ a b r1 r2 : Int, matchOrder (.num a) r1 (.num b) r2 = true ↔ b - a = r2 - r1) ∧
    (∀ s r1 r2 : Int, matchOrder (.num 0) r1 (.rel s) r2 = true ↔
        (r2 < r1 ∧ s < 0) ∨ (r2 = r1 ∧ s = 0) ∨ (r1 < r2 ∧ 0 < s)) ∧
    (∀ s1 s2 r1 r2 : Int, matchOrder (.rel s1) r1 (.rel s2) r2 = true ↔
        (r2 < r1 ∧ s2 < s1) ∨ (r2 = r1 ∧ s2 = s1) ∨ (r1 < r2 ∧ s1 < s2)) ∧
    (∀ (k : Nat) (r1 r2 : Int), matchOrder (.num 0) r1 (.star k) r2 = true ↔ r1 ≠ r2) ∧
    (∀ (j k : Nat) (r1 r2 : Int), matchOrder (.star j) r1 (.star k) r2 = true ↔ (j = k ↔ r1 = r2)) ∧
    (∀ (a s : Int) (k : Nat) (r1 r2 : Int), a ≠ 0 →
        matchOrder (.num a) r1 (.rel s) r2 = true ∧ matchOrder (.num a) r1 (.star k) r2 = true) ∧
    (∀ (s : Int) (k : Nat) (r1 r2 : Int), matchOrder (.rel s) r1 (.star k) r2 = true) ∧
    (∀ (o1 o2 : Order) (r1 r2 : Int), matchOrder o1 r1 o2 r2 = matchOrder o2 r2 o1 r1) := by
  refine ⟨matchOrder_num_num, matchOrder_zero_rel, matchOrder_rel_rel, matchOrder_zero_star,
    matchOrder_star_star, ?_, ?_, matchOrder_symm⟩
  · intro a s k r1 r2 ha
    have : (a == 0) = false := by simpa using ha
    simp [matchOrder, this]
  · intro s k r1 r2; rfl

example : matchOrder (.num 0) 4 (.num 2) 6 = true ∧ matchOrder (.num 0) 4 (.rel 2) 9 = true ∧
    matchOrder (.rel 1) 5 (.rel 2) 3 = false ∧ matchOrder (.star 1) 5 (.star 2) 5 = false := by decide

/-- **C02_check_relative_order.**  `_check_relative_order(resids, orders)` as written in apply_links.py
(dictionary loop + `match_order` on every 2-combination), for ANY list of (order, resid) pairs, also with
repeated order tokens: it accepts iff no order token is paired with two different resids and `match_order`
holds for every two pairs with different tokens.  With pairwise distinct tokens — the residues of a
residue-level link, which is how `run_molecule` calls it — it is exactly the pairwise check
`checkRelativeOrder` the model's `tryCand` uses. -/
theorem C02_check_relative_order (l : List (Order × Int)) :
    (checkRelativeOrderPy l = true ↔
      (∀ p ∈ l, ∀ q ∈ l, p.1 = q.1 → p.2 = q.2) ∧
      ∀ p ∈ l, ∀ q ∈ l, p.1 ≠ q.1 → matchOrder p.1 p.2 q.1 q.2 = true) ∧
    ((l.map (·.1)).Nodup → checkRelativeOrderPy l = checkRelativeOrder l) :=
  ⟨checkRelativeOrderPy_iff l, checkRelativeOrderPy_of_nodup l⟩

example : checkRelativeOrderPy [(.num 0, 4), (.num 1, 5), (.num 0, 4)] = true ∧
    checkRelativeOrderPy [(.num 0, 4), (.num 1, 5), (.num 0, 6)] = false ∧
    checkRelativeOrderPy [(.num 0, 4), (.star 1, 4)] = false ∧
    checkRelativeOrderPy [(.rel 1, 4), (.rel 2, 9), (.rel (-1), 2)] = true := by decide

/-! ### dangling interactions of monomer `.itp` files -/

/-- `_split_links_and_blocks` + `_treat_link_atoms` for a block with atom names `names` (n atoms):
the block keeps exactly the interactions whose indices are all `< n` (in order); the interactions with
an index `≥ n` are moved, in order and with unchanged parameters, into links in which index `a` is the
atom named `"+"^(a / n) ++ names[a % n]` (`danglingKey`) with `order = a / n`, copying the attributes of
block atom `a % n`; one link holds a maximal run of consecutive dangling interactions on identical
atoms; every atom an interaction of a link mentions is an atom of that link. -/
theorem C02_dangling_equiv (names : List String) (ixns : List BIxn) :
    (splitDangling names ixns).2 = ixns.filter (fun i => !isDangling names.length i) ∧
    ∃ groups : List (List BIxn),
      (splitDangling names ixns).1 = groups.map (mkDLink names) ∧
      groups.flatten = ixns.filter (isDangling names.length) ∧
      (∀ g ∈ groups, GroupOK names.length g) ∧
      (∀ g ∈ groups,
        (mkDLink names g).ixns = g.map (convIxn names) ∧
        (∀ t ∈ (mkDLink names g).atoms, ∃ a ∈ g.flatMap (·.atoms),
            t = (danglingKey names a, a / names.length, a % names.length)) ∧
        (∀ i ∈ g, ∀ a ∈ i.atoms, ∃ t ∈ (mkDLink names g).atoms, t.1 = danglingKey names a)) := by
  unfold splitDangling
  obtain ⟨h1, h2⟩ := splitLoop_spec names.length ixns [] [] []
  refine ⟨by simpa using h1, (splitLoop names.length ixns [] [] []).1, rfl, by simpa using h2, ?_, ?_⟩
  · exact splitLoop_groups names.length ixns [] [] [] (by simp) (by simp)
  · intro g _
    obtain ⟨d1, d2⟩ := dedupKeys_spec ((g.flatMap (·.atoms)).map
      (fun a => (danglingKey names a, a / names.length, a % names.length)))
    refine ⟨rfl, ?_, ?_⟩
    · intro t ht
      obtain ⟨a, ha, hat⟩ := List.mem_map.mp (d1 t ht)
      exact ⟨a, ha, hat.symm⟩
    · intro i hi a ha
      have hm : (danglingKey names a, a / names.length, a % names.length) ∈
          (g.flatMap (·.atoms)).map (fun a => (danglingKey names a, a / names.length, a % names.length)) :=
        List.mem_map.mpr ⟨a, List.mem_flatMap.mpr ⟨i, hi, ha⟩, rfl⟩
      obtain ⟨y, hy, hyk⟩ := d2 _ hm
      exact ⟨y, hy, hyk⟩

example : splitDangling ["BB", "SC1"] [⟨"bonds", [0, 1], ["1"]⟩, ⟨"bonds", [1, 2], ["1", "0.3"]⟩,
      ⟨"angles", [0, 1, 2], ["2"]⟩, ⟨"dihedrals", [1, 2, 3, 4], ["9", "a"]⟩, ⟨"dihedrals", [1, 2, 3, 4], ["9", "b"]⟩] =
    ([⟨[("SC1", 0, 1), ("+BB", 1, 0)], [("bonds", ["SC1", "+BB"], ["1", "0.3"])]⟩,
      ⟨[("BB", 0, 0), ("SC1", 0, 1), ("+BB", 1, 0)], [("angles", ["BB", "SC1", "+BB"], ["2"])]⟩,
      ⟨[("SC1", 0, 1), ("+BB", 1, 0), ("+SC1", 1, 1), ("++BB", 2, 0)],
       [("dihedrals", ["SC1", "+BB", "+SC1", "++BB"], ["9", "a"]), ("dihedrals", ["SC1", "+BB", "+SC1", "++BB"], ["9", "b"])]⟩],
     [⟨"bonds", [0, 1], ["1"]⟩]) := by decide

def acceptedWindows (N k : Nat) : List (List Nat) :=
  (evs (chainInput N [pathLink k])).map (fun e => (pathLink k).atoms.map (fun a => AMap.get e.amap a.key))

/-- **C02_dangling_windows** ("present for every window that fits inside the chain, absent at its end"),
for EVERY chain length `N` and span `k`.
(1) General, all inputs: a link whose residues carry numeric orders (what dangling interactions give:
0, +1, +2, …) passes the relative-order check exactly for the residue tuples whose resids are the orders
shifted by ONE constant.
(2) The whole model pipeline (`resMatches` standing for VF2, order check, atom matching, non-edge and
pattern vetoes, acceptance) applied to the chain of `N` one-atom residues (`chainInput`) and the path-shaped
link over `k+1` consecutive residues (`pathLink k`: atoms `BB`, `+BB`, `++BB`, … bonded in a path) accepts
exactly the windows `j, j+1, …, j+k` with `j + k < N`: a residue tuple is an accepted application iff it is
such a window.  No bound on `N` or `k` (the former kernel test for `N ≤ 12` is gone): the order check forces
consecutive resids (`order_forces_window`), and every window is an induced, name-respecting match with
unique atoms (`window_isResMatch`, `window_matchAtoms`; Proofs/LinksWindows.lean). -/
theorem C02_dangling_windows :
    (∀ l : List (Int × Int), checkRelativeOrder (l.map (fun p => (Order.num p.1, p.2))) = true ↔
        ∀ p ∈ l, ∀ q ∈ l, q.1 - p.1 = q.2 - p.2) ∧
    ∀ (N k : Nat) (w : List Nat), w ∈ acceptedWindows N k ↔ w ∈ windows N k := by
  refine ⟨numeric_orders_offsets, fun N k w => ?_⟩
  rw [mem_windows_iff]
  unfold acceptedWindows
  rw [List.mem_map]
  constructor
  · rintro ⟨e, he, rfl⟩
    obtain ⟨pre, m, post, hc, ho, hma, _, _⟩ := (C02_accepted_iff _ e).mp he
    have hmem : (e.link, m) ∈ cands (chainInput N [pathLink k]) := by rw [hc]; simp
    obtain ⟨hl, _, hres⟩ := (C02_cands_iff _ _ _).mp hmem
    have hl : e.link = pathLink k := by simpa [chainInput] using hl
    rw [hl] at ho hma hres
    obtain ⟨j, hj, rfl⟩ := order_forces_window N k [pathLink k] m hres ho
    rw [window_matchAtoms N k j _ hj] at hma
    injection hma with hma
    exact ⟨j, hj, by rw [← hma]; exact window_atoms_map k j⟩
  · rintro ⟨j, hj, rfl⟩
    have hmem : (pathLink k, window k j) ∈ cands (chainInput N [pathLink k]) :=
      (C02_cands_iff _ _ _).mpr ⟨by simp [chainInput], chain_prefilter N k _ (by omega), window_isResMatch N k j _ hj⟩
    obtain ⟨pre, post, hc⟩ := List.append_of_mem hmem
    refine ⟨⟨pathLink k, wamap k j⟩, ?_, window_atoms_map k j⟩
    exact (C02_accepted_iff _ _).mpr ⟨pre, window k j, post, hc, window_order N k j _ hj,
      window_matchAtoms N k j _ hj, pathLink_nonEdgesOK k _ _, Or.inl (pathLink_patterns k)⟩


/-- in particular nothing is applied when the span does not fit (`N ≤ k`), whatever `N` -/
example (N k : Nat) (h : N ≤ k) (w : List Nat) : w ∉ acceptedWindows N k := by
  rw [C02_dangling_windows.2, windows, show N - k = 0 by omega]; simp

example : [7, 8, 9] ∈ acceptedWindows 1000 2 :=
  (C02_dangling_windows.2 1000 2 [7, 8, 9]).mpr (List.mem_map.mpr ⟨7, List.mem_range.mpr (by omega), by decide⟩)

example : windows 4 1 = [[0, 1], [1, 2], [2, 3]] ∧ (acceptedWindows 3 1).length = 2 ∧ (acceptedWindows 3 1).contains [1, 2] = true := by decide

/-- `treat_link_multiple`: the terms of one section that act on the same atoms get pairwise different
version numbers (so none of them overwrites another one in `applied_links`), the last one version 1. -/
theorem C02_versions_distinct (ts : List (List String × List String)) :
    ((tagVersions ts).map (fun t => (t.1, t.2.1))).Nodup := by
  induction ts with
  | nil => simp [tagVersions]
  | cons t ts ih =>
    simp only [tagVersions, List.map_cons, List.nodup_cons]
    refine ⟨?_, ih⟩
    intro hmem
    have hbound : ∀ (us : List (List String × List String)) (k : List String) (v : Nat),
        (k, v) ∈ (tagVersions us).map (fun t => (t.1, t.2.1)) → v ≤ (us.filter (fun u => u.1 == k)).length := by
      intro us
      induction us with
      | nil => intro k v h; simp [tagVersions] at h
      | cons u us ihu =>
        intro k v h
        simp only [tagVersions, List.map_cons, List.mem_cons, Prod.mk.injEq] at h
        rcases h with ⟨h1, h2⟩ | h
        · subst h1; subst h2
          simp
          omega
        · have := ihu k v h
          by_cases hk : u.1 == k
          · simp [hk]; omega
          · simp [hk]; exact this
    have := hbound ts t.1 _ hmem
    omega

example : tagVersions [(["a", "b"], ["1"]), (["c", "d"], ["2"]), (["a", "b"], ["3"])] =
    [(["a", "b"], 2, ["1"]), (["c", "d"], 1, ["2"]), (["a", "b"], 1, ["3"])] := by decide

end PolyplyVerif.C02
