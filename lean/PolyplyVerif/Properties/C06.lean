/-
C06 — Backmapping places rigid, centred, same-handed copies of the residue template.

Statement (properties.jsonl, fixed):
  "For every backmapped residue the centre of geometry of its atoms equals the residue position, and its
   atom coordinates are the residue's template turned by a proper rotation and scaled by the backmapping
   factor, so all copies of a residue type are congruent and keep the template's handedness. Atoms take the
   template position of their own atom name in their own residue only."

Property theorems only; helper lemmas live in `Proofs/Rotation.lean`.  The model (`Model/Rotation.lean`)
mirrors `linalg_functions._rotate_xyz` (`((rot_z·rot_y)·rot_x)·object`) and
`backmap.orient_template` steps 5–6 / `Backmap._place_init_coords`; it is generic in the number type, and
every theorem below is proved for an arbitrary commutative ring `K` (a field of characteristic 0 where a
centroid is divided out) — hence for `ℚ`, on which the driver runs the model against the real code, and
for `ℝ`, which the doubles of the real code approximate.

`Model/RotationAngles.lean` mirrors the objective `orient_template` hands to the optimiser (`target_function`,
`_norm_matrix`, the built / not-built reference of step 3): `C06_objective_*`.

Partial / trusted (see DESIGN.md, C06): `np.sin/np.cos` satisfy `c² + s² = 1` only to rounding; the optimiser
(`scipy.optimize.minimize`, random start) is an arbitrary oracle for the angles — the theorems hold for
every angle triple it can return.
-/
import PolyplyVerif.Model.Rotation
import PolyplyVerif.Proofs.Rotation
import PolyplyVerif.Model.RotationAngles
import PolyplyVerif.Proofs.RotationAngles
import Mathlib.Algebra.Order.Field.Basic
import Mathlib.Algebra.Field.Basic
import Mathlib.Algebra.CharZero.Defs
import Mathlib.Tactic.FieldSimp
import Mathlib.Tactic.NormNum

namespace PolyplyVerif.C06
open PolyplyVerif.Rot PolyplyVerif.Proofs.Rotation

variable {K : Type} [CommRing K]

/-- The matrix `_rotate_xyz` multiplies the object with is a proper rotation for every angle triple:
whenever each axis' `(c, s)` lies on the unit circle, `RᵀR = 1`, `RRᵀ = 1` and `det R = 1`. -/
theorem C06_proper (a : Angles K) (hx : a.cx * a.cx + a.sx * a.sx = 1)
    (hy : a.cy * a.cy + a.sy * a.sy = 1) (hz : a.cz * a.cz + a.sz * a.sz = 1) :
    (rotMat a).transpose * rotMat a = 1 ∧ rotMat a * (rotMat a).transpose = 1 ∧ (rotMat a).det = 1 :=
  let h := rotMat_proper a hx hy hz
  ⟨h.left, h.right, h.det⟩

/-- non-vacuity: three genuinely different rational angles (3-4-5, 5-12-13, 8-15-17) -/
example : let a : Angles Rat := ⟨3/5, 4/5, 5/13, 12/13, 8/17, 15/17⟩
    (a.cx * a.cx + a.sx * a.sx = 1 ∧ a.cy * a.cy + a.sy * a.sy = 1 ∧ a.cz * a.cz + a.sz * a.sz = 1) ∧
    (rotMat a).r0 = ⟨40/221, -201/1105, 1068/1105⟩ := by
  simp only [rotMat]; v3simp; norm_num

/-- Without the unit-circle hypothesis nothing of the kind holds: each axis factor has determinant `c²+s²`
(so the hypothesis of `C06_proper` is exactly what is needed). -/
theorem C06_factor_det (c s : K) :
    (rotZ c s).det = c * c + s * s ∧ (rotY c s).det = c * c + s * s ∧ (rotX c s).det = c * c + s * s :=
  rot_det c s

example : (rotZ (2 : Rat) 0).det = 4 := by v3simp; norm_num

/-- Rigid: an orthogonal matrix keeps all distances, so the placed atoms `cg + f·(R t)` of a residue have
squared distances `f²`·(template squared distances) — every copy of a residue type is congruent to the
template scaled by the backmapping factor. -/
theorem C06_rigid (m : M3 K) (h : m.transpose * m = 1) (f : K) (cg u v : V3 K) :
    V3.normSq (m.mulVec u - m.mulVec v) = V3.normSq (u - v) ∧
    V3.normSq ((cg + V3.smul f (m.mulVec u)) - (cg + V3.smul f (m.mulVec v)))
      = f * f * V3.normSq (u - v) := by
  constructor
  · rw [← mulVec_sub, normSq_preserved h]
  · rw [placed_sub, normSq_smul, normSq_preserved h]

example : let m : M3 Rat := rotMat ⟨3/5, 4/5, 5/13, 12/13, 8/17, 15/17⟩
    m.transpose * m = 1 ∧
    V3.normSq (m.mulVec ⟨1, 2, 3⟩ - m.mulVec ⟨0, -1, 5⟩) = 14 := by
  simp only [rotMat]
  refine ⟨?_, ?_⟩
  · ext <;> v3simp <;> norm_num
  · v3simp; norm_num

/-- Same-handed: a matrix of determinant one keeps every signed volume; the signed volume of any four
placed atoms is `f³` times that of their template vectors (the sign — chirality — is the template's for a
positive factor). -/
theorem C06_handed (m : M3 K) (h : m.det = 1) (f : K) (cg ta tb tc td : V3 K) :
    V3.det3 (m.mulVec ta) (m.mulVec tb) (m.mulVec tc) = V3.det3 ta tb tc ∧
    (let p := fun t => cg + V3.smul f (m.mulVec t)
     V3.det3 (p tb - p ta) (p tc - p ta) (p td - p ta)
       = f * f * f * V3.det3 (tb - ta) (tc - ta) (td - ta)) := by
  constructor
  · rw [det3_mulVec, h, one_mul]
  · simp only [placed_sub, det3_smul, det3_mulVec, h, one_mul]

example : (rotMat (⟨3/5, 4/5, 5/13, 12/13, 8/17, 15/17⟩ : Angles Rat)).det = 1 ∧
    V3.det3 (⟨1, 0, 0⟩ : V3 Rat) ⟨0, 1, 0⟩ ⟨0, 0, 1⟩ = 1 := by
  simp only [rotMat]; v3simp; norm_num

/-- **C06_congruent** — the "so" of the statement, said directly about two copies: two residues of the
same type, backmapped with the same factor `f` but with their own centres and their own angle triples,
are congruent (all pairwise squared distances agree) and same-handed (all signed volumes of four atoms
agree) — for every pair of angle triples on the unit circles. -/
theorem C06_congruent (a₁ a₂ : Angles K)
    (h₁ : a₁.cx * a₁.cx + a₁.sx * a₁.sx = 1 ∧ a₁.cy * a₁.cy + a₁.sy * a₁.sy = 1 ∧ a₁.cz * a₁.cz + a₁.sz * a₁.sz = 1)
    (h₂ : a₂.cx * a₂.cx + a₂.sx * a₂.sx = 1 ∧ a₂.cy * a₂.cy + a₂.sy * a₂.sy = 1 ∧ a₂.cz * a₂.cz + a₂.sz * a₂.sz = 1)
    (f : K) (cg₁ cg₂ : V3 K) :
    let p₁ := fun t => cg₁ + V3.smul f ((rotMat a₁).mulVec t)
    let p₂ := fun t => cg₂ + V3.smul f ((rotMat a₂).mulVec t)
    (∀ u v : V3 K, V3.normSq (p₁ u - p₁ v) = V3.normSq (p₂ u - p₂ v)) ∧
    (∀ ta tb tc td : V3 K, V3.det3 (p₁ tb - p₁ ta) (p₁ tc - p₁ ta) (p₁ td - p₁ ta)
        = V3.det3 (p₂ tb - p₂ ta) (p₂ tc - p₂ ta) (p₂ td - p₂ ta)) := by
  obtain ⟨o₁, _, d₁⟩ := C06_proper a₁ h₁.1 h₁.2.1 h₁.2.2
  obtain ⟨o₂, _, d₂⟩ := C06_proper a₂ h₂.1 h₂.2.1 h₂.2.2
  refine ⟨fun u v => ?_, fun ta tb tc td => ?_⟩
  · exact ((C06_rigid _ o₁ f cg₁ u v).2).trans ((C06_rigid _ o₂ f cg₂ u v).2).symm
  · exact ((C06_handed _ d₁ f cg₁ ta tb tc td).2).trans ((C06_handed _ d₂ f cg₂ ta tb tc td).2).symm

/-- non-vacuity: two different rational rotations, two centres -/
example : let a₁ : Angles Rat := ⟨3/5, 4/5, 5/13, 12/13, 8/17, 15/17⟩
    let a₂ : Angles Rat := ⟨0, 1, 1, 0, 4/5, 3/5⟩
    (a₂.cx * a₂.cx + a₂.sx * a₂.sx = 1 ∧ a₂.cy * a₂.cy + a₂.sy * a₂.sy = 1 ∧ a₂.cz * a₂.cz + a₂.sz * a₂.sz = 1) ∧
    rotMat a₁ ≠ rotMat a₂ := by
  refine ⟨by norm_num, ?_⟩
  intro h
  have := congrArg (fun m => m.r0.x) h
  simp only [rotMat] at this
  revert this
  v3simp; norm_num

/-- Centred: if the residue's atom names are distinct and are exactly the keys of the template, and the
template vectors sum to zero (C15: templates have zero centre of geometry), then the placement succeeds,
writes one coordinate per atom and these sum to `n · cg` — whatever the rotation and the factor. -/
theorem C06_centre (f : K) (cg : V3 K) (a : Angles K) (t : Template K) (atoms : List Atom)
    (hnd : (t.map (·.1)).Nodup) (hp : (atoms.map (·.name)).Perm (t.map (·.1)))
    (hc : V3.sum (t.map (·.2)) = 0) :
    ∃ placed, placeAtoms f cg (orientTemplate a t) atoms = some placed ∧
      placed.length = atoms.length ∧
      V3.sum (placed.map (·.2)) = V3.smul (atoms.length : K) cg :=
  centre_sum f cg a t atoms hnd hp hc

/-- … hence over a field of characteristic zero the centre of geometry of the placed atoms of a
non-empty residue IS the residue position. -/
theorem C06_centre_of_geometry {F : Type} [Field F] [CharZero F] (f : F) (cg : V3 F) (a : Angles F)
    (t : Template F) (atoms : List Atom) (hne : atoms ≠ [])
    (hnd : (t.map (·.1)).Nodup) (hp : (atoms.map (·.name)).Perm (t.map (·.1)))
    (hc : V3.sum (t.map (·.2)) = 0) :
    ∃ placed, placeAtoms f cg (orientTemplate a t) atoms = some placed ∧
      V3.smul (1 / (placed.length : F)) (V3.sum (placed.map (·.2))) = cg := by
  obtain ⟨placed, h1, h2, h3⟩ := centre_sum f cg a t atoms hnd hp hc
  refine ⟨placed, h1, ?_⟩
  have hn : (atoms.length : F) ≠ 0 := by
    have : atoms.length ≠ 0 := by simpa using hne
    exact_mod_cast this
  rw [h3, h2]
  ext <;> simp only [smul_x, smul_y, smul_z] <;> field_simp

/-- non-vacuity: a chiral four-atom template with zero sum, atoms listed in another order than the keys -/
example : let t : Template Rat := [("A", ⟨1, 0, 0⟩), ("B", ⟨0, 1, 0⟩), ("C", ⟨0, 0, 1⟩), ("D", ⟨-1, -1, -1⟩)]
    let atoms : List Atom := [⟨7, "C"⟩, ⟨8, "A"⟩, ⟨9, "D"⟩, ⟨10, "B"⟩]
    (t.map (·.1)).Nodup ∧ (atoms.map (·.name)).Perm (t.map (·.1)) ∧ V3.sum (t.map (·.2)) = 0 ∧
    (placeAtoms (2/5) ⟨1, 2, 3⟩ (orientTemplate ⟨3/5, 4/5, 5/13, 12/13, 8/17, 15/17⟩ t) atoms).isSome := by
  refine ⟨by decide, by decide, ?_, ?_⟩
  · simp only [List.map, V3.sum, List.foldl]; ext <;> v3simp <;> norm_num [V3.add, V3.zero]
  · simp [placeAtoms, orientTemplate, rotateXYZ, tlookup]

/-- Own name: every coordinate written for a residue is `cg + f · (R · template[name of that atom])` —
it depends on nothing but the template entry of the atom's own name, the rotation chosen for the residue
and the residue's position (and a name missing from the template makes the whole placement fail). -/
theorem C06_own_name (f : K) (cg : V3 K) (a : Angles K) (t : Template K) (atoms : List Atom)
    (placed : List (Nat × V3 K)) (h : placeAtoms f cg (orientTemplate a t) atoms = some placed) :
    placed.length = atoms.length ∧
    ∀ i (hi : i < atoms.length) (hp : i < placed.length),
      ∃ v, tlookup t atoms[i].name = some v ∧
        placed[i] = (atoms[i].key, cg + V3.smul f ((rotMat a).mulVec v)) :=
  own_name f cg a t atoms placed h

example : placeAtoms (1/2 : Rat) ⟨1, 1, 1⟩ (orientTemplate ⟨1, 0, 1, 0, 0, 1⟩ [("A", ⟨2, 0, 0⟩), ("B", ⟨0, 4, 0⟩)])
    [⟨5, "B"⟩] = some [(5, ⟨-1, 1, 1⟩)] := by
  simp [placeAtoms, orientTemplate, rotateXYZ, rotMat, tlookup]; ext <;> v3simp <;> norm_num

/-- Own residue: `_place_init_coords` writes exactly the concatenation of the per-residue placements; a
residue's contribution is computed from that residue and its own template key alone, and residues that are
not to be backmapped contribute nothing. -/
theorem C06_own_residue (f : K) (T : List (String × Template K)) (rs : List (Res K))
    (out : List (Nat × V3 K)) (built : List Nat) (h : placeInitCoords f T rs = some (out, built)) :
    (∃ parts, rs.mapM (placeRes f T) = some parts ∧ out = parts.flatten) ∧
    built = (rs.filter (·.backmap)).map (·.node) ∧
    ∀ r ∈ rs, r.backmap = false → placeRes f T r = some [] := by
  obtain ⟨parts, h1, h2, h3⟩ := placeInit_eq f T rs out built h
  exact ⟨⟨parts, h1, h2⟩, h3, fun r _ hb => by simp [placeRes, hb]⟩

example : (placeInitCoords (1 : Rat) [("T", [("A", ⟨1, 0, 0⟩)])]
    [⟨true, "T", ⟨0, 0, 0⟩, 1, [⟨0, "A"⟩], ⟨1, 0, 1, 0, 1, 0⟩⟩,
     ⟨false, "T", ⟨5, 5, 5⟩, 2, [⟨1, "A"⟩], ⟨1, 0, 1, 0, 1, 0⟩⟩]).isSome := by
  simp [placeInitCoords, placeRes, klookup, placeAtoms, orientTemplate, rotateXYZ, tlookup]

/-! ### what `orient_template` asks the optimiser to minimise (`Model/RotationAngles.lean`) -/

/-- **The objective does not depend on the order of the neighbours / connecting edges**: permuting the list of
`(template atom, reference point)` pairs leaves `target_function` unchanged, for every angle triple (any
commutative ring).  So the orientation problem handed to the optimiser is a function of the SET of bonds to
neighbours, not of networkx' neighbour order. -/
theorem C06_objective_perm (a : Angles K) {pairs pairs' : List (V3 K × V3 K)} (h : pairs.Perm pairs') :
    objective a pairs = objective a pairs' :=
  Proofs.RotationAngles.objective_perm a h

example : objective (⟨1, 0, 1, 0, 0, 1⟩ : Angles Rat) [(⟨1, 0, 0⟩, ⟨0, 2, 0⟩), (⟨0, 0, 1⟩, ⟨1, 1, 1⟩)] = 3 ∧
    objective (⟨1, 0, 1, 0, 0, 1⟩ : Angles Rat) [(⟨0, 0, 1⟩, ⟨1, 1, 1⟩), (⟨1, 0, 0⟩, ⟨0, 2, 0⟩)] = 3 := by
  decide +kernel

/-- **An isolated residue has a constant objective**: with no bonded neighbour there is no pair, the objective is
0 for every angle triple — every orientation is optimal, whatever the optimiser returns is a proper rotation
(`C06_proper`), and the statement of C06 does not depend on which one. -/
theorem C06_objective_isolated (a : Angles K) : objective a ([] : List (V3 K × V3 K)) = 0 :=
  Proofs.RotationAngles.objective_nil a

/-- **For a proper rotation only the alignment term depends on the angles**:
`‖R·opt − ref‖² = ‖opt‖² + ‖ref‖² − 2·(R·opt)·ref`, so minimising the objective is maximising
`Σ (R·opt_k)·ref_k` — the bonded atoms are turned towards the neighbours. -/
theorem C06_objective_alignment (a : Angles K) (hx : a.cx * a.cx + a.sx * a.sx = 1)
    (hy : a.cy * a.cy + a.sy * a.sy = 1) (hz : a.cz * a.cz + a.sz * a.sz = 1) (p : V3 K × V3 K) :
    objTerm a p = V3.normSq p.1 + V3.normSq p.2 - 2 * V3.dot ((rotMat a).mulVec p.1) p.2 :=
  Proofs.RotationAngles.objTerm_expand a (rotMat_proper a hx hy hz).left p

example : objTerm (⟨3 / 5, 4 / 5, 1, 0, 1, 0⟩ : Angles Rat) (⟨0, 1, 0⟩, ⟨0, 1, 1⟩) = 1 + 2 - 2 * (3 / 5 + 4 / 5) := by
  decide +kernel

/-- **The objective is a sum of squared distances**: non-negative, and zero exactly when every rotated template
atom that carries a bond sits ON its reference point (ordered fields: ℚ, ℝ). -/
theorem C06_objective_nonneg {F : Type} [Field F] [LinearOrder F] [IsStrictOrderedRing F]
    (a : Angles F) (pairs : List (V3 F × V3 F)) :
    0 ≤ objective a pairs ∧ (objective a pairs = 0 ↔ ∀ p ∈ pairs, (rotMat a).mulVec p.1 = p.2) :=
  ⟨Proofs.RotationAngles.objective_nonneg a pairs, Proofs.RotationAngles.objective_eq_zero_iff a pairs⟩

/-- a quarter turn about z takes (1,0,0) to (0,1,0): objective 0 -/
example : objective (⟨1, 0, 1, 0, 0, 1⟩ : Angles Rat) [(⟨1, 0, 0⟩, ⟨0, 1, 0⟩)] = 0 := by decide +kernel

/-- the reference point of a connecting edge: the neighbour's ATOM if that residue has been built, else the
neighbour RESIDUE, both relative to the own residue position -/
theorem C06_objective_reference (built : Bool) (refAtomPos cgNeighbour cgOwn : V3 K) :
    refCoord built refAtomPos cgNeighbour cgOwn = (if built then refAtomPos else cgNeighbour) - cgOwn := by
  cases built <;> rfl

example : refCoord true (⟨1, 2, 3⟩ : V3 Rat) ⟨5, 5, 5⟩ ⟨1, 1, 1⟩ = ⟨0, 1, 2⟩ ∧
    refCoord false (⟨1, 2, 3⟩ : V3 Rat) ⟨5, 5, 5⟩ ⟨1, 1, 1⟩ = ⟨4, 4, 4⟩ := by decide +kernel


end PolyplyVerif.C06
