/-
C12 — Sequence inputs produce exactly the specified residue graph.

Statement (fixed): "A -seq list, a .txt/.fasta/.ig/.json file or a gen_seq specification yields a residue
graph with exactly the stated residues (names after one-letter translation and 5'/3' terminal naming),
numbered consecutively from 1 in input order, connected linearly, as the macro tree shape dictates, or as
the connect records state, a circular .ig sequence being closed by an edge labelled as circular. The JSON
written by gen_seq is read back by gen_params as the same labelled graph."

Property theorems only (helper lemmas live in Proofs/Seq.lean).  The left-hand sides are the model of the
code (`Model/Seq.lean`, tied to /repo by the translator for the one-letter tables and by the
correspondence of harness/c12.py for everything else), the right-hand sides are the specification
(`Seq.spec…`), the same definitions the oracle evaluates on the implementation's output.  Every theorem
holds for sequences, line breakings, trees and macro sequences of ANY length (induction, no bound).
-/
import PolyplyVerif.Generated.Tables
import PolyplyVerif.Model.Seq
import PolyplyVerif.Proofs.Seq

namespace PolyplyVerif.C12
open PolyplyVerif PolyplyVerif.Seq

/-! ### the one-letter tables -/

/-- every code of the specification is answered by the repository's table, and there are no others -/
def sameTable (repo std : List (String × String)) : Bool :=
  repo.length == std.length && (repo.map (·.1)).Nodup &&
    std.all fun kv => (repo.find? fun e => e.1 == kv.1).map (·.2) == some kv.2

/-- The tables translated from `simple_seq_parsers.py` on this run are the one-letter codes of the
specification (`D`+base, base with T→U, the amino-acid codes).  Table fact, `decide` on the literals. -/
theorem C12_tables :
    sameTable Tabs.repo.dna Tabs.standard.dna = true ∧ sameTable Tabs.repo.rna Tabs.standard.rna = true ∧
    sameTable Tabs.repo.aa Tabs.standard.aa = true := by
  decide

example : lookup1 Tabs.repo.aa 'W' = some "TRP" ∧ lookup1 Tabs.repo.dna 'T' = some "DT" ∧
    lookup1 Tabs.repo.rna 'T' = some "U" ∧ lookup1 Tabs.repo.dna 'U' = none := by decide

/-! ### linear sequences -/

/-- What "exactly the stated residues, numbered consecutively from 1 in input order, connected linearly"
means for `specLinear`: keys `0..n-1`, resids `1..n`, the names in order, edges `(i, i+1)`. -/
theorem C12_linear_shape (names : List String) :
    (specLinear names).nodes.map (·.key) = List.range names.length ∧
    (specLinear names).nodes.map (·.resid) = List.range' 1 names.length ∧
    (specLinear names).nodes.map (·.resname) = names ∧
    (specLinear names).edges = (List.range (names.length - 1)).map (fun i => ⟨i, i + 1, []⟩) ∧
    (specLinear names).maxResid = names.length := by
  refine ⟨?_, ?_, ?_, rfl, rfl⟩
  · have := Proofs.Seq.map_zipIdx_snd names 0 0
    simp only [specLinear, List.map_map]
    rw [List.range_eq_range', ← this]
    apply List.map_congr_left
    intro p _
    simp
  · have := Proofs.Seq.map_zipIdx_snd names 1 0
    simp only [specLinear, List.map_map]
    rw [← this]
    apply List.map_congr_left
    intro p _
    simp [Nat.add_comm]
  · simp only [specLinear, List.map_map]
    have : ((fun (n : RNode) => n.resname) ∘ fun (x : String × Nat) => (⟨x.2, x.2 + 1, x.1⟩ : RNode)) = Prod.fst := rfl
    rw [this]
    simp

example : (specLinear ["A", "B", "C"]).nodes = [⟨0, 1, "A"⟩, ⟨1, 2, "B"⟩, ⟨2, 3, "C"⟩] ∧
    (specLinear ["A", "B", "C"]).edges = [⟨0, 1, []⟩, ⟨1, 2, []⟩] := by decide

/-- `-seq name:k …` (`split_seq_string` + `from_monomer_seq_linear`): for EVERY monomer list the residue
graph is the linear graph of the stated residues — `k` copies of each name, in order, resid `i+1`
(through `MetaMolecule.add_node`'s `max_resid` bookkeeping), edges `(i, i+1)`. -/
theorem C12_linear (monomers : List (String × Int)) :
    fromMonomerSeqLinear monomers = specLinear (expand monomers) := by
  unfold fromMonomerSeqLinear expand
  rw [Proofs.Seq.foldl_flatMap' (fun m => List.replicate m.2.toNat m.1) addMonomer monomers]
  have := Proofs.Seq.addMonomer_fold (monomers.flatMap fun m => List.replicate m.2.toNat m.1) []
  simp only [List.nil_append] at this
  have h0 : (specLinear [], ([] : List String).length) = (RGraph.empty, 0) := rfl
  rw [h0] at this
  rw [this]

example : fromMonomerSeqLinear [("PEO", 2), ("X", 0), ("OH", 1)] =
    ⟨[⟨0, 1, "PEO"⟩, ⟨1, 2, "PEO"⟩, ⟨2, 3, "OH"⟩], [⟨0, 1, []⟩, ⟨1, 2, []⟩], 3⟩ := by decide

/-- `gen_params -seq …` up to the MetaMolecule: every item must read `name:count`, then the linear graph -/
theorem C12_seq_option (items : List Text) :
    fromSeqOption items = (splitSeqString items).map fun ms => specLinear (expand ms) := by
  unfold fromSeqOption
  cases splitSeqString items with
  | none => rfl
  | some ms => simp [C12_linear]

example : fromSeqOption ["PEO:2".toList, "OH:1".toList] = some (specLinear ["PEO", "PEO", "OH"]) ∧
    fromSeqOption ["PEO".toList] = none := by decide

/-- The graph `_monomers_to_linear_nx_graph` builds, seen through `MetaMolecule`, is the linear graph of
the monomers for EVERY length — in particular one monomer gives one residue (the defect fixed by commit
4cf656d gave an empty graph there; the correspondence turns red on its reverse patch). -/
theorem C12_linear_parsers (names : List String) : toMeta (linearGraph names) = specLinear names :=
  Proofs.Seq.toMeta_linearGraph names

example : toMeta (linearGraph ["GLY"]) = ⟨[⟨0, 1, "GLY"⟩], [], 1⟩ := by decide

/-- `.txt`: for every list of residue names (non-empty, free of white space) and EVERY breaking into
non-empty lines (names separated by single spaces, no blank lines; the last line with or without a final
line break), reading the file gives the linear graph of the names in file order. -/
theorem C12_linear_txt (T : Tabs) (final : Bool) (chunks : List (List String)) (hc : ∀ ch ∈ chunks, ch ≠ [])
    (ht : ∀ ch ∈ chunks, ∀ s ∈ ch, GoodToken s) :
    fromSequenceFile T "txt".toList (renderTxt final chunks) = some (specLinear chunks.flatten) := by
  have h : String.ofList (lowerAscii "txt".toList) = "txt" := by decide
  simp only [fromSequenceFile, h, if_true]
  rw [Proofs.Seq.parseTxt_render final chunks hc ht, Proofs.Seq.toMeta_linearGraph]

example : renderTxt true [["PEO", "PEO"], ["OH"]] = "PEO PEO\nOH\n".toList ∧
    renderTxt false [["PEO", "PEO"], ["OH"]] = "PEO PEO\nOH".toList ∧
    (∀ ch ∈ [["PEO", "PEO"], ["OH"]], ∀ s ∈ ch, GoodToken s) := by
  refine ⟨by decide, by decide, ?_⟩
  intro ch hch s hs
  simp only [List.mem_cons, List.not_mem_nil, or_false] at hch
  rcases hch with rfl | rfl <;> simp only [List.mem_cons, List.not_mem_nil, or_false] at hs <;>
    (try rcases hs with rfl | rfl) <;> (try subst hs) <;> exact ⟨by decide, by decide⟩

/-! ### one-letter translation and terminal naming -/

/-- `_parse_plain` for a comment naming one alphabet: EVERY letter of EVERY line is translated by the table
of that alphabet (an unknown letter refuses the file), the lines being stripped and concatenated — so
the result does not depend on the line breaking; DNA/RNA then get the terminal names of `specNames`. -/
theorem C12_translate (T : Tabs) (a : Alphabet) (lines : List Text) :
    plainMonomers T (flagsOf a) lines = specNames T a false (lines.flatMap strip) :=
  Proofs.Seq.plainMonomers_spec T a lines

/-- What `specNames` says for a linear sequence whose letters translate to `names`: proteins keep the
names; a nucleic acid of two or more residues gets `5` on the first and `3` on the last and nothing else
changes; a SINGLE nucleotide gets both (`X` becomes `X53`: the code does `monomers[0] += "5"` then
`monomers[-1] += "3"`; modelled as the code does); an empty nucleic acid is refused. -/
theorem C12_termini (T : Tabs) (a : Alphabet) (letters : List Char) (names : List String)
    (h : letters.mapM (lookup1 (a.table T)) = some names) :
    (a.nucleic = false → specNames T a false letters = some names) ∧
    (a.nucleic = true → names = [] → specNames T a false letters = none) ∧
    (a.nucleic = true → ∀ x, names = [x] → specNames T a false letters = some [x ++ "5" ++ "3"]) ∧
    (a.nucleic = true → ∀ x mid y, names = x :: (mid ++ [y]) →
      specNames T a false letters = some ((x ++ "5") :: (mid ++ [y ++ "3"]))) := by
  unfold specNames
  rw [h]
  refine ⟨?_, ?_, ?_, ?_⟩
  · intro ha; cases names <;> simp [ha]
  · intro ha hn; simp [ha, hn]
  · intro ha x hn; subst hn; simp [ha, modifyLast]
  · intro ha x mid y hn
    subst hn
    simp only [Option.bind_some, List.isEmpty_cons, Bool.false_eq_true, if_false, ha, Bool.not_false, Bool.and_self,
      if_true]
    rw [Proofs.Seq.suffix_shape]

example : specNames Tabs.repo .dna false "ACGT".toList = some ["DA5", "DC", "DG", "DT3"] ∧
    specNames Tabs.repo .rna false "T".toList = some ["U53"] ∧
    specNames Tabs.repo .aa false "GW".toList = some ["GLY", "TRP"] ∧
    specNames Tabs.repo .dna false "AXG".toList = none := by decide

/-- `.fasta`: header line naming one alphabet, then the letters in EVERY breaking into lines (no white
space, no `>`; the last line with or without a final line break): the residue graph is the specified
one — translated, terminally named, linear. -/
theorem C12_fasta (T : Tabs) (a : Alphabet) (final : Bool) (header : Text) (chunks : List Text)
    (hh : '\n' ∉ header) (hid : identify [header] = some (flagsOf a))
    (hc : ∀ ch ∈ chunks, ∀ c ∈ ch, isSpace c = false ∧ c ≠ '>')
    (hf : final = false → header ≠ [] ∧ ∀ ch ∈ chunks, ch ≠ []) :
    fromSequenceFile T "fasta".toList (renderFasta final header chunks) = specSeqFile T a false chunks.flatten := by
  have h1 : String.ofList (lowerAscii "fasta".toList) = "fasta" := by decide
  have h2 : ¬ ("fasta" = "txt") := by decide
  simp only [fromSequenceFile, h1, h2, if_true, if_false]
  exact Proofs.Seq.parseFasta_render T a final header chunks hh hid hc hf

example : identify [">my DNA strand".toList] = some (flagsOf .dna) ∧
    renderFasta true ">my DNA strand".toList ["AC".toList, "G".toList] = ">my DNA strand\nAC\nG\n".toList ∧
    renderFasta false ">my DNA strand".toList ["AC".toList, "G".toList] = ">my DNA strand\nAC\nG".toList ∧
    specSeqFile Tabs.repo .dna false "ACG".toList =
      some ⟨[⟨0, 1, "DA5"⟩, ⟨1, 2, "DC"⟩, ⟨2, 3, "DG3"⟩], [⟨0, 1, []⟩, ⟨1, 2, []⟩], 3⟩ := by decide

/-! ### circular sequences -/

/-- The `ter_char == '2'` branch of `parse_ig` after `_parse_plain`, for EVERY sequence: the result is
the circular graph of the specification — names translated WITHOUT terminal suffixes (they are removed
again for DNA/RNA, never touched for proteins: the defect fixed by commit f8020d1), linear edges plus the
closing edge `(0, n-1)` labelled `linktype = circle`; an empty circular sequence is refused. -/
theorem C12_circular (T : Tabs) (a : Alphabet) (lines : List Text) :
    ((parsePlain T (flagsOf a) lines).bind (closeCircle (flagsOf a))).map toMeta
      = specSeqFile T a true (lines.flatMap strip) :=
  Proofs.Seq.parsePlain_circular T a lines

/-- What `specSeqFile` says for a circular sequence of three or more residues: the residues are the
plain translations, numbered from 1, the edges are the linear ones and exactly one more, `(0, n-1)` with
`linktype = circle`.  (For two residues the single edge carries the label, for one it is a self loop.) -/
theorem C12_circular_shape (T : Tabs) (a : Alphabet) (letters : List Char) (names : List String)
    (h : letters.mapM (lookup1 (a.table T)) = some names) (hn : 3 ≤ names.length) :
    specSeqFile T a true letters =
      some { specLinear names with
             edges := (specLinear names).edges ++ [⟨0, names.length - 1, [("linktype", "circle")]⟩] } := by
  rw [Proofs.Seq.specSeqFile_circular]
  have h2 : ¬ names.length ≤ 2 := by omega
  have hs : specNames T a true letters = some names := by
    unfold specNames
    rw [h]
    have : names ≠ [] := by intro e; rw [e] at hn; simp at hn
    simp [this]
  rw [hs]
  simp only [Option.map_some, Proofs.Seq.circEdges, h2, if_false]
  rfl

example : ((parsePlain Tabs.repo (flagsOf .dna) ["ACG".toList]).bind (closeCircle (flagsOf .dna))).map toMeta =
    some ⟨[⟨0, 1, "DA"⟩, ⟨1, 2, "DC"⟩, ⟨2, 3, "DG"⟩], [⟨0, 1, []⟩, ⟨1, 2, []⟩, ⟨0, 2, [("linktype", "circle")]⟩], 3⟩ ∧
    specSeqFile Tabs.repo .aa true "GAV".toList =
      some ⟨[⟨0, 1, "GLY"⟩, ⟨1, 2, "ALA"⟩, ⟨2, 3, "VAL"⟩], [⟨0, 1, []⟩, ⟨1, 2, []⟩, ⟨0, 2, [("linktype", "circle")]⟩], 3⟩ := by
  decide

/-- `.ig`: comment lines (one of them naming the alphabet), a title line, the letters in EVERY breaking
into non-empty lines, the terminator `1` or `2` after the last letter (on the last sequence line or on
a line of its own), with or without a final line break: terminator `1` gives the linear graph of the
specification, terminator `2` the circular one. -/
theorem C12_ig (T : Tabs) (a : Alphabet) (final : Bool) (comments : List Text) (title : Text)
    (chunks : List Text) (last : Text) (ter tch : Char)
    (hcm : ∀ c ∈ comments, '\n' ∉ c ∧ (splitComments c).1 = [])
    (htitle : '\n' ∉ title ∧ (splitComments title).1.getLast? = some tch ∧ tch ≠ '1' ∧ tch ≠ '2')
    (hid : identify ((comments ++ [title]).map fun l => (splitComments l).2) = some (flagsOf a))
    (hc : ∀ ch ∈ chunks, ch ≠ [] ∧ ∀ c ∈ ch, SeqChar c) (hl : ∀ c ∈ last, SeqChar c)
    (hter : ter = '1' ∨ ter = '2') :
    fromSequenceFile T "ig".toList (renderIg final comments title chunks last ter)
      = specSeqFile T a (ter == '2') (chunks.flatten ++ last) := by
  have h1 : String.ofList (lowerAscii "ig".toList) = "ig" := by decide
  have h2 : ¬ ("ig" = "txt") := by decide
  have h3 : ¬ ("ig" = "fasta") := by decide
  simp only [fromSequenceFile, h1, h2, h3, if_true, if_false]
  exact Proofs.Seq.parseIg_render T a final comments title chunks last ter tch hcm htitle hid hc hl hter

example : renderIg true ["; a DNA ring".toList] "myseq".toList ["AC".toList] "G".toList '2'
      = "; a DNA ring\nmyseq\nAC\nG2\n".toList ∧
    (splitComments "; a DNA ring".toList).1 = [] ∧ (splitComments "myseq".toList).1.getLast? = some 'q' ∧
    identify ((["; a DNA ring".toList] ++ ["myseq".toList]).map fun l => (splitComments l).2) = some (flagsOf .dna) ∧
    fromSequenceFile Tabs.repo "ig".toList "; a DNA ring\nmyseq\nAC\nG2\n".toList =
      some ⟨[⟨0, 1, "DA"⟩, ⟨1, 2, "DC"⟩, ⟨2, 3, "DG"⟩], [⟨0, 1, []⟩, ⟨1, 2, []⟩, ⟨0, 2, [("linktype", "circle")]⟩], 3⟩ := by
  decide

/-! ### macro trees -/

/-- `nx.balanced_tree(r, h)` as `_tree_edges` builds it (queue loop), for EVERY size `n` and branching
factor `r ≥ 1`: node `j ≥ 1` hangs below node `(j-1) / r`, in this order. -/
theorem C12_tree (n r : Nat) (hr : 1 ≤ r) : treeEdges n r = specTreeEdges n r :=
  Proofs.Seq.treeEdges_spec n r hr

/-- branching factor 0: a single node without edges -/
theorem C12_tree_zero (n levels : Nat) : treeEdges n 0 = [] ∧ treeSize 0 levels ≤ 1 :=
  ⟨Proofs.Seq.treeEdges_zero n, Proofs.Seq.treeSize_zero_le levels⟩

/-- the number of nodes is networkx's `(r^levels - 1) / (r - 1)` (`levels` for `r = 1`) -/
theorem C12_tree_size (r levels : Nat) (hr : 1 ≤ r) :
    treeSize r levels * (r - 1) + 1 = r ^ levels ∧ treeSize 1 levels = levels :=
  ⟨Proofs.Seq.treeSize_geom r levels hr, Proofs.Seq.treeSize_one levels⟩

example : treeSize 2 3 = 7 ∧ treeEdges 7 2 = [(0, 1), (0, 2), (1, 3), (1, 4), (2, 5), (2, 6)] ∧
    treeEdges 4 1 = [(0, 1), (1, 2), (2, 3)] := by decide

/-! ### sequences of macros, connect records -/

/-- `generate_seq_graph`'s loop of `disjoint_union`s, for EVERY list of blocks: block `k` occupies the
consecutive keys `offset k, offset k + 1, …` (`offset k` = total size of the blocks before it), in block
order, carries `seqid = k`, and its edges are shifted by `offset k`. -/
theorem C12_union_offsets (blocks : List Block) :
    unionBlocks blocks = specUnion blocks ∧
    (specUnion blocks).nodes.map (·.key) = List.range (offset blocks blocks.length) ∧
    ∀ s, (specUnion blocks).findSeqid s =
      match blocks[s]? with
      | some b => List.range' (offset blocks s) b.names.length
      | none => [] :=
  ⟨Proofs.Seq.unionBlocks_spec blocks, Proofs.Seq.specUnion_keys blocks, Proofs.Seq.specUnion_findSeqid blocks⟩

example : unionBlocks [⟨["A", "A"], [(0, 1)]⟩, ⟨["B"], []⟩, ⟨["C", "C"], [(0, 1)]⟩] =
    ⟨[⟨0, "A", none, some 0, []⟩, ⟨1, "A", none, some 0, []⟩, ⟨2, "B", none, some 1, []⟩,
      ⟨3, "C", none, some 2, []⟩, ⟨4, "C", none, some 2, []⟩], [⟨0, 1, []⟩, ⟨3, 4, []⟩]⟩ := by decide

/-- One item `a-b` of a connect record `i:j:…` on the laid-out blocks (whatever edges were added
before): it adds exactly the edge between the `a`-th node of block `i` and the `b`-th node of block `j`
(`offset i + a`, `offset j + b`), and is refused iff a block or a node index does not exist. -/
theorem C12_connect (blocks : List Block) (g : SGraph) (hg : g.nodes = (specUnion blocks).nodes) (i j a b : Nat) :
    addConnectEdge g i j a b = (specConnectEdge blocks i j a b).map fun e => g.addEdge e.1 e.2 :=
  Proofs.Seq.addConnectEdge_spec blocks g hg i j a b

/-- EVERY list of connect records: all are applied in order, or the input is refused -/
theorem C12_connects (blocks : List Block) (cs : List (Nat × Nat × List (Nat × Nat))) :
    cs.foldlM addConnect (unionBlocks blocks)
      = ((flatConnects cs).mapM fun q => specConnectEdge blocks q.1 q.2.1 q.2.2.1 q.2.2.2).map
          (addEdges (specUnion blocks)) := by
  rw [Proofs.Seq.unionBlocks_spec]
  exact Proofs.Seq.connects_fold blocks cs (specUnion blocks) rfl

example : specConnectEdge [⟨["A", "A"], [(0, 1)]⟩, ⟨["B"], []⟩, ⟨["C", "C"], [(0, 1)]⟩] 0 2 1 1 = some (1, 4) ∧
    specConnectEdge [⟨["A", "A"], [(0, 1)]⟩, ⟨["B"], []⟩] 0 1 0 1 = none := by decide

/-- The whole of `generate_seq_graph` + `_apply_termini_modifications` + `_tag_nodes` on parsed records, for
EVERY list of blocks, connect records, terminal renamings and labels (each label with a certain value,
naming a non-empty block): blocks laid out in order; every connect item adds its edge or the input is
refused; a renaming `s:name` renames exactly the residues of block `s` that have degree one in the FINAL
graph (connect edges included), the last renaming winning; a label `s:attr:value` is set on exactly the
residues of block `s`. -/
theorem C12_genseq (blocks : List Block) (cs : List (Nat × Nat × List (Nat × Nat))) (mods : List (Nat × String))
    (ptags : List (Nat × String × List (String × Bool))) (stags : List (Nat × String × String))
    (hp : ptags.mapM (fun t => (pickCertain t.2.2).map fun v => (t.1, t.2.1, v)) = some stags)
    (hv : ∀ t ∈ stags, ∃ b, blocks[t.1]? = some b ∧ b.names ≠ []) :
    genGraph blocks cs mods ptags = specGenSeq blocks (flatConnects cs) mods stags :=
  Proofs.Seq.genGraph_spec blocks cs mods ptags stags hp hv

example : genGraph [⟨["PS", "PS"], [(0, 1)]⟩, ⟨["PEO", "PEO"], [(0, 1)]⟩] [(0, 1, [(1, 0)])] [(1, "OH")]
      [(0, "chiral", [("R", true), ("S", false)])]
    = some ⟨[⟨0, "PS", none, some 0, [("chiral", "R")]⟩, ⟨1, "PS", none, some 0, [("chiral", "R")]⟩,
             ⟨2, "PEO", none, some 1, []⟩, ⟨3, "OH", none, some 1, []⟩],
            [⟨0, 1, []⟩, ⟨2, 3, []⟩, ⟨1, 2, []⟩]⟩ ∧
    [(0, "chiral", [("R", true), ("S", false)])].mapM (fun t => (pickCertain t.2.2).map fun v => (t.1, t.2.1, v))
      = some [(0, "chiral", "R")] := by decide

/-! ### JSON round trip -/

/-- For EVERY gen_seq input the model accepts: the graph handed to `node_link_data` has the keys
`0..N-1` in order and no resid, so (1) `parse_json`'s sorting by key is the identity and gen_params reads
back the SAME labelled graph (names, seqid, labels, edges), and (2) `MetaMolecule` numbers the residues
`1..N` in key order. -/
theorem C12_json_roundtrip (inp : GenSeqInput) (g : SGraph) (h : genSeq inp = some g) :
    genSeqReadBack inp = some g ∧
    (toMeta g).nodes.map (·.key) = List.range g.nodes.length ∧
    (toMeta g).nodes.map (·.resid) = List.range' 1 g.nodes.length ∧
    (toMeta g).nodes.map (·.resname) = g.nodes.map (·.resname) ∧ (toMeta g).edges = g.edges := by
  have hw := Proofs.Seq.genSeq_wellKeyed inp g h
  refine ⟨?_, Proofs.Seq.toMeta_wellKeyed g hw⟩
  unfold genSeqReadBack
  rw [h, Option.map_some, Proofs.Seq.parseJson_sorted g hw.1]

/-- reading any node-link document whose nodes are already in key order changes nothing; in general the
nodes come out sorted by key -/
theorem C12_json_sorted (g : SGraph) (h : g.nodes.map (·.key) = List.range g.nodes.length) :
    parseJson (nodeLinkData g) = g :=
  Proofs.Seq.parseJson_sorted g h

example : (genSeq { fromFile := [], macroStrings := ["A:2:1:PS-1".toList, "B:2:2:PEO-1.0,X-0".toList],
                    seq := some ["A", "B"], connects := ["0:1:1-0".toList], modifications := ["1:OH".toList],
                    tags := ["0:chiral:R-1".toList] }).map (fun g => (g.nodes.map (·.resname), g.edges.map fun e => (e.u, e.v)))
    = some (["PS", "PS", "PEO", "OH", "OH"], [(0, 1), (2, 3), (2, 4), (1, 2)]) := by decide

end PolyplyVerif.C12
