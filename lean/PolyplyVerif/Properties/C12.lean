/-
C12 — Sequence inputs produce exactly the specified residue graph.

Statement (fixed): "A -seq list, a .txt/.fasta/.ig/.json file or a gen_seq specification yields a residue
graph with exactly the stated residues (names after one-letter translation and 5'/3' terminal naming),
numbered consecutively from 1 in input order, connected linearly, as the macro tree shape dictates, or as
the connect records state, a circular .ig sequence being closed by an edge labelled as circular. The JSON
written by gen_seq is read back by gen_params as the same labelled graph."

Property theorems only (helper lemmas live in Proofs/Seq.lean).  The left-hand sides are the model of the
code (`Model/Seq.lean`, tied to /repo by the translator for the one-letter tables and by the
correspondence of harness/c12.py for everything else), the right-hand sides are the specification
(`Seq.spec…`), the same definitions the oracle evaluates on the implementation's output.  Every theorem
holds for sequences, line breakings, trees and macro sequences of ANY length (induction, no bound).
-/
import PolyplyVerif.Generated.Tables
import PolyplyVerif.Generated.SeqTables
import PolyplyVerif.Model.Seq
import PolyplyVerif.Model.SeqExt
import PolyplyVerif.Proofs.Seq
import PolyplyVerif.Proofs.SeqExt

namespace PolyplyVerif.C12
open PolyplyVerif PolyplyVerif.Seq

/-! ### the one-letter tables -/

/-- every code of the specification is answered by the repository's table, and there are no others -/
def sameTable (repo std : List (String × String)) : Bool :=
  repo.length == std.length && (repo.map (·.1)).Nodup &&
    std.all fun kv => (repo.find? fun e => e.1 == kv.1).map (·.2) == some kv.2

/-- The tables translated from `simple_seq_parsers.py` on this run are the one-letter codes of the
specification (`D`+base, base with T→U, the amino-acid codes).  Table fact, `decide` on the literals. -/
theorem C12_tables :
    sameTable Tabs.repo.dna Tabs.standard.dna = true ∧ sameTable Tabs.repo.rna Tabs.standard.rna = true ∧
    sameTable Tabs.repo.aa Tabs.standard.aa = true := by
  decide

example : lookup1 Tabs.repo.aa 'W' = some "TRP" ∧ lookup1 Tabs.repo.dna 'T' = some "DT" ∧
    lookup1 Tabs.repo.rna 'T' = some "U" ∧ lookup1 Tabs.repo.dna 'U' = none := by decide

/-! ### linear sequences -/

/-- What "exactly the stated residues, numbered consecutively from 1 in input order, connected linearly"
means for `specLinear`: keys `0..n-1`, resids `1..n`, the names in order, edges `(i, i+1)`. -/
theorem C12_linear_shape (names : List String) :
    (specLinear names).nodes.map (·.key) = List.range names.length ∧
    (specLinear names).nodes.map (·.resid) = List.range' 1 names.length ∧
    (specLinear names).nodes.map (·.resname) = names ∧
    (specLinear names).edges = (List.range (names.length - 1)).map (fun i => ⟨i, i + 1, []⟩) ∧
    (specLinear names).maxResid = names.length := by
  refine ⟨?_, ?_, ?_, rfl, rfl⟩
  · have := Proofs.Seq.map_zipIdx_snd names 0 0
    simp only [specLinear, List.map_map]
    rw [List.range_eq_range', ← this]
    apply List.map_congr_left
    intro p _
    simp
  · have := Proofs.Seq.map_zipIdx_snd names 1 0
    simp only [specLinear, List.map_map]
    rw [← this]
    apply List.map_congr_left
    intro p _
    simp [Nat.add_comm]
  · simp only [specLinear, List.map_map]
    have : ((fun (n : RNode) => n.resname) ∘ fun (x : String × Nat) => (⟨x.2, x.2 + 1, x.1⟩ : RNode)) = Prod.fst := rfl
    rw [this]
    simp

example : (specLinear ["A", "B", "C"]).nodes = [⟨0, 1, "A"⟩, ⟨1, 2, "B"⟩, ⟨2, 3, "C"⟩] ∧
    (specLinear ["A", "B", "C"]).edges = [⟨0, 1, []⟩, ⟨1, 2, []⟩] := by decide

/-- `-seq name:k …` (`split_seq_string` + `from_monomer_seq_linear`): for EVERY monomer list the residue
graph is the linear graph of the stated residues — `k` copies of each name, in order, resid `i+1`
(through `MetaMolecule.add_node`'s `max_resid` bookkeeping), edges `(i, i+1)`. -/
theorem C12_linear (monomers : List (String × Int)) :
    fromMonomerSeqLinear monomers = specLinear (expand monomers) := by
  unfold fromMonomerSeqLinear expand
  rw [Proofs.Seq.foldl_flatMap' (fun m => List.replicate m.2.toNat m.1) addMonomer monomers]
  have := Proofs.Seq.addMonomer_fold (monomers.flatMap fun m => List.replicate m.2.toNat m.1) []
  simp only [List.nil_append] at this
  have h0 : (specLinear [], ([] : List String).length) = (RGraph.empty, 0) := rfl
  rw [h0] at this
  rw [this]

example : fromMonomerSeqLinear [("PEO", 2), ("X", 0), ("OH", 1)] =
    ⟨[⟨0, 1, "PEO"⟩, ⟨1, 2, "PEO"⟩, ⟨2, 3, "OH"⟩], [⟨0, 1, []⟩, ⟨1, 2, []⟩], 3⟩ := by decide

/-- `gen_params -seq …` up to the MetaMolecule: every item must read `name:count`, then the linear graph -/
theorem C12_seq_option (items : List Text) :
    fromSeqOption items = (splitSeqString items).map fun ms => specLinear (expand ms) := by
  unfold fromSeqOption
  cases splitSeqString items with
  | none => rfl
  | some ms => simp [C12_linear]

example : fromSeqOption ["PEO:2".toList, "OH:1".toList] = some (specLinear ["PEO", "PEO", "OH"]) ∧
    fromSeqOption ["PEO".toList] = none := by decide

/-- The graph `_monomers_to_linear_nx_graph` builds, seen through `MetaMolecule`, is the linear graph of
the monomers for EVERY length — in particular one monomer gives one residue (the defect fixed by commit
4cf656d gave an empty graph there; the correspondence turns red on its reverse patch). -/
theorem C12_linear_parsers (names : List String) : toMeta (linearGraph names) = specLinear names :=
  Proofs.Seq.toMeta_linearGraph names

example : toMeta (linearGraph ["GLY"]) = ⟨[⟨0, 1, "GLY"⟩], [], 1⟩ := by decide

/-- `.txt`: for every list of residue names (non-empty, free of white space) and EVERY breaking into
non-empty lines (names separated by single spaces, no blank lines; the last line with or without a final
line break), reading the file gives the linear graph of the names in file order. -/
theorem C12_linear_txt (T : Tabs) (final : Bool) (chunks : List (List String)) (hc : ∀ ch ∈ chunks, ch ≠ [])
    (ht : ∀ ch ∈ chunks, ∀ s ∈ ch, GoodToken s) :
    fromSequenceFile T "txt".toList (renderTxt final chunks) = some (specLinear chunks.flatten) := by
  have h : String.ofList (lowerAscii "txt".toList) = "txt" := by decide
  simp only [fromSequenceFile, h, if_true]
  rw [Proofs.Seq.parseTxt_render final chunks hc ht, Proofs.Seq.toMeta_linearGraph]

example : renderTxt true [["PEO", "PEO"], ["OH"]] = "PEO PEO\nOH\n".toList ∧
    renderTxt false [["PEO", "PEO"], ["OH"]] = "PEO PEO\nOH".toList ∧
    (∀ ch ∈ [["PEO", "PEO"], ["OH"]], ∀ s ∈ ch, GoodToken s) := by
  refine ⟨by decide, by decide, ?_⟩
  intro ch hch s hs
  simp only [List.mem_cons, List.not_mem_nil, or_false] at hch
  rcases hch with rfl | rfl <;> simp only [List.mem_cons, List.not_mem_nil, or_false] at hs <;>
    (try rcases hs with rfl | rfl) <;> (try subst hs) <;> exact ⟨by decide, by decide⟩

/-! ### one-letter translation and terminal naming -/

/-- `_parse_plain` for a comment naming one alphabet: EVERY letter of EVERY line is translated by the table
of that alphabet (an unknown letter refuses the file), the lines being stripped and concatenated — so
the result does not depend on the line breaking; DNA/RNA then get the terminal names of `specNames`. -/
theorem C12_translate (T : Tabs) (a : Alphabet) (lines : List Text) :
    plainMonomers T (flagsOf a) lines = specNames T a false (lines.flatMap strip) :=
  Proofs.Seq.plainMonomers_spec T a lines

/-- What `specNames` says for a linear sequence whose letters translate to `names`: proteins keep the
names; a nucleic acid of two or more residues gets `5` on the first and `3` on the last and nothing else
changes; a SINGLE nucleotide gets both (`X` becomes `X53`: the code does `monomers[0] += "5"` then
`monomers[-1] += "3"`; modelled as the code does); an empty nucleic acid is refused. -/
theorem C12_termini (T : Tabs) (a : Alphabet) (letters : List Char) (names : List String)
    (h : letters.mapM (lookup1 (a.table T)) = some names) :
    (a.nucleic = false → specNames T a false letters = some names) ∧
    (a.nucleic = true → names = [] → specNames T a false letters = none) ∧
    (a.nucleic = true → ∀ x, names = [x] → specNames T a false letters = some [x ++ "5" ++ "3"]) ∧
    (a.nucleic = true → ∀ x mid y, names = x :: (mid ++ [y]) →
      specNames T a false letters = some ((x ++ "5") :: (mid ++ [y ++ "3"]))) := by
  unfold specNames
  rw [h]
  refine ⟨?_, ?_, ?_, ?_⟩
  · intro ha; cases names <;> simp [ha]
  · intro ha hn; simp [ha, hn]
  · intro ha x hn; subst hn; simp [ha, modifyLast]
  · intro ha x mid y hn
    subst hn
    simp only [Option.bind_some, List.isEmpty_cons, Bool.false_eq_true, if_false, ha, Bool.not_false, Bool.and_self,
      if_true]
    rw [Proofs.Seq.suffix_shape]

example : specNames Tabs.repo .dna false "ACGT".toList = some ["DA5", "DC", "DG", "DT3"] ∧
    specNames Tabs.repo .rna false "T".toList = some ["U53"] ∧
    specNames Tabs.repo .aa false "GW".toList = some ["GLY", "TRP"] ∧
    specNames Tabs.repo .dna false "AXG".toList = none := by decide

/-- `.fasta`: header line naming one alphabet, then the letters in EVERY breaking into lines (no white
space, no `>`; the last line with or without a final line break): the residue graph is the specified
one — translated, terminally named, linear. -/
theorem C12_fasta (T : Tabs) (a : Alphabet) (final : Bool) (header : Text) (chunks : List Text)
    (hh : '\n' ∉ header) (hid : identify [header] = some (flagsOf a))
    (hc : ∀ ch ∈ chunks, ∀ c ∈ ch, isSpace c = false ∧ c ≠ '>')
    (hf : final = false → header ≠ [] ∧ ∀ ch ∈ chunks, ch ≠ []) :
    fromSequenceFile T "fasta".toList (renderFasta final header chunks) = specSeqFile T a false chunks.flatten := by
  have h1 : String.ofList (lowerAscii "fasta".toList) = "fasta" := by decide
  have h2 : ¬ ("fasta" = "txt") := by decide
  simp only [fromSequenceFile, h1, h2, if_true, if_false]
  exact Proofs.Seq.parseFasta_render T a final header chunks hh hid hc hf

example : identify [">my DNA strand".toList] = some (flagsOf .dna) ∧
    renderFasta true ">my DNA strand".toList ["AC".toList, "G".toList] = ">my DNA strand\nAC\nG\n".toList ∧
    renderFasta false ">my DNA strand".toList ["AC".toList, "G".toList] = ">my DNA strand\nAC\nG".toList ∧
    specSeqFile Tabs.repo .dna false "ACG".toList =
      some ⟨[⟨0, 1, "DA5"⟩, ⟨1, 2, "DC"⟩, ⟨2, 3, "DG3"⟩], [⟨0, 1, []⟩, ⟨1, 2, []⟩], 3⟩ := by decide

/-! ### circular sequences -/

/-- The `ter_char == '2'` branch of `parse_ig` after `_parse_plain`, for EVERY sequence: the result is
the circular graph of the specification — names translated WITHOUT terminal suffixes (they are removed
again for DNA/RNA, never touched for proteins: the defect fixed by commit f8020d1), linear edges plus the
closing edge `(0, n-1)` labelled `linktype = circle`; an empty circular sequence is refused. -/
theorem C12_circular (T : Tabs) (a : Alphabet) (lines : List Text) :
    ((parsePlain T (flagsOf a) lines).bind (closeCircle (flagsOf a))).map toMeta
      = specSeqFile T a true (lines.flatMap strip) :=
  Proofs.Seq.parsePlain_circular T a lines

/-- What `specSeqFile` says for a circular sequence of three or more residues: the residues are the
plain translations, numbered from 1, the edges are the linear ones and exactly one more, `(0, n-1)` with
`linktype = circle`.  (For two residues the single edge carries the label, for one it is a self loop.) -/
theorem C12_circular_shape (T : Tabs) (a : Alphabet) (letters : List Char) (names : List String)
    (h : letters.mapM (lookup1 (a.table T)) = some names) (hn : 3 ≤ names.length) :
    specSeqFile T a true letters =
      some { specLinear names with
             edges := (specLinear names).edges ++ [⟨0, names.length - 1, [("linktype", "circle")]⟩] } := by
  rw [Proofs.Seq.specSeqFile_circular]
  have h2 : ¬ names.length ≤ 2 := by omega
  have hs : specNames T a true letters = some names := by
    unfold specNames
    rw [h]
    have : names ≠ [] := by intro e; rw [e] at hn; simp at hn
    simp [this]
  rw [hs]
  simp only [Option.map_some, Proofs.Seq.circEdges, h2, if_false]
  rfl

example : ((parsePlain Tabs.repo (flagsOf .dna) ["ACG".toList]).bind (closeCircle (flagsOf .dna))).map toMeta =
    some ⟨[⟨0, 1, "DA"⟩, ⟨1, 2, "DC"⟩, ⟨2, 3, "DG"⟩], [⟨0, 1, []⟩, ⟨1, 2, []⟩, ⟨0, 2, [("linktype", "circle")]⟩], 3⟩ ∧
    specSeqFile Tabs.repo .aa true "GAV".toList =
      some ⟨[⟨0, 1, "GLY"⟩, ⟨1, 2, "ALA"⟩, ⟨2, 3, "VAL"⟩], [⟨0, 1, []⟩, ⟨1, 2, []⟩, ⟨0, 2, [("linktype", "circle")]⟩], 3⟩ := by
  decide

/-- `.ig`: comment lines (one of them naming the alphabet), a title line, the letters in EVERY breaking
into non-empty lines, the terminator `1` or `2` after the last letter (on the last sequence line or on
a line of its own), with or without a final line break: terminator `1` gives the linear graph of the
specification, terminator `2` the circular one. -/
theorem C12_ig (T : Tabs) (a : Alphabet) (final : Bool) (comments : List Text) (title : Text)
    (chunks : List Text) (last : Text) (ter tch : Char)
    (hcm : ∀ c ∈ comments, '\n' ∉ c ∧ (splitComments c).1 = [])
    (htitle : '\n' ∉ title ∧ (splitComments title).1.getLast? = some tch ∧ tch ≠ '1' ∧ tch ≠ '2')
    (hid : identify ((comments ++ [title]).map fun l => (splitComments l).2) = some (flagsOf a))
    (hc : ∀ ch ∈ chunks, ch ≠ [] ∧ ∀ c ∈ ch, SeqChar c) (hl : ∀ c ∈ last, SeqChar c)
    (hter : ter = '1' ∨ ter = '2') :
    fromSequenceFile T "ig".toList (renderIg final comments title chunks last ter)
      = specSeqFile T a (ter == '2') (chunks.flatten ++ last) := by
  have h1 : String.ofList (lowerAscii "ig".toList) = "ig" := by decide
  have h2 : ¬ ("ig" = "txt") := by decide
  have h3 : ¬ ("ig" = "fasta") := by decide
  simp only [fromSequenceFile, h1, h2, h3, if_true, if_false]
  exact Proofs.Seq.parseIg_render T a final comments title chunks last ter tch hcm htitle hid hc hl hter

example : renderIg true ["; a DNA ring".toList] "myseq".toList ["AC".toList] "G".toList '2'
      = "; a DNA ring\nmyseq\nAC\nG2\n".toList ∧
    (splitComments "; a DNA ring".toList).1 = [] ∧ (splitComments "myseq".toList).1.getLast? = some 'q' ∧
    identify ((["; a DNA ring".toList] ++ ["myseq".toList]).map fun l => (splitComments l).2) = some (flagsOf .dna) ∧
    fromSequenceFile Tabs.repo "ig".toList "; a DNA ring\nmyseq\nAC\nG2\n".toList =
      some ⟨[⟨0, 1, "DA"⟩, ⟨1, 2, "DC"⟩, ⟨2, 3, "DG"⟩], [⟨0, 1, []⟩, ⟨1, 2, []⟩, ⟨0, 2, [("linktype", "circle")]⟩], 3⟩ := by
  decide

/-! ### macro trees -/

/-- `nx.balanced_tree(r, h)` as `_tree_edges` builds it (queue loop), for EVERY size `n` and branching
factor `r ≥ 1`: node `j ≥ 1` hangs below node `(j-1) / r`, in this order. -/
theorem C12_tree (n r : Nat) (hr : 1 ≤ r) : treeEdges n r = specTreeEdges n r :=
  Proofs.Seq.treeEdges_spec n r hr

/-- **C12_tree_shape** — what "as the macro tree shape dictates" means for the edges the queue loop builds,
for every size and branching factor `r ≥ 1`: there are `n - 1` edges; the children are the nodes
`1 … n-1`, each exactly once and in order (every node but the root has exactly one parent); a parent
always has a smaller key than its child (so the graph is a tree rooted at 0); and no node has more than `r` children. -/
theorem C12_tree_shape (n r : Nat) (hr : 1 ≤ r) :
    (treeEdges n r).length = n - 1 ∧
    (treeEdges n r).map (·.2) = (List.range (n - 1)).map (· + 1) ∧
    (∀ e ∈ treeEdges n r, e.1 < e.2 ∧ e.2 < n) ∧
    ∀ p, ((treeEdges n r).filter (fun e => e.1 == p)).length ≤ r := by
  rw [C12_tree n r hr]
  unfold specTreeEdges
  refine ⟨by simp, by simp [List.map_map, Function.comp_def], ?_, ?_⟩
  · intro e he
    simp only [List.mem_map, List.mem_range] at he
    obtain ⟨j, hj, rfl⟩ := he
    have : j / r ≤ j := Nat.div_le_self j r
    exact ⟨by simp only []; omega, by simp only []; omega⟩
  · intro p
    rw [List.filter_map, List.length_map]
    have hnd : ((List.range (n - 1)).filter ((fun e : Nat × Nat => e.1 == p) ∘ fun j => (j / r, j + 1))).Nodup :=
      (List.nodup_range).filter _
    have hsub : ((List.range (n - 1)).filter ((fun e : Nat × Nat => e.1 == p) ∘ fun j => (j / r, j + 1))) ⊆
        List.range' (p * r) r := by
      intro j hj
      simp only [List.mem_filter, List.mem_range, Function.comp_apply, beq_iff_eq] at hj
      obtain ⟨_, hjp⟩ := hj
      rw [List.mem_range']
      have h1 := Nat.div_add_mod j r
      have h2 := Nat.mod_lt j (show 0 < r by omega)
      refine ⟨j % r, h2, ?_⟩
      rw [← hjp, Nat.mul_comm]; omega
    have := hnd.length_le_of_subset hsub
    simpa using this

example : ((treeEdges 7 2).filter (fun e => e.1 == 1)).length = 2 ∧ (treeEdges 7 2).map (·.2) = [1, 2, 3, 4, 5, 6] := by decide

/-- branching factor 0: a single node without edges -/
theorem C12_tree_zero (n levels : Nat) : treeEdges n 0 = [] ∧ treeSize 0 levels ≤ 1 :=
  ⟨Proofs.Seq.treeEdges_zero n, Proofs.Seq.treeSize_zero_le levels⟩

/-- the number of nodes is networkx's `(r^levels - 1) / (r - 1)` (`levels` for `r = 1`) -/
theorem C12_tree_size (r levels : Nat) (hr : 1 ≤ r) :
    treeSize r levels * (r - 1) + 1 = r ^ levels ∧ treeSize 1 levels = levels :=
  ⟨Proofs.Seq.treeSize_geom r levels hr, Proofs.Seq.treeSize_one levels⟩

example : treeSize 2 3 = 7 ∧ treeEdges 7 2 = [(0, 1), (0, 2), (1, 3), (1, 4), (2, 5), (2, 6)] ∧
    treeEdges 4 1 = [(0, 1), (1, 2), (2, 3)] := by decide

/-! ### sequences of macros, connect records -/

/-- `generate_seq_graph`'s loop of `disjoint_union`s, for EVERY list of blocks: block `k` occupies the
consecutive keys `offset k, offset k + 1, …` (`offset k` = total size of the blocks before it), in block
order, carries `seqid = k`, and its edges are shifted by `offset k`. -/
theorem C12_union_offsets (blocks : List Block) :
    unionBlocks blocks = specUnion blocks ∧
    (specUnion blocks).nodes.map (·.key) = List.range (offset blocks blocks.length) ∧
    ∀ s, (specUnion blocks).findSeqid s =
      match blocks[s]? with
      | some b => List.range' (offset blocks s) b.names.length
      | none => [] :=
  ⟨Proofs.Seq.unionBlocks_spec blocks, Proofs.Seq.specUnion_keys blocks, Proofs.Seq.specUnion_findSeqid blocks⟩

example : unionBlocks [⟨["A", "A"], [(0, 1)]⟩, ⟨["B"], []⟩, ⟨["C", "C"], [(0, 1)]⟩] =
    ⟨[⟨0, "A", none, some 0, []⟩, ⟨1, "A", none, some 0, []⟩, ⟨2, "B", none, some 1, []⟩,
      ⟨3, "C", none, some 2, []⟩, ⟨4, "C", none, some 2, []⟩], [⟨0, 1, []⟩, ⟨3, 4, []⟩]⟩ := by decide

/-- One item `a-b` of a connect record `i:j:…` on the laid-out blocks (whatever edges were added
before): it adds exactly the edge between the `a`-th node of block `i` and the `b`-th node of block `j`
(`offset i + a`, `offset j + b`), and is refused iff a block or a node index does not exist. -/
theorem C12_connect (blocks : List Block) (g : SGraph) (hg : g.nodes = (specUnion blocks).nodes) (i j a b : Nat) :
    addConnectEdge g i j a b = (specConnectEdge blocks i j a b).map fun e => g.addEdge e.1 e.2 :=
  Proofs.Seq.addConnectEdge_spec blocks g hg i j a b

/-- EVERY list of connect records: all are applied in order, or the input is refused -/
theorem C12_connects (blocks : List Block) (cs : List (Nat × Nat × List (Nat × Nat))) :
    cs.foldlM addConnect (unionBlocks blocks)
      = ((flatConnects cs).mapM fun q => specConnectEdge blocks q.1 q.2.1 q.2.2.1 q.2.2.2).map
          (addEdges (specUnion blocks)) := by
  rw [Proofs.Seq.unionBlocks_spec]
  exact Proofs.Seq.connects_fold blocks cs (specUnion blocks) rfl

example : specConnectEdge [⟨["A", "A"], [(0, 1)]⟩, ⟨["B"], []⟩, ⟨["C", "C"], [(0, 1)]⟩] 0 2 1 1 = some (1, 4) ∧
    specConnectEdge [⟨["A", "A"], [(0, 1)]⟩, ⟨["B"], []⟩] 0 1 0 1 = none := by decide

/-- The whole of `generate_seq_graph` + `_apply_termini_modifications` + `_tag_nodes` on parsed records, for
EVERY list of blocks, connect records, terminal renamings and labels (each label with a certain value,
naming a non-empty block): blocks laid out in order; every connect item adds its edge or the input is
refused; a renaming `s:name` renames exactly the residues of block `s` that have degree one in the FINAL
graph (connect edges included), the last renaming winning; a label `s:attr:value` is set on exactly the
residues of block `s`. -/
theorem C12_genseq (blocks : List Block) (cs : List (Nat × Nat × List (Nat × Nat))) (mods : List (Nat × String))
    (ptags : List (Nat × String × List (String × Bool))) (stags : List (Nat × String × String))
    (hp : ptags.mapM (fun t => (pickCertain t.2.2).map fun v => (t.1, t.2.1, v)) = some stags)
    (hv : ∀ t ∈ stags, ∃ b, blocks[t.1]? = some b ∧ b.names ≠ []) :
    genGraph blocks cs mods ptags = specGenSeq blocks (flatConnects cs) mods stags :=
  Proofs.Seq.genGraph_spec blocks cs mods ptags stags hp hv

example : genGraph [⟨["PS", "PS"], [(0, 1)]⟩, ⟨["PEO", "PEO"], [(0, 1)]⟩] [(0, 1, [(1, 0)])] [(1, "OH")]
      [(0, "chiral", [("R", true), ("S", false)])]
    = some ⟨[⟨0, "PS", none, some 0, [("chiral", "R")]⟩, ⟨1, "PS", none, some 0, [("chiral", "R")]⟩,
             ⟨2, "PEO", none, some 1, []⟩, ⟨3, "OH", none, some 1, []⟩],
            [⟨0, 1, []⟩, ⟨2, 3, []⟩, ⟨1, 2, []⟩]⟩ ∧
    [(0, "chiral", [("R", true), ("S", false)])].mapM (fun t => (pickCertain t.2.2).map fun v => (t.1, t.2.1, v))
      = some [(0, "chiral", "R")] := by decide

/-! ### JSON round trip -/

/-- For EVERY gen_seq input the model accepts: the graph handed to `node_link_data` has the keys
`0..N-1` in order and no resid, so (1) `parse_json`'s sorting by key is the identity and gen_params reads
back the SAME labelled graph (names, seqid, labels, edges), and (2) `MetaMolecule` numbers the residues
`1..N` in key order. -/
theorem C12_json_roundtrip (inp : GenSeqInput) (g : SGraph) (h : genSeq inp = some g) :
    genSeqReadBack inp = some g ∧
    (toMeta g).nodes.map (·.key) = List.range g.nodes.length ∧
    (toMeta g).nodes.map (·.resid) = List.range' 1 g.nodes.length ∧
    (toMeta g).nodes.map (·.resname) = g.nodes.map (·.resname) ∧ (toMeta g).edges = g.edges := by
  have hw := Proofs.Seq.genSeq_wellKeyed inp g h
  refine ⟨?_, Proofs.Seq.toMeta_wellKeyed g hw⟩
  unfold genSeqReadBack
  rw [h, Option.map_some, Proofs.Seq.parseJson_sorted g hw.1]

/-- reading any node-link document whose nodes are already in key order changes nothing; in general the
nodes come out sorted by key -/
theorem C12_json_sorted (g : SGraph) (h : g.nodes.map (·.key) = List.range g.nodes.length) :
    parseJson (nodeLinkData g) = g :=
  Proofs.Seq.parseJson_sorted g h

example : (genSeq { fromFile := [], macroStrings := ["A:2:1:PS-1".toList, "B:2:2:PEO-1.0,X-0".toList],
                    seq := some ["A", "B"], connects := ["0:1:1-0".toList], modifications := ["1:OH".toList],
                    tags := ["0:chiral:R-1".toList] }).map (fun g => (g.nodes.map (·.resname), g.edges.map fun e => (e.u, e.v)))
    = some (["PS", "PS", "PEO", "OH", "OH"], [(0, 1), (2, 3), (2, 4), (1, 2)]) := by decide

/-! ## Round 5: translator anchors (`Generated/SeqTables.lean`, read from the CURRENT source on every run)

The model of `Model/Seq.lean` writes the literals of the parsers out (`"5"`, `"3"`, `'1'`, `'2'`, `';'`, `'>'`,
`"DNA"` …).  The theorems below state that the model's definitions ARE the ones built from the generated
constants (`rfl`: they stop checking as soon as the source says something else), and the facts about the
generated constants the file-level theorems silently rely on. -/

/-- `_parse_plain`'s terminal naming in the model is the one of the source: `monomers[0] += suffix5`,
`monomers[-1] += suffix3` for EVERY monomer list; the two suffixes differ and are ONE character long (which
is what makes `resname[:-1]` in `parse_ig` remove exactly the suffix again). -/
theorem C12_anchor_suffixes :
    (∀ m : List String, suffixTermini m =
      if m.isEmpty then none
      else some (modifyLast (· ++ SeqTables.suffix3) (m.modifyHead (· ++ SeqTables.suffix5)))) ∧
    SeqTables.suffix5 ≠ SeqTables.suffix3 ∧
    SeqTables.suffix5.toList.length = 1 ∧ SeqTables.suffix3.toList.length = 1 ∧
    (∀ s : String, dropLastChar (s ++ SeqTables.suffix5) = s ∧ dropLastChar (s ++ SeqTables.suffix3) = s) :=
  ⟨fun _ => rfl, by decide, by decide, by decide,
   fun s => ⟨Proofs.Seq.dropLastChar_5 s, Proofs.Seq.dropLastChar_3 s⟩⟩

example : suffixTermini ["DA", "DC", "DG"] = some ["DA" ++ SeqTables.suffix5, "DC", "DG" ++ SeqTables.suffix3] := by decide

/-- `.ig`: the model's comment splitting and terminator test are the source's; the circular terminator is one of
the two terminators, they are distinct, and neither is the comment sign. -/
theorem C12_anchor_ig :
    (∀ line : Text, splitComments line =
      (strip (line.takeWhile (· != SeqTables.igCommentChar)),
       strip ((line.dropWhile (· != SeqTables.igCommentChar)).drop 1))) ∧
    SeqTables.igTerminators = ['1', '2'] ∧ SeqTables.igCircular = '2' ∧
    SeqTables.igCircular ∈ SeqTables.igTerminators ∧ SeqTables.igTerminators.Nodup ∧
    SeqTables.igCommentChar ∉ SeqTables.igTerminators ∧
    (∀ c : Char, SeqChar c ↔ isSpace c = false ∧ c ≠ SeqTables.igCommentChar ∧ c ∉ SeqTables.igTerminators) := by
  refine ⟨fun _ => rfl, by decide, by decide, by decide, by decide, by decide, ?_⟩
  intro c
  have h : SeqTables.igTerminators = ['1', '2'] := by decide
  have h' : SeqTables.igCommentChar = ';' := by decide
  simp only [SeqChar, h, h', List.mem_cons, List.not_mem_nil, or_false, not_or]

example : SeqChar 'A' ∧ ¬ SeqChar SeqTables.igCircular ∧ ¬ SeqChar SeqTables.igCommentChar := by
  refine ⟨⟨by decide, by decide, by decide, by decide⟩, ?_, ?_⟩
  · intro h; exact h.2.2.2 (by decide)
  · intro h; exact h.2.1 (by decide)

/-- the closing edge of a circular `.ig` sequence carries the label the source sets -/
theorem C12_anchor_circle (f : Flags) (g : SGraph) :
    closeCircle f g =
      (let n := g.nodes.length
       if n = 0 then none else
       let g1 := (g.addEdge 0 (n - 1)).setEdgeAttr 0 (n - 1) SeqTables.circleKey SeqTables.circleValue
       if f.dna || f.rna then
         let g2 := g1.modifyNode 0 fun nd => { nd with resname := dropLastChar nd.resname }
         some (g2.modifyNode (n - 1) fun nd => { nd with resname := dropLastChar nd.resname })
       else some g1) := rfl

example : (SeqTables.circleKey, SeqTables.circleValue) = ("linktype", "circle") := by decide

/-- `.fasta`: sequence lines end at the first line containing the source's marker -/
theorem C12_anchor_fasta (T : Tabs) (t : Text) :
    parseFasta T t =
      match readLines t with
      | [] => none
      | hd :: rest => (identify [hd]).bind fun f =>
          parsePlain T f (rest.takeWhile fun l => !l.contains SeqTables.fastaMarker) := rfl

example : SeqTables.fastaMarker = '>' := by decide

/-- `_identify_residues` in the model looks for the source's keywords; no keyword occurs inside another one
(so a comment naming one alphabet switches on exactly that flag: `identify` of the bare keyword). -/
theorem C12_anchor_keywords :
    (∀ comments : List Text, identify comments =
      (let dna := comments.any (hasSub SeqTables.kwDNA.toList)
       let rna := comments.any (hasSub SeqTables.kwRNA.toList)
       let aa := comments.any (hasSub SeqTables.kwAA.toList)
       if rna && dna then none else if !rna && !dna && !aa then none else some ⟨dna, rna, aa⟩)) ∧
    identify [SeqTables.kwDNA.toList] = some (flagsOf .dna) ∧
    identify [SeqTables.kwRNA.toList] = some (flagsOf .rna) ∧
    identify [SeqTables.kwAA.toList] = some (flagsOf .aa) ∧
    identify [SeqTables.kwDNA.toList, SeqTables.kwRNA.toList] = none ∧ identify [[]] = none :=
  ⟨fun _ => rfl, by decide, by decide, by decide, by decide, by decide⟩

example : identify ["; my PROTEIN of the DNA world".toList] = some ⟨true, false, true⟩ := by decide

/-- No one-letter code of any of the three translated tables collides with a character the readers treat
specially (white space, the `.ig` comment sign and terminators, the fasta marker): every letter may stand in a
sequence line (`SeqChar`, hypothesis of `C12_ig` / `C12_fasta`), and conversely none of the special characters
is translated.  `decide` on the translated literals. -/
theorem C12_letters_vs_special :
    (∀ kv ∈ Tabs.repo.dna ++ Tabs.repo.rna ++ Tabs.repo.aa, ∀ c ∈ kv.1.toList,
      isSpace c = false ∧ c ∉ SeqTables.igTerminators ∧ c ≠ SeqTables.igCommentChar ∧ c ≠ SeqTables.fastaMarker) ∧
    (∀ c ∈ SeqTables.igTerminators ++ [SeqTables.igCommentChar, SeqTables.fastaMarker, ' ', '\t', '\n', '\r'],
      lookup1 Tabs.repo.dna c = none ∧ lookup1 Tabs.repo.rna c = none ∧ lookup1 Tabs.repo.aa c = none) := by
  decide

example : lookup1 Tabs.repo.aa 'O' = some "HYP" ∧ lookup1 Tabs.repo.aa '1' = none := by decide

/-- gen_seq / `-seq`: the separators, the block attribute and the degree of a terminal node of the source are
the ones the model uses -/
theorem C12_anchor_genseq :
    SeqTables.genSeqSeparators = [",", "-", ":"] ∧ SeqTables.seqidAttr = "seqid" ∧ SeqTables.seqItemSep = ':' ∧
    (∀ g : SGraph, terminalNodes g =
      (g.nodes.filter fun n => g.degree n.key == SeqTables.terminalDegree).map (·.key)) :=
  ⟨by decide, by decide, by decide, fun _ => rfl⟩

example : terminalNodes ⟨[⟨0, "A", none, some 0, []⟩, ⟨1, "A", none, some 0, []⟩, ⟨2, "A", none, some 0, []⟩],
    [⟨0, 1, []⟩, ⟨1, 2, []⟩]⟩ = [0, 2] := by decide

/-! ### file-suffix dispatch (`MetaMolecule.from_sequence_file`) -/

/-- The dispatch through the GENERATED table `MetaMolecule.parsers` is the one the file-level theorems were proved
for: for EVERY suffix (any capitalisation) and every file content `fromSequenceFileAny` (table lookup) agrees with
`fromSequenceFile` (written-out cascade); a suffix is served iff it is one of txt/fasta/ig/json; a node-link
document is read iff the suffix is json. -/
theorem C12_dispatch (T : Tabs) (ext : Text) :
    (∀ t, fromSequenceFileAny T ext (.text t) = fromSequenceFile T ext t) ∧
    ((parserFor ext).isSome ↔ String.ofList (lowerAscii ext) ∈ ["txt", "fasta", "ig", "json"]) ∧
    (∀ d, fromSequenceFileAny T ext (.doc d) =
      if String.ofList (lowerAscii ext) = "json" then some (toMeta (parseJson d)) else none) := by
  have n1 : ¬ ("fasta" = "txt") := by decide
  have n2 : ¬ ("ig" = "txt") := by decide
  have n3 : ¬ ("ig" = "fasta") := by decide
  have n4 : ¬ ("json" = "txt") := by decide
  have n5 : ¬ ("json" = "fasta") := by decide
  have n6 : ¬ ("json" = "ig") := by decide
  have m1 : ¬ ("parse_fasta" = "parse_txt") := by decide
  have m2 : ¬ ("parse_ig" = "parse_txt") := by decide
  have m3 : ¬ ("parse_ig" = "parse_fasta") := by decide
  have m4 : ¬ ("parse_json" = "parse_txt") := by decide
  have m5 : ¬ ("parse_json" = "parse_fasta") := by decide
  have m6 : ¬ ("parse_json" = "parse_ig") := by decide
  have k1 : ¬ ("txt" = "json") := by decide
  have k2 : ¬ ("fasta" = "json") := by decide
  have k3 : ¬ ("ig" = "json") := by decide
  rcases Proofs.SeqExt.parserFor_cases ext with ⟨he, hp⟩ | ⟨he, hp⟩ | ⟨he, hp⟩ | ⟨he, hp⟩ | ⟨h1, h2, h3, h4, hp⟩
  · refine ⟨fun t => ?_, ?_, fun d => ?_⟩
    · simp only [fromSequenceFileAny, fromSequenceFile, hp, he, if_true]
    · simp [hp, he]
    · simp only [fromSequenceFileAny, hp, he, if_true, k1, if_false]
  · refine ⟨fun t => ?_, ?_, fun d => ?_⟩
    · simp only [fromSequenceFileAny, fromSequenceFile, hp, he, if_true, n1, m1, if_false]
    · simp [hp, he]
    · simp only [fromSequenceFileAny, hp, he, if_true, k2, m1, if_false]
  · refine ⟨fun t => ?_, ?_, fun d => ?_⟩
    · simp only [fromSequenceFileAny, fromSequenceFile, hp, he, if_true, n2, n3, m2, m3, if_false]
    · simp [hp, he]
    · simp only [fromSequenceFileAny, hp, he, if_true, k3, m2, m3, if_false]
  · refine ⟨fun t => ?_, ?_, fun d => ?_⟩
    · simp only [fromSequenceFileAny, fromSequenceFile, hp, he, if_true, n4, n5, n6, m4, m5, m6, if_false]
    · simp [hp, he]
    · simp only [fromSequenceFileAny, hp, he, if_true, m4, m5, m6, if_false]
  · refine ⟨fun t => ?_, ?_, fun d => ?_⟩
    · simp only [fromSequenceFileAny, fromSequenceFile, hp, h1, h2, h3, if_false]
    · simp [hp, h1, h2, h3, h4]
    · simp only [fromSequenceFileAny, hp, h4, if_false]

example : parserFor "FASTA".toList = some "parse_fasta" ∧ parserFor "Json".toList = some "parse_json" ∧
    parserFor "fa".toList = none ∧ parserFor [] = none ∧
    SeqTables.parsers.map (·.1) = ["txt", "fasta", "ig", "json"] := by decide

/-! ### the gen_seq command strings: parsing inverts writing -/

/-- `MacroString`: for EVERY name, level count, branching factor and non-empty residue list (names free of the
separators) the string `<name>:<levels>:<bfact>:<res-1|0,…>` is parsed back to exactly these fields. -/
theorem C12_macro_roundtrip (name : String) (levels bfact : Nat) (probs : List (String × Bool))
    (hname : ':' ∉ name.toList) (hne : probs ≠ []) (hp : ∀ p ∈ probs, FieldName p.1) :
    parseMacroString (renderMacro name levels bfact probs) = some (name, Macro.tree levels bfact probs) ∧
    macroFields (renderMacro name levels bfact probs) = some (name, levels, bfact, probs) := by
  have h := Proofs.SeqExt.parseMacroString_render name levels bfact probs hname hne hp
  exact ⟨h, by unfold macroFields; rw [h]⟩

example : renderMacro "A" 12 3 [("PEO", true), ("PS", false)] = "A:12:3:PEO-1,PS-0".toList ∧
    FieldName "PEO" ∧ FieldName "PS" := by
  refine ⟨by decide, ⟨by decide, by decide, by decide⟩, ⟨by decide, by decide, by decide⟩⟩

/-- What a tree macro generates, for EVERY macro with a certain residue, at least one level and branching
factor ≥ 1: `treeSize` residues of that name, node `j ≥ 1` below node `(j-1)/bfact` ("as the macro tree shape
dictates"), straight from the command string. -/
theorem C12_macro_graph (name : String) (levels bfact : Nat) (probs : List (String × Bool)) (nm : String)
    (hname : ':' ∉ name.toList) (hp : ∀ p ∈ probs, FieldName p.1) (hc : pickCertain probs = some nm)
    (hl : 1 ≤ levels) (hb : 1 ≤ bfact) :
    macroGraph (renderMacro name levels bfact probs) =
      some ⟨List.replicate (treeSize bfact levels) nm, specTreeEdges (treeSize bfact levels) bfact⟩ := by
  have hne : probs ≠ [] := by
    intro h; rw [h] at hc; simp [pickCertain] at hc
  unfold macroGraph
  rw [Proofs.SeqExt.parseMacroString_render name levels bfact probs hname hne hp]
  have hn : treeSize bfact levels ≠ 0 := by
    cases levels with
    | zero => omega
    | succ l => simp [treeSize]
  simp only [Option.bind_some, Macro.genGraph, hn, if_false, hc, Option.map_some, Proofs.Seq.treeEdges_spec _ _ hb]

example : macroGraph "A:2:2:N-1,X-0".toList = some ⟨["N", "N", "N"], [(0, 1), (0, 2)]⟩ ∧
    pickCertain [("N", true), ("X", false)] = some "N" := by decide

/-- connect records, terminal renamings and labels: parsing inverts writing, for EVERY record -/
theorem C12_records_roundtrip :
    (∀ c : Nat × Nat × List (Nat × Nat), c.2.2 ≠ [] → parseConnect (renderConnect c) = some c) ∧
    (∀ m : Nat × String, ':' ∉ m.2.toList → parseModification (renderModification m) = some m) ∧
    (∀ t : Nat × String × List (String × Bool), ':' ∉ t.2.1.toList → t.2.2 ≠ [] → (∀ p ∈ t.2.2, FieldName p.1) →
      parseTag (renderTag t) = some t) :=
  ⟨Proofs.SeqExt.parseConnect_render, Proofs.SeqExt.parseModification_render,
   fun t ha hne hp => Proofs.SeqExt.parseTag_render t ha hne hp⟩

example : renderConnect (0, 12, [(1, 0), (10, 3)]) = "0:12:1-0,10-3".toList ∧
    renderModification (1, "OH") = "1:OH".toList ∧
    renderTag (0, "chiral", [("R", true), ("S", false)]) = "0:chiral:R-1,S-0".toList := by decide

/-! ### `_add_edges`, `_apply_termini_modifications`, `_tag_nodes` on ARBITRARY labelled graphs -/

/-- One item `a-b` of `_add_edges(graph, …, i, j)` on ANY graph (blocks need not be laid out contiguously,
edges may already be there): it is accepted IFF block `i` has an `a`-th and block `j` a `b`-th node (counted from
0 in node order); if accepted it adds exactly the edge between these two nodes — every node and every other edge
untouched, an edge already present stays as it is — and afterwards the two nodes are joined. -/
theorem C12_connect_iff (g : SGraph) (i j a b : Nat) :
    ((addConnectEdge g i j a b).isSome ↔ a < (g.findSeqid i).length ∧ b < (g.findSeqid j).length) ∧
    ∀ g', addConnectEdge g i j a b = some g' →
      ∃ u v, (g.findSeqid i)[a]? = some u ∧ (g.findSeqid j)[b]? = some v ∧
        g'.nodes = g.nodes ∧ g'.edges = edgesPlus g u v ∧ g'.hasEdge u v = true ∧ ∀ e ∈ g.edges, e ∈ g'.edges := by
  cases hu : (g.findSeqid i)[a]? with
  | none =>
    have hn := Proofs.SeqExt.addConnectEdge_none g i j a b (Or.inl hu)
    refine ⟨?_, fun g' h => by rw [hn] at h; cases h⟩
    rw [hn]
    have : ¬ a < (g.findSeqid i).length := by
      intro h; rw [List.getElem?_eq_getElem h] at hu; cases hu
    simp [this]
  | some u =>
    cases hv : (g.findSeqid j)[b]? with
    | none =>
      have hn := Proofs.SeqExt.addConnectEdge_none g i j a b (Or.inr hv)
      refine ⟨?_, fun g' h => by rw [hn] at h; cases h⟩
      rw [hn]
      have : ¬ b < (g.findSeqid j).length := by
        intro h; rw [List.getElem?_eq_getElem h] at hv; cases hv
      simp [this]
    | some v =>
      have hs := Proofs.SeqExt.addConnectEdge_some g i j a b u v hu hv
      have ha : a < (g.findSeqid i).length := by
        rcases Nat.lt_or_ge a (g.findSeqid i).length with h | h
        · exact h
        · rw [List.getElem?_eq_none h] at hu; cases hu
      have hb : b < (g.findSeqid j).length := by
        rcases Nat.lt_or_ge b (g.findSeqid j).length with h | h
        · exact h
        · rw [List.getElem?_eq_none h] at hv; cases hv
      refine ⟨by rw [hs]; simp [ha, hb], fun g' h => ?_⟩
      rw [hs] at h
      cases h
      refine ⟨u, v, rfl, rfl, Proofs.Seq.addEdge_nodes g u v, Proofs.SeqExt.addEdge_edges g u v,
        Proofs.SeqExt.addEdge_hasEdge g u v, fun e he => ?_⟩
      rw [Proofs.SeqExt.addEdge_edges]
      unfold edgesPlus
      split
      · exact he
      · exact List.mem_append_left _ he

example : addConnectEdge ⟨[⟨5, "A", none, some 2, []⟩, ⟨7, "B", none, none, []⟩, ⟨9, "A", none, some 2, []⟩], []⟩ 2 2 0 1
      = some ⟨[⟨5, "A", none, some 2, []⟩, ⟨7, "B", none, none, []⟩, ⟨9, "A", none, some 2, []⟩], [⟨5, 9, []⟩]⟩ ∧
    addConnectEdge ⟨[⟨5, "A", none, some 2, []⟩, ⟨7, "B", none, none, []⟩, ⟨9, "A", none, some 2, []⟩], []⟩ 2 2 0 2 = none := by
  decide

/-- the text form `_add_edges(graph, "a-b,c-d", i, j)` of a non-empty item list is the fold of its items -/
theorem C12_add_edges_text (g : SGraph) (i j : Nat) (items : List (Nat × Nat)) (hne : items ≠ []) :
    addEdgesText g (joinWith ',' (items.map Proofs.SeqExt.edgeItem)) i j = addConnect g (i, j, items) := by
  unfold addEdgesText
  rw [Proofs.Seq.splitOn_joinWith ',' _ (by simpa using hne)]
  · rw [Proofs.SeqExt.mapM_map_some _ Proofs.SeqExt.edgeItem items fun ab _ => Proofs.SeqExt.parseEdgeItem_render ab]
    rfl
  · intro t ht hc
    obtain ⟨ab, _, rfl⟩ := List.mem_map.mp ht
    exact (Proofs.SeqExt.mem_edgeItem ab _ hc).2 rfl

example : joinWith ',' ([(1, 0), (10, 3)].map Proofs.SeqExt.edgeItem) = "1-0,10-3".toList := by decide

/-- which nodes `_find_terminal_nodes` returns: the keys of the nodes of degree one (a self loop counts twice) -/
theorem C12_terminal_iff (g : SGraph) (k : Nat) :
    k ∈ terminalNodes g ↔ (∃ n ∈ g.nodes, n.key = k) ∧ g.degree k = 1 := by
  unfold terminalNodes
  simp only [List.mem_map, List.mem_filter, beq_iff_eq]
  constructor
  · rintro ⟨n, ⟨hn, hd⟩, rfl⟩
    exact ⟨⟨n, hn, rfl⟩, hd⟩
  · rintro ⟨⟨n, hn, rfl⟩, hd⟩
    exact ⟨n, ⟨hn, hd⟩, rfl⟩

/-- `_apply_termini_modifications` on ANY graph and EVERY list of renamings: the edges and the node list (keys,
resid, seqid, labels, order) are untouched; a node's resname becomes the name of the LAST renaming whose seqID is
the node's block, provided the node has degree one in the graph as it was handed in — every other resname is
unchanged. -/
theorem C12_modifications_frame (g : SGraph) (mods : List (Nat × String)) :
    (mods.foldl (applyModification (terminalNodes g)) g).edges = g.edges ∧
    (mods.foldl (applyModification (terminalNodes g)) g).nodes = g.nodes.map fun n =>
      match (mods.filter fun m => n.seqid == some m.1 && g.degree n.key == 1).getLast? with
      | some m => { n with resname := m.2 }
      | none => n := by
  rw [Proofs.Seq.mods_nodes]
  refine ⟨rfl, ?_⟩
  apply List.map_congr_left
  intro n hn
  rw [Proofs.Seq.stepMod_last, Proofs.Seq.terminal_contains g n hn]
  rfl

example : ([(0, "X"), (1, "Y"), (0, "Z")].foldl (applyModification (terminalNodes
      ⟨[⟨0, "A", none, some 0, []⟩, ⟨1, "A", none, some 0, []⟩, ⟨2, "B", none, some 1, []⟩], [⟨0, 1, []⟩, ⟨1, 2, []⟩]⟩))
      ⟨[⟨0, "A", none, some 0, []⟩, ⟨1, "A", none, some 0, []⟩, ⟨2, "B", none, some 1, []⟩], [⟨0, 1, []⟩, ⟨1, 2, []⟩]⟩).nodes
    = [⟨0, "Z", none, some 0, []⟩, ⟨1, "A", none, some 0, []⟩, ⟨2, "Y", none, some 1, []⟩] := by decide

/-- One label `s:attr:value` of `_tag_nodes` on ANY graph with distinct node keys, block `s` not empty: the edges
are untouched and the label is set on exactly the nodes whose seqid is `s` (all their other attributes, and every
other node, unchanged).  (For an empty block the code labels EVERY node — `if not nodes` — see
notes/C12_findings.md; the model mirrors that, `applyTag`.) -/
theorem C12_tag_frame (g : SGraph) (hk : (g.nodes.map (·.key)).Nodup) (s : Nat) (attr v : String)
    (probs : List (String × Bool)) (hp : pickCertain probs = some v) (hne : g.findSeqid s ≠ []) :
    applyTag g (s, attr, probs) =
      some ⟨g.nodes.map fun n => if n.seqid = some s then { n with tags := n.tags.set attr v } else n, g.edges⟩ := by
  rw [Proofs.Seq.applyTag_valid g hk s attr v probs hp hne]
  congr 2
  apply List.map_congr_left
  intro n _
  unfold Proofs.Seq.stepTag
  by_cases h : n.seqid = some s <;> simp [h]

example : applyTag ⟨[⟨0, "A", none, some 0, []⟩, ⟨1, "B", none, some 1, []⟩], [⟨0, 1, []⟩]⟩ (1, "chiral", [("R", true)])
    = some ⟨[⟨0, "A", none, some 0, []⟩, ⟨1, "B", none, some 1, [("chiral", "R")]⟩], [⟨0, 1, []⟩]⟩ := by decide

end PolyplyVerif.C12
