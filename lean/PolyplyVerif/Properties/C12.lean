/-
C12 — Sequence inputs produce exactly the specified residue graph.
-/
import PolyplyVerif.Generated.Tables
import PolyplyVerif.Model.Seq
import PolyplyVerif.Proofs.Seq

namespace PolyplyVerif.C12
open PolyplyVerif PolyplyVerif.Seq

/-- every code of the specification is answered by the repository's table, and there are no others -/
def sameTable (repo std : List (String × String)) : Bool :=
  repo.length == std.length && (repo.map (·.1)).Nodup && std.all fun kv => (repo.find? fun e => e.1 == kv.1).map (·.2) == some kv.2

theorem C12_tables :
    sameTable Tabs.repo.dna Tabs.standard.dna = true ∧ sameTable Tabs.repo.rna Tabs.standard.rna = true ∧
    sameTable Tabs.repo.aa Tabs.standard.aa = true := by
  decide

end PolyplyVerif.C12
