/-
C20 — outputs appear only after success and never clobber existing files.

  "If gen_params, gen_coords or gen_seq fails at any stage before writing, no output file is created,
   truncated or modified.  When gen_params or gen_coords succeed the complete file is in place and a file
   previously at that path is kept under a GROMACS-style backup name."
  Quantifier: an exception raised at every stage boundary of the three programs.

Property theorems only; the model is `Model/Output.lean` (filesystem = finite map, deferred writer = queue
of (temporary file, final name), programs = stage lists, crash point = index into the list), helper lemmas
are in `Proofs/Output.lean`.  Every theorem holds for every stage list / crash index / pre-existing
directory content (`st.fs` is arbitrary); the stage lists of the three programs are tied to the real
functions by the fault-injection correspondence of `harness/c20.py`.

The ORDER of the stage lists and "nothing follows the flush" are additionally proved against the call
sequence of the current source (`Generated/OutputTables.lean`, translator `harness/tables/output.py`):
`C20_source_gen_params`, `C20_source_gen_coords`, `C20_source_gen_seq` (`decide` over the generated tables).

Partial (outside the model): atomicity of `shutil.move`; reuse of the singleton writer by a later run of
the same process after a failed run (`C20_success` asks for an empty queue at the start, `C20_no_partial`
does not).
-/
import PolyplyVerif.Generated.OutputTables
import PolyplyVerif.Model.Output
import PolyplyVerif.Proofs.Output

namespace PolyplyVerif.C20
open PolyplyVerif.Output PolyplyVerif.Proofs.Output

/-- General form: whatever the stage list, the crash index, the directory content and the state of the
writer's queue — as long as the stages that ran before the crash did not flush the writer and did not
open the output directly, the filesystem restricted to non-temporary paths is unchanged. -/
theorem C20_no_partial (stages : List Stage) (k : Nat) (st : St)
    (h : ∀ s ∈ stages.take k, s.deferredOnly = true) :
    SpecUnchanged st.fs (crashRun stages k st).fs := by
  intro p hp
  exact run_deferred_user (stages.take k) st h p hp

example : SpecUnchanged [(.file "out.itp", "old")]
    (crashRun (genParamsStages false false "out.itp" ["a", "b"]) 10 ⟨[(.file "out.itp", "old")], [], 0⟩).fs ∧
    look (crashRun (genParamsStages false false "out.itp" ["a", "b"]) 10 ⟨[(.file "out.itp", "old")], [], 0⟩).fs
      (.tmp 0) = some "a" := by
  constructor
  · exact (specUnchangedB_iff _ _).mp (by decide)
  · decide

/-- A program whose stages up to a flush only compute or write through the deferred writer: a crash at any
index up to and including the flush itself leaves every non-temporary path as it was. -/
theorem C20_no_partial_before_flush (pre post : List Stage) (l : String) (k : Nat) (st : St)
    (hpre : ∀ s ∈ pre, s.deferredOnly = true) (hk : k ≤ pre.length) :
    SpecUnchanged st.fs (crashRun (pre ++ .flush l :: post) k st).fs := by
  apply C20_no_partial
  intro s hs
  rw [List.take_append_of_le_length hk] at hs
  exact hpre s (List.mem_of_mem_take hs)

/-- `gen_params`: every crash index before the end of the flush (k < number of stages). -/
theorem C20_no_partial_gen_params (seqFile dsdna : Bool) (out : String) (chunks : List String) (k : Nat) (st : St)
    (hk : k < (genParamsStages seqFile dsdna out chunks).length) :
    SpecUnchanged st.fs (crashRun (genParamsStages seqFile dsdna out chunks) k st).fs := by
  unfold genParamsStages at hk ⊢
  apply C20_no_partial_before_flush _ [] _ k st
  · intro s hs
    simp only [List.mem_append] at hs
    rcases hs with (hs | hs) | hs
    · exact onlyOut_deferredOnly out s (onlyOut_computes out _ s hs)
    · simp at hs; rcases hs with rfl | rfl <;> rfl
    · exact onlyOut_deferredOnly out s (onlyOut_chunks _ out chunks s hs)
  · simp only [List.length_append, List.length_cons, List.length_nil] at hk ⊢
    omega

example : 10 < (genParamsStages false false "out.itp" ["a", "b"]).length := by decide

/-- `gen_coords`: every crash index before the end of the flush. -/
theorem C20_no_partial_gen_coords (split coord build skipFilter : Bool) (out : String) (chunks : List String)
    (k : Nat) (st : St) (hk : k < (genCoordsStages split coord build skipFilter out chunks).length) :
    SpecUnchanged st.fs (crashRun (genCoordsStages split coord build skipFilter out chunks) k st).fs := by
  unfold genCoordsStages at hk ⊢
  apply C20_no_partial_before_flush _ [] _ k st
  · intro s hs
    simp only [List.mem_append] at hs
    rcases hs with (hs | hs) | hs
    · exact onlyOut_deferredOnly out s (onlyOut_computes out _ s hs)
    · simp at hs; subst hs; rfl
    · exact onlyOut_deferredOnly out s (onlyOut_chunks _ out chunks s hs)
  · simp only [List.length_append, List.length_cons, List.length_nil] at hk ⊢
    omega

example : 15 < (genCoordsStages false false false false "out.gro" ["a"]).length := by decide

/-- `gen_seq` (no deferred writer): a crash at any stage up to and including the builtin `open` leaves the
whole state — directory, temporary files, queue — exactly as it was. -/
theorem C20_no_partial_gen_seq (fromFile mods : Bool) (out : String) (chunks : List String) (k : Nat) (st : St)
    (hk : k + 2 + chunks.length ≤ (genSeqStages fromFile mods out chunks).length) :
    crashRun (genSeqStages fromFile mods out chunks) k st = st := by
  unfold genSeqStages at hk ⊢
  unfold crashRun
  apply run_pure
  intro s hs
  have hk' : k ≤ (computes ((if fromFile then ["load_ff_library", "MacroFile"] else [])
      ++ ["MacroString", "generate_seq_graph", "_apply_termini_modifications"]
      ++ (if mods then ["_find_terminal_nodes"] else []) ++ ["_tag_nodes", "node_link_data"])).length := by
    simp only [List.length_append, List.length_cons, List.length_nil, List.length_map] at hk ⊢
    omega
  rw [List.append_assoc, List.take_append_of_le_length hk'] at hs
  exact pure_computes _ s (List.mem_of_mem_take hs)

example : 5 + 2 + ["x"].length ≤ (genSeqStages false false "s.json" ["x"]).length := by decide

/-- General form of the success clause: a program that computes, opens `out` through the deferred writer
(possibly several times: re-opening truncates), writes to it, and finally flushes — started with an empty
writer queue on ANY directory content — ends with `out` holding exactly what was written since the last
open, the previous file (if there was one) under the first free `#out.k#`, every other non-temporary path
untouched, the queue empty and the temporary file gone. -/
theorem C20_success (pre : List Stage) (l out content : String) (st : St) (hq : st.queue = [])
    (hpre : ∀ s ∈ pre, s.onlyOut out = true) (hp : pending out pre none = some content) :
    SpecSuccess st.fs (run (pre ++ [.flush l]) st).fs out content ∧
    (run (pre ++ [.flush l]) st).queue = [] ∧
    ∃ t, look (run pre st).fs (.tmp t) = some content ∧ look (run (pre ++ [.flush l]) st).fs (.tmp t) = none :=
  success_core pre l out content st hq hpre hp

/-- `gen_params` on success: the file is complete (all chunks, in order), the old file is backed up. -/
theorem C20_success_gen_params (seqFile dsdna : Bool) (out : String) (chunks : List String) (st : St)
    (hq : st.queue = []) :
    SpecSuccess st.fs (run (genParamsStages seqFile dsdna out chunks) st).fs out (chunks.foldl (· ++ ·) "") := by
  unfold genParamsStages
  refine (C20_success _ _ out _ st hq ?_ ?_).1
  · intro s hs
    simp only [List.mem_append] at hs
    rcases hs with (hs | hs) | hs
    · exact onlyOut_computes out _ s hs
    · simp at hs; rcases hs with rfl | rfl <;> simp [Stage.onlyOut]
    · exact onlyOut_chunks _ out chunks s hs
  · rw [pending_append, pending_append, pending_computes]
    simp [pending, pending_chunks]

/-- `gen_coords` on success. -/
theorem C20_success_gen_coords (split coord build skipFilter : Bool) (out : String) (chunks : List String) (st : St)
    (hq : st.queue = []) :
    SpecSuccess st.fs (run (genCoordsStages split coord build skipFilter out chunks) st).fs out
      (chunks.foldl (· ++ ·) "") := by
  unfold genCoordsStages
  refine (C20_success _ _ out _ st hq ?_ ?_).1
  · intro s hs
    simp only [List.mem_append] at hs
    rcases hs with (hs | hs) | hs
    · exact onlyOut_computes out _ s hs
    · simp at hs; subst hs; simp [Stage.onlyOut]
    · exact onlyOut_chunks _ out chunks s hs
  · rw [pending_append, pending_append, pending_computes]
    simp [pending, pending_chunks]

/-- non-vacuity: an existing `out.gro` with `#out.gro.1#` taken and `#out.gro.2#` free -/
example :
    let fs : FS := [(.file "out.gro", "old"), (.backup "out.gro" 1, "older"), (.file "x.top", "t")]
    let fs' := (run (genCoordsStages false false false false "out.gro" ["new1", "new2"]) ⟨fs, [], 0⟩).fs
    look fs' (.file "out.gro") = some "new1new2" ∧ look fs' (.backup "out.gro" 2) = some "old" ∧
    look fs' (.backup "out.gro" 1) = some "older" ∧ look fs' (.file "x.top") = some "t" ∧
    look fs' (.tmp 0) = none := by
  decide

/-! ### the stage lists against the call sequence of the source AS IT IS NOW

`OutputTables.gen…Calls` is regenerated from `/repo` on every run (`harness/tables/output.py`, `ast` only):
every call of the three function bodies in source order, private helpers expanded in place.  The
theorems below are `decide` over these finite tables, so they are re-proved against the current source;
a stage moved behind the flush, or a new stage inserted after it, breaks them. -/

/-- **`gen_params`: same order as the source, and nothing follows the flush.**  For every option variant
the labels of the stage list that are calls of `gen_itp.py` occur in the source in the order of the list
(`deferred_open` before `write_molecule_itp` before `DeferredFileWriter.write`, every computing stage
before them); the flush is called, and every call after it is benign (printing the log entries).
(`decide` on the two maximal variants; every variant is a sublist of one of them.) -/
theorem C20_source_gen_params :
    (∀ seqFile dsdna : Bool,
      orderConsistent (stageLabels (genParamsStages seqFile dsdna "o" ["c"])) OutputTables.genParamsCalls = true) ∧
    (findCall OutputTables.genParamsCalls "deferred_open").isSome = true ∧
    quietAfter OutputTables.genParamsCalls "DeferredFileWriter.write" = true := by
  refine ⟨?_, by decide +kernel, by decide +kernel⟩
  have hmax : ∀ seqFile : Bool,
      orderConsistent (stageLabels (genParamsStages seqFile true "o" ["c"])) OutputTables.genParamsCalls = true := by
    decide +kernel
  intro seqFile dsdna
  have hsub : (stageLabels (genParamsStages seqFile dsdna "o" ["c"])).Sublist
      (stageLabels (genParamsStages seqFile true "o" ["c"])) := by
    revert seqFile dsdna; decide
  exact orderedFrom_sublist _ hsub 0 (hmax seqFile)

/-- **`gen_coords`: same order as the source, and the flush is the last call of the program.** -/
theorem C20_source_gen_coords :
    (∀ split coord build skipFilter : Bool,
      orderConsistent (stageLabels (genCoordsStages split coord build skipFilter "o" ["c"]))
        OutputTables.genCoordsCalls = true) ∧
    (findCall OutputTables.genCoordsCalls "write_gro").isSome = true ∧
    quietAfter OutputTables.genCoordsCalls "DeferredFileWriter.write" = true := by
  refine ⟨?_, by decide +kernel, by decide +kernel⟩
  have hmax : orderConsistent (stageLabels (genCoordsStages true true true true "o" ["c"]))
      OutputTables.genCoordsCalls = true := by decide +kernel
  intro split coord build skipFilter
  have hsub : (stageLabels (genCoordsStages split coord build skipFilter "o" ["c"])).Sublist
      (stageLabels (genCoordsStages true true true true "o" ["c"])) := by
    revert split coord build skipFilter; decide
  exact orderedFrom_sublist _ hsub 0 hmax

/-- **`gen_seq`: same order as the source; builtin `open` precedes `json.dump`, nothing follows it.** -/
theorem C20_source_gen_seq :
    (∀ fromFile mods : Bool,
      orderConsistent (stageLabels (genSeqStages fromFile mods "o" ["c"])) OutputTables.genSeqCalls = true) ∧
    (findCall OutputTables.genSeqCalls "open").isSome = true ∧
    quietAfter OutputTables.genSeqCalls "json.dump" = true := by
  refine ⟨?_, by decide +kernel, by decide +kernel⟩
  have hmax : orderConsistent (stageLabels (genSeqStages true true "o" ["c"])) OutputTables.genSeqCalls = true := by
    decide +kernel
  intro fromFile mods
  have hsub : (stageLabels (genSeqStages fromFile mods "o" ["c"])).Sublist
      (stageLabels (genSeqStages true true "o" ["c"])) := by
    revert fromFile mods; decide
  exact orderedFrom_sublist _ hsub 0 hmax

/-- what `orderConsistent` means: of two labels of the list that both occur in the source, the earlier
one of the list is called first — for every table and every list. -/
theorem C20_order_sound (calls : List CallRow) (labels : List String) (lo : Nat)
    (h : orderedFrom calls lo labels = true) :
    ∀ (a b : Nat) (la lb : String) (ia ib : Nat), a < b → labels[a]? = some la → labels[b]? = some lb →
      findCall calls la = some ia → findCall calls lb = some ib → lo ≤ ia ∧ ia < ib :=
  orderedFrom_sound calls labels lo h

/-- non-vacuity on a literal table (the examples must not pin positions of the generated tables: those move
with every harmless edit of the source): labels found in increasing positions; a list in the wrong order is
rejected; a stage after the flush is rejected; the unnamed calls are listed -/
def exCalls : List CallRow :=
  [(0, "LOGGER.info", true, ["LOGGER.info", "info"]),
   (0, "Topology.from_gmx_topfile", false, ["Topology.from_gmx_topfile", "from_gmx_topfile"]),
   (0, "?.split_residue", false, ["?.split_residue"]),
   (0, "np.loadtxt", false, ["np.loadtxt", "loadtxt"]),
   (0, "BuildSystem", false, ["BuildSystem"]),
   (0, "BuildSystem.run_system", false, ["BuildSystem.run_system", "run_system"]),
   (0, "vermouth.gmx.gro.write_gro", false, ["vermouth.gmx.gro.write_gro", "gmx.gro.write_gro", "gro.write_gro", "write_gro"]),
   (0, "DeferredFileWriter.write", false, ["DeferredFileWriter.write", "write"]),
   (0, "print", true, ["print"])]

example : ["Topology.from_gmx_topfile", "MetaMolecule.split_residue", "load_build_files", "BuildSystem.run_system",
      "write_gro", "DeferredFileWriter.write"].filterMap (findCall exCalls) = [1, 2, 5, 6, 7] ∧
    orderConsistent ["Topology.from_gmx_topfile", "MetaMolecule.split_residue", "load_build_files",
      "BuildSystem.run_system", "write_gro", "DeferredFileWriter.write"] exCalls = true ∧
    orderConsistent ["DeferredFileWriter.write", "write_gro"] exCalls = false ∧
    quietAfter exCalls "DeferredFileWriter.write" = true ∧
    quietAfter (exCalls ++ [(0, "postprocess", false, ["postprocess"])]) "DeferredFileWriter.write" = false ∧
    unnamedCalls ["Topology.from_gmx_topfile", "MetaMolecule.split_residue", "BuildSystem.run_system", "write_gro",
      "DeferredFileWriter.write"] exCalls = ["np.loadtxt", "BuildSystem"] := by
  decide +kernel

/-- The executable oracles used on real directory listings decide exactly the two specifications. -/
theorem C20_oracle_unchanged (fs fs' : FS) : specUnchangedB fs fs' = true ↔ SpecUnchanged fs fs' :=
  specUnchangedB_iff fs fs'

theorem C20_oracle_success (fs fs' : FS) (out content : String) :
    specSuccessB fs fs' out content = true ↔ SpecSuccess fs fs' out content :=
  specSuccessB_iff fs fs' out content

example : specSuccessB [(.file "o", "old")] [(.file "o", "new"), (.backup "o" 1, "old")] "o" "new" = true ∧
    specSuccessB [(.file "o", "old")] [(.file "o", "new")] "o" "new" = false ∧
    specSuccessB [(.file "o", "old"), (.backup "o" 1, "x")] [(.file "o", "new"), (.backup "o" 1, "old")] "o" "new" = false := by
  decide

/-- The backup index is the first free one: at least 1, free, and every smaller index is taken. -/
theorem C20_backup_least_free (fs : FS) (name : String) :
    1 ≤ findFree fs name ∧ look fs (.backup name (findFree fs name)) = none ∧
    ∀ j, 1 ≤ j → j < findFree fs name → look fs (.backup name j) ≠ none :=
  findFree_spec fs name

example : findFree [(.backup "o" 1, "a"), (.backup "o" 2, "b"), (.backup "o" 4, "c")] "o" = 3 := by decide

/-! ### histories of successful runs -/
/-- one successful run keeps every user-visible content: what was stored at a non-temporary path before
is still stored at a non-temporary path afterwards (the same one, or the backup name for the replaced file) -/
theorem C20_success_keeps (fs fs' : FS) (out content : String) (h : SpecSuccess fs fs' out content)
    (p : Path) (v : String) (hp : p.user = true) (hv : look fs p = some v) :
    ∃ q : Path, q.user = true ∧ look fs' q = some v := by
  obtain ⟨_, h2⟩ := h
  cases hold : look fs (.file out) with
  | none =>
    rw [hold] at h2
    by_cases hpo : p = .file out
    · subst hpo; rw [hold] at hv; cases hv
    · exact ⟨p, hp, (h2 p hp hpo).trans hv⟩
  | some old =>
    rw [hold] at h2
    obtain ⟨k, _, hfree, _, hbk, hrest⟩ := h2
    by_cases hpo : p = .file out
    · subst hpo
      rw [hold] at hv
      cases hv
      exact ⟨.backup out k, rfl, hbk⟩
    · by_cases hpb : p = .backup out k
      · subst hpb; rw [hfree] at hv; cases hv
      · exact ⟨p, hp, (hrest p hp hpo hpb).trans hv⟩

/-- any number of successful runs, to any output names, one after the other -/
inductive SuccessHistory : FS → FS → Prop
  | nil (fs : FS) : SuccessHistory fs fs
  | snoc {fs mid fs' : FS} (out content : String) :
      SuccessHistory fs mid → SpecSuccess mid fs' out content → SuccessHistory fs fs'

/-- **C20_history_keeps** — "never clobber" over every history: after any sequence of successful runs
(same or different output names, any contents) every content a user had in the directory at the start is
still there under a non-temporary name. -/
theorem C20_history_keeps {fs fs' : FS} (h : SuccessHistory fs fs') (p : Path) (v : String)
    (hp : p.user = true) (hv : look fs p = some v) :
    ∃ q : Path, q.user = true ∧ look fs' q = some v := by
  induction h with
  | nil => exact ⟨p, hp, hv⟩
  | snoc out content _ hs ih =>
    obtain ⟨q, hq, hqv⟩ := ih
    exact C20_success_keeps _ _ out content hs q v hq hqv

/-- non-vacuity: two successive writes of "o" over an existing file: both older contents are kept -/
example : SuccessHistory [(.file "o", "v0")]
    [(.file "o", "v2"), (.backup "o" 2, "v1"), (.backup "o" 1, "v0")] := by
  refine .snoc "o" "v2" (.snoc "o" "v1" (.nil _) (fs' := [(.file "o", "v1"), (.backup "o" 1, "v0")]) ?_) ?_
  · exact (C20_oracle_success _ _ _ _).mp (by decide)
  · exact (C20_oracle_success _ _ _ _).mp (by decide)

end PolyplyVerif.C20
