/-
C20 — outputs appear only after success and never clobber existing files.

  "If gen_params, gen_coords or gen_seq fails at any stage before writing, no output file is created,
   truncated or modified.  When gen_params or gen_coords succeed the complete file is in place and a file
   previously at that path is kept under a GROMACS-style backup name."
  Quantifier: an exception raised at every stage boundary of the three programs.

Property theorems only; the model is `Model/Output.lean` (filesystem = finite map, deferred writer = queue
of (temporary file, final name), programs = stage lists, crash point = index into the list), helper lemmas
are in `Proofs/Output.lean`.  Every theorem holds for every stage list / crash index / pre-existing
directory content (`st.fs` is arbitrary); the stage lists of the three programs are tied to the real
functions by the fault-injection correspondence of `harness/c20.py`.

Partial (outside the model): atomicity of `shutil.move`; reuse of the singleton writer by a later run of
the same process after a failed run (`C20_success` asks for an empty queue at the start, `C20_no_partial`
does not).
-/
import PolyplyVerif.Model.Output
import PolyplyVerif.Proofs.Output

namespace PolyplyVerif.C20
open PolyplyVerif.Output PolyplyVerif.Proofs.Output

/-- General form: whatever the stage list, the crash index, the directory content and the state of the
writer's queue — as long as the stages that ran before the crash did not flush the writer and did not
open the output directly, the filesystem restricted to non-temporary paths is unchanged. -/
theorem C20_no_partial (stages : List Stage) (k : Nat) (st : St)
    (h : ∀ s ∈ stages.take k, s.deferredOnly = true) :
    SpecUnchanged st.fs (crashRun stages k st).fs := by
  intro p hp
  exact run_deferred_user (stages.take k) st h p hp

example : SpecUnchanged [(.file "out.itp", "old")]
    (crashRun (genParamsStages false false "out.itp" ["a", "b"]) 10 ⟨[(.file "out.itp", "old")], [], 0⟩).fs ∧
    look (crashRun (genParamsStages false false "out.itp" ["a", "b"]) 10 ⟨[(.file "out.itp", "old")], [], 0⟩).fs
      (.tmp 0) = some "a" := by
  constructor
  · exact (specUnchangedB_iff _ _).mp (by decide)
  · decide

/-- A program whose stages up to a flush only compute or write through the deferred writer: a crash at any
index up to and including the flush itself leaves every non-temporary path as it was. -/
theorem C20_no_partial_before_flush (pre post : List Stage) (l : String) (k : Nat) (st : St)
    (hpre : ∀ s ∈ pre, s.deferredOnly = true) (hk : k ≤ pre.length) :
    SpecUnchanged st.fs (crashRun (pre ++ .flush l :: post) k st).fs := by
  apply C20_no_partial
  intro s hs
  rw [List.take_append_of_le_length hk] at hs
  exact hpre s (List.mem_of_mem_take hs)

/-- `gen_params`: every crash index before the end of the flush (k < number of stages). -/
theorem C20_no_partial_gen_params (seqFile dsdna : Bool) (out : String) (chunks : List String) (k : Nat) (st : St)
    (hk : k < (genParamsStages seqFile dsdna out chunks).length) :
    SpecUnchanged st.fs (crashRun (genParamsStages seqFile dsdna out chunks) k st).fs := by
  unfold genParamsStages at hk ⊢
  apply C20_no_partial_before_flush _ [] _ k st
  · intro s hs
    simp only [List.mem_append] at hs
    rcases hs with (hs | hs) | hs
    · exact onlyOut_deferredOnly out s (onlyOut_computes out _ s hs)
    · simp at hs; rcases hs with rfl | rfl <;> rfl
    · exact onlyOut_deferredOnly out s (onlyOut_chunks _ out chunks s hs)
  · simp only [List.length_append, List.length_cons, List.length_nil] at hk ⊢
    omega

example : 10 < (genParamsStages false false "out.itp" ["a", "b"]).length := by decide

/-- `gen_coords`: every crash index before the end of the flush. -/
theorem C20_no_partial_gen_coords (split coord build skipFilter : Bool) (out : String) (chunks : List String)
    (k : Nat) (st : St) (hk : k < (genCoordsStages split coord build skipFilter out chunks).length) :
    SpecUnchanged st.fs (crashRun (genCoordsStages split coord build skipFilter out chunks) k st).fs := by
  unfold genCoordsStages at hk ⊢
  apply C20_no_partial_before_flush _ [] _ k st
  · intro s hs
    simp only [List.mem_append] at hs
    rcases hs with (hs | hs) | hs
    · exact onlyOut_deferredOnly out s (onlyOut_computes out _ s hs)
    · simp at hs; subst hs; rfl
    · exact onlyOut_deferredOnly out s (onlyOut_chunks _ out chunks s hs)
  · simp only [List.length_append, List.length_cons, List.length_nil] at hk ⊢
    omega

example : 15 < (genCoordsStages false false false false "out.gro" ["a"]).length := by decide

/-- `gen_seq` (no deferred writer): a crash at any stage up to and including the builtin `open` leaves the
whole state — directory, temporary files, queue — exactly as it was. -/
theorem C20_no_partial_gen_seq (fromFile mods : Bool) (out : String) (chunks : List String) (k : Nat) (st : St)
    (hk : k + 2 + chunks.length ≤ (genSeqStages fromFile mods out chunks).length) :
    crashRun (genSeqStages fromFile mods out chunks) k st = st := by
  unfold genSeqStages at hk ⊢
  unfold crashRun
  apply run_pure
  intro s hs
  have hk' : k ≤ (computes ((if fromFile then ["load_ff_library", "MacroFile"] else [])
      ++ ["MacroString", "generate_seq_graph", "_apply_termini_modifications"]
      ++ (if mods then ["_find_terminal_nodes"] else []) ++ ["_tag_nodes", "node_link_data"])).length := by
    simp only [List.length_append, List.length_cons, List.length_nil, List.length_map] at hk ⊢
    omega
  rw [List.append_assoc, List.take_append_of_le_length hk'] at hs
  exact pure_computes _ s (List.mem_of_mem_take hs)

example : 5 + 2 + ["x"].length ≤ (genSeqStages false false "s.json" ["x"]).length := by decide

/-- General form of the success clause: a program that computes, opens `out` through the deferred writer
(possibly several times: re-opening truncates), writes to it, and finally flushes — started with an empty
writer queue on ANY directory content — ends with `out` holding exactly what was written since the last
open, the previous file (if there was one) under the first free `#out.k#`, every other non-temporary path
untouched, the queue empty and the temporary file gone. -/
theorem C20_success (pre : List Stage) (l out content : String) (st : St) (hq : st.queue = [])
    (hpre : ∀ s ∈ pre, s.onlyOut out = true) (hp : pending out pre none = some content) :
    SpecSuccess st.fs (run (pre ++ [.flush l]) st).fs out content ∧
    (run (pre ++ [.flush l]) st).queue = [] ∧
    ∃ t, look (run pre st).fs (.tmp t) = some content ∧ look (run (pre ++ [.flush l]) st).fs (.tmp t) = none :=
  success_core pre l out content st hq hpre hp

/-- `gen_params` on success: the file is complete (all chunks, in order), the old file is backed up. -/
theorem C20_success_gen_params (seqFile dsdna : Bool) (out : String) (chunks : List String) (st : St)
    (hq : st.queue = []) :
    SpecSuccess st.fs (run (genParamsStages seqFile dsdna out chunks) st).fs out (chunks.foldl (· ++ ·) "") := by
  unfold genParamsStages
  refine (C20_success _ _ out _ st hq ?_ ?_).1
  · intro s hs
    simp only [List.mem_append] at hs
    rcases hs with (hs | hs) | hs
    · exact onlyOut_computes out _ s hs
    · simp at hs; rcases hs with rfl | rfl <;> simp [Stage.onlyOut]
    · exact onlyOut_chunks _ out chunks s hs
  · rw [pending_append, pending_append, pending_computes]
    simp [pending, pending_chunks]

/-- `gen_coords` on success. -/
theorem C20_success_gen_coords (split coord build skipFilter : Bool) (out : String) (chunks : List String) (st : St)
    (hq : st.queue = []) :
    SpecSuccess st.fs (run (genCoordsStages split coord build skipFilter out chunks) st).fs out
      (chunks.foldl (· ++ ·) "") := by
  unfold genCoordsStages
  refine (C20_success _ _ out _ st hq ?_ ?_).1
  · intro s hs
    simp only [List.mem_append] at hs
    rcases hs with (hs | hs) | hs
    · exact onlyOut_computes out _ s hs
    · simp at hs; subst hs; simp [Stage.onlyOut]
    · exact onlyOut_chunks _ out chunks s hs
  · rw [pending_append, pending_append, pending_computes]
    simp [pending, pending_chunks]

/-- non-vacuity: an existing `out.gro` with `#out.gro.1#` taken and `#out.gro.2#` free -/
example :
    let fs : FS := [(.file "out.gro", "old"), (.backup "out.gro" 1, "older"), (.file "x.top", "t")]
    let fs' := (run (genCoordsStages false false false false "out.gro" ["new1", "new2"]) ⟨fs, [], 0⟩).fs
    look fs' (.file "out.gro") = some "new1new2" ∧ look fs' (.backup "out.gro" 2) = some "old" ∧
    look fs' (.backup "out.gro" 1) = some "older" ∧ look fs' (.file "x.top") = some "t" ∧
    look fs' (.tmp 0) = none := by
  decide

/-- The executable oracles used on real directory listings decide exactly the two specifications. -/
theorem C20_oracle_unchanged (fs fs' : FS) : specUnchangedB fs fs' = true ↔ SpecUnchanged fs fs' :=
  specUnchangedB_iff fs fs'

theorem C20_oracle_success (fs fs' : FS) (out content : String) :
    specSuccessB fs fs' out content = true ↔ SpecSuccess fs fs' out content :=
  specSuccessB_iff fs fs' out content

example : specSuccessB [(.file "o", "old")] [(.file "o", "new"), (.backup "o" 1, "old")] "o" "new" = true ∧
    specSuccessB [(.file "o", "old")] [(.file "o", "new")] "o" "new" = false ∧
    specSuccessB [(.file "o", "old"), (.backup "o" 1, "x")] [(.file "o", "new"), (.backup "o" 1, "old")] "o" "new" = false := by
  decide

/-- The backup index is the first free one: at least 1, free, and every smaller index is taken. -/
theorem C20_backup_least_free (fs : FS) (name : String) :
    1 ≤ findFree fs name ∧ look fs (.backup name (findFree fs name)) = none ∧
    ∀ j, 1 ≤ j → j < findFree fs name → look fs (.backup name j) ≠ none :=
  findFree_spec fs name

example : findFree [(.backup "o" 1, "a"), (.backup "o" 2, "b"), (.backup "o" 4, "c")] "o" = 3 := by decide

end PolyplyVerif.C20
