/-
C11 — Generated .itp files are written and re-read to the same molecule.

Statement (properties.jsonl): "gen_params writes its output file for every input that passes mapping
and link application, and that file, read back by polyply's own topology reader, yields the same atoms
(name, type, residue, charge, mass) and the same interactions with parameters and #ifdef/#ifndef guards
as the molecule that was built. When no link is missing, the residue graph recovered from the file is
isomorphic to the requested one with equal residue names and ids, so gen_coords can consume what
gen_params produced."

Property theorems only (helper lemmas: Proofs/ItpIO.lean; model: Model/ItpIO.lean, token level — the
vermouth writer/reader are MODELLED and tied to the installed code by the correspondence streams of
harness/c11.py on every run).  Each theorem is followed by a non-vacuity `example`.
-/
import PolyplyVerif.Model.ItpIO
import PolyplyVerif.Proofs.ItpIO

namespace PolyplyVerif.C11
open PolyplyVerif.ItpIO

/-- a small molecule used by the non-vacuity examples: two residues, node keys that are not 0..n-1, an
`atomid` on one atom, a guarded bond, an improper, a virtual site, an exclusion, a link bond -/
def exMol : Mol :=
  { nrexcl := 1,
    atoms := [⟨10, none, "A1", "P1", 1, "RA", 1, some "0.0", some "72.0"⟩,
              ⟨11, none, "A2", "C1", 1, "RA", 1, some "0.5", none⟩,
              ⟨14, none, "B1", "Qd", 2, "RB", 2, none, none⟩,
              ⟨12, some 0, "B2", "Qd", 2, "RB", 2, some "-1", some "36"⟩],
    sections := [("bonds", [⟨[11, 10], ["1", "0.3", "5000"], some "FLEX", none, none, some "intra"⟩,
                            ⟨[11, 14], ["1", "0.4", "7000"], none, none, some "link", none⟩]),
                 ("constraints", [⟨[10, 11], ["1", "0.3"], none, some "FLEX", none, none⟩]),
                 ("impropers", [⟨[14, 12, 11, 10], ["2", "0", "50"], none, none, none, none⟩]),
                 ("virtual_sitesn", [⟨[12, 10, 11], ["1"], none, none, none, none⟩]),
                 ("exclusions", [⟨[10, 14, 12], [], none, none, none, none⟩]),
                 ("angles", [])] }

/-- **Round trip.**  For every well-formed molecule (`WF`: at least one atom, distinct node keys, no
mass without a charge, distinct section names, interactions refer to existing atoms, at most one of
`ifdef`/`ifndef`, and the number of atoms / parameters each section's line format can carry), every
header and molecule name: the writer succeeds, the reader accepts what was written, and the block it
returns has the molecule's name and `nrexcl`, exactly the atoms of the molecule in written order
(name, type, resid, resname, charge group, charge, mass; keyed 0..n-1) and, under every file section,
exactly the multiset of the molecule's interactions (atoms renumbered and put in the writer's canonical
order, parameters, guard).  Induction over atoms, sections, groups and interactions; no size bound. -/
theorem C11_roundtrip (header : List String) (moltype : Tok) (m : Mol) (hwf : WF m) :
    ∃ lines b, writeItp header moltype m = .ok lines ∧ readItp lines = .ok b ∧
      b.name = moltype ∧ b.nrexcl = m.nrexcl ∧ b.atoms = canonAtoms m ∧
      ∀ s, (b.ixnsOf s).Perm (canonIxns m s) :=
  Proofs.ItpIO.roundtrip header moltype m hwf

example : WF exMol := Proofs.ItpIO.wfB_sound exMol (by decide)

/-- **Round trip through the topology reader.**  What `Topology.from_gmx_topfile` hands to the itp
reader for a file `gen_params` wrote (comment and empty lines dropped, in-line comments stripped, only
sections `TOPDirector` registers) is read to the same result as the file itself: the statement of
`C11_roundtrip` holds verbatim for `readViaTop`. -/
theorem C11_roundtrip_top (header : List String) (moltype : Tok) (m : Mol) (hwf : WF m) :
    ∃ lines b, writeItp header moltype m = .ok lines ∧ readViaTop lines = .ok b ∧
      b.name = moltype ∧ b.nrexcl = m.nrexcl ∧ b.atoms = canonAtoms m ∧
      ∀ s, (b.ixnsOf s).Perm (canonIxns m s) := by
  obtain ⟨lines, b, hw, hr, h⟩ := Proofs.ItpIO.roundtrip header moltype m hwf
  exact ⟨lines, b, hw, (Proofs.ItpIO.writeItp_top header moltype m hwf lines hw).trans hr, h⟩

example : WF exMol := Proofs.ItpIO.wfB_sound exMol (by decide)

/-- **The same molecule, as the property states it.**  `plainIxns` are the molecule's interactions with
node keys replaced by positions and nothing re-ordered.  The re-read interactions of every file section
are that multiset up to the section's own symmetry (`symmetryOf`: bonds/pairs unordered, angles,
dihedrals and angle/dihedral restraints up to reversal, every other section positional) with equal
parameters and equal guard; atoms are equal.  Needs `zOrdered`: the writer reverses an
`angle_restraints_z i j` with i after j, which is not a symmetry of that interaction (the excluded
point is a real-code finding, notes/C11_findings.md, shape angle-restraints-z-reversed). -/
theorem C11_roundtrip_spec (header : List String) (moltype : Tok) (m : Mol) (hwf : WF m)
    (hz : zOrdered m = true) :
    ∃ lines b, writeItp header moltype m = .ok lines ∧ readItp lines = .ok b ∧
      b.atoms = canonAtoms m ∧ ∀ s, SameUpTo (sameIxn s) (plainIxns m s) (b.ixnsOf s) :=
  Proofs.ItpIO.roundtrip_spec header moltype m hwf hz

example : WF exMol ∧ zOrdered exMol = true := ⟨Proofs.ItpIO.wfB_sound exMol (by decide), by decide⟩

/-- The executable oracle the harness evaluates on the real readers' output is sound for that
statement: whenever `sameMolecule m b` answers `true`, the atoms are the molecule's atoms and every
populated file section holds the molecule's interactions up to the section's symmetry. -/
theorem C11_oracle_sound (m : Mol) (b : Block) (h : sameMolecule m b = true) :
    b.atoms = canonAtoms m ∧
    ∀ s ∈ canonSectionNames m, SameUpTo (sameIxn s) (plainIxns m s) (b.ixnsOf s) := by
  unfold sameMolecule at h
  simp only [Bool.and_eq_true, beq_iff_eq, List.all_eq_true] at h
  exact ⟨h.1.1, fun s hs => Proofs.ItpIO.matchUpTo_sound _ _ _ (h.1.2 s hs)⟩

example : sameMolecule (⟨1, [⟨7, none, "A1", "P1", 1, "RA", 1, some "0.0", none⟩],
      [("position_restraints", [⟨[7], ["1", "1000"], some "POSRES", none, none, none⟩])]⟩ : Mol)
    ⟨"x", 1, [⟨0, "A1", "P1", 1, "RA", 1, some "0.0", none⟩],
      [("position_restraints", [⟨[0], ["1", "1000"], .ifdef "POSRES"⟩])]⟩ = true := by
  simp [sameMolecule, canonAtoms, sortedNodes, canonAtomsFrom, canonSectionNames, firstOcc, headerName,
    plainIxns, plainIxn, posOf, posWhere, Block.ixnsOf, matchUpTo, eraseRel, sameIxn, sameAtoms,
    Ixn.guard]
  decide

/-- **Residue graph.**  Let `G` be the requested residue graph (nodes `(resid, resname)` with distinct
resids, edges as resid pairs, no loops) and view the built molecule as a block (`canonBlock`: atoms
numbered by position).  If its residues are exactly the nodes of `G`, every edge of `G` is realised by
a bond or constraint between atoms of the two residues ("no link is missing" in the sense the file can
express), and every bond/constraint between different residues joins neighbours of `G`, then the file
is written, it is read back, and the residue graph rebuilt from the re-read block
(`_make_edges` + `make_residue_graph`) is isomorphic to `G` through `resid`, with equal residue names.
The two edge hypotheses are necessary: each fails on shipped libraries (notes/C11_findings.md, shapes
edge-without-bond and residue-with-two-resnames) and there the real recovered graph differs. -/
theorem C11_resgraph_iso (header : List String) (moltype : Tok) (m : Mol) (hwf : WF m) (G : ReqGraph)
    (hGn : (G.nodes.map (·.1)).Nodup)
    (hres : ∀ p, p ∈ (canonBlock moltype m).atoms.map (fun a => (a.resid, a.resname)) ↔ p ∈ G.nodes)
    (hloop : ∀ e ∈ G.edges, e.1 ≠ e.2)
    (H1 : ∀ e ∈ G.edges, ∃ ae ∈ atomEdges (canonBlock moltype m), ∃ r1 r2,
        resOfKey (canonBlock moltype m) ae.1 = some r1 ∧ resOfKey (canonBlock moltype m) ae.2 = some r2 ∧
        ((r1.1 = e.1 ∧ r2.1 = e.2) ∨ (r1.1 = e.2 ∧ r2.1 = e.1)))
    (H2 : ∀ ae ∈ atomEdges (canonBlock moltype m), ∀ r1 r2,
        resOfKey (canonBlock moltype m) ae.1 = some r1 → resOfKey (canonBlock moltype m) ae.2 = some r2 →
        r1 ≠ r2 → G.adj r1.1 r2.1) :
    ∃ lines b, writeItp header moltype m = .ok lines ∧ readItp lines = .ok b ∧ readViaTop lines = .ok b ∧
      IsoByResid (resGraphOf b) G := by
  obtain ⟨lines, b, hw, hr, _, _, hat, hix⟩ := Proofs.ItpIO.roundtrip header moltype m hwf
  refine ⟨lines, b, hw, hr, (Proofs.ItpIO.writeItp_top header moltype m hwf lines hw).trans hr, ?_⟩
  exact Proofs.ItpIO.resgraph_iso_transfer (canonBlock moltype m) b G (by rw [hat]; rfl)
    (fun s => by rw [Proofs.ItpIO.ixnsOf_canonBlock]; exact hix s) hGn hres hloop H1 H2

/-- the isomorphism statement for an arbitrary block, e.g. one read from a file polyply did not write -/
theorem C11_resgraph_iso_block (b : Block) (G : ReqGraph)
    (hGn : (G.nodes.map (·.1)).Nodup)
    (hres : ∀ p, p ∈ b.atoms.map (fun a => (a.resid, a.resname)) ↔ p ∈ G.nodes)
    (hloop : ∀ e ∈ G.edges, e.1 ≠ e.2)
    (H1 : ∀ e ∈ G.edges, ∃ ae ∈ atomEdges b, ∃ r1 r2, resOfKey b ae.1 = some r1 ∧ resOfKey b ae.2 = some r2 ∧
        ((r1.1 = e.1 ∧ r2.1 = e.2) ∨ (r1.1 = e.2 ∧ r2.1 = e.1)))
    (H2 : ∀ ae ∈ atomEdges b, ∀ r1 r2, resOfKey b ae.1 = some r1 → resOfKey b ae.2 = some r2 → r1 ≠ r2 →
        G.adj r1.1 r2.1) :
    IsoByResid (resGraphOf b) G :=
  Proofs.ItpIO.resgraph_iso_of_block b G hGn hres hloop H1 H2

/-- non-vacuity: two residues joined by one constraint, requested as the path 1 - 2 -/
def exBlock : Block :=
  { name := "x", nrexcl := 1,
    atoms := [⟨0, "A1", "P1", 1, "RA", 1, none, none⟩, ⟨1, "A2", "P1", 1, "RA", 1, none, none⟩,
              ⟨2, "B1", "P1", 2, "RB", 2, none, none⟩],
    sections := [("bonds", [⟨[0, 1], ["1"], .none⟩]), ("constraints", [⟨[1, 2], ["1"], .none⟩])] }

example : IsoByResid (resGraphOf exBlock) { nodes := [(1, "RA"), (2, "RB")], edges := [(2, 1)] } := by
  apply C11_resgraph_iso_block
  · decide
  · intro p; simp [exBlock]
  · decide
  · intro e he
    simp only [List.mem_singleton] at he
    subst he
    exact ⟨(1, 2), by decide, (1, "RA"), (2, "RB"), by decide, by decide, Or.inr ⟨rfl, rfl⟩⟩
  · intro ae hae r1 r2 h1 h2 hne
    have hae' : ae = (0, 1) ∨ ae = (1, 2) := by
      have : atomEdges exBlock = [(0, 1), (1, 2)] := by decide
      rw [this] at hae; simpa using hae
    rcases hae' with rfl | rfl
    · have e1 : resOfKey exBlock 0 = some (1, "RA") := by decide
      have e2 : resOfKey exBlock 1 = some (1, "RA") := by decide
      simp only at h1 h2
      rw [e1] at h1; rw [e2] at h2
      cases h1; cases h2
      exact absurd rfl hne
    · have e1 : resOfKey exBlock 1 = some (1, "RA") := by decide
      have e2 : resOfKey exBlock 2 = some (2, "RB") := by decide
      simp only at h1 h2
      rw [e1] at h1; rw [e2] at h2
      cases h1; cases h2
      exact Or.inr (by decide)

/-- **Written.**  `gen_params` from the end of link application on (`genParamsTail`: citation header,
writer, flush of the deferred file): for every well-formed molecule, every set of citation keys and
every citation map — keys the map does not define are skipped, which is what the repaired code does —
provided the formatter does not raise on the entries that are looked up, the run succeeds, `out` holds
the written lines, no other path changes, and those lines read back (directly and through the topology
reader) to the molecule. -/
theorem C11_written (fs : FS) (out argv : String) (moltype : Tok) (m : Mol) (citations : List String)
    (cmap : List (String × String)) (fmt : String → Except String String) (hwf : WF m)
    (hfmt : ∀ c ∈ citations, ∀ p, cmap.find? (fun q => q.1 == c) = some p → ∃ s, fmt p.2 = .ok s) :
    ∃ fs' lines b, genParamsTail fs out argv moltype m citations cmap fmt = .ok fs' ∧
      FS.get fs' out = some lines ∧ (∀ p, p ≠ out → FS.get fs' p = FS.get fs p) ∧
      readItp lines = .ok b ∧ readViaTop lines = .ok b ∧
      b.atoms = canonAtoms m ∧ ∀ s, (b.ixnsOf s).Perm (canonIxns m s) := by
  obtain ⟨cites, hc⟩ := Proofs.ItpIO.citeLines_total cmap fmt citations hfmt
  obtain ⟨body, b, hw, hr, _, _, hat, hix⟩ := Proofs.ItpIO.roundtrip [] moltype m hwf
  have htop := Proofs.ItpIO.writeItp_top [] moltype m hwf body hw
  have hskip := Proofs.ItpIO.genHeader_skip argv cites
  have hbody : ∃ rest, body = Line.header "moleculetype" :: rest ∧ ∀ l ∈ rest, Proofs.ItpIO.lineTopOk l = true :=
    Proofs.ItpIO.writeItp_nohdr_shape moltype m hwf body hw
  obtain ⟨rest, hb, hrest⟩ := hbody
  refine ⟨(out, genParamsHeaderLines argv cites ++ body) :: fs.filter (fun p => p.1 != out),
    genParamsHeaderLines argv cites ++ body, b, ?_, Proofs.ItpIO.FS.get_update_same _ _ _,
    fun p hp => Proofs.ItpIO.FS.get_update_other _ _ _ p hp, ?_, ?_, hat, hix⟩
  · unfold genParamsTail writeGenParams
    simp [hc, hw]
  · rw [Proofs.ItpIO.readItp_skip_prefix _ _ hskip]; exact hr
  · rw [hb, Proofs.ItpIO.readViaTop_eq _ _ hskip hrest, ← hb,
      Proofs.ItpIO.readItp_skip_prefix _ _ hskip]
    exact hr

example : ∃ s, (fun (e : String) => (Except.ok e : Except String String)) "Kroon 2024" = .ok s := ⟨_, rfl⟩

end PolyplyVerif.C11
