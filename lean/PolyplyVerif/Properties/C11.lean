/-
C11 — Generated .itp files are written and re-read to the same molecule.

Statement (properties.jsonl): "gen_params writes its output file for every input that passes mapping
and link application, and that file, read back by polyply's own topology reader, yields the same atoms
(name, type, residue, charge, mass) and the same interactions with parameters and #ifdef/#ifndef guards
as the molecule that was built. When no link is missing, the residue graph recovered from the file is
isomorphic to the requested one with equal residue names and ids, so gen_coords can consume what
gen_params produced."

Property theorems only (helper lemmas: Proofs/ItpIO.lean, Proofs/C11Lex.lean; model: Model/ItpIO.lean, token
level, and Model/C11Lex.lean, character level — the vermouth writer/reader are MODELLED and tied to the
installed code by the correspondence streams of harness/c11.py on every run).  Each theorem is followed by
a non-vacuity `example`.
-/
import PolyplyVerif.Model.ItpIO
import PolyplyVerif.Model.C11Lex
import PolyplyVerif.Proofs.ItpIO
import PolyplyVerif.Proofs.C11Lex
import PolyplyVerif.Proofs.ComposeMapItp

namespace PolyplyVerif.C11
open PolyplyVerif.ItpIO

/-- a small molecule used by the non-vacuity examples: two residues, node keys that are not 0..n-1, an
`atomid` on one atom, a guarded bond, an improper, a virtual site, an exclusion, a link bond -/
def exMol : Mol :=
  { nrexcl := 1,
    atoms := [⟨10, none, "A1", "P1", 1, "RA", 1, some "0.0", some "72.0"⟩,
              ⟨11, none, "A2", "C1", 1, "RA", 1, some "0.5", none⟩,
              ⟨14, none, "B1", "Qd", 2, "RB", 2, none, none⟩,
              ⟨12, some 0, "B2", "Qd", 2, "RB", 2, some "-1", some "36"⟩],
    sections := [("bonds", [⟨[11, 10], ["1", "0.3", "5000"], some "FLEX", none, none, some "intra"⟩,
                            ⟨[11, 14], ["1", "0.4", "7000"], none, none, some "link", none⟩]),
                 ("constraints", [⟨[10, 11], ["1", "0.3"], none, some "FLEX", none, none⟩]),
                 ("impropers", [⟨[14, 12, 11, 10], ["2", "0", "50"], none, none, none, none⟩]),
                 ("virtual_sitesn", [⟨[12, 10, 11], ["1"], none, none, none, none⟩]),
                 ("exclusions", [⟨[10, 14, 12], [], none, none, none, none⟩]),
                 ("angles", [])] }

/-- **Round trip.**  For every well-formed molecule (`WF`: at least one atom, distinct node keys, no
mass without a charge, distinct section names, interactions refer to existing atoms, at most one of
`ifdef`/`ifndef`, and the number of atoms / parameters each section's line format can carry), every
header and molecule name: the writer succeeds, the reader accepts what was written, and the block it
returns has the molecule's name and `nrexcl`, exactly the atoms of the molecule in written order
(name, type, resid, resname, charge group, charge, mass; keyed 0..n-1) and, under every file section,
exactly the multiset of the molecule's interactions (atoms renumbered and put in the writer's canonical
order, parameters, guard).  Induction over atoms, sections, groups and interactions; no size bound. -/
theorem C11_roundtrip (header : List String) (moltype : Tok) (m : Mol) (hwf : WF m) :
    ∃ lines b, writeItp header moltype m = .ok lines ∧ readItp lines = .ok b ∧
      b.name = moltype ∧ b.nrexcl = m.nrexcl ∧ b.atoms = canonAtoms m ∧
      ∀ s, (b.ixnsOf s).Perm (canonIxns m s) :=
  Proofs.ItpIO.roundtrip header moltype m hwf

example : WF exMol := Proofs.ItpIO.wfB_sound exMol (by decide)

/-- **Round trip through the topology reader.**  What `Topology.from_gmx_topfile` hands to the itp
reader for a file `gen_params` wrote (comment and empty lines dropped, in-line comments stripped, only
sections `TOPDirector` registers) is read to the same result as the file itself: the statement of
`C11_roundtrip` holds verbatim for `readViaTop`. -/
theorem C11_roundtrip_top (header : List String) (moltype : Tok) (m : Mol) (hwf : WF m) :
    ∃ lines b, writeItp header moltype m = .ok lines ∧ readViaTop lines = .ok b ∧
      b.name = moltype ∧ b.nrexcl = m.nrexcl ∧ b.atoms = canonAtoms m ∧
      ∀ s, (b.ixnsOf s).Perm (canonIxns m s) := by
  obtain ⟨lines, b, hw, hr, h⟩ := Proofs.ItpIO.roundtrip header moltype m hwf
  exact ⟨lines, b, hw, (Proofs.ItpIO.writeItp_top header moltype m hwf lines hw).trans hr, h⟩

example : WF exMol := Proofs.ItpIO.wfB_sound exMol (by decide)

/-- **The same molecule, as the property states it.**  `plainIxns` are the molecule's interactions with
node keys replaced by positions and nothing re-ordered.  The re-read interactions of every file section
are that multiset up to the section's own symmetry (`symmetryOf`: bonds/pairs unordered, angles,
dihedrals and angle/dihedral restraints up to reversal, every other section positional) with equal
parameters and equal guard; atoms are equal.  Needs `zOrdered`: the writer reverses an
`angle_restraints_z i j` with i after j, which is not a symmetry of that interaction (the excluded
point is a real-code finding, notes/C11_findings.md, shape angle-restraints-z-reversed). -/
theorem C11_roundtrip_spec (header : List String) (moltype : Tok) (m : Mol) (hwf : WF m)
    (hz : zOrdered m = true) :
    ∃ lines b, writeItp header moltype m = .ok lines ∧ readItp lines = .ok b ∧
      b.atoms = canonAtoms m ∧ ∀ s, SameUpTo (sameIxn s) (plainIxns m s) (b.ixnsOf s) :=
  Proofs.ItpIO.roundtrip_spec header moltype m hwf hz

example : WF exMol ∧ zOrdered exMol = true := ⟨Proofs.ItpIO.wfB_sound exMol (by decide), by decide⟩

/-- The executable oracle the harness evaluates on the real readers' output is sound for that
statement: whenever `sameMolecule m b` answers `true`, the atoms are the molecule's atoms and every
populated file section holds the molecule's interactions up to the section's symmetry. -/
theorem C11_oracle_sound (m : Mol) (b : Block) (h : sameMolecule m b = true) :
    b.atoms = canonAtoms m ∧
    ∀ s ∈ canonSectionNames m, SameUpTo (sameIxn s) (plainIxns m s) (b.ixnsOf s) := by
  unfold sameMolecule at h
  simp only [Bool.and_eq_true, beq_iff_eq, List.all_eq_true] at h
  exact ⟨h.1.1, fun s hs => Proofs.ItpIO.matchUpTo_sound _ _ _ (h.1.2 s hs)⟩

example : sameMolecule (⟨1, [⟨7, none, "A1", "P1", 1, "RA", 1, some "0.0", none⟩],
      [("position_restraints", [⟨[7], ["1", "1000"], some "POSRES", none, none, none⟩])]⟩ : Mol)
    ⟨"x", 1, [⟨0, "A1", "P1", 1, "RA", 1, some "0.0", none⟩],
      [("position_restraints", [⟨[0], ["1", "1000"], .ifdef "POSRES"⟩])]⟩ = true := by
  simp [sameMolecule, canonAtoms, sortedNodes, canonAtomsFrom, canonSectionNames, firstOcc, headerName,
    plainIxns, plainIxn, posOf, posWhere, Block.ixnsOf, matchUpTo, eraseRel, sameIxn, sameAtoms,
    Ixn.guard]
  decide

/-- **Residue graph.**  Let `G` be the requested residue graph (nodes `(resid, resname)` with distinct
resids, edges as resid pairs, no loops) and view the built molecule as a block (`canonBlock`: atoms
numbered by position).  If its residues are exactly the nodes of `G`, every edge of `G` is realised by
a bond or constraint between atoms of the two residues ("no link is missing" in the sense the file can
express), and every bond/constraint between different residues joins neighbours of `G`, then the file
is written, it is read back, and the residue graph rebuilt from the re-read block
(`_make_edges` + `make_residue_graph`) is isomorphic to `G` through `resid`, with equal residue names.
The two edge hypotheses are necessary: each fails on shipped libraries (notes/C11_findings.md, shapes
edge-without-bond and residue-with-two-resnames) and there the real recovered graph differs. -/
theorem C11_resgraph_iso (header : List String) (moltype : Tok) (m : Mol) (hwf : WF m) (G : ReqGraph)
    (hGn : (G.nodes.map (·.1)).Nodup)
    (hres : ∀ p, p ∈ (canonBlock moltype m).atoms.map (fun a => (a.resid, a.resname)) ↔ p ∈ G.nodes)
    (hloop : ∀ e ∈ G.edges, e.1 ≠ e.2)
    (H1 : ∀ e ∈ G.edges, ∃ ae ∈ atomEdges (canonBlock moltype m), ∃ r1 r2,
        resOfKey (canonBlock moltype m) ae.1 = some r1 ∧ resOfKey (canonBlock moltype m) ae.2 = some r2 ∧
        ((r1.1 = e.1 ∧ r2.1 = e.2) ∨ (r1.1 = e.2 ∧ r2.1 = e.1)))
    (H2 : ∀ ae ∈ atomEdges (canonBlock moltype m), ∀ r1 r2,
        resOfKey (canonBlock moltype m) ae.1 = some r1 → resOfKey (canonBlock moltype m) ae.2 = some r2 →
        r1 ≠ r2 → G.adj r1.1 r2.1) :
    ∃ lines b, writeItp header moltype m = .ok lines ∧ readItp lines = .ok b ∧ readViaTop lines = .ok b ∧
      IsoByResid (resGraphOf b) G := by
  obtain ⟨lines, b, hw, hr, _, _, hat, hix⟩ := Proofs.ItpIO.roundtrip header moltype m hwf
  refine ⟨lines, b, hw, hr, (Proofs.ItpIO.writeItp_top header moltype m hwf lines hw).trans hr, ?_⟩
  exact Proofs.ItpIO.resgraph_iso_transfer (canonBlock moltype m) b G (by rw [hat]; rfl)
    (fun s => by rw [Proofs.ItpIO.ixnsOf_canonBlock]; exact hix s) hGn hres hloop H1 H2

/-- the isomorphism statement for an arbitrary block, e.g. one read from a file polyply did not write -/
theorem C11_resgraph_iso_block (b : Block) (G : ReqGraph)
    (hGn : (G.nodes.map (·.1)).Nodup)
    (hres : ∀ p, p ∈ b.atoms.map (fun a => (a.resid, a.resname)) ↔ p ∈ G.nodes)
    (hloop : ∀ e ∈ G.edges, e.1 ≠ e.2)
    (H1 : ∀ e ∈ G.edges, ∃ ae ∈ atomEdges b, ∃ r1 r2, resOfKey b ae.1 = some r1 ∧ resOfKey b ae.2 = some r2 ∧
        ((r1.1 = e.1 ∧ r2.1 = e.2) ∨ (r1.1 = e.2 ∧ r2.1 = e.1)))
    (H2 : ∀ ae ∈ atomEdges b, ∀ r1 r2, resOfKey b ae.1 = some r1 → resOfKey b ae.2 = some r2 → r1 ≠ r2 →
        G.adj r1.1 r2.1) :
    IsoByResid (resGraphOf b) G :=
  Proofs.ItpIO.resgraph_iso_of_block b G hGn hres hloop H1 H2

/-- non-vacuity: two residues joined by one constraint, requested as the path 1 - 2 -/
def exBlock : Block :=
  { name := "x", nrexcl := 1,
    atoms := [⟨0, "A1", "P1", 1, "RA", 1, none, none⟩, ⟨1, "A2", "P1", 1, "RA", 1, none, none⟩,
              ⟨2, "B1", "P1", 2, "RB", 2, none, none⟩],
    sections := [("bonds", [⟨[0, 1], ["1"], .none⟩]), ("constraints", [⟨[1, 2], ["1"], .none⟩])] }

example : IsoByResid (resGraphOf exBlock) { nodes := [(1, "RA"), (2, "RB")], edges := [(2, 1)] } := by
  apply C11_resgraph_iso_block
  · decide
  · intro p; simp [exBlock]
  · decide
  · intro e he
    simp only [List.mem_singleton] at he
    subst he
    exact ⟨(1, 2), by decide, (1, "RA"), (2, "RB"), by decide, by decide, Or.inr ⟨rfl, rfl⟩⟩
  · intro ae hae r1 r2 h1 h2 hne
    have hae' : ae = (0, 1) ∨ ae = (1, 2) := by
      have : atomEdges exBlock = [(0, 1), (1, 2)] := by decide
      rw [this] at hae; simpa using hae
    rcases hae' with rfl | rfl
    · have e1 : resOfKey exBlock 0 = some (1, "RA") := by decide
      have e2 : resOfKey exBlock 1 = some (1, "RA") := by decide
      simp only at h1 h2
      rw [e1] at h1; rw [e2] at h2
      cases h1; cases h2
      exact absurd rfl hne
    · have e1 : resOfKey exBlock 1 = some (1, "RA") := by decide
      have e2 : resOfKey exBlock 2 = some (2, "RB") := by decide
      simp only at h1 h2
      rw [e1] at h1; rw [e2] at h2
      cases h1; cases h2
      exact Or.inr (by decide)

/-- **Written.**  `gen_params` from the end of link application on (`genParamsTail`: citation header,
writer, flush of the deferred file): for every well-formed molecule, every set of citation keys and
every citation map — keys the map does not define are skipped, which is what the repaired code does —
provided the formatter does not raise on the entries that are looked up, the run succeeds, `out` holds
the written lines, no other path changes, and those lines read back (directly and through the topology
reader) to the molecule. -/
theorem C11_written (fs : FS) (out argv : String) (moltype : Tok) (m : Mol) (citations : List String)
    (cmap : List (String × String)) (fmt : String → Except String String) (hwf : WF m)
    (hfmt : ∀ c ∈ citations, ∀ p, cmap.find? (fun q => q.1 == c) = some p → ∃ s, fmt p.2 = .ok s) :
    ∃ fs' lines b, genParamsTail fs out argv moltype m citations cmap fmt = .ok fs' ∧
      FS.get fs' out = some lines ∧ (∀ p, p ≠ out → FS.get fs' p = FS.get fs p) ∧
      readItp lines = .ok b ∧ readViaTop lines = .ok b ∧
      b.atoms = canonAtoms m ∧ ∀ s, (b.ixnsOf s).Perm (canonIxns m s) := by
  obtain ⟨cites, hc⟩ := Proofs.ItpIO.citeLines_total cmap fmt citations hfmt
  obtain ⟨body, b, hw, hr, _, _, hat, hix⟩ := Proofs.ItpIO.roundtrip [] moltype m hwf
  have htop := Proofs.ItpIO.writeItp_top [] moltype m hwf body hw
  have hskip := Proofs.ItpIO.genHeader_skip argv cites
  have hbody : ∃ rest, body = Line.header "moleculetype" :: rest ∧ ∀ l ∈ rest, Proofs.ItpIO.lineTopOk l = true :=
    Proofs.ItpIO.writeItp_nohdr_shape moltype m hwf body hw
  obtain ⟨rest, hb, hrest⟩ := hbody
  refine ⟨(out, genParamsHeaderLines argv cites ++ body) :: fs.filter (fun p => p.1 != out),
    genParamsHeaderLines argv cites ++ body, b, ?_, Proofs.ItpIO.FS.get_update_same _ _ _,
    fun p hp => Proofs.ItpIO.FS.get_update_other _ _ _ p hp, ?_, ?_, hat, hix⟩
  · unfold genParamsTail writeGenParams
    simp [hc, hw]
  · rw [Proofs.ItpIO.readItp_skip_prefix _ _ hskip]; exact hr
  · rw [hb, Proofs.ItpIO.readViaTop_eq _ _ hskip hrest, ← hb,
      Proofs.ItpIO.readItp_skip_prefix _ _ hskip]
    exact hr

example : ∃ s, (fun (e : String) => (Except.ok e : Except String String)) "Kroon 2024" = .ok s := ⟨_, rfl⟩

/-! ### the character level (Model/C11Lex.lean) -/

open PolyplyVerif.C11Lex in
/-- **Lexing what was rendered gives the tokens back.**  `writeItpText` is the file `write_molecule_itp`
produces character by character (column padding of the `[ atoms ]` table, right-aligned atom indices,
`' '.join`, trailing blanks for absent charge/mass and for parameterless interactions, ` ; comment`);
`lexLine` is the lexer of the readers (`split_comments`, `strip`, dispatch on `[`…`]` / `#`, `split()`).  For
every molecule whose strings are tokens (`tokensOk`: molecule name, atom type, residue and atom name,
charge/mass when present, parameters and guard tags are non-empty and free of whitespace and `;`, the
molecule name does not start with `[` or `#`) and whose non-empty sections have a header the lexer gives
back (`headersOk`; implied by `WF`), whenever the token writer produces `lines` the text writer produces a
text, and lexing it line by line yields exactly `lines` — with the comment texts stripped (`normLine`), which
is all a comment loses.  Any widths, any number of atoms / sections / interactions. -/
theorem C11_lex_render (header : List String) (moltype : Tok) (m : Mol) (lines : List Line)
    (hw : writeItp header moltype m = .ok lines) (htok : tokensOk moltype m = true) (hhdr : headersOk m = true) :
    ∃ text, writeItpText header moltype m = .ok text ∧ lexText text = lines.map normLine :=
  Proofs.C11Lex.lex_writeItpText header moltype m lines hw htok hhdr

open PolyplyVerif.C11Lex in
/-- non-vacuity: `exMol` meets the hypotheses (the writer succeeds on it by `C11_roundtrip`, `WF exMol` above) -/
example : tokensOk "mol" exMol = true ∧ headersOk exMol = true ∧ (∃ lines, writeItp ["h"] "mol" exMol = .ok lines) := by
  refine ⟨by decide, by decide, ?_⟩
  obtain ⟨lines, _, hw, _⟩ := C11_roundtrip ["h"] "mol" exMol (Proofs.ItpIO.wfB_sound exMol (by decide))
  exact ⟨lines, hw⟩

/-- a one-atom molecule whose text the kernel can evaluate (`List.mergeSort` on two or more elements does not
reduce by `decide`): a position restraint under `#ifdef`, with a group name and a comment -/
def exTextMol : Mol :=
  { nrexcl := 3,
    atoms := [⟨7, none, "A1", "P1", 12, "RA", 1, some "0.0", none⟩],
    sections := [("position_restraints", [⟨[7], ["1", "1000"], some "POSRES", none, some "restraints", some " keep; it "⟩])] }

open PolyplyVerif.C11Lex in
example :
    (match writeItp ["made by  a test "] "mol" exTextMol, writeItpText ["made by  a test "] "mol" exTextMol with
     | .ok lines, .ok text =>
       decide (lexText text = lines.map normLine) &&
       decide (text = ["; made by  a test ".toList, [], "[ moleculetype ]".toList, "mol 3".toList, [], "[ atoms ]".toList,
                       "1 P1 12 RA A1 1 0.0 ".toList, [], "[ position_restraints ]".toList, "#ifdef POSRES".toList,
                       "; restraints".toList, "1 1 1000 ;  keep; it ".toList, "#endif".toList, []]) &&
       decide (lexText text = [.comment "made by  a test", .blank, .header "moleculetype", .data ["mol", "3"] none, .blank,
                       .header "atoms", .data ["1", "P1", "12", "RA", "A1", "1", "0.0"] none, .blank,
                       .header "position_restraints", .pragma ["#ifdef", "POSRES"], .comment "restraints",
                       .data ["1", "1", "1000"] (some "keep; it"), .pragma ["#endif"], .blank])
     | _, _ => false) = true := by
  decide +kernel

open PolyplyVerif.C11Lex in
/-- **Round trip on characters.**  For every well-formed molecule whose strings are tokens: the text is
written, and reading that TEXT — lexed by the readers' own lexer — with `read_itp` and through the topology
reader returns the block of `C11_roundtrip`: the molecule's name and `nrexcl`, its atoms in written order
and, per section, the multiset of its interactions (atoms, parameters, guard).  The same holds for the file
as `gen_params` writes it (command line and citations in the header). -/
theorem C11_roundtrip_text (header : List String) (moltype : Tok) (m : Mol) (hwf : WF m)
    (htok : tokensOk moltype m = true) :
    ∃ text b, writeItpText header moltype m = .ok text ∧ readItpText text = .ok b ∧ readViaTopText text = .ok b ∧
      b.name = moltype ∧ b.nrexcl = m.nrexcl ∧ b.atoms = canonAtoms m ∧
      ∀ s, (b.ixnsOf s).Perm (canonIxns m s) := by
  obtain ⟨lines, b, hw, hr, h⟩ := Proofs.ItpIO.roundtrip header moltype m hwf
  obtain ⟨text, ht, hl⟩ := Proofs.C11Lex.lex_writeItpText header moltype m lines hw htok
    (Proofs.C11Lex.headersOk_of_WF m hwf)
  refine ⟨text, b, ht, ?_, ?_, h⟩
  · unfold readItpText; rw [hl, Proofs.C11Lex.readItp_norm]; exact hr
  · unfold readViaTopText; rw [hl, Proofs.C11Lex.readViaTop_norm]
    exact (Proofs.ItpIO.writeItp_top header moltype m hwf lines hw).trans hr

open PolyplyVerif.C11Lex in
example : WF exMol ∧ tokensOk "mol" exMol = true := ⟨Proofs.ItpIO.wfB_sound exMol (by decide), by decide⟩

open PolyplyVerif.C11Lex in
/-- the same for the file `gen_params` writes (`writeGenParamsText`: `; argv`, empty line, the request to
cite, one comment line per citation) -/
theorem C11_roundtrip_text_gen_params (argv : String) (cites : List String) (moltype : Tok) (m : Mol) (hwf : WF m)
    (htok : tokensOk moltype m = true) :
    ∃ text b, writeGenParamsText argv cites moltype m = .ok text ∧ readItpText text = .ok b ∧
      b.name = moltype ∧ b.nrexcl = m.nrexcl ∧ b.atoms = canonAtoms m ∧
      ∀ s, (b.ixnsOf s).Perm (canonIxns m s) := by
  obtain ⟨body, b, hw, hr, h⟩ := Proofs.ItpIO.roundtrip [] moltype m hwf
  have hg : writeGenParams argv cites moltype m = .ok (genParamsHeaderLines argv cites ++ body) := by
    simp [writeGenParams, hw]
  obtain ⟨text, ht, hl⟩ := Proofs.C11Lex.lex_writeGenParamsText argv cites moltype m _ hg htok
    (Proofs.C11Lex.headersOk_of_WF m hwf)
  refine ⟨text, b, ht, ?_, h⟩
  unfold readItpText
  rw [hl, Proofs.C11Lex.readItp_norm, Proofs.ItpIO.readItp_skip_prefix _ _ (Proofs.ItpIO.genHeader_skip argv cites)]
  exact hr

open PolyplyVerif.C11Lex in
example : (match writeGenParamsText "polyply gen_params -seq RA:1 RB:1" ["Grunewald et al. 2022"] "mol" exTextMol with
    | .ok text => text.take 5 == ["; polyply gen_params -seq RA:1 RB:1".toList, [], "; Please cite the following papers:".toList,
                                  "; Grunewald et al. 2022".toList, []]
    | .error _ => false) = true := by decide +kernel

open PolyplyVerif.C11Lex in
/-- **Round trip on the file.**  The file is ONE character sequence: every line followed by `'\n'`
(`writeItpFile`); the readers cut it into lines again (`splitLines` = `readlines()`), lex every line and read
the token lines.  For every well-formed molecule whose strings are tokens and whose header lines, group names
and comments contain no line break, the block read back from the CHARACTERS of the file — directly and through
the topology reader — is the block of `C11_roundtrip`. -/
theorem C11_roundtrip_file (header : List String) (moltype : Tok) (m : Mol) (hwf : WF m)
    (htok : tokensOk moltype m = true) (hnl : noNewlines header m = true) :
    ∃ file b, writeItpFile header moltype m = .ok file ∧ readItpFile file = .ok b ∧ readViaTopFile file = .ok b ∧
      b.name = moltype ∧ b.nrexcl = m.nrexcl ∧ b.atoms = canonAtoms m ∧
      ∀ s, (b.ixnsOf s).Perm (canonIxns m s) := by
  obtain ⟨text, b, ht, hr, hrt, h⟩ := C11_roundtrip_text header moltype m hwf htok
  have hsplit : splitLines (joinLines text) = text :=
    Proofs.C11Lex.splitLines_joinLines text
      (Proofs.C11Lex.nonl_writeItpText header moltype m text ht htok (Proofs.C11Lex.headersOk_of_WF m hwf) hnl)
  refine ⟨joinLines text, b, by simp [writeItpFile, ht, Except.map], ?_, ?_, h⟩
  · unfold readItpFile; rw [hsplit]; exact hr
  · unfold readViaTopFile; rw [hsplit]; exact hrt

open PolyplyVerif.C11Lex in
example : WF exMol ∧ tokensOk "mol" exMol = true ∧ noNewlines ["polyply gen_params", "cite: X"] exMol = true :=
  ⟨Proofs.ItpIO.wfB_sound exMol (by decide), by decide, by decide⟩

open PolyplyVerif.C11Lex in
example : (match writeItpFile ["h"] "mol" exTextMol with
    | .ok file => decide (file = "; h\n\n[ moleculetype ]\nmol 3\n\n[ atoms ]\n1 P1 12 RA A1 1 0.0 \n\n[ position_restraints ]\n#ifdef POSRES\n; restraints\n1 1 1000 ;  keep; it \n#endif\n\n".toList) &&
        decide (lexText (splitLines file) = [.comment "h", .blank, .header "moleculetype", .data ["mol", "3"] none, .blank,
                       .header "atoms", .data ["1", "P1", "12", "RA", "A1", "1", "0.0"] none, .blank,
                       .header "position_restraints", .pragma ["#ifdef", "POSRES"], .comment "restraints",
                       .data ["1", "1", "1000"] (some "keep; it"), .pragma ["#endif"], .blank])
    | .error _ => false) = true := by decide +kernel

open PolyplyVerif.C11Lex PolyplyVerif.TopParse in
/-- **Blank lines, comment lines and padding are invisible.**  Inserting, anywhere in a file, a line that
consists of whitespace optionally followed by `;` and any text does not change what `read_itp` or the topology
reader return (block or error); and blanks/tabs before and after a line without `;` do not change what the
line is lexed to. -/
theorem C11_lex_ignores_blank_comment_padding :
    (∀ (pre post : List (List Char)) (ws cmt : List Char), (∀ c ∈ ws, isWs c = true) →
      readItpText (pre ++ ws :: post) = readItpText (pre ++ post) ∧
      readViaTopText (pre ++ ws :: post) = readViaTopText (pre ++ post) ∧
      readItpText (pre ++ (ws ++ ';' :: cmt) :: post) = readItpText (pre ++ post) ∧
      readViaTopText (pre ++ (ws ++ ';' :: cmt) :: post) = readViaTopText (pre ++ post)) ∧
    (∀ (ws l ws' : List Char), (∀ c ∈ ws, isWs c = true) → (∀ c ∈ ws', isWs c = true) → ';' ∉ l →
      lexLine (ws ++ l ++ ws') = lexLine l) := by
  refine ⟨?_, Proofs.C11Lex.lexLine_pad⟩
  intro pre post ws cmt h
  obtain ⟨h1, h2⟩ := Proofs.C11Lex.lexLine_skip ws cmt h
  obtain ⟨a1, a2⟩ := Proofs.C11Lex.read_insert_skip pre post ws h1
  obtain ⟨b1, b2⟩ := Proofs.C11Lex.read_insert_skip pre post (ws ++ ';' :: cmt) h2
  exact ⟨a1, a2, b1, b2⟩

open PolyplyVerif.C11Lex in
example : lexText ["  [ Bonds ] ; the bonds".toList, "".toList, " \t; only a comment".toList, "\t1  2 1   0.3\t5000 ; c".toList,
                   "#ifdef  FLEX".toList, "[ atoms".toList]
    = [.header "bonds", .blank, .comment "only a comment", .data ["1", "2", "1", "0.3", "5000"] (some "c"),
       .pragma ["#ifdef", "FLEX"], .bad "[ atoms"] := by decide

end PolyplyVerif.C11

/-! ## end-to-end composition (appended; helper lemmas and bridge functions: Proofs/ComposeMapItp.lean) -/

namespace PolyplyVerif.C11
open PolyplyVerif PolyplyVerif.ItpIO

/-! ### composition with the block layout (C11 ∘ C01) -/

/-- **C11_roundtrip_of_built.**  The molecule `add_blocks` builds satisfies the hypotheses of the itp round
trip.  Under the hypotheses of `C01_layout_partial` (residue ids a permutation of `start, start+1, …`,
`start ≥ 1`, every residue a regular node of a single-residue block) and `Compose.BlockOk` for every block
used (no `atomid` attribute, a mass only with a charge, interaction atoms inside the block, not both
`ifdef`/`ifndef`, the arity of the section's line format): `add_blocks` succeeds, what it builds IS
`MapToMol.specMol` (the re-indexed block copies, `C01_layout_partial` + `C01_interactions_partial`), its
image under the bridge `Compose.toItpMol` is `WF`, and writing it and reading the file back
(`C11_roundtrip`) gives the name, `nrexcl`, exactly the atoms of the block copies in node order keyed
`0..n-1`, and under every section exactly the multiset of the copies' interactions.  The bridge
(`Proofs/ComposeMapItp.lean`): `toItpAtom` / `toItpIxn` read the fields of an `[ atoms ]` line / the
writer's meta entries out of MapToMol's attribute dictionaries, `toItpMol` groups the interaction list by
section.  The round trip is on lexed lines: no hypothesis on token characters is needed (those enter
`C11_roundtrip_text` only). -/
theorem C11_roundtrip_of_built {κ : Type} [DecidableEq κ] (ff : MapToMol.FF) (t : MapToMol.Tables κ)
    (nodes : List (MapToMol.ResNode κ)) (start : Nat)
    (hne : nodes ≠ []) (hstart : 1 ≤ start)
    (hres : (nodes.map (·.resid)).Perm (List.range' start nodes.length))
    (hreg : ∀ n ∈ nodes, Proofs.MapToMol.RegularNode ff t n)
    (hok : ∀ n ∈ nodes, ∀ b, ff.block? n.resname = some b → Compose.BlockOk b)
    (header : List String) (moltype : Tok) (nrexcl : Nat) :
    ∃ st lines blk, MapToMol.addBlocks ff t nodes = .ok st ∧ st.mol = MapToMol.specMol ff nodes ∧
      WF (Compose.toItpMol nrexcl st.mol) ∧
      writeItp header moltype (Compose.toItpMol nrexcl st.mol) = .ok lines ∧ readItp lines = .ok blk ∧
      blk.name = moltype ∧ blk.nrexcl = nrexcl ∧
      blk.atoms = canonAtomsFrom 0 ((MapToMol.specMol ff nodes).atoms.map Compose.toItpAtom) ∧
      ∀ s, (blk.ixnsOf s).Perm (canonIxns (Compose.toItpMol nrexcl (MapToMol.specMol ff nodes)) s) :=
  Compose.roundtrip_of_built ff t nodes start hne hstart hres hreg hok header moltype nrexcl

open PolyplyVerif.Proofs.MapToMol.Example in
/-- Non-vacuity: the force field / residue list of the C01 examples (ALA, GLY, GLY inserted out of order,
resids 8/7/9) meets every hypothesis (`C01.Example.regular`, `C01.Example.resids`, `BlockOk` below); the
bridged specification molecule has the five atoms of GLY, ALA, GLY keyed 0..4, one `bonds` section with the
two shifted bonds, and passes the executable well-formedness check. -/
example :
    (∀ n ∈ nodes, ∀ b, ff.block? n.resname = some b → Compose.BlockOk b) ∧
    (∀ n ∈ nodes, Proofs.MapToMol.RegularNode ff tbl n) ∧
    (nodes.map (·.resid)).Perm (List.range' 7 nodes.length) ∧
    ((Compose.toItpMol 1 (MapToMol.specMol ff nodes)).atoms.map (fun a => (a.key, a.name, a.resid, a.resname, a.cgnr))) =
      [(0, "BB", 7, "GLY", 1), (1, "SC1", 7, "GLY", 2), (2, "BB", 8, "ALA", 3), (3, "BB", 9, "GLY", 4), (4, "SC1", 9, "GLY", 5)] ∧
    (Compose.toItpMol 1 (MapToMol.specMol ff nodes)).sections =
      [("bonds", [⟨[0, 1], ["1", "0.3", "5000"], none, none, none, none⟩, ⟨[3, 4], ["1", "0.3", "5000"], none, none, none, none⟩])] ∧
    wfB (Compose.toItpMol 1 (MapToMol.specMol ff nodes)) = true ∧
    ∃ st lines blk, MapToMol.addBlocks ff tbl nodes = .ok st ∧
      writeItp [] "MOL" (Compose.toItpMol 1 st.mol) = .ok lines ∧ readItp lines = .ok blk ∧
      blk.atoms = canonAtomsFrom 0 ((MapToMol.specMol ff nodes).atoms.map Compose.toItpAtom) := by
  have hgly : Compose.BlockOk gly := by
    refine ⟨?_, ?_, ?_, ?_, ?_⟩ <;> decide
  have hala : Compose.BlockOk ala := by
    refine ⟨?_, ?_, ?_, ?_, ?_⟩ <;> decide
  have hok : ∀ n ∈ nodes, ∀ b, ff.block? n.resname = some b → Compose.BlockOk b := by
    intro n hn b hb
    simp only [nodes, List.mem_cons, List.not_mem_nil, or_false] at hn
    rcases hn with rfl | rfl | rfl
    · have : ff.block? "ALA" = some ala := by decide
      rw [this] at hb; cases hb; exact hala
    · have : ff.block? "GLY" = some gly := by decide
      rw [this] at hb; cases hb; exact hgly
    · have : ff.block? "GLY" = some gly := by decide
      rw [this] at hb; cases hb; exact hgly
  refine ⟨hok, C01.Example.regular, C01.Example.resids, by decide, by decide, by decide, ?_⟩
  obtain ⟨st, lines, blk, h1, _, _, h2, h3, _, _, h4, _⟩ :=
    C11_roundtrip_of_built ff tbl nodes 7 (by decide) (by decide) C01.Example.resids C01.Example.regular hok [] "MOL" 1
  exact ⟨st, lines, blk, h1, h2, h3, h4⟩

end PolyplyVerif.C11
