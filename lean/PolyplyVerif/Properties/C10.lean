/-
C10 — every residue-graph edge is realised by a bond or reported as missing.

properties.jsonl: "After link application each pair of residues connected in the residue graph is
either joined by at least one atom-level edge between the two residues or reported in a missing-link
warning naming both residues - never both and never neither. gen_coords refuses to build a molecule
whose atoms are not all connected."

Model: `Model/C10Missing.lean` (`find_connecting_edges`, `find_missing_edges`, `_check_molecules`).
The first sentence is proved (`C10_exact`, `C10_missing_eq_spec`) under the invariant the pipeline
maintains — the fragment graph stored on a residue node is a subgraph of the molecule on that residue's
atoms and different residues own different atoms (the harness checks the invariant on the real objects
of every case).  The second sentence holds in one direction only: `_check_molecules` tests the
connectivity of the RESIDUE graph (`C10_gate`, with `C10_isConnected_iff` saying that the breadth-first
stand-in for `nx.is_connected` is graph connectivity); it refuses only molecules with disconnected
atoms (`C10_gate_sound`), but `C10_gate_atoms_counterexample` exhibits a molecule whose atoms are not
all connected and which is not refused (replayed on the real `gen_coords`, notes/C10_findings.md).
-/
import PolyplyVerif.Model.C10Missing
import PolyplyVerif.Proofs.C10Missing

namespace PolyplyVerif.C10
open PolyplyVerif PolyplyVerif.C10M

/-- **C10_exact.**  For two residues `A`, `B` owning different atoms, whose stored fragment graphs are
subgraphs of the molecule: the degree-difference filter followed by the edge lookup finds no connecting
edge **iff** no atom of `A` is adjacent to an atom of `B`.  So a residue-graph edge is reported missing
exactly when it is not realised — never both, never neither. -/
theorem C10_exact (inp : Input) (A B : RNode) (hM : Canon inp.medges)
    (hA : FragOK inp A) (hB : FragOK inp B) (hdisj : ∀ a ∈ A.frag, a ∉ B.frag) :
    (findConnectingEdges inp A B).isEmpty = true ↔
      ¬ ∃ a ∈ A.frag, ∃ b ∈ B.frag, hasEdge inp.medges a b = true := by
  rw [connecting_isEmpty_iff inp A B hM hA hB hdisj]
  unfold joined
  simp only [Bool.not_eq_true', Bool.eq_false_iff, ne_eq, List.any_eq_true]

/-- the filter lemma on its own: an inter-residue edge raises the molecule degree of both of its ends
above their fragment degree (so neither end is filtered away) -/
theorem C10_filter (inp : Input) (A : RNode) (hM : Canon inp.medges) (hA : FragOK inp A)
    (a b : Nat) (ha : a ∈ A.frag) (hb : b ∉ A.frag) (hab : hasEdge inp.medges a b = true) :
    degree A.fedges a < degree inp.medges a ∧ a ∈ allowed inp A :=
  ⟨degree_lt_of_cross inp A hM hA a b ha hb hab, mem_allowed_of_cross inp A hM hA a b ha hb hab⟩

/-- The list of warnings is the specification's list: one record per residue-graph edge whose residues
are not joined, in order, naming `(resname A, resid A, resname B, resid B)`. -/
theorem C10_missing_eq_spec (inp : Input) (hM : Canon inp.medges)
    (hF : ∀ nd ∈ inp.nodes, FragOK inp nd)
    (hdisj : ∀ e ∈ inp.redges, ∀ A B, inp.node? e.1 = some A → inp.node? e.2 = some B → ∀ a ∈ A.frag, a ∉ B.frag) :
    findMissingEdges inp = specMissing inp := by
  unfold findMissingEdges specMissing
  have hcongr : ∀ (l : List (Nat × Nat)) (f g : Nat × Nat → Option Missing),
      (∀ e ∈ l, f e = g e) → l.filterMap f = l.filterMap g := by
    intro l f g h
    induction l with
    | nil => rfl
    | cons x xs ih =>
      simp only [List.filterMap_cons, h x List.mem_cons_self]
      rw [ih (fun e he => h e (List.mem_cons_of_mem _ he))]
  apply hcongr
  intro e he
  cases hA : inp.node? e.1 with
  | none => rfl
  | some A =>
    cases hB : inp.node? e.2 with
    | none => rfl
    | some B =>
      have hAm : A ∈ inp.nodes := List.mem_of_find?_eq_some hA
      have hBm : B ∈ inp.nodes := List.mem_of_find?_eq_some hB
      simp only []
      rw [connecting_isEmpty_iff inp A B hM (hF A hAm) (hF B hBm) (hdisj e he A B hA hB)]
      cases joined inp A B <;> rfl

/-- two residues of two atoms each (0,1 | 2,3); residue-graph edge requested; `bonded` = is there a bond 1-2 -/
def exInput (bonded : Bool) : Input :=
  { nodes := [⟨0, 1, "A", [0, 1], [(0, 1)]⟩, ⟨1, 2, "B", [2, 3], []⟩],
    redges := [(0, 1)],
    medges := [(0, 1), (2, 3)] ++ (if bonded then [(1, 2)] else []) }

example : findMissingEdges (exInput false) = [⟨"A", 1, "B", 2⟩] ∧ findMissingEdges (exInput true) = [] ∧
    Canon (exInput true).medges ∧ (∀ nd ∈ (exInput true).nodes, FragOK (exInput true) nd) := by
  refine ⟨by decide, by decide, ⟨by decide, by decide⟩, ?_⟩
  intro nd hnd
  simp only [exInput, List.mem_cons, List.mem_nil_iff, or_false] at hnd
  rcases hnd with h | h <;> subst h <;> exact ⟨by decide, by decide⟩

/-! ### the recount: warnings + realised edges = residue-graph edges -/

/-- residue-graph edges whose two residues are joined by an atom-level edge -/
def realised (inp : Input) : List (Nat × Nat) :=
  inp.redges.filter fun e =>
    match inp.node? e.1, inp.node? e.2 with
    | some A, some B => joined inp A B
    | _, _ => false

/-- counting lemma: a `filterMap` and a `filter` that split a list between them -/
theorem C10_filterMap_filter_count {α β} (l : List α) (f : α → Option β) (g : α → Bool)
    (h : ∀ e ∈ l, (f e).isSome = !g e) :
    (l.filterMap f).length + (l.filter g).length = l.length := by
  induction l with
  | nil => rfl
  | cons x xs ih =>
    have hx := h x List.mem_cons_self
    have ih' := ih (fun e he => h e (List.mem_cons_of_mem _ he))
    cases hg : g x <;> cases hf : f x <;> simp_all <;> omega

/-- **C10_count** — "never both and never neither" as an independent recount: when both ends of every
residue-graph edge are residues of the molecule, the number of missing-link records plus the number of
realised residue-graph edges is the number of residue-graph edges. -/
theorem C10_count (inp : Input) (hM : Canon inp.medges)
    (hF : ∀ nd ∈ inp.nodes, FragOK inp nd)
    (hdisj : ∀ e ∈ inp.redges, ∀ A B, inp.node? e.1 = some A → inp.node? e.2 = some B → ∀ a ∈ A.frag, a ∉ B.frag)
    (hres : ∀ e ∈ inp.redges, (inp.node? e.1).isSome = true ∧ (inp.node? e.2).isSome = true) :
    (findMissingEdges inp).length + (realised inp).length = inp.redges.length := by
  rw [C10_missing_eq_spec inp hM hF hdisj]
  unfold specMissing realised
  apply C10_filterMap_filter_count
  intro e he
  obtain ⟨h1, h2⟩ := hres e he
  cases hA : inp.node? e.1 with
  | none => rw [hA] at h1; cases h1
  | some A =>
    cases hB : inp.node? e.2 with
    | none => rw [hB] at h2; cases h2
    | some B => simp only []; cases joined inp A B <;> rfl

/-- every record stands for an unrealised edge and every unrealised edge has its record, position by position -/
theorem C10_realised_iff (inp : Input) (hM : Canon inp.medges)
    (hF : ∀ nd ∈ inp.nodes, FragOK inp nd)
    (hdisj : ∀ e ∈ inp.redges, ∀ A B, inp.node? e.1 = some A → inp.node? e.2 = some B → ∀ a ∈ A.frag, a ∉ B.frag)
    (e : Nat × Nat) (A B : RNode) (hA : inp.node? e.1 = some A) (hB : inp.node? e.2 = some B) (he : e ∈ inp.redges) :
    (e ∈ realised inp ↔ (findConnectingEdges inp A B).isEmpty = false) := by
  have hAm : A ∈ inp.nodes := List.mem_of_find?_eq_some hA
  have hBm : B ∈ inp.nodes := List.mem_of_find?_eq_some hB
  rw [connecting_isEmpty_iff inp A B hM (hF A hAm) (hF B hBm) (hdisj e he A B hA hB)]
  unfold realised
  simp only [List.mem_filter, he, true_and, hA, hB]
  cases joined inp A B <;> simp

example : (findMissingEdges (exInput false)).length + (realised (exInput false)).length = 1 ∧
    (realised (exInput true)) = [(0, 1)] := by decide

/-- **C10_gate.**  `_check_molecules` raises iff the RESIDUE graph of some molecule is not connected
(`isConnected` = every node lies within `n` breadth-first levels of the first one, `C10_within_iff`). -/
theorem C10_gate (mols : List Mol) :
    checkMolecules mols = true ↔
      ∃ m ∈ mols, isConnected (List.range m.residues.length) m.resEdges = false := by
  unfold checkMolecules
  simp only [List.any_eq_true, Bool.not_eq_true']

/-- meaning of the breadth-first levels: `b ∈ within es a k` iff a walk of at most `k` edges leads from
`a` to `b` -/
theorem C10_within_iff (es : List (Nat × Nat)) (a b k : Nat) : b ∈ within es a k ↔ WalkLe es a b k :=
  mem_within_iff es a b k

/-- `isConnected` (the stand-in for `nx.is_connected`) is graph connectivity: the graph has a node and
every node is reachable from the first one by a walk of ANY length (with `n` nodes, `n` breadth-first
levels reach everything reachable — proved by the grow-or-closed argument, no bound on `n`). -/
theorem C10_isConnected_iff (nodes : List Nat) (es : List (Nat × Nat))
    (hes : ∀ e ∈ es, e.1 ∈ nodes ∧ e.2 ∈ nodes) :
    isConnected nodes es = true ↔ ∃ a rest, nodes = a :: rest ∧ ∀ b ∈ nodes, ∃ k, WalkLe es a b k :=
  isConnected_iff nodes es hes

/-- **C10_gate_sound** — one half of the property's second sentence: `_check_molecules` refuses ONLY
molecules whose atoms are not all connected (a walk between atoms projects to a walk between their
residues).  For well-formed molecules (distinct atom keys, edges between atoms of the molecule). -/
theorem C10_gate_sound (mols : List Mol) (hwf : ∀ m ∈ mols, m.WF) :
    checkMolecules mols = true → specRaises mols = true := by
  unfold checkMolecules specRaises
  simp only [List.any_eq_true, Bool.not_eq_true']
  rintro ⟨m, hm, hdis⟩
  refine ⟨m, hm, ?_⟩
  rw [Bool.eq_false_iff]
  intro hcon
  rw [resConnected_of_atomConnected m (hwf m hm) hcon] at hdis
  cases hdis

example : (⟨[(0, 1, "A"), (1, 1, "A"), (2, 2, "A")], [(0, 1), (1, 2)]⟩ : Mol).WF := by
  refine ⟨by decide, ?_⟩
  intro e he
  simp only [List.mem_cons, List.mem_nil_iff, or_false] at he
  rcases he with h | h <;> subst h <;> decide

/-- The other half fails — the property's second sentence does not hold for the code: atom 1 (second atom of residue 1) is
bonded to nothing, so the atoms are not all connected (`specRaises`), yet the residue graph 1–2 is
connected and the gate lets the molecule pass. -/
theorem C10_gate_atoms_counterexample :
    let m : Mol := ⟨[(0, 1, "A"), (1, 1, "A"), (2, 2, "A"), (3, 2, "A")], [(0, 2), (2, 3)]⟩
    specRaises [m] = true ∧ checkMolecules [m] = false := by
  decide

example : checkMolecules [⟨[(0, 1, "A"), (1, 1, "A"), (2, 2, "A")], [(0, 1)]⟩] = true ∧
    checkMolecules [⟨[(0, 1, "A"), (1, 1, "A"), (2, 2, "A")], [(0, 1), (1, 2)]⟩] = false := by decide

end PolyplyVerif.C10
