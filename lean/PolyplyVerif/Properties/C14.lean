/-
C14 — mixed exclusion distances are honoured atom by atom.

properties.jsonl: "When residues whose blocks prescribe different exclusion distances are combined, two
atoms of the generated molecule are excluded from non-bonded interactions - through the molecule-wide
exclusion distance or an explicit exclusion - exactly if their bond-graph distance is within the
exclusion distance prescribed by the block of at least one of them, or a block or link excludes them
explicitly. With a uniform exclusion distance the molecule keeps it and no exclusions are invented."

Model: `Model/Exclusions.lean` (`tagExclusions`, `neighborhood`, `expandExcl`); bond-graph distance is
stated with walks (`C10M.WalkLe`, `withinDist es a b k` ⇔ a walk of at most `k` bonds joins `a` and `b`).
Explicit exclusions of blocks and links are interactions like any other (C01/C02) and are untouched by
`expand_excl`, which only appends.
-/
import PolyplyVerif.Model.Exclusions
import PolyplyVerif.Proofs.Exclusions
import PolyplyVerif.Proofs.ComposeLinksExcl

namespace PolyplyVerif.C14
open PolyplyVerif PolyplyVerif.Excl PolyplyVerif.C10M

/-- the tags are a function of the atom: looking an atom's tag up gives its value -/
def TagsFunctional (tags : List (Nat × Nat)) : Prop := ∀ t ∈ tags, eOf tags t.1 = t.2

/-- **C14_effective.**  Mixed case: every atom carries the exclusion distance `e` of its block as tag and
the molecule-wide distance `m = nrexcl` is at most every tag (it is their minimum).  Then for two
different atoms `a`, `b`: the pair is excluded by `nrexcl` (`withinDist … m`) or by a generated
exclusion **iff** `b` is within `max (e a) (e b)` bonds of `a`, i.e. within the distance prescribed by
the block of at least one of them. -/
theorem C14_effective (inp : Excl.Input) (hfun : TagsFunctional inp.tags)
    (hmin : ∀ t ∈ inp.tags, inp.nrexcl ≤ t.2)
    (a b : Nat) (ha : a ∈ inp.tags.map (·.1)) (hb : b ∈ inp.tags.map (·.1)) (hab : a ≠ b) :
    (withinDist inp.edges a b inp.nrexcl || (expandExcl inp).any (samePair (a, b))) =
      withinDist inp.edges a b (max (eOf inp.tags a) (eOf inp.tags b)) := by
  obtain ⟨ta, hta, hta1⟩ := List.mem_map.mp ha
  obtain ⟨tb, htb, htb1⟩ := List.mem_map.mp hb
  have hea : eOf inp.tags a = ta.2 := by rw [← hta1]; exact hfun ta hta
  have heb : eOf inp.tags b = tb.2 := by rw [← htb1]; exact hfun tb htb
  have hma : inp.nrexcl ≤ eOf inp.tags a := by rw [hea]; exact hmin ta hta
  have hmb : inp.nrexcl ≤ eOf inp.tags b := by rw [heb]; exact hmin tb htb
  -- what one tagged atom contributes
  have key : ∀ (x y : Nat) (tx : Nat × Nat), tx ∈ inp.tags → tx.1 = x → x ≠ y →
      withinDist inp.edges x y tx.2 = true →
      withinDist inp.edges x y inp.nrexcl = true ∨ (expandExcl inp).any (samePair (x, y)) = true := by
    intro x y tx htx hx hxy hw
    by_cases hgt : tx.2 > inp.nrexcl
    · by_cases hnb : y ∈ neighborhood inp.edges x tx.2 inp.nrexcl
      · right
        unfold expandExcl
        rw [any_foldl_addPair]
        simp only [List.any_nil, Bool.false_or]
        refine List.any_eq_true.mpr ⟨(x, y), List.mem_flatMap.mpr ⟨tx, htx, ?_⟩, ?_⟩
        · unfold proposals
          simp only [hgt, if_true, hx]
          exact List.mem_map.mpr ⟨y, List.mem_filter.mpr ⟨hnb, by simpa using hxy⟩, rfl⟩
        · simp [samePair]
      · left
        unfold neighborhood at hnb
        simp only [List.mem_filter, not_and, Bool.or_eq_true, decide_eq_true_eq, Bool.not_eq_true',
          not_or, Bool.not_eq_false] at hnb
        have hy : y ∈ within inp.edges x tx.2 := by
          unfold withinDist at hw; exact List.contains_iff_mem.mp hw
        obtain ⟨h1, h2⟩ := hnb hy
        have : withinDist inp.edges x y (inp.nrexcl - 2) = true := by
          unfold withinDist; exact h2
        exact withinDist_mono _ _ _ _ _ (by omega) this
    · left
      exact withinDist_mono _ _ _ _ _ (by omega) hw
  rw [Bool.eq_iff_iff]
  constructor
  · intro h
    rcases Bool.or_eq_true_iff.mp h with h | h
    · exact withinDist_mono _ _ _ _ _ (by omega) h
    · unfold expandExcl at h
      rw [any_foldl_addPair] at h
      simp only [List.any_nil, Bool.false_or] at h
      obtain ⟨p, hp, hsame⟩ := List.any_eq_true.mp h
      obtain ⟨t, ht, hpt⟩ := List.mem_flatMap.mp hp
      unfold proposals at hpt
      by_cases hgt : t.2 > inp.nrexcl
      · simp only [hgt, if_true] at hpt
        obtain ⟨y, hy, hpy⟩ := List.mem_map.mp hpt
        have hyw : withinDist inp.edges t.1 y t.2 = true := by
          unfold withinDist
          exact List.contains_iff_mem.mpr (List.mem_filter.mp (List.mem_filter.mp hy).1).1
        subst hpy
        unfold samePair at hsame
        simp only [Bool.or_eq_true, Bool.and_eq_true, beq_iff_eq] at hsame
        have het : eOf inp.tags t.1 = t.2 := hfun t ht
        rcases hsame with ⟨h1, h2⟩ | ⟨h1, h2⟩
        · rw [← h1, ← h2] at hyw
          exact withinDist_mono _ _ _ _ _ (by rw [h1, het]; omega) hyw
        · rw [← h1, ← h2, withinDist_symm] at hyw
          exact withinDist_mono _ _ _ _ _ (by rw [h2, het]; omega) hyw
      · simp [hgt] at hpt
  · intro h
    rw [Bool.or_eq_true_iff]
    by_cases hle : eOf inp.tags b ≤ eOf inp.tags a
    · have : withinDist inp.edges a b ta.2 = true := by
        rw [← hea]; rw [Nat.max_eq_left hle] at h; exact h
      exact key a b ta hta hta1 hab this
    · have hmax : max (eOf inp.tags a) (eOf inp.tags b) = eOf inp.tags b := Nat.max_eq_right (by omega)
      rw [hmax, withinDist_symm, heb] at h
      rcases key b a tb htb htb1 (Ne.symm hab) h with h' | h'
      · left; rw [withinDist_symm]; exact h'
      · right
        obtain ⟨p, hp, hs⟩ := List.any_eq_true.mp h'
        refine List.any_eq_true.mpr ⟨p, hp, ?_⟩
        exact samePair_trans (a, b) (b, a) p (by simp [samePair]) hs

/-- chain 0-1-2-3-4; atoms 0,1 from a block with distance 1, atoms 2,3,4 from a block with distance 3 -/
def exInput : Excl.Input := ⟨1, [(0, 1), (1, 1), (2, 3), (3, 3), (4, 3)], [(0, 1), (1, 2), (2, 3), (3, 4)]⟩

example : TagsFunctional exInput.tags ∧ (∀ t ∈ exInput.tags, exInput.nrexcl ≤ t.2) ∧
    expandExcl exInput = [(2, 1), (2, 3), (2, 0), (2, 4), (3, 4), (3, 1), (3, 0), (4, 1)] ∧
    withinDist exInput.edges 0 3 (max (eOf exInput.tags 0) (eOf exInput.tags 3)) = true ∧
    withinDist exInput.edges 0 4 (max (eOf exInput.tags 0) (eOf exInput.tags 4)) = false := by
  refine ⟨?_, ?_, by decide, by decide, by decide⟩
  · intro t ht
    simp only [exInput, List.mem_cons, List.mem_nil_iff, or_false] at ht
    rcases ht with h | h | h | h | h <;> subst h <;> decide
  · intro t ht
    simp only [exInput, List.mem_cons, List.mem_nil_iff, or_false] at ht
    rcases ht with h | h | h | h | h <;> subst h <;> decide

/-- **C14_uniform.**  If all residues' blocks prescribe the same distance `e`, `tag_exclusions` leaves
the blocks alone: the molecule keeps `nrexcl = e`, no atom is tagged, and `expand_excl` (which only
looks at tagged atoms) appends nothing — whatever the bond graph. -/
theorem C14_uniform (e : Nat) (excls : List Nat) (hne : excls ≠ []) (hall : ∀ x ∈ excls, x = e)
    (es : List (Nat × Nat)) :
    tagExclusions excls = (some e, false) ∧ expandExcl ⟨e, [], es⟩ = [] := by
  refine ⟨?_, rfl⟩
  cases excls with
  | nil => exact absurd rfl hne
  | cons x xs =>
    have hx : x = e := hall x List.mem_cons_self
    subst hx
    have hxs : ∀ y ∈ xs, y = x := fun y hy => hall y (List.mem_cons_of_mem _ hy)
    have hd : dedup (x :: xs) = [x] := by
      have : ∀ (l : List Nat), (∀ y ∈ l, y = x) → (dedup l).filter (fun y => !(y == x)) = [] := by
        intro l hl
        rw [List.filter_eq_nil_iff]
        intro y hy
        have : y ∈ l := (mem_dedup l y).mp hy
        simp [hl y this]
      simp only [dedup, this xs hxs]
    unfold tagExclusions
    simp only [hd, List.length_singleton, gt_iff_lt, Nat.lt_irrefl, if_false]

example : tagExclusions [2, 2, 2] = (some 2, false) ∧ tagExclusions [1, 3, 1] = (some 1, true) := by decide

/-- in the mixed case the molecule-wide distance is the minimum of the blocks' distances -/
theorem C14_tag_min (x : Nat) (xs : List Nat) (h : (dedup (x :: xs)).length > 1) :
    ∃ m, tagExclusions (x :: xs) = (some m, true) ∧ (∀ y ∈ x :: xs, m ≤ y) ∧ m ∈ x :: xs := by
  refine ⟨xs.foldl min x, by simp [tagExclusions, h], ?_, ?_⟩
  · have : ∀ (l : List Nat) (a : Nat), l.foldl min a ≤ a ∧ ∀ y ∈ l, l.foldl min a ≤ y := by
      intro l
      induction l with
      | nil => intro a; simp
      | cons z zs ih =>
        intro a
        obtain ⟨h1, h2⟩ := ih (min a z)
        refine ⟨by simp only [List.foldl_cons]; omega, ?_⟩
        intro y hy
        simp only [List.foldl_cons]
        rcases List.mem_cons.mp hy with hy | hy
        · rw [hy]; omega
        · exact h2 y hy
    intro y hy
    rcases List.mem_cons.mp hy with hy | hy
    · rw [hy]; exact (this xs x).1
    · exact (this xs x).2 y hy
  · have : ∀ (l : List Nat) (a : Nat), l.foldl min a = a ∨ l.foldl min a ∈ l := by
      intro l
      induction l with
      | nil => intro a; simp
      | cons z zs ih =>
        intro a
        simp only [List.foldl_cons, List.mem_cons]
        rcases ih (min a z) with h | h
        · rw [h]
          rcases Nat.le_total a z with hle | hle
          · left; exact Nat.min_eq_left hle
          · right; left; exact Nat.min_eq_right hle
        · right; right; exact h
    rcases this xs x with h | h
    · rw [h]; exact List.mem_cons_self
    · exact List.mem_cons_of_mem _ h

/-- **C14_no_dup.**  No unordered pair is generated twice, and no atom is excluded from itself. -/
theorem C14_no_dup (inp : Excl.Input) :
    (expandExcl inp).Pairwise (fun p q => samePair p q = false) ∧ ∀ p ∈ expandExcl inp, p.1 ≠ p.2 := by
  refine ⟨pairwise_foldl_addPair _ [] List.Pairwise.nil, ?_⟩
  intro p hp
  have hsub : ∀ (ps had : List (Nat × Nat)), ∀ q ∈ ps.foldl addPair had, q ∈ had ∨ q ∈ ps := by
    intro ps
    induction ps with
    | nil => intro had q hq; exact Or.inl hq
    | cons x xs ih =>
      intro had q hq
      rw [List.foldl_cons] at hq
      rcases ih (addPair had x) q hq with h | h
      · unfold addPair at h
        by_cases hx : had.any (samePair x)
        · simp only [hx, if_true] at h; exact Or.inl h
        · simp only [hx, Bool.false_eq_true, if_false, List.mem_append, List.mem_singleton] at h
          rcases h with h | h
          · exact Or.inl h
          · exact Or.inr (by rw [h]; exact List.mem_cons_self)
      · exact Or.inr (List.mem_cons_of_mem _ h)
  rcases hsub _ [] p hp with h | h
  · cases h
  · obtain ⟨t, _, hpt⟩ := List.mem_flatMap.mp h
    unfold proposals at hpt
    by_cases hgt : t.2 > inp.nrexcl
    · simp only [hgt, if_true] at hpt
      obtain ⟨y, hy, hpy⟩ := List.mem_map.mp hpt
      have := (List.mem_filter.mp hy).2
      rw [← hpy]
      simpa using this
    · simp [hgt] at hpt

end PolyplyVerif.C14

/-! ## end-to-end composition (appended; helper lemmas and bridge functions: Proofs/ComposeLinksExcl.lean) -/

namespace PolyplyVerif.C14
open PolyplyVerif PolyplyVerif.Excl PolyplyVerif.C10M

/-! ### composition with the link stage (C14 ∘ C02) -/

/-- **C14_effective_after_links.**  `C14_effective` on the edge list the link stage really leaves behind
(`Links.applyLinks`, C02).  Tags and `nrexcl` as in `C14_effective`.  Two different tagged atoms are
excluded — within `nrexcl` bonds of the molecule, or by an exclusion `expand_excl` generates — **iff**
they are joined by a walk of at most `max (e a) (e b)` bonds in the graph `Compose.LinkedAdj`: its bonds
are the edges of the mapped molecule plus the edges of the accepted link applications (`C02.evs`), without
those that touch an atom a link removed.  No edge list occurs on the right-hand side. -/
theorem C14_effective_after_links (linp : Links.Input) (nrexcl : Nat) (tags : List (Nat × Nat))
    (hfun : TagsFunctional tags) (hmin : ∀ t ∈ tags, nrexcl ≤ t.2)
    (a b : Nat) (ha : a ∈ tags.map (·.1)) (hb : b ∈ tags.map (·.1)) (hab : a ≠ b) :
    (withinDist (Links.applyLinks linp).edges a b nrexcl = true ∨
      (expandExcl ⟨nrexcl, tags, (Links.applyLinks linp).edges⟩).any (samePair (a, b)) = true) ↔
    Compose.RelWalkLe (Compose.LinkedAdj linp) a b (max (eOf tags a) (eOf tags b)) := by
  rw [← Compose.withinDist_applyLinks_iff, ← Bool.or_eq_true]
  exact Bool.eq_iff_iff.mp (C14_effective ⟨nrexcl, tags, (Links.applyLinks linp).edges⟩ hfun hmin a b ha hb hab)

/-- the same with the explicit (`by_atom_id`) links applied, i.e. on the molecule exactly as `expand_excl`
sees it: the graph additionally bonds consecutive atoms of explicit interactions (`Compose.RunAdj`) -/
theorem C14_effective_after_run (linp : Links.Input) (xs : List Links.XIxn) (s' : Links.XSt)
    (hrun : Links.runMolecule linp xs = .ok s') (nrexcl : Nat) (tags : List (Nat × Nat))
    (hfun : TagsFunctional tags) (hmin : ∀ t ∈ tags, nrexcl ≤ t.2)
    (a b : Nat) (ha : a ∈ tags.map (·.1)) (hb : b ∈ tags.map (·.1)) (hab : a ≠ b) :
    (withinDist s'.edges a b nrexcl = true ∨
      (expandExcl ⟨nrexcl, tags, s'.edges⟩).any (samePair (a, b)) = true) ↔
    Compose.RelWalkLe (Compose.RunAdj linp xs) a b (max (eOf tags a) (eOf tags b)) := by
  rw [← Compose.withinDist_runMolecule_iff linp xs s' hrun, ← Bool.or_eq_true]
  exact Bool.eq_iff_iff.mp (C14_effective ⟨nrexcl, tags, s'.edges⟩ hfun hmin a b ha hb hab)

/-- the specification graph evaluated as an edge list gives the same answer as the implementation's list -/
theorem C14_after_links_spec_edges (linp : Links.Input) (a b k : Nat) :
    withinDist (Links.applyLinks linp).edges a b k = withinDist (Compose.linkedEdges linp) a b k :=
  Compose.withinDist_applyLinks_eq linp a b k

/-- tags of the instance `C02.exInput false` (A X B | A X B, link B–+A): first residue distance 1, second 3 -/
def exLinkTags : List (Nat × Nat) := [(0, 1), (1, 1), (2, 1), (3, 3), (4, 3), (5, 3)]

/-- Non-vacuity: the hypotheses hold on the two-residue instance of C02; atoms 2 (`B` of residue 1) and 5
(`B` of residue 2) are two bonds apart ONLY through the link edge 2–3, not within `nrexcl = 1`, and come out
excluded by a generated exclusion; the walk on the right-hand side exists; atoms 1 and 4 (4 bonds) do not. -/
example : TagsFunctional exLinkTags ∧ (∀ t ∈ exLinkTags, 1 ≤ t.2) ∧
    (Links.applyLinks (C02.exInput false)).edges = [(0, 2), (2, 1), (3, 5), (5, 4), (2, 3)] ∧
    withinDist (Links.applyLinks (C02.exInput false)).edges 2 5 1 = false ∧
    withinDist (C02.exInput false).edges 2 5 3 = false ∧
    (expandExcl ⟨1, exLinkTags, (Links.applyLinks (C02.exInput false)).edges⟩).any (samePair (2, 5)) = true ∧
    Compose.RelWalkLe (Compose.LinkedAdj (C02.exInput false)) 2 5 (max (eOf exLinkTags 2) (eOf exLinkTags 5)) ∧
    ¬ Compose.RelWalkLe (Compose.LinkedAdj (C02.exInput false)) 1 4 (max (eOf exLinkTags 1) (eOf exLinkTags 4)) := by
  have hf : TagsFunctional exLinkTags := by
    intro t ht
    simp only [exLinkTags, List.mem_cons, List.mem_nil_iff, or_false] at ht
    rcases ht with h | h | h | h | h | h <;> subst h <;> decide
  have hm : ∀ t ∈ exLinkTags, 1 ≤ t.2 := by
    intro t ht
    simp only [exLinkTags, List.mem_cons, List.mem_nil_iff, or_false] at ht
    rcases ht with h | h | h | h | h | h <;> subst h <;> decide
  refine ⟨hf, hm, by decide, by decide, by decide, by decide, ?_, ?_⟩
  · exact (C14_effective_after_links (C02.exInput false) 1 exLinkTags hf hm 2 5 (by decide) (by decide) (by decide)).mp
      (Or.inr (by decide))
  · intro h
    have := (C14_effective_after_links (C02.exInput false) 1 exLinkTags hf hm 1 4 (by decide) (by decide) (by decide)).mpr h
    revert this
    decide

end PolyplyVerif.C14
