/-
C16 — the neighbour engine always reflects exactly the currently positioned residues.

  "After any sequence of adding, removing and consolidating residue positions, position queries return
   the last position given (or undefined after removal), and overlap/force queries take into account
   exactly the residues currently positioned within the cut-off under periodic boundaries, minus the
   stated exclusions, with each pair force equal to the negative gradient of the 12-6 potential for the
   pair's size. Minimum-image distances are symmetric, periodic in each box vector and never exceed the
   direct distance."

Property theorems only; the model is `Model/Engine.lean` (tied to `nonbond_engine.py` by the
correspondence of harness/c16.py on every run), lemmas are in `Proofs/Engine.lean`,
`Proofs/Geometry.lean`, `Proofs/LJGradientC16.lean`.  All theorems hold for every parameter set — in
particular for every tree-opening threshold `T` and floor, so also for the translated `5000` / `0.1`.
-/
import PolyplyVerif.Model.Geometry
import PolyplyVerif.Model.Engine
import PolyplyVerif.Proofs.Geometry
import PolyplyVerif.Proofs.Engine
import PolyplyVerif.Proofs.LJGradientC16

namespace PolyplyVerif.C16
open PolyplyVerif.Geometry PolyplyVerif.Engine

/-! ### a concrete history used by the non-vacuity examples: threshold 1, so the second `start` add
opens a new tree; a tree is emptied; a removed residue is added again; trees are consolidated -/

def exP : Params :=
  { n := 5, L := ⟨4, 3, 5⟩, cut := 1, floor := 1 / 10, T := 1, inter := fun _ _ => (1 / 2, 1) }

def exInit : Nat → Option V3 := fun g =>
  if g = 0 then some ⟨1, 1, 1⟩ else if g = 1 then some ⟨2, 1, 1⟩ else none

def exOps : List Op :=
  [.add 2 ⟨1 / 2, 1, 1⟩ true,      -- tree 0 holds 2 > T points: tree 1 is opened
   .add 3 ⟨7 / 2, 1, 1⟩ false,     -- appended to tree 1
   .remove [2, 3, 2],               -- tree 1 is emptied (the repeated node is skipped)
   .add 2 ⟨15 / 4, 1, 1⟩ true,     -- re-added (into the empty last tree)
   .remove [0],                     -- removal from the older tree
   .concat]

theorem exInit_ok : ∀ g p, exInit g = some p → g < exP.n ∧ inBox p exP.L := by
  intro g p h
  unfold exInit at h
  split at h
  · cases h; subst_vars; decide +kernel
  · split at h
    · cases h; subst_vars; decide +kernel
    · cases h

/-- **Invariant.**  From any admissible initial position table, after every operation sequence that
respects the protocol (`add` only for an unpositioned node, with a point inside the box), the four
views agree: a residue is positioned iff it occurs in the index list of a tree; no index list has a
repetition and no residue is in two trees; `gndx_to_tree` names exactly that tree; every search tree
holds the current positions of its index list.  Induction over the sequence — emptying a tree,
re-adding, and crossing the threshold `T` included, for every `T`. -/
theorem C16_inv (P : Params) (pos0 : Nat → Option V3)
    (hinit : ∀ g p, pos0 g = some p → g < P.n ∧ inBox p P.L)
    (ops : List Op) (hok : okSeq P (build P pos0) ops) :
    Inv P (run P (build P pos0) ops) := by
  apply Proofs.Engine.inv_run ops _ hok
  apply Proofs.Engine.inv_build
  · intro g hs
    cases hq : pos0 g with
    | none => rw [hq] at hs; cases hs
    | some p => exact (hinit g p hq).1
  · intro g p hq; exact (hinit g p hq).2

example : okSeq exP (build exP exInit) exOps := by decide +kernel
example : (run exP (build exP exInit) (exOps.take 2)).nt = 2 := by decide +kernel
example : (run exP (build exP exInit) (exOps.take 3)).defined 1 = [] := by decide +kernel

/-- The invariant in the words of the design: a residue is positioned iff it occurs **exactly once**
in the joined index lists (and never more than once), and `gndx_to_tree` maps it to the tree whose
list holds it; the stored tree points are the current positions. -/
theorem C16_inv_views (P : Params) (s : State) (h : Inv P s) :
    (∀ g, (s.pos g).isSome ↔ (definedList s).count g = 1) ∧
    (∀ g, (definedList s).count g ≤ 1) ∧
    (∀ g t, s.g2t g = some t ↔ (t < s.nt ∧ g ∈ s.defined t)) ∧
    (∀ t, t < s.nt → s.trees t = (s.defined t).map s.pos) := by
  refine ⟨?_, ?_, h.g2t_iff, fun t ht => h.trees_eq t ht (fun x => x)⟩
  · intro g
    rw [Proofs.Engine.count_definedList h g]
    by_cases hs : (s.pos g).isSome <;> simp [hs]
  · intro g
    rw [Proofs.Engine.count_definedList h g]
    split <;> omega

example : definedList (run exP (build exP exInit) (exOps.take 4)) = [0, 1, 2] := by decide +kernel

/-- **Refinement to the set of positioned residues.**  After every protocol-conforming history:
(1) the position table is the abstract map "last position given, none after removal", so `get_point`
returns it; (2) for every query point inside the box, every node and every exclusion list, the force
computed from the trees and index lists equals the specification's force: `inf` iff some positioned
residue within the cut-off is closer than the floor, otherwise the sum of the 12-6 pair forces
(minimum-image distance and direction) over exactly the positioned, non-excluded residues within the
cut-off (`C16_spec_exact` spells out "exactly"). -/
theorem C16_refines_set (P : Params) (hL : boxPos P.L) (pos0 : Nat → Option V3)
    (hinit : ∀ g p, pos0 g = some p → g < P.n ∧ inBox p P.L)
    (ops : List Op) (hok : okSeq P (build P pos0) ops) :
    (∀ g, getPoint (run P (build P pos0) ops) g = absRun pos0 ops g) ∧
    (∀ point g excl, inBox point P.L →
      force P (run P (build P pos0) ops) point g excl = specForce P (absRun pos0 ops) point g excl) := by
  have hinv0 : Inv P (build P pos0) := by
    apply Proofs.Engine.inv_build
    · intro g hs
      cases hq : pos0 g with
      | none => rw [hq] at hs; cases hs
      | some p => exact (hinit g p hq).1
    · intro g p hq; exact (hinit g p hq).2
  have hpos : (run P (build P pos0) ops).pos = absRun pos0 ops := Proofs.Engine.run_pos ops hinv0 hok
  have hinv := Proofs.Engine.inv_run ops hinv0 hok
  constructor
  · intro g; unfold getPoint; rw [hpos]
  · intro point g excl hp
    rw [Proofs.Engine.force_refines hinv hL point hp g excl, hpos]

example : boxPos exP.L := by decide +kernel
example : absRun exInit exOps 2 = some ⟨15 / 4, 1, 1⟩ ∧ absRun exInit exOps 0 = none ∧
    absRun exInit exOps 3 = none := by decide +kernel
/-- a query across the x-face: the residue at x = 15/4 is within the cut-off of x = 1/4 (distance 1/2) -/
example : (specNear exP (absRun exInit exOps) ⟨1 / 4, 1, 1⟩).map (·.1) = [2] := by decide +kernel

/-- **Exactly the positioned residues within the cut-off.**  The list the specification sums over
contains `(h, q, d²)` iff `h` is a residue currently positioned at `q` whose minimum-image distance `d`
to the query point is within the cut-off; and each residue occurs at most once. -/
theorem C16_spec_exact (P : Params) (m : Nat → Option V3) (point : V3) :
    (∀ e : Nat × V3 × Rat, e ∈ specNear P m point ↔
      e.1 < P.n ∧ m e.1 = some e.2.1 ∧ e.2.2 = minImageSq point e.2.1 P.L ∧ e.2.2 ≤ P.cut * P.cut) ∧
    ((specNear P m point).map (·.1)).Nodup :=
  ⟨Proofs.Engine.mem_specNear P m point, Proofs.Engine.nodup_specNear P m point⟩

/-- the residue at x = 15/4 seen from x = 1/4 across the face: index 2, its position, d² = 1/4 -/
example : ((2, ⟨15 / 4, 1, 1⟩, 1 / 4) : Nat × V3 × Rat) ∈ specNear exP (absRun exInit exOps) ⟨1 / 4, 1, 1⟩ := by
  decide +kernel

/-- Inside the box, the direction the force is applied along has exactly the length the magnitude was
computed for, and that length is `pbc_min_dist` (the KD-tree's distance, the `np.round` image vector and
the `%`-based minimum image agree).  The defect fixed in 173d860 violated the first equation. -/
theorem C16_force_vector_consistent (p q L : V3) (hL : boxPos L) (hp : inBox p L) (hq : inBox q L) :
    (minImageVec p q L).normSq = minImageSq p q L ∧ kdDistSq p q L = minImageSq p q L :=
  ⟨Proofs.Geometry.normSq_minImageVec p q L hL hp hq, Proofs.Geometry.kdDistSq_eq_minImageSq p q L hL hp hq⟩

example : minImageVec ⟨1 / 4, 1, 1⟩ ⟨15 / 4, 1, 1⟩ ⟨4, 3, 5⟩ = ⟨1 / 2, 0, 0⟩ := by decide +kernel

/-- **Pair force = negative gradient of the 12-6 potential** (ℝ).  For a pair of size `σ`, depth `ε`
and a non-zero separation vector `(x, y, z)` with `r = √(x²+y²+z²)`:
(radial) `V'(r) = −ljCoef σ ε r² · r`, and (gradient) every partial derivative of `(x,y,z) ↦ V(‖(x,y,z)‖)`
is minus the corresponding component `ljCoef σ ε r² · x` of the model's pair force. -/
theorem C16_force_gradient (sig eps : ℚ) (x y z : ℚ) (hne : 0 < x * x + y * y + z * z) :
    let r2 : ℚ := x * x + y * y + z * z
    let r : ℝ := Real.sqrt r2
    HasDerivAt (Proofs.LJ.V eps sig) (-(((ljCoef sig eps r2 : ℚ) : ℝ) * r)) r ∧
    HasDerivAt (fun u : ℝ => Proofs.LJ.V eps sig (Real.sqrt (u ^ 2 + ((y : ℝ) ^ 2 + (z : ℝ) ^ 2))))
      (-(((ljCoef sig eps r2 * x : ℚ) : ℝ))) x ∧
    HasDerivAt (fun u : ℝ => Proofs.LJ.V eps sig (Real.sqrt (u ^ 2 + ((x : ℝ) ^ 2 + (z : ℝ) ^ 2))))
      (-(((ljCoef sig eps r2 * y : ℚ) : ℝ))) y ∧
    HasDerivAt (fun u : ℝ => Proofs.LJ.V eps sig (Real.sqrt (u ^ 2 + ((x : ℝ) ^ 2 + (y : ℝ) ^ 2))))
      (-(((ljCoef sig eps r2 * z : ℚ) : ℝ))) z := by
  intro r2 r
  have hposR : (0 : ℝ) < ((r2 : ℚ) : ℝ) := by exact_mod_cast hne
  have hr0 : r ≠ 0 := ne_of_gt (Real.sqrt_pos.mpr hposR)
  have hsq : r ^ 2 = ((r2 : ℚ) : ℝ) := Real.sq_sqrt hposR.le
  have hcast : ((r2 : ℚ) : ℝ) = (x : ℝ) ^ 2 + (y : ℝ) ^ 2 + (z : ℝ) ^ 2 := by
    simp only [r2]; push_cast; ring
  refine ⟨?_, ?_, ?_, ?_⟩
  · have h := Proofs.LJ.lj_grad eps sig r hr0
    rw [← Proofs.LJ.ljCoefR_eq sig eps r hr0, hsq, ← Proofs.LJ.ljCoef_cast] at h
    exact h
  · have e : (x : ℝ) ^ 2 + ((y : ℝ) ^ 2 + (z : ℝ) ^ 2) = ((r2 : ℚ) : ℝ) := by rw [hcast]; ring
    have h := Proofs.LJ.lj_partial eps sig x ((y : ℝ) ^ 2 + (z : ℝ) ^ 2) (by rw [e]; exact hposR)
    rw [e, ← Proofs.LJ.ljCoef_cast] at h
    push_cast
    exact h
  · have e : (y : ℝ) ^ 2 + ((x : ℝ) ^ 2 + (z : ℝ) ^ 2) = ((r2 : ℚ) : ℝ) := by rw [hcast]; ring
    have h := Proofs.LJ.lj_partial eps sig y ((x : ℝ) ^ 2 + (z : ℝ) ^ 2) (by rw [e]; exact hposR)
    rw [e, ← Proofs.LJ.ljCoef_cast] at h
    push_cast
    exact h
  · have e : (z : ℝ) ^ 2 + ((x : ℝ) ^ 2 + (y : ℝ) ^ 2) = ((r2 : ℚ) : ℝ) := by rw [hcast]; ring
    have h := Proofs.LJ.lj_partial eps sig z ((x : ℝ) ^ 2 + (y : ℝ) ^ 2) (by rw [e]; exact hposR)
    rw [e, ← Proofs.LJ.ljCoef_cast] at h
    push_cast
    exact h

example : (0 : ℚ) < (1 / 2) * (1 / 2) + 0 * 0 + 0 * 0 := by norm_num

/-- minimum-image distances are symmetric -/
theorem C16_minimage_symm (a b L : V3) : minImageSq a b L = minImageSq b a L :=
  Proofs.Geometry.minImageSq_symm a b L

/-- … periodic in each box vector: translating a point by `k₁L₁e₁ + k₂L₂e₂ + k₃L₃e₃` changes nothing -/
theorem C16_minimage_periodic (a b L : V3) (hL : boxPos L) (kx ky kz : ℤ) :
    minImageSq ⟨a.x + L.x * kx, a.y + L.y * ky, a.z + L.z * kz⟩ b L = minImageSq a b L :=
  Proofs.Geometry.minImageSq_periodic a b L hL kx ky kz

example : minImageSq ⟨1 / 4 + 4 * (-2 : ℤ), 1 + 3 * (1 : ℤ), 1 + 5 * (0 : ℤ)⟩ ⟨15 / 4, 1, 1⟩ ⟨4, 3, 5⟩ = 1 / 4 ∧
    minImageSq ⟨15 / 4, 1, 1⟩ ⟨1 / 4, 1, 1⟩ ⟨4, 3, 5⟩ = 1 / 4 := by decide +kernel

/-- … and never exceed the direct distance -/
theorem C16_minimage_le_direct (a b L : V3) (hL : boxPos L) : minImageSq a b L ≤ (a - b).normSq :=
  Proofs.Geometry.minImageSq_le_direct a b L hL

example : minImageSq ⟨1 / 4, 1, 1⟩ ⟨15 / 4, 1, 1⟩ ⟨4, 3, 5⟩ = 1 / 4 ∧
    (V3.normSq ((⟨1 / 4, 1, 1⟩ : V3) - ⟨15 / 4, 1, 1⟩)) = 49 / 4 := by decide +kernel

/-- Why the protocol precondition is there (recorded, not excluded silently): adding onto a residue
that is already positioned leaves it twice in the index list, and a force query counts it twice —
the model's force is no longer the specification's force.  The program never does this
(`add_positions` is only called for nodes without position); see notes/C16_findings.md. -/
theorem C16_double_add_counts_twice :
    let s := add exP (build exP exInit) 1 ⟨2, 1, 1⟩ false
    s.defined 0 = [0, 1, 1] ∧
    force exP s ⟨11 / 4, 1, 1⟩ 4 [] ≠ specForce exP s.pos ⟨11 / 4, 1, 1⟩ 4 [] := by
  decide +kernel

end PolyplyVerif.C16
