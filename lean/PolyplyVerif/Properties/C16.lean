import PolyplyVerif.Model.Engine
import PolyplyVerif.Proofs.Geometry
namespace PolyplyVerif.C16
theorem C16_placeholder : True := trivial
end PolyplyVerif.C16
