/-
C16 — the neighbour engine always reflects exactly the currently positioned residues.

  "After any sequence of adding, removing and consolidating residue positions, position queries return
   the last position given (or undefined after removal), and overlap/force queries take into account
   exactly the residues currently positioned within the cut-off under periodic boundaries, minus the
   stated exclusions, with each pair force equal to the negative gradient of the 12-6 potential for the
   pair's size. Minimum-image distances are symmetric, periodic in each box vector and never exceed the
   direct distance."

Property theorems only; the model is `Model/Engine.lean` (tied to `nonbond_engine.py` by the
correspondence of harness/c16.py on every run), lemmas are in `Proofs/Engine.lean`,
`Proofs/Geometry.lean`, `Proofs/LJGradientC16.lean`; the index layout built by `from_topology` is
`Model/EngineLayout.lean` with lemmas in `Proofs/EngineLayout.lean` (theorems `C16_layout_…`, and the
statements without the protocol precondition `C16_getPoint_any_history`, `C16_double_add_characterised`).
All theorems hold for every parameter set — in
particular for every tree-opening threshold `T` and floor, so also for the translated `5000` / `0.1`.
-/
import PolyplyVerif.Model.Geometry
import PolyplyVerif.Model.Engine
import PolyplyVerif.Proofs.Geometry
import PolyplyVerif.Proofs.Engine
import PolyplyVerif.Proofs.LJGradientC16
import PolyplyVerif.Model.EngineLayout
import PolyplyVerif.Proofs.EngineLayout

namespace PolyplyVerif.C16
open PolyplyVerif.Geometry PolyplyVerif.Engine PolyplyVerif.EngineLayout

/-! ### a concrete history used by the non-vacuity examples: threshold 1, so the second `start` add
opens a new tree; a tree is emptied; a removed residue is added again; trees are consolidated -/

def exP : Params :=
  { n := 5, L := ⟨4, 3, 5⟩, cut := 1, floor := 1 / 10, T := 1, inter := fun _ _ => (1 / 2, 1) }

def exInit : Nat → Option V3 := fun g =>
  if g = 0 then some ⟨1, 1, 1⟩ else if g = 1 then some ⟨2, 1, 1⟩ else none

def exOps : List Op :=
  [.add 2 ⟨1 / 2, 1, 1⟩ true,      -- tree 0 holds 2 > T points: tree 1 is opened
   .add 3 ⟨7 / 2, 1, 1⟩ false,     -- appended to tree 1
   .remove [2, 3, 2],               -- tree 1 is emptied (the repeated node is skipped)
   .add 2 ⟨15 / 4, 1, 1⟩ true,     -- re-added (into the empty last tree)
   .remove [0],                     -- removal from the older tree
   .concat]

theorem exInit_ok : ∀ g p, exInit g = some p → g < exP.n ∧ inBox p exP.L := by
  intro g p h
  unfold exInit at h
  split at h
  · cases h; subst_vars; decide +kernel
  · split at h
    · cases h; subst_vars; decide +kernel
    · cases h

/-- **Invariant.**  From any admissible initial position table, after every operation sequence that
respects the protocol (`add` only for an unpositioned node, with a point inside the box), the four
views agree: a residue is positioned iff it occurs in the index list of a tree; no index list has a
repetition and no residue is in two trees; `gndx_to_tree` names exactly that tree; every search tree
holds the current positions of its index list.  Induction over the sequence — emptying a tree,
re-adding, and crossing the threshold `T` included, for every `T`. -/
theorem C16_inv (P : Params) (pos0 : Nat → Option V3)
    (hinit : ∀ g p, pos0 g = some p → g < P.n ∧ inBox p P.L)
    (ops : List Op) (hok : okSeq P (build P pos0) ops) :
    Inv P (run P (build P pos0) ops) := by
  apply Proofs.Engine.inv_run ops _ hok
  apply Proofs.Engine.inv_build
  · intro g hs
    cases hq : pos0 g with
    | none => rw [hq] at hs; cases hs
    | some p => exact (hinit g p hq).1
  · intro g p hq; exact (hinit g p hq).2

example : okSeq exP (build exP exInit) exOps := by decide +kernel
example : (run exP (build exP exInit) (exOps.take 2)).nt = 2 := by decide +kernel
example : (run exP (build exP exInit) (exOps.take 3)).defined 1 = [] := by decide +kernel

/-- The invariant in the words of the design: a residue is positioned iff it occurs **exactly once**
in the joined index lists (and never more than once), and `gndx_to_tree` maps it to the tree whose
list holds it; the stored tree points are the current positions. -/
theorem C16_inv_views (P : Params) (s : State) (h : Inv P s) :
    (∀ g, (s.pos g).isSome ↔ (definedList s).count g = 1) ∧
    (∀ g, (definedList s).count g ≤ 1) ∧
    (∀ g t, s.g2t g = some t ↔ (t < s.nt ∧ g ∈ s.defined t)) ∧
    (∀ t, t < s.nt → s.trees t = (s.defined t).map s.pos) := by
  refine ⟨?_, ?_, h.g2t_iff, fun t ht => h.trees_eq t ht (fun x => x)⟩
  · intro g
    rw [Proofs.Engine.count_definedList h g]
    by_cases hs : (s.pos g).isSome <;> simp [hs]
  · intro g
    rw [Proofs.Engine.count_definedList h g]
    split <;> omega

example : definedList (run exP (build exP exInit) (exOps.take 4)) = [0, 1, 2] := by decide +kernel

/-- **Refinement to the set of positioned residues.**  After every protocol-conforming history:
(1) the position table is the abstract map "last position given, none after removal", so `get_point`
returns it; (2) for every query point inside the box, every node and every exclusion list, the force
computed from the trees and index lists equals the specification's force: `inf` iff some positioned
residue within the cut-off is closer than the floor, otherwise the sum of the 12-6 pair forces
(minimum-image distance and direction) over exactly the positioned, non-excluded residues within the
cut-off (`C16_spec_exact` spells out "exactly"). -/
theorem C16_refines_set (P : Params) (hL : boxPos P.L) (pos0 : Nat → Option V3)
    (hinit : ∀ g p, pos0 g = some p → g < P.n ∧ inBox p P.L)
    (ops : List Op) (hok : okSeq P (build P pos0) ops) :
    (∀ g, getPoint (run P (build P pos0) ops) g = absRun pos0 ops g) ∧
    (∀ point g excl, inBox point P.L →
      force P (run P (build P pos0) ops) point g excl = specForce P (absRun pos0 ops) point g excl) := by
  have hinv0 : Inv P (build P pos0) := by
    apply Proofs.Engine.inv_build
    · intro g hs
      cases hq : pos0 g with
      | none => rw [hq] at hs; cases hs
      | some p => exact (hinit g p hq).1
    · intro g p hq; exact (hinit g p hq).2
  have hpos : (run P (build P pos0) ops).pos = absRun pos0 ops := Proofs.Engine.run_pos ops hinv0 hok
  have hinv := Proofs.Engine.inv_run ops hinv0 hok
  constructor
  · intro g; unfold getPoint; rw [hpos]
  · intro point g excl hp
    rw [Proofs.Engine.force_refines hinv hL point hp g excl, hpos]

example : boxPos exP.L := by decide +kernel
example : absRun exInit exOps 2 = some ⟨15 / 4, 1, 1⟩ ∧ absRun exInit exOps 0 = none ∧
    absRun exInit exOps 3 = none := by decide +kernel
/-- a query across the x-face: the residue at x = 15/4 is within the cut-off of x = 1/4 (distance 1/2) -/
example : (specNear exP (absRun exInit exOps) ⟨1 / 4, 1, 1⟩).map (·.1) = [2] := by decide +kernel

/-- **Exactly the positioned residues within the cut-off.**  The list the specification sums over
contains `(h, q, d²)` iff `h` is a residue currently positioned at `q` whose minimum-image distance `d`
to the query point is within the cut-off; and each residue occurs at most once. -/
theorem C16_spec_exact (P : Params) (m : Nat → Option V3) (point : V3) :
    (∀ e : Nat × V3 × Rat, e ∈ specNear P m point ↔
      e.1 < P.n ∧ m e.1 = some e.2.1 ∧ e.2.2 = minImageSq point e.2.1 P.L ∧ e.2.2 ≤ P.cut * P.cut) ∧
    ((specNear P m point).map (·.1)).Nodup :=
  ⟨Proofs.Engine.mem_specNear P m point, Proofs.Engine.nodup_specNear P m point⟩

/-- the residue at x = 15/4 seen from x = 1/4 across the face: index 2, its position, d² = 1/4 -/
example : ((2, ⟨15 / 4, 1, 1⟩, 1 / 4) : Nat × V3 × Rat) ∈ specNear exP (absRun exInit exOps) ⟨1 / 4, 1, 1⟩ := by
  decide +kernel

/-- Inside the box, the direction the force is applied along has exactly the length the magnitude was
computed for, and that length is `pbc_min_dist` (the KD-tree's distance, the `np.round` image vector and
the `%`-based minimum image agree).  The defect fixed in 173d860 violated the first equation. -/
theorem C16_force_vector_consistent (p q L : V3) (hL : boxPos L) (hp : inBox p L) (hq : inBox q L) :
    (minImageVec p q L).normSq = minImageSq p q L ∧ kdDistSq p q L = minImageSq p q L :=
  ⟨Proofs.Geometry.normSq_minImageVec p q L hL hp hq, Proofs.Geometry.kdDistSq_eq_minImageSq p q L hL hp hq⟩

example : minImageVec ⟨1 / 4, 1, 1⟩ ⟨15 / 4, 1, 1⟩ ⟨4, 3, 5⟩ = ⟨1 / 2, 0, 0⟩ := by decide +kernel

/-- **Pair force = negative gradient of the 12-6 potential** (ℝ).  For a pair of size `σ`, depth `ε`
and a non-zero separation vector `(x, y, z)` with `r = √(x²+y²+z²)`:
(radial) `V'(r) = −ljCoef σ ε r² · r`, and (gradient) every partial derivative of `(x,y,z) ↦ V(‖(x,y,z)‖)`
is minus the corresponding component `ljCoef σ ε r² · x` of the model's pair force. -/
theorem C16_force_gradient (sig eps : ℚ) (x y z : ℚ) (hne : 0 < x * x + y * y + z * z) :
    let r2 : ℚ := x * x + y * y + z * z
    let r : ℝ := Real.sqrt r2
    HasDerivAt (Proofs.LJ.V eps sig) (-(((ljCoef sig eps r2 : ℚ) : ℝ) * r)) r ∧
    HasDerivAt (fun u : ℝ => Proofs.LJ.V eps sig (Real.sqrt (u ^ 2 + ((y : ℝ) ^ 2 + (z : ℝ) ^ 2))))
      (-(((ljCoef sig eps r2 * x : ℚ) : ℝ))) x ∧
    HasDerivAt (fun u : ℝ => Proofs.LJ.V eps sig (Real.sqrt (u ^ 2 + ((x : ℝ) ^ 2 + (z : ℝ) ^ 2))))
      (-(((ljCoef sig eps r2 * y : ℚ) : ℝ))) y ∧
    HasDerivAt (fun u : ℝ => Proofs.LJ.V eps sig (Real.sqrt (u ^ 2 + ((x : ℝ) ^ 2 + (y : ℝ) ^ 2))))
      (-(((ljCoef sig eps r2 * z : ℚ) : ℝ))) z := by
  intro r2 r
  have hposR : (0 : ℝ) < ((r2 : ℚ) : ℝ) := by exact_mod_cast hne
  have hr0 : r ≠ 0 := ne_of_gt (Real.sqrt_pos.mpr hposR)
  have hsq : r ^ 2 = ((r2 : ℚ) : ℝ) := Real.sq_sqrt hposR.le
  have hcast : ((r2 : ℚ) : ℝ) = (x : ℝ) ^ 2 + (y : ℝ) ^ 2 + (z : ℝ) ^ 2 := by
    simp only [r2]; push_cast; ring
  refine ⟨?_, ?_, ?_, ?_⟩
  · have h := Proofs.LJ.lj_grad eps sig r hr0
    rw [← Proofs.LJ.ljCoefR_eq sig eps r hr0, hsq, ← Proofs.LJ.ljCoef_cast] at h
    exact h
  · have e : (x : ℝ) ^ 2 + ((y : ℝ) ^ 2 + (z : ℝ) ^ 2) = ((r2 : ℚ) : ℝ) := by rw [hcast]; ring
    have h := Proofs.LJ.lj_partial eps sig x ((y : ℝ) ^ 2 + (z : ℝ) ^ 2) (by rw [e]; exact hposR)
    rw [e, ← Proofs.LJ.ljCoef_cast] at h
    push_cast
    exact h
  · have e : (y : ℝ) ^ 2 + ((x : ℝ) ^ 2 + (z : ℝ) ^ 2) = ((r2 : ℚ) : ℝ) := by rw [hcast]; ring
    have h := Proofs.LJ.lj_partial eps sig y ((x : ℝ) ^ 2 + (z : ℝ) ^ 2) (by rw [e]; exact hposR)
    rw [e, ← Proofs.LJ.ljCoef_cast] at h
    push_cast
    exact h
  · have e : (z : ℝ) ^ 2 + ((x : ℝ) ^ 2 + (y : ℝ) ^ 2) = ((r2 : ℚ) : ℝ) := by rw [hcast]; ring
    have h := Proofs.LJ.lj_partial eps sig z ((x : ℝ) ^ 2 + (y : ℝ) ^ 2) (by rw [e]; exact hposR)
    rw [e, ← Proofs.LJ.ljCoef_cast] at h
    push_cast
    exact h

example : (0 : ℚ) < (1 / 2) * (1 / 2) + 0 * 0 + 0 * 0 := by norm_num

/-- minimum-image distances are symmetric -/
theorem C16_minimage_symm (a b L : V3) : minImageSq a b L = minImageSq b a L :=
  Proofs.Geometry.minImageSq_symm a b L

/-- … periodic in each box vector: translating a point by `k₁L₁e₁ + k₂L₂e₂ + k₃L₃e₃` changes nothing -/
theorem C16_minimage_periodic (a b L : V3) (hL : boxPos L) (kx ky kz : ℤ) :
    minImageSq ⟨a.x + L.x * kx, a.y + L.y * ky, a.z + L.z * kz⟩ b L = minImageSq a b L :=
  Proofs.Geometry.minImageSq_periodic a b L hL kx ky kz

example : minImageSq ⟨1 / 4 + 4 * (-2 : ℤ), 1 + 3 * (1 : ℤ), 1 + 5 * (0 : ℤ)⟩ ⟨15 / 4, 1, 1⟩ ⟨4, 3, 5⟩ = 1 / 4 ∧
    minImageSq ⟨15 / 4, 1, 1⟩ ⟨1 / 4, 1, 1⟩ ⟨4, 3, 5⟩ = 1 / 4 := by decide +kernel

/-- … and never exceed the direct distance -/
theorem C16_minimage_le_direct (a b L : V3) (hL : boxPos L) : minImageSq a b L ≤ (a - b).normSq :=
  Proofs.Geometry.minImageSq_le_direct a b L hL

example : minImageSq ⟨1 / 4, 1, 1⟩ ⟨15 / 4, 1, 1⟩ ⟨4, 3, 5⟩ = 1 / 4 ∧
    (V3.normSq ((⟨1 / 4, 1, 1⟩ : V3) - ⟨15 / 4, 1, 1⟩)) = 49 / 4 := by decide +kernel

/-- … and are bounded by half the box diagonal (each axis contributes at most `L/2`): no pair of points is
further apart than that under the minimum-image convention, wherever the two points are -/
theorem C16_minimage_le_half_box (a b L : V3) (hL : boxPos L) :
    0 ≤ minImageSq a b L ∧ minImageSq a b L ≤ (L.x * L.x + L.y * L.y + L.z * L.z) / 4 :=
  ⟨Proofs.Geometry.minImageSq_nonneg a b L, Proofs.Geometry.minImageSq_le_half_box a b L hL⟩

/-- the bound is attained (opposite corners of the half box) -/
example : minImageSq ⟨0, 0, 0⟩ ⟨2, 3 / 2, 5 / 2⟩ ⟨4, 3, 5⟩ = (4 * 4 + 3 * 3 + 5 * 5) / 4 := by decide +kernel

/-! ### without the protocol precondition -/

/-- **Position queries need no protocol.**  From any initial table whose positioned residues are rows of
`positions`, after EVERY operation sequence — `add` also onto a positioned residue, with any point — whose
`add`s name rows of `positions` (`g < n`; Python raises `IndexError` otherwise), `get_point` returns the
last position given, or undefined after removal.  (The invariant that survives is weaker than `Inv`:
`positions` and `gndx_to_tree` name the same residues; the index lists may hold a residue twice.) -/
theorem C16_getPoint_any_history (P : Params) (pos0 : Nat → Option V3)
    (hinit : ∀ g, (pos0 g).isSome → g < P.n)
    (ops : List Op) (hb : Proofs.EngineLayout.addsBounded P ops) :
    ∀ g, getPoint (run P (build P pos0) ops) g = absRun pos0 ops g := by
  intro g
  have := (Proofs.EngineLayout.weak_run ops (Proofs.EngineLayout.weak_build P pos0 hinit) hb).2
  unfold getPoint
  exact congrFun this g

/-- **The bulk position query** (`update_positions_in_molecules`).  After every operation sequence (same
hypotheses as `C16_getPoint_any_history`), what the molecules carry after the positions are handed back is, for
every node the engine knows, the last position given or UNDEFINED after removal — whatever coordinate the molecule
carried before (supplied coordinates, an earlier hand-back): no stale coordinate survives; nodes the engine does
not know are untouched. -/
theorem C16_handback (P : Params) (pos0 : Nat → Option V3)
    (hinit : ∀ g, (pos0 g).isSome → g < P.n)
    (ops : List Op) (hb : Proofs.EngineLayout.addsBounded P ops)
    (gndxOf : Nat × Nat → Option Nat) (old : Nat × Nat → Option V3) :
    (∀ k g, gndxOf k = some g →
      EngineLayout.handBack (run P (build P pos0) ops) gndxOf old k = absRun pos0 ops g) ∧
    (∀ k, gndxOf k = none → EngineLayout.handBack (run P (build P pos0) ops) gndxOf old k = old k) := by
  refine ⟨fun k g hk => ?_, fun k hk => ?_⟩
  · have := C16_getPoint_any_history P pos0 hinit ops hb g
    unfold getPoint at this
    simp only [EngineLayout.handBack, hk]
    exact this
  · simp only [EngineLayout.handBack, hk]

/-- residue 1 carried a supplied coordinate and was removed: the hand-back gives undefined, not the old value -/
example : EngineLayout.handBack (run exP (build exP exInit) [.remove [1]]) (fun k => if k.1 = 0 then some k.2 else none)
      (fun _ => some ⟨2, 1, 1⟩) (0, 1) = none ∧
    EngineLayout.handBack (run exP (build exP exInit) [.remove [1]]) (fun k => if k.1 = 0 then some k.2 else none)
      (fun _ => some ⟨2, 1, 1⟩) (3, 1) = some ⟨2, 1, 1⟩ := by decide +kernel

/-- a history that is NOT protocol-conforming: residue 1 is added again while positioned, then removed,
consolidated, and added outside the box -/
def exOpsAny : List Op :=
  [.add 1 ⟨3, 1, 1⟩ false, .add 2 ⟨1 / 2, 1, 1⟩ true, .add 1 ⟨7 / 2, 2, 1⟩ true, .remove [1, 0], .concat,
   .add 0 ⟨9, 9, 9⟩ false]

example : Proofs.EngineLayout.addsBounded exP exOpsAny ∧ ¬ okSeq exP (build exP exInit) exOpsAny := by
  decide +kernel
example : (getPoint (run exP (build exP exInit) exOpsAny) 0, getPoint (run exP (build exP exInit) exOpsAny) 1,
    getPoint (run exP (build exP exInit) (exOpsAny.take 3)) 1) = (some ⟨9, 9, 9⟩, none, some ⟨7 / 2, 2, 1⟩) := by
  decide +kernel

/-- **What `add` on a positioned residue does** (the precondition of `C16_inv` spelled out).  In a
consistent state with `g` positioned (at `q`, in tree `t`), `add g p start`, whichever branch it takes:
the position is overwritten by `p`; `gndx_to_tree` names the (new) last tree; the joined index lists are
the old ones with `g` appended, so `g` occurs exactly TWICE and every other residue as before; when no
tree is opened the last index list gets `g` appended and every other list is unchanged — so `g` is twice
in the last tree if `t` is the last tree, else once in `t` (whose search tree still holds `q`) and once in
the last tree.  A later removal erases the first occurrence in the last tree only. -/
theorem C16_double_add_characterised (P : Params) (s : State) (h : Inv P s) (g : Nat) (q p : V3)
    (start : Bool) (hq : s.pos g = some q) :
    let s' := add P s g p start
    s'.pos g = some p ∧ s'.g2t g = some (s'.nt - 1) ∧
    definedList s' = definedList s ++ [g] ∧ (definedList s').count g = 2 ∧
    (∀ g', g' ≠ g → (definedList s').count g' = (definedList s).count g' ∧ s'.pos g' = s.pos g' ∧
      s'.g2t g' = s.g2t g') ∧
    (¬ (start && decide (P.T < (s.trees (s.nt - 1)).length)) = true →
      s'.nt = s.nt ∧ s'.defined (s.nt - 1) = s.defined (s.nt - 1) ++ [g] ∧
      (∀ t, t ≠ s.nt - 1 → s'.defined t = s.defined t ∧ s'.trees t = s.trees t) ∧
      ∀ t, s.g2t g = some t →
        (s'.defined (s.nt - 1)).count g = (if t = s.nt - 1 then 2 else 1) ∧
        (t ≠ s.nt - 1 → (s'.defined t).count g = 1)) := by
  intro s'
  have hdl : definedList s' = definedList s ++ [g] := Proofs.EngineLayout.definedList_add P s h.nt_pos g p start
  have hcount : (definedList s).count g = 1 := by
    rw [Proofs.Engine.count_definedList h g, hq]; rfl
  have hcnt : ∀ t, t < s.nt → (s.defined t).count g = if s.g2t g = some t then 1 else 0 := by
    intro t ht
    by_cases hg : s.g2t g = some t
    · simp only [hg, if_true]
      exact List.count_eq_one_of_mem (h.nodup t ht) ((h.g2t_iff g t).mp hg).2
    · simp only [hg, if_false]
      exact List.count_eq_zero_of_not_mem (fun hm => hg ((h.g2t_iff g t).mpr ⟨ht, hm⟩))
  refine ⟨?_, ?_, hdl, ?_, ?_, ?_⟩
  · show (add P s g p start).pos g = some p
    unfold add; dsimp only; split <;> simp [upd]
  · show (add P s g p start).g2t g = some ((add P s g p start).nt - 1)
    unfold add; dsimp only; split <;> simp [upd]
  · rw [hdl, List.count_append, hcount]; simp
  · intro g' hne
    refine ⟨?_, ?_, ?_⟩
    · rw [hdl, List.count_append]
      have : List.count g' [g] = 0 := List.count_eq_zero_of_not_mem (by simpa using hne)
      omega
    · show (add P s g p start).pos g' = s.pos g'
      unfold add; dsimp only; split <;> simp [upd, hne]
    · show (add P s g p start).g2t g' = s.g2t g'
      unfold add; dsimp only; split <;> simp [upd, hne]
  · intro hno
    have hs' : s' = add P s g p start := rfl
    unfold add at hs'
    simp only [hno, Bool.false_eq_true, if_false] at hs'
    have hlast : s.nt - 1 < s.nt := by have := h.nt_pos; omega
    refine ⟨by rw [hs'], by rw [hs']; simp [upd], ?_, ?_⟩
    · intro t ht; rw [hs']; simp [upd, ht]
    · intro t hgt
      have htlt : t < s.nt := ((h.g2t_iff g t).mp hgt).1
      constructor
      · rw [hs']
        simp only [upd, if_true, List.count_append, hcnt _ hlast, hgt]
        by_cases e : t = s.nt - 1
        · simp [e]
        · have : ¬ (some t = some (s.nt - 1)) := fun hh => e (Option.some.inj hh)
          simp [e, this]
      · intro e
        rw [hs']
        simp only [upd, e, if_false, hcnt t htlt, hgt, if_true]

/-- non-vacuity: in the consistent state after the first two operations of `exOps` (two trees), residue 0
sits in tree 0 and residue 3 in the last tree; both cases of the characterisation occur -/
example : Inv exP (run exP (build exP exInit) (exOps.take 2)) :=
  C16_inv exP exInit exInit_ok (exOps.take 2) (by decide +kernel)
example :
    let s := run exP (build exP exInit) (exOps.take 2)
    (s.nt, s.g2t 0, s.g2t 3) = (2, some 0, some 1) ∧
    ((add exP s 0 ⟨3, 2, 2⟩ false).defined 0, (add exP s 0 ⟨3, 2, 2⟩ false).defined 1) = ([0, 1], [2, 3, 0]) ∧
    (add exP s 3 ⟨3, 2, 2⟩ false).defined 1 = [2, 3, 3] := by decide +kernel

/-! ### the global index layout built by `NonBondEngine.from_topology` -/

/-- three molecules, the first and the last with the same name; node keys not starting at 0 and not
contiguous; a template; a supplied coordinate inside the box and one exactly ON the upper x-face -/
def exMols : List Mol :=
  [⟨"X", [⟨3, "A", none, .absent⟩, ⟨7, "B", some "T", .given ⟨1, 1, 1⟩⟩]⟩,
   ⟨"Y", [⟨5, "B", none, .absent⟩]⟩,
   ⟨"X", [⟨1, "A", none, .given ⟨4, 1, 1⟩⟩, ⟨0, "C", none, .absent⟩]⟩]

def exBox : V3 := ⟨4, 3, 5⟩

/-- **The loop numbers the residues of the non-ignored molecules.**  Whenever `from_topology` gets as far
as the constructor, for ALL molecule lists and ignore lists: the keys assigned to `nodes_to_gndx` are, in
order, `(index of the molecule in molecules, node key)` of the `entries` (nodes of non-ignored molecules);
the values are `0, 1, …, n_atoms-1` in order; `n_atoms` = `_n_particles` of the non-ignored molecules =
number of entries; `atom_types` lists their template-or-resname; row `g` of `positions` is the supplied
coordinate of entry `g` (`inf` if none, and beyond `n_atoms` nothing is written). -/
theorem C16_layout_refines (L : V3) (ignore : List String) (mols : List Mol) (lay : Layout)
    (h : fromTopology L ignore mols = .ok lay) :
    lay.map.map (·.1) = (entries ignore mols).map keyOf ∧
    lay.map.map (·.2) = List.range lay.nAtoms ∧
    lay.nAtoms = (entries ignore mols).length ∧
    lay.nAtoms = nParticles (mols.filter fun m => !ignore.contains m.name) ∧
    lay.atypes = (entries ignore mols).map (·.2.atype) ∧
    (∀ g, lay.pos g = ((entries ignore mols)[g]?).bind (·.2.row)) := by
  unfold fromTopology at h
  cases hm : molLoop L ignore Acc.init mols with
  | error e => simp [hm] at h
  | ok acc =>
    simp only [hm] at h
    split at h
    · cases h
    · cases h
      obtain ⟨hg, _⟩ := Proofs.EngineLayout.good_molLoop L ignore mols Proofs.EngineLayout.good_init hm
      simp only [List.nil_append] at hg
      have hlen := Proofs.EngineLayout.length_entriesFrom ignore 0 mols
      refine ⟨hg.keys, ?_, hlen.symm, rfl, hg.atypes, hg.pos⟩
      show acc.map.map (·.2) = List.range (nParticles _)
      rw [← hlen]; exact hg.vals

example : (fromTopology exBox ["Y"] exMols).toOption.map (fun lay => (lay.map, lay.atypes, lay.nAtoms,
      (List.range 5).map lay.pos)) =
    some ([((0, 3), 0), ((0, 7), 1), ((2, 1), 2), ((2, 0), 3)], ["A", "T", "A", "C"], 4,
      [none, some ⟨1, 1, 1⟩, some ⟨4, 1, 1⟩, none, none]) := by decide +kernel

/-- (a) **The global indices are exactly 0, 1, …, N-1, in order**, `N = n_atoms = _n_particles` of the
non-ignored molecules: the map is injective, its range is exactly the rows of `positions`, there is one
atom type per row, and no row beyond `N` is written. -/
theorem C16_layout_gndx_range (L : V3) (ignore : List String) (mols : List Mol) (lay : Layout)
    (h : fromTopology L ignore mols = .ok lay) :
    lay.map.map (·.2) = List.range lay.nAtoms ∧ (lay.map.map (·.2)).Nodup ∧
    (∀ g, g < lay.nAtoms ↔ ∃ e ∈ lay.map, e.2 = g) ∧
    lay.map.length = lay.nAtoms ∧ lay.atypes.length = lay.nAtoms ∧
    lay.nAtoms = nParticles (mols.filter fun m => !ignore.contains m.name) ∧
    (∀ g, lay.nAtoms ≤ g → lay.pos g = none) := by
  obtain ⟨hk, hv, hn, hp, ha, hpos⟩ := C16_layout_refines L ignore mols lay h
  refine ⟨hv, by rw [hv]; exact List.nodup_range, ?_, ?_, ?_, hp, ?_⟩
  · intro g
    have : g < lay.nAtoms ↔ g ∈ lay.map.map (·.2) := by rw [hv]; simp
    rw [this, List.mem_map]
  · have := congrArg List.length hv; simpa using this
  · rw [ha, hn]; simp
  · intro g hg
    rw [hpos g, List.getElem?_eq_none (by omega)]; rfl

example : ((fromTopology exBox [] exMols).toOption.map fun lay => (lay.map.map (·.2), lay.nAtoms)) =
    some ([0, 1, 2, 3, 4], 5) := by decide +kernel

/-- (b) **Closed form of the global index**: the `j`-th node of the molecule at index `pre.length` of
`molecules` (not ignored) gets `gndx = (number of nodes of the non-ignored molecules before it) + j`, under
the key `(pre.length, node key)` — the index in `molecules`, ignored molecules counted. -/
theorem C16_layout_gndx_formula (L : V3) (ignore : List String) (pre post : List Mol) (m : Mol) (lay : Layout)
    (h : fromTopology L ignore (pre ++ m :: post) = .ok lay)
    (hig : ignore.contains m.name = false) (j : Nat) (hj : j < m.nodes.length) :
    lay.map[nParticles (pre.filter fun m => !ignore.contains m.name) + j]? =
      some ((pre.length, m.nodes[j].key), nParticles (pre.filter fun m => !ignore.contains m.name) + j) := by
  obtain ⟨hk, hv, _⟩ := C16_layout_refines L ignore _ lay h
  apply Proofs.EngineLayout.getElem?_of_maps hk hv
  rw [List.getElem?_map, Proofs.EngineLayout.entries_getElem ignore pre post m hig j hj]
  rfl

/-- the last molecule of `exMols` with `"Y"` ignored: index 2 in `molecules`, offset 2 = nodes of molecule 0 -/
example : ((fromTopology exBox ["Y"] exMols).toOption.map fun lay => lay.map[2 + 1]?) =
    some (some ((2, 0), 3)) := by decide +kernel

/-- (c) **No entry of the dict is lost**: if node keys are distinct within each molecule (they are the
nodes of a graph), the keys assigned to `nodes_to_gndx` are pairwise distinct, so no assignment overwrites
another one: reading the dict at the key of any assignment gives that assignment's index, and the dict has
`n_atoms` entries. -/
theorem C16_layout_keys_nodup (L : V3) (ignore : List String) (mols : List Mol) (lay : Layout)
    (h : fromTopology L ignore mols = .ok lay)
    (hkeys : ∀ m ∈ mols, (m.nodes.map (·.key)).Nodup) :
    (lay.map.map (·.1)).Nodup ∧ (∀ e ∈ lay.map, dictOf lay.map e.1 = some e.2) ∧
    (lay.map.map (·.1)).length = lay.nAtoms := by
  obtain ⟨hk, hv, hn, _⟩ := C16_layout_refines L ignore mols lay h
  have hnd : (lay.map.map (·.1)).Nodup := by
    rw [hk]; exact Proofs.EngineLayout.nodup_keys_entriesFrom ignore 0 mols hkeys
  refine ⟨hnd, fun e he => Proofs.EngineLayout.dictOf_mem lay.map hnd e he, ?_⟩
  rw [hk, hn]; simp

example : ∀ m ∈ exMols, (m.nodes.map (·.key)).Nodup := by decide +kernel
/-- the hypothesis is needed: a molecule listing a key twice makes the dict lose an entry -/
example : ((fromTopology exBox [] [⟨"Z", [⟨4, "A", none, .absent⟩, ⟨4, "A", none, .absent⟩]⟩]).toOption.map
    fun lay => (lay.map, dictOf lay.map (0, 4))) = some ([((0, 4), 0), ((0, 4), 1)], some 1) := by decide +kernel

/-- (d) **Ignored molecules are not part of the engine, all others keep the index they have in
`molecules`**: `(i, k)` is a key iff the `i`-th molecule of `molecules` is not ignored and has a node with
key `k`. -/
theorem C16_layout_keys_iff (L : V3) (ignore : List String) (mols : List Mol) (lay : Layout)
    (h : fromTopology L ignore mols = .ok lay) (i k : Nat) :
    (∃ g, ((i, k), g) ∈ lay.map) ↔
      ∃ m, mols[i]? = some m ∧ ignore.contains m.name = false ∧ ∃ nd ∈ m.nodes, nd.key = k := by
  obtain ⟨hk, _⟩ := C16_layout_refines L ignore mols lay h
  have hmem : (∃ g, ((i, k), g) ∈ lay.map) ↔ (i, k) ∈ lay.map.map (·.1) := by
    rw [List.mem_map]
    constructor
    · rintro ⟨g, hg⟩; exact ⟨_, hg, rfl⟩
    · rintro ⟨e, he, hek⟩; exact ⟨e.2, by rw [← hek]; exact he⟩
  rw [hmem, hk, List.mem_map]
  constructor
  · rintro ⟨⟨i', nd⟩, he, hkey⟩
    simp only [keyOf, Prod.mk.injEq] at hkey
    obtain ⟨rfl, rfl⟩ := hkey
    obtain ⟨_, m, hm, hig, hnd⟩ := (Proofs.EngineLayout.mem_entriesFrom ignore 0 mols i' nd).mp he
    exact ⟨m, by simpa using hm, hig, nd, hnd, rfl⟩
  · rintro ⟨m, hm, hig, nd, hnd, rfl⟩
    exact ⟨(i, nd), (Proofs.EngineLayout.mem_entriesFrom ignore 0 mols i nd).mpr
      ⟨Nat.zero_le _, m, by simpa using hm, hig, hnd⟩, rfl⟩

/-- with "X" ignored only molecule 1 remains — under its index 1, not 0 -/
example : ((fromTopology exBox ["X"] exMols).toOption.map fun lay => lay.map) = some [((1, 5), 0)] := by
  decide +kernel

/-- (e) **Type and row of every global index**: if entry `g` is node `nd` of molecule `i`, then
assignment `g` is `nodes_to_gndx[(i, nd.key)] = g`, `atom_types[g]` is the node's template name (its
resname when there is no template), and row `g` of `positions` is the supplied coordinate (else `inf`). -/
theorem C16_layout_atypes (L : V3) (ignore : List String) (mols : List Mol) (lay : Layout)
    (h : fromTopology L ignore mols = .ok lay) (g : Nat) (e : Nat × Node)
    (he : (entries ignore mols)[g]? = some e) :
    lay.map[g]? = some ((e.1, e.2.key), g) ∧ lay.atypes[g]? = some (e.2.template.getD e.2.resname) ∧
    lay.pos g = e.2.row := by
  obtain ⟨hk, hv, _, _, ha, hpos⟩ := C16_layout_refines L ignore mols lay h
  refine ⟨?_, ?_, ?_⟩
  · apply Proofs.EngineLayout.getElem?_of_maps hk hv
    rw [List.getElem?_map, he]; rfl
  · rw [ha, List.getElem?_map, he]; rfl
  · rw [hpos g, he]; rfl

example : (entries ["Y"] exMols)[1]? = some (0, ⟨7, "B", some "T", .given ⟨1, 1, 1⟩⟩) := by decide +kernel

/-- (f) **Which inputs are refused with `IOError`**: exactly those where a node of a non-ignored molecule
carries a coordinate that is not finite or not inside the CLOSED box `0 ≤ pᵢ ≤ Lᵢ`
(`not_exceeds_max_dimensions`); coordinates of ignored molecules are not looked at. -/
theorem C16_layout_rejects_iff (L : V3) (ignore : List String) (mols : List Mol) :
    fromTopology L ignore mols = .error .reject ↔ ∃ e ∈ entries ignore mols, e.2.posOk L = false := by
  unfold fromTopology
  have hiff := Proofs.EngineLayout.molLoop_error L ignore mols Acc.init
  cases hm : molLoop L ignore Acc.init mols with
  | error e =>
    have := Proofs.EngineLayout.molLoop_error_reject L ignore mols Acc.init e hm
    subst this
    simp only [true_iff]
    exact hiff.mp ⟨_, hm⟩
  | ok acc =>
    have hno : ¬ ∃ e ∈ entries ignore mols, e.2.posOk L = false := by
      intro hex
      obtain ⟨e, he⟩ := hiff.mpr hex
      rw [hm] at he; cases he
    simp only [hno, iff_false]
    split <;> simp

/-- ON the upper face: accepted by the check (closed end); beyond it, negative, or non-finite: refused;
a bad coordinate in an ignored molecule: not looked at -/
example : (fromTopology exBox [] exMols).toOption.isSome = true ∧
    fromTopology exBox [] [⟨"Z", [⟨0, "A", none, .given ⟨4 + 1 / 64, 1, 1⟩⟩]⟩] = .error .reject ∧
    fromTopology exBox [] [⟨"Z", [⟨0, "A", none, .given ⟨1, -1 / 64, 1⟩⟩]⟩] = .error .reject ∧
    fromTopology exBox [] [⟨"Z", [⟨0, "A", none, .nonFinite⟩]⟩] = .error .reject ∧
    (fromTopology exBox ["Z"] [⟨"Z", [⟨0, "A", none, .nonFinite⟩]⟩, ⟨"W", [⟨0, "A", none, .absent⟩]⟩]).toOption.isSome
      = true := by
  refine ⟨by decide +kernel, ?_, ?_, ?_, by decide +kernel⟩ <;>
    (rw [C16_layout_rejects_iff]; decide +kernel)

/-- (g) **The layout is an admissible initial table for the engine theorems**: if the constructor's
KD-tree accepts the rows (every supplied coordinate inside the half-open box), the position table
satisfies the hypothesis of `C16_inv` / `C16_refines_set` with `n = n_atoms`. -/
theorem C16_layout_admissible (L : V3) (ignore : List String) (mols : List Mol) (lay : Layout)
    (h : fromTopology L ignore mols = .ok lay) (ht : treeAccepts L lay = true) :
    ∀ g p, lay.pos g = some p → g < lay.nAtoms ∧ inBox p L := by
  intro g p hp
  have hlt : g < lay.nAtoms := by
    by_contra hge
    have := (C16_layout_gndx_range L ignore mols lay h).2.2.2.2.2.2 g (by omega)
    rw [this] at hp; cases hp
  refine ⟨hlt, ?_⟩
  unfold treeAccepts at ht
  rw [List.all_eq_true] at ht
  have := ht g (by simpa using hlt)
  rw [hp] at this
  simpa using this

/-- the coordinate on the upper face passes the check of `from_topology` but not the KD-tree -/
example : ((fromTopology exBox [] exMols).toOption.map (treeAccepts exBox)) = some false ∧
    ((fromTopology exBox ["X"] exMols).toOption.map (treeAccepts exBox)) = some true := by decide +kernel

/-- Why the protocol precondition is there (recorded, not excluded silently): adding onto a residue
that is already positioned leaves it twice in the index list, and a force query counts it twice —
the model's force is no longer the specification's force.  The program never does this
(`add_positions` is only called for nodes without position); see notes/C16_findings.md. -/
theorem C16_double_add_counts_twice :
    let s := add exP (build exP exInit) 1 ⟨2, 1, 1⟩ false
    s.defined 0 = [0, 1, 1] ∧
    force exP s ⟨11 / 4, 1, 1⟩ 4 [] ≠ specForce exP s.pos ⟨11 / 4, 1, 1⟩ 4 [] := by
  decide +kernel

end PolyplyVerif.C16
