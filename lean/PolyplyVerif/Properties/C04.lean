/-
C04 — supplied coordinates are preserved; only missing parts are built.

"Atoms whose coordinates are given in the input structure keep exactly those coordinates in the output,
residues given only as centre positions are backmapped around exactly those centres, and residues named
for rebuilding or missing from the input are the only ones generated. Molecules listed to be ignored are
not moved and do not disturb the building of the others wherever they occur in the topology, and a
failed placement attempt never alters or discards supplied coordinates."

Property theorems only (helper lemmas: Proofs/Supply.lean, Proofs/Walk.lean).  The models
(`Model/Supply.lean`, `Model/Walk.lean`) are tied to /repo by harness/c04.py: correspondence of
`consume` with the real `Topology.add_positions_from_file`, of `gndxTable` with the real
`NonBondEngine.from_topology(..., ignore)`, of the retry machine with the real `BuildSystem` under
scripted schedules, and the end-to-end oracle on the real `gen_coords` (input .gro vs output .gro).
-/
import PolyplyVerif.Model.Supply
import PolyplyVerif.Proofs.Supply
import PolyplyVerif.Proofs.WalkGiveup
import PolyplyVerif.Proofs.ComposeFinalCoords

namespace PolyplyVerif.C04
open PolyplyVerif PolyplyVerif.Supply PolyplyVerif.Walk

/-- **Consumption.**  If `add_positions_from_file` does not reject the file, then for EVERY residue
list, coordinate list, set of names to skip and both resolutions, residue `i` gets exactly what the
property demands (`expected`) at the offset `offset i` = number of coordinates of the residues before it
that are not skipped by name:
* skipped by name, or no coordinate left at its offset: `build = backmap = true`, nothing assigned, nothing read;
* centre-only input (`-mc`): `build = false`, `backmap = true`, position `ps[offset]`;
* otherwise (`-c`): `build = backmap = false`, its atoms in `index` order receive exactly the slice
  `ps[offset, offset + |atoms|)` and its position is the mean of that slice. -/
theorem C04_consume (skip : List String) (metaRes : Bool) (ps : List V3) (rs : List Res)
    (outs : List ResOut) (h : consume skip metaRes ps rs 0 = some outs) :
    outs.length = rs.length ∧
    ∀ i r, rs[i]? = some r → outs[i]? = some (expected skip metaRes ps r (offset skip metaRes rs i)) := by
  have := consume_spec skip metaRes ps rs 0 outs h
  simpa using this

/-- … and in every case a residue is marked to be built exactly when it received no position, and a
residue that received atom coordinates is not backmapped: the flags are consistent (this is the
hypothesis `Mol.WF.buildNoPos / keepHasPos` of the C17 theorems for a fresh topology). -/
theorem C04_consume_flags (skip : List String) (metaRes : Bool) (ps : List V3) (r : Res) (off : Nat) :
    let o := expected skip metaRes ps r off
    (o.build = true ↔ o.pos = none) ∧ (o.atomPos ≠ [] → o.backmap = false) ∧
    (o.build = true → o.backmap = true) := by
  unfold expected
  split
  · simp
  · split <;> simp

example : (consume ["B"] false [(1, 0, 0), (2, 0, 0), (3, 0, 0), (4, 0, 0)]
    [⟨"A", [(0, 1), (1, 0)]⟩, ⟨"B", [(2, 0)]⟩, ⟨"A", [(3, 0), (4, 1)]⟩, ⟨"A", [(5, 0)]⟩] 0).isSome = true ∧
    offset ["B"] false [⟨"A", [(0, 1), (1, 0)]⟩, ⟨"B", [(2, 0)]⟩, ⟨"A", [(3, 0), (4, 1)]⟩, ⟨"A", [(5, 0)]⟩] 2 = 2 ∧
    sortByIndex [(0, 1), (1, 0)] = [1, 0] := by decide

/-- **Excluded point, reachable through `-c` together with `-mc`** (KNOWN-FINDING shape
`combined-c-and-mc`): both files are read from the first residue on, so a residue whose atoms were given
with `-c` but that lies beyond the centres of `-mc` ends up flagged `build = true` while it keeps its
position — the state `build ∧ supplied` that `Mol.WF.buildNoPos` (hypothesis of the C17 theorems and of
`C04_ignore_rest_complete`) excludes and that a single call never produces (`C04_consume_flags`).
Three one-atom residues, three coordinates with `-c`, one centre with `-mc`. -/
theorem C04_combined_counterexample :
    ∃ outs, consumeBoth [] [(1, 0, 0), (2, 0, 0), (3, 0, 0)] [(1, 0, 0)]
        [⟨"A", [(0, 0)]⟩, ⟨"A", [(1, 0)]⟩, ⟨"A", [(2, 0)]⟩] = some outs ∧
      ∃ o, outs[1]? = some o ∧ o.build = true ∧ o.pos.isSome = true ∧ o.atomPos ≠ [] := by
  refine ⟨_, rfl, _, rfl, ?_⟩
  decide

/-- **Supplied positions survive every schedule.**  For every system (no hypothesis on it), every
rewind depth, every schedule of trial outcomes — hence every pattern of failed steps, rewinds, abandoned
attempts and retries — at every reachable state the engine holds, for every residue of a non-ignored
molecule that has a supplied position and is not to be built, exactly the supplied position. -/
theorem C04_supplied_invariant (cfg : Cfg) (mols : List Mol) (sched : List Bool)
    (j : Nat) (m : Mol) (n : Node) (v : Nat) (hm : mols[j]? = some m) (hig : m.ignored = false)
    (hs : m.sup n = some v) (hb : m.isBuild n = false) :
    (run cfg mols sched (init mols)).eng j n = some v :=
  (sup_run sched _ (sup_init mols)).kept j m n v hm hig hs hb

/-- **… also through the give-up branch of `_handle_random_walk`.**  With the branch
`if step_count == self.maxiter` spelled out (`Walk.stepG`: after `maxiter + 1` failed attempts the call
returns `False` and `_compose_system` starts over with the same molecule), for EVERY value of
`BuildSystem.maxiter` and every schedule, a supplied residue that is not to be built holds exactly its
supplied position at every reachable state: giving up removes the built residues only. -/
theorem C04_supplied_invariant_giveup (cfg : Cfg) (bsMaxiter : Nat) (mols : List Mol) (sched : List Bool)
    (j : Nat) (m : Mol) (n : Node) (v : Nat) (hm : mols[j]? = some m) (hig : m.ignored = false)
    (hs : m.sup n = some v) (hb : m.isBuild n = false) :
    (runG cfg bsMaxiter mols sched (initG mols)).sys.eng j n = some v := by
  rw [Proofs.WalkGiveup.runG_sys]
  exact C04_supplied_invariant cfg mols sched j m n v hm hig hs hb

/-- … and this is what is written back to the molecules at the end, for ignored molecules too. -/
theorem C04_supplied_written_back (cfg : Cfg) (mols : List Mol) (sched : List Bool)
    (j : Nat) (m : Mol) (n : Node) (v : Nat) (hm : mols[j]? = some m)
    (hs : m.sup n = some v) (hb : m.isBuild n = false) :
    writeBack mols (run cfg mols sched (init mols)).eng j n = some v := by
  unfold writeBack
  simp only [hm]
  cases hig : m.ignored with
  | true => simpa using hs
  | false => simpa using C04_supplied_invariant cfg mols sched j m n v hm hig hs hb

/-- chain 0-1-2-3 rooted at 1 with residue 1 supplied, an ignored molecule, a molecule to build -/
def exMols : List Mol :=
  [⟨[0, 1, 2, 3], [(1, 0), (1, 2), (2, 3)], 1, [0, 2, 3], [(1, 900)], false⟩,
   ⟨[0, 1], [(0, 1)], 0, [], [(0, 901), (1, 902)], true⟩,
   ⟨[5, 6, 7], [(5, 6), (5, 7)], 5, [5, 6, 7], [], false⟩]

example : (run ⟨2, 80⟩ exMols [false, true, false, false] (init exMols)).eng 0 1 = some 900 :=
  C04_supplied_invariant _ _ _ 0 _ 1 900 rfl rfl (by decide) (by decide)
/-- the schedule above abandons two attempts -/
example : (run ⟨2, 80⟩ exMols [false, true, false, false] (init exMols)).phase = .walk ⟨0, 0, []⟩ := by decide
/-- `maxiter = 0`: every abandoned attempt of the schedule above is a give-up (`False` returned three times) -/
example : (runG ⟨2, 80⟩ 0 exMols [false, true, false, false] (initG exMols)).returns = [(0, false), (0, false), (0, false)] ∧
    (runG ⟨2, 80⟩ 0 exMols [false, true, false, false] (initG exMols)).sys.eng 0 1 = some 900 := by decide
example : gndxTable exMols 0 0 = [((0, 0), 0), ((0, 1), 1), ((0, 2), 2), ((0, 3), 3), ((2, 5), 4), ((2, 6), 5), ((2, 7), 6)] := by
  decide

/-- **Ignore: the index table.**  With ignored molecule types at arbitrary places of `[molecules]`,
the engine's table has an entry exactly for the residues of the non-ignored molecules, keyed by the
molecule's index in the full topology, and the entries are the distinct indices `0, 1, 2, …`. -/
theorem C04_ignore_table (mols : List Mol) :
    ((gndxTable mols 0 0).map (·.2) = List.range (gndxTable mols 0 0).length) ∧
    ∀ j n, (j, n) ∈ (gndxTable mols 0 0).map (·.1) ↔
      ∃ m, mols[j]? = some m ∧ m.ignored = false ∧ n ∈ m.nodes := by
  refine ⟨by rw [gndx_values, List.range_eq_range'], ?_⟩
  intro j n
  rw [gndx_keys]
  simp

/-- **Ignore: the residue types are not shifted.**  At the global index of every indexed residue the
engine's type list (`atypes`, which decides residue sizes, step lengths and forces) holds the type of
that very residue, wherever ignored molecules stand in the list: ignored molecules do not disturb the
building of the others. -/
theorem C04_ignore_types (nm : Nat → Node → String) (mols : List Mol) (j : Nat) (n : Node) (g : Nat)
    (h : ((j, n), g) ∈ gndxTable mols 0 0) : (atypeTable nm mols 0)[g]? = some (nm j n) := by
  simpa using atype_aligned nm mols 0 0 ((j, n), g) h

example : atypeTable (fun j _ => if j = 0 then "RA" else "RB") exMols 0 = ["RA", "RA", "RA", "RA", "RB", "RB", "RB"] := by
  decide

/-- **Ignore: never addressed, never moved.**  For every schedule (no hypothesis on the system): a
trial — the only place where the engine is asked to add, remove or evaluate a position — is never for
a residue of an ignored molecule; an ignored molecule has no engine entry at any reachable state; and
what is written back for it is exactly what was supplied. -/
theorem C04_ignore_untouched (cfg : Cfg) (mols : List Mol) (sched : List Bool) :
    (∀ i p c, (run cfg mols sched (init mols)).trial mols = some (i, p, c) →
      ∃ m, mols[i]? = some m ∧ m.ignored = false) ∧
    (∀ j m n, mols[j]? = some m → m.ignored = true →
      (run cfg mols sched (init mols)).eng j n = none ∧
      writeBack mols (run cfg mols sched (init mols)).eng j n = m.sup n) := by
  constructor
  · intro i p c h
    exact work_not_ignored (todo_subset_work cfg mols sched i (trial_head h))
  · intro j m n hm hig
    have hjw : j ∉ work mols := by
      intro h
      obtain ⟨m', hm', hig'⟩ := work_not_ignored h
      rw [hm] at hm'; cases hm'; rw [hig] at hig'; cases hig'
    have hinit : (init mols).todo = work mols := (beginAttempt_eng mols _ _ _).2
    have hie : (init mols).eng = initEngine mols := (beginAttempt_eng mols _ _ _).1
    have := run_frame cfg mols sched (init mols) j (by rw [hinit]; exact hjw) n
    refine ⟨?_, by simp [writeBack, hm, hig]⟩
    rw [this, hie]
    simp [initEngine, hm, hig]

/-- **Ignore: the rest is fully built.**  If the run ends, every residue of every molecule that is
not ignored has a position, wherever the ignored molecules stand in the list. -/
theorem C04_ignore_rest_complete (cfg : Cfg) (mols : List Mol) (wfs : AllWF mols) (sched : List Bool)
    (hdone : (run cfg mols sched (init mols)).phase = .done) (j : Nat) (m : Mol)
    (hm : mols[j]? = some m) (hig : m.ignored = false) (n : Node) (hn : n ∈ m.nodes) :
    (writeBack mols (run cfg mols sched (init mols)).eng j n).isSome = true := by
  simp only [writeBack, hm, hig]
  exact Proofs.Walk.complete cfg mols wfs sched hdone j m hm hig n hn

/-- **Backmapping frame.**  For every list of residues, every orientation of the templates and every
fudge factor: an atom that belongs to no residue flagged `backmap` keeps its coordinates through
`_place_init_coords` … -/
theorem C04_backmap_frame (fudge : Rat) (rs : List BRes) (c : Coords) (a : Nat)
    (h : ∀ r ∈ rs, r.backmap = true → a ∉ r.atoms.map (·.1)) : placeInit fudge rs c a = c a :=
  placeInit_other fudge rs c a h

/-- … an atom of a residue flagged `backmap` ends at `centre + fudge • (oriented template vector)`
(atoms belong to one residue) … -/
theorem C04_backmap_placed (fudge : Rat) (pre : List BRes) (r : BRes) (post : List BRes) (c : Coords)
    (a : Nat) (v : V3) (hb : r.backmap = true) (hl : r.atoms.lookup a = some v)
    (hpost : ∀ r' ∈ post, r'.backmap = true → a ∉ r'.atoms.map (·.1)) :
    placeInit fudge (pre ++ r :: post) c a = some (V3.add r.centre (V3.smul fudge v)) :=
  placeInit_own fudge pre r post c a v hb hl hpost

/-- … and the centre of geometry of these atoms is exactly the residue's centre whenever the oriented
template is centred (rotations keep a centred template centred: C06; templates are centred: C15). -/
theorem C04_backmap_centre (centre : V3) (fudge : Rat) (vs : List V3) (hne : vs ≠ [])
    (hz : V3.sum vs = V3.zero) :
    cog (vs.map (fun v => V3.add centre (V3.smul fudge v))) = centre :=
  cog_placed centre fudge vs hne hz

example : V3.sum [((1 : Rat), (0 : Rat), (-2 : Rat)), (-1, 0, 2)] = V3.zero ∧
    ([((1 : Rat), (0 : Rat), (-2 : Rat)), (-1, 0, 2)] : List V3) ≠ [] := by
  constructor
  · simp [V3.sum, V3.add, V3.zero]
  · simp

example : placeInit (1/2) [⟨false, (0, 0, 0), [(0, (1, 1, 1))]⟩, ⟨true, (5, 5, 5), [(1, (2, 0, 0))]⟩]
    (fun a => if a = 0 then some (9, 9, 9) else none) 0 = some (9, 9, 9) :=
  C04_backmap_frame _ _ _ 0 (by intro r hr hb; simp at hr; rcases hr with rfl | rfl <;> simp_all)

end PolyplyVerif.C04

/-! ## end-to-end composition (appended; helper lemmas and bridge functions: Proofs/ComposeFinalCoords.lean) -/

namespace PolyplyVerif.C04
open PolyplyVerif PolyplyVerif.Supply PolyplyVerif.Walk

/-! ### composition: the coordinate every atom ends with (C04 ∘ C17 ∘ C06) -/

/-- **C04_final_coordinates.**  For every system whose built molecules are well formed, every rewind depth and
EVERY schedule of trial outcomes: if the build ends, then for every molecule `j` of the topology (an ignored
one must carry a position for every residue: `hign`, what `-ign` needs), after
`update_positions_in_molecules` and `Backmap._place_init_coords` (`Compose.finalCoords`):

* an atom that belongs to no residue flagged `backmap` has exactly the coordinate it had on entry (`c0`, the
  supplied coordinate; C04_consume gives `backmap = false` exactly to residues supplied atom by atom);
* an atom `at'` of a residue `n` flagged `backmap` (atom keys distinct inside the residue, the key in no other
  residue, its name a key of the residue's template `t`) has the coordinate
  `coord p + fudge · (R · t[name])` with `R = rotMat (angles of the residue)` (C06) and `p` the position
  identifier the engine/write-back holds for the residue — which EXISTS (`C17_complete`), IS the supplied
  centre when the residue has one and is not rebuilt (`C04_supplied_written_back`), and is otherwise what
  the engine holds (the generated position).

Bridges (`Proofs/ComposeFinalCoords.lean`): `coord` interprets position identifiers of the walk model as
coordinates (arbitrary); `Compose.ResInfo`/`backmapInput`/`toBRes` build the input of `Supply.placeInit`
from C06's residue description, `Compose.tup` converts C06's vectors to C04's. -/
theorem C04_final_coordinates (cfg : Cfg) (mols : List Mol) (wfs : AllWF mols) (sched : List Bool)
    (hdone : (run cfg mols sched (init mols)).phase = .done)
    (coord : Nat → V3) (fudge : Rat) (T : List (String × Rot.Template Rat))
    (j : Nat) (m : Mol) (hm : mols[j]? = some m)
    (hign : m.ignored = true → ∀ n ∈ m.nodes, (m.sup n).isSome = true)
    (info : Node → Compose.ResInfo) (c0 : Coords) :
    (∀ a, (∀ n ∈ m.nodes, (info n).backmap = true → a ∉ (info n).atoms.map (·.key)) →
      Compose.finalCoords fudge T coord mols (run cfg mols sched (init mols)).eng j m info c0 a = c0 a) ∧
    (∀ n ∈ m.nodes, (info n).backmap = true → ((info n).atoms.map (·.key)).Nodup →
      ∀ at' ∈ (info n).atoms, (∀ n' ∈ m.nodes, n' ≠ n → at'.key ∉ (info n').atoms.map (·.key)) →
      ∀ t, Rot.klookup T (info n).template = some t → ∀ v, Rot.tlookup t at'.name = some v →
      ∃ p, writeBack mols (run cfg mols sched (init mols)).eng j n = some p ∧
        (∀ s, m.sup n = some s → m.isBuild n = false → p = s) ∧
        (m.ignored = false → (run cfg mols sched (init mols)).eng j n = some p) ∧
        Compose.finalCoords fudge T coord mols (run cfg mols sched (init mols)).eng j m info c0 at'.key =
          some (V3.add (coord p) (V3.smul fudge (Compose.tup ((Rot.rotMat (info n).ang).mulVec v))))) := by
  refine ⟨fun a h => Compose.final_kept fudge T coord mols _ j m info c0 a h, ?_⟩
  intro n hn hb hnd at' hat hother t ht v hv
  have hsome : (writeBack mols (run cfg mols sched (init mols)).eng j n).isSome = true := by
    cases hig : m.ignored with
    | false => exact C04_ignore_rest_complete cfg mols wfs sched hdone j m hm hig n hn
    | true => simpa [writeBack, hm, hig] using hign hig n hn
  obtain ⟨p, hp⟩ := Option.isSome_iff_exists.mp hsome
  refine ⟨p, hp, ?_, ?_, Compose.final_placed fudge T coord mols _ j m info c0 n hn hb at' hat hnd hother t ht v hv p hp⟩
  · intro s hs hbuild
    have := C04_supplied_written_back cfg mols sched j m n s hm hs hbuild
    rw [hp] at this
    exact Option.some.inj this
  · intro hig
    simpa [writeBack, hm, hig] using hp

/-- the two models of `_place_init_coords` agree: what C06's model writes for a backmapped residue is the centre
plus `fudge` times exactly the oriented vectors the bridge hands to C04's model -/
theorem C04_backmap_models_agree (f : Rat) (T : List (String × Rot.Template Rat)) (r : Rot.Res Rat)
    (hb : r.backmap = true) (placed : List (Nat × Rot.V3 Rat)) (h : Rot.placeRes f T r = some placed) :
    placed.map (fun p => (p.1, Compose.tup p.2)) =
      (Compose.orientedAtoms T r).map (fun kw => (kw.1, V3.add (Compose.tup r.pos) (V3.smul f kw.2))) :=
  Compose.placeRes_agrees f T r hb placed h

/-- residue data of the instance: residue 1 of molecule 0 was supplied atom by atom (atoms 10, 11, not
backmapped); every other residue `n` is backmapped with atoms `2n+20` (`A`) and `2n+21` (`B`), turned by a
quarter turn about z -/
def exInfo (n : Node) : Compose.ResInfo :=
  if n = 1 then ⟨false, "T", [⟨10, "A"⟩, ⟨11, "B"⟩], ⟨1, 0, 1, 0, 1, 0⟩⟩
  else ⟨true, "T", [⟨2 * n + 20, "A"⟩, ⟨2 * n + 21, "B"⟩], ⟨1, 0, 1, 0, 0, 1⟩⟩

def exT : List (String × Rot.Template Rat) := [("T", [("A", ⟨1, 0, 0⟩), ("B", ⟨-1, 0, 0⟩)])]
def exC0 : Coords := fun a => if a = 10 then some (9, 9, 9) else if a = 11 then some (8, 8, 8) else none
def exSched : List Bool := [true, true, false, true, true, true, true, true]

theorem exMols_wf : AllWF exMols := by
  intro j hj m hm
  have hw : work exMols = [0, 2] := by decide
  rw [hw] at hj
  simp at hj
  rcases hj with rfl | rfl
  · simp [exMols] at hm; subst hm; exact Proofs.Walk.wfCheck_sound _ (by decide)
  · simp [exMols] at hm; subst hm; exact Proofs.Walk.wfCheck_sound _ (by decide)

/-- Non-vacuity on the system of C04/C17 (supplied residue, ignored molecule, a rewind in the schedule): the run
ends; the supplied atom 10 keeps `(9,9,9)`; atom 24 (`A` of the generated residue 2, identifier 2 → centre
`(2,0,0)`) ends at `(2,0,0) + 1/2 · R(1,0,0) = (2, 1/2, 0)`. -/
example :
    (run ⟨2, 80⟩ exMols exSched (init exMols)).phase = .done ∧
    Compose.finalCoords (1 / 2) exT (fun p => ((p : Rat), 0, 0)) exMols (run ⟨2, 80⟩ exMols exSched (init exMols)).eng 0
        exMols[0] exInfo exC0 10 = some (9, 9, 9) ∧
    Compose.finalCoords (1 / 2) exT (fun p => ((p : Rat), 0, 0)) exMols (run ⟨2, 80⟩ exMols exSched (init exMols)).eng 0
        exMols[0] exInfo exC0 24 = some (2, 1 / 2, 0) := by
  have hdone : (run ⟨2, 80⟩ exMols exSched (init exMols)).phase = .done := by decide
  obtain ⟨h1, h2⟩ := C04_final_coordinates ⟨2, 80⟩ exMols exMols_wf exSched hdone (fun p => ((p : Rat), 0, 0)) (1 / 2) exT
    0 exMols[0] rfl (by decide) exInfo exC0
  refine ⟨hdone, ?_, ?_⟩
  · rw [h1 10]
    · rfl
    · decide
  · obtain ⟨p, hp, _, heng, hfin⟩ := h2 2 (by decide) (by decide) (by decide) ⟨24, "A"⟩ (by decide) (by decide)
      [("A", ⟨1, 0, 0⟩), ("B", ⟨-1, 0, 0⟩)] rfl ⟨1, 0, 0⟩ rfl
    have hp2 : p = 2 := by
      have h := heng rfl
      have h' : (run ⟨2, 80⟩ exMols exSched (init exMols)).eng 0 2 = some 2 := by decide
      rw [h'] at h
      exact (Option.some.inj h).symm
    subst hp2
    rw [hfin]
    simp only [exInfo, Rot.rotMat, Compose.tup, V3.add, V3.smul]
    decide +kernel

end PolyplyVerif.C04
