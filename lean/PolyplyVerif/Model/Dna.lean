/-
Model of `polyply/src/gen_dna.py`: `_dna_edge_iterator` and `complement_dsDNA`.
The generator is lazy in Python and the graph is mutated while it runs, so the model interleaves one
iterator step with one loop body, exactly as the code does.
-/
import PolyplyVerif.Model.ResGraph

namespace PolyplyVerif.Dna
open PolyplyVerif

def lookup (tbl : List (String × String)) (k : String) : Option String :=
  (tbl.find? (fun kv => kv.1 == k)).map (·.2)

/-- One turn of the `while True` loop of `_dna_edge_iterator`: scan the neighbours of `src` in
adjacency order; the first neighbour whose resid is one lower continues the walk, a neighbour with a
higher resid that is the first node closes the circle and ends the iteration; if none, stop.
Result: `(next, stop)`. -/
def iterStep (g : RGraph) (first src : Nat) : Option (Nat × Bool) :=
  match g.resid? src with
  | none => none
  | some rs =>
    (g.neighbors src).findSome? fun nn =>
      match g.resid? nn with
      | none => none
      | some rn =>
        if rs = rn + 1 then some (nn, false)
        else if rn > rs && nn == first then some (nn, true)
        else none

structure St where
  g : RGraph
  corr : List (Nat × Nat)      -- `correspondance`
  total : Nat
deriving Repr

def corrOf (c : List (Nat × Nat)) (k : Nat) : Option Nat := (c.find? (fun p => p.1 == k)).map (·.2)

/-- body of the `for prev_node, next_node in _dna_edge_iterator(...)` loop -/
def body (tbl : List (String × String)) (s : St) (prev next : Nat) : Except String St :=
  match s.g.resname? next with
  | none => .error "internal"
  | some rn =>
    match lookup tbl rn with
    | none => .error "unknown-resname"
    | some comp =>
      match corrOf s.corr prev with
      | none => .error "internal"
      | some cprev =>
        let attrs := match s.g.edge? prev next with | some e => e.attrs | none => []
        match corrOf s.corr next with
        | none =>
          let newNode := s.total + 1
          -- add_monomer(new_node, resname, [(corr[prev], new_node)])
          let g1 := (s.g.addNode newNode comp).addEdge cprev newNode
          let g2 := g1.updateEdgeAttrs cprev newNode attrs
          .ok { g := g2, corr := s.corr ++ [(next, newNode)], total := s.total + 1 }
        | some cnext =>
          let g1 := s.g.addEdge cprev cnext
          let g2 := g1.updateEdgeAttrs cprev cnext attrs
          .ok { g := g2, corr := s.corr, total := s.total + 1 }

/-- the interleaved loop; `fuel` bounds the number of iterator turns -/
def loop (tbl : List (String × String)) (first : Nat) : Nat → Nat → St → Except String St
  | 0, _, s => .ok s
  | fuel + 1, src, s =>
    match iterStep s.g first src with
    | none => .ok s
    | some (nn, stop) =>
      match body tbl s src nn with
      | .error e => .error e
      | .ok s' => if stop then .ok s' else loop tbl first fuel nn s'

/-- `complement_dsDNA(meta_molecule)`; `fuel` = number of nodes + 1 is always enough -/
def complement (tbl : List (String × String)) (g : RGraph) : Except String RGraph :=
  match g.nodes.getLast? with
  | none => .error "empty"
  | some last =>
    match lookup tbl last.resname with
    | none => .error "unknown-resname"          -- the KeyError of the first lookup
    | some comp =>
      let lastNode := last.key
      let g0 := g.addNode (lastNode + 1) comp
      match loop tbl lastNode (g.nodes.length + 1) lastNode
              { g := g0, corr := [(lastNode, lastNode + 1)], total := lastNode + 1 } with
      | .error e => .error e
      | .ok s => .ok s.g

/-- The residue graph of a single strand as `MetaMolecule(graph)` holds it after the sequence parsers:
nodes `0..n-1`, resid `i+1`; edges `(i,i+1)` carrying `labels[i]`, and for a circular strand the closing
edge `(0,n-1)`.  The `MetaMolecule` constructor copies the parser's graph node by node, so the closing
edge is inserted right after `(0,1)` (this order is what `neighbors` sees; checked against the real
objects by the correspondence). -/
def strandGraph (names : List String) (labels : List Attrs) (circ : Option Attrs) : RGraph :=
  let n := names.length
  { nodes := names.zipIdx.map (fun (nm, i) => ⟨i, i + 1, nm⟩),
    edges := (if 2 ≤ n then [⟨0, 1, labels.getD 0 []⟩] else [])
             ++ (match circ with | some a => [⟨0, n - 1, a⟩] | none => [])
             ++ (List.range (n - 2)).map (fun i => ⟨i + 1, i + 2, labels.getD (i + 1) []⟩),
    maxResid := n }

/-- The same strand when the residue graph numbers its nodes from `k0` (a `.json` sequence file may use
any integer node ids; `parse_json` keeps the ids as node keys and the `resid`s of the file, here `1..n`,
and `MetaMolecule.__init__` sets `max_resid` to the largest resid): keys `k0..k0+n-1`, resids `1..n`. -/
def strandGraphFrom (k0 : Nat) (names : List String) (labels : List Attrs) (circ : Option Attrs) : RGraph :=
  let n := names.length
  { nodes := names.zipIdx.map (fun (nm, i) => ⟨k0 + i, i + 1, nm⟩),
    edges := (if 2 ≤ n then [⟨k0, k0 + 1, labels.getD 0 []⟩] else [])
             ++ (match circ with | some a => [⟨k0, k0 + (n - 1), a⟩] | none => [])
             ++ (List.range (n - 2)).map (fun i => ⟨k0 + (i + 1), k0 + (i + 2), labels.getD (i + 1) []⟩),
    maxResid := n }

/-- The strand when the residue graph numbers its nodes from `k0` AND its residues from `r0` (a `.json`
residue graph carries its own `resid`s; the strand that `complement_dsDNA` added has resids `n+1..2n`):
keys `k0..k0+n-1`, resids `r0..r0+n-1`, `max_resid = r0+n-1` (`MetaMolecule.__init__`: the largest resid;
meaningful for `n ≥ 1`).  Same edges as `strandGraphFrom k0`. -/
def strandGraphAt (k0 r0 : Nat) (names : List String) (labels : List Attrs) (circ : Option Attrs) : RGraph :=
  { nodes := names.zipIdx.map (fun (nm, i) => ⟨k0 + i, r0 + i, nm⟩),
    edges := (strandGraphFrom k0 names labels circ).edges,
    maxResid := r0 + names.length - 1 }

/-- How `gen_params` gets the strand (`gen_itp.py`): `-seq` (`split_seq_string` +
`MetaMolecule.from_monomer_seq_linear`: keys `0..n-1`, linear, no edge attributes) or `-seqf`
(`MetaMolecule.from_sequence_file`: keys from `k0`, resids from `r0`, labels, possibly circular). -/
inductive SeqInput where
  | seq (names : List String)
  | seqFile (k0 r0 : Nat) (names : List String) (labels : List Attrs) (circ : Option Attrs)
deriving Repr

def SeqInput.names : SeqInput → List String
  | .seq names => names
  | .seqFile _ _ names _ _ => names

def SeqInput.circ : SeqInput → Option Attrs
  | .seq _ => none
  | .seqFile _ _ _ _ circ => circ

/-- the `MetaMolecule` built by the `if seq: … elif seq_file: …` of `gen_params` -/
def SeqInput.graph : SeqInput → RGraph
  | .seq names => strandGraphFrom 0 names [] none
  | .seqFile k0 r0 names labels circ => strandGraphAt k0 r0 names labels circ

/-- `gen_params(..., seq=… | seq_file=…, dsdna=…)` up to the point where the residue graph is handed to
`MapToMolecule`: build the strand from EITHER source, then `if dsdna: complement_dsDNA(meta_molecule)`. -/
def genParamsDsdna (tbl : List (String × String)) (inp : SeqInput) (dsdna : Bool) : Except String RGraph :=
  let mm := inp.graph
  if dsdna then complement tbl mm else .ok mm

end PolyplyVerif.Dna

namespace PolyplyVerif.Dna
open PolyplyVerif

/-! ### Specification side (what the property states) -/

/-- Watson–Crick pairing with the 5'/3' terminal roles exchanged, written out from the property
statement: `D<base><end>` pairs with `D<partner><other end>`. -/
def watsonCrick : List (String × String) :=
  let bases := [("A", "T"), ("T", "A"), ("G", "C"), ("C", "G")]
  let ends := [("", ""), ("5", "3"), ("3", "5")]
  ends.flatMap fun (e, e') => bases.map fun (b, b') => ("D" ++ b ++ e, "D" ++ b' ++ e')

/-- normal form of an attribute dictionary: what assigning its items one by one to `{}` gives -/
def normAttrs (a : Attrs) : Attrs := Attrs.update [] a

/-- The graph the property asks for: the strand unchanged, then residue `n+k` (0-based key `n+k`,
resid `n+k+1`) named `comp names[n-1-k]`, edges `(n+k, n+k+1)` carrying the attributes of the mirrored
edge `(n-2-k, n-1-k)`, a closing edge `(2n-1, n)` iff the input is circular. -/
def specGraph (tbl : List (String × String)) (names : List String) (labels : List Attrs)
    (circ : Option Attrs) : Option RGraph :=
  let n := names.length
  match names.reverse.mapM (lookup tbl) with
  | none => none
  | some comps =>
    let base := strandGraph names labels circ
    some { nodes := base.nodes ++ comps.zipIdx.map (fun (nm, k) => ⟨n + k, n + k + 1, nm⟩),
           edges := base.edges
                    ++ (List.range (n - 1)).map (fun k => ⟨n + k, n + k + 1, normAttrs (labels.getD (n - 2 - k) [])⟩)
                    ++ (match circ with | some a => [⟨2 * n - 1, n, normAttrs a⟩] | none => []),
           maxResid := 2 * n }

/-- The specification for a strand whose node keys start at `k0`: the strand unchanged, then residue
`n+k` (key `k0+n+k`, resid `n+k+1`) named `comp names[n-1-k]`, edges `(k0+n+k, k0+n+k+1)` carrying the
attributes of the mirrored edge, a closing edge `(k0+2n-1, k0+n)` iff the input is circular. -/
def specGraphFrom (k0 : Nat) (tbl : List (String × String)) (names : List String) (labels : List Attrs)
    (circ : Option Attrs) : Option RGraph :=
  let n := names.length
  match names.reverse.mapM (lookup tbl) with
  | none => none
  | some comps =>
    let base := strandGraphFrom k0 names labels circ
    some { nodes := base.nodes ++ comps.zipIdx.map (fun (nm, k) => ⟨k0 + (n + k), n + k + 1, nm⟩),
           edges := base.edges
                    ++ (List.range (n - 1)).map
                        (fun k => ⟨k0 + (n + k), k0 + (n + k + 1), normAttrs (labels.getD (n - 2 - k) [])⟩)
                    ++ (match circ with | some a => [⟨k0 + (2 * n - 1), k0 + n, normAttrs a⟩] | none => []),
           maxResid := 2 * n }

/-- The specification for a strand with node keys from `k0` and resids from `r0`: the strand unchanged,
then residue `n+k` (key `k0+n+k`, resid `r0+n+k` — numbering continues after `max_resid`) named
`comp names[n-1-k]`, the edges of `specGraphFrom k0`. -/
def specGraphAt (k0 r0 : Nat) (tbl : List (String × String)) (names : List String) (labels : List Attrs)
    (circ : Option Attrs) : Option RGraph :=
  let n := names.length
  match names.reverse.mapM (lookup tbl) with
  | none => none
  | some comps =>
    let base := strandGraphAt k0 r0 names labels circ
    some { nodes := base.nodes ++ comps.zipIdx.map (fun (nm, k) => ⟨k0 + (n + k), r0 + (n + k), nm⟩),
           edges := base.edges
                    ++ (List.range (n - 1)).map
                        (fun k => ⟨k0 + (n + k), k0 + (n + k + 1), normAttrs (labels.getD (n - 2 - k) [])⟩)
                    ++ (match circ with | some a => [⟨k0 + (2 * n - 1), k0 + n, normAttrs a⟩] | none => []),
           maxResid := r0 + 2 * n - 1 }

end PolyplyVerif.Dna
