/-
Model of `polyply/src/load_library.py`: `get_parser`, `_resolve_lib_files`, `read_options_from_files`,
`load_ff_library` — WHICH parser reads a file and in WHICH order the files (hence the definitions in them) are
read.  Core Lean only.  The literals of the Python source are not repeated here: the suffix → parser tables,
the order of the two groups of files in the loop (`user_files + lib_files`), the unpacking of `paths` and the
`suffix[1:]` slice come from `Generated/LibraryTables.lean` (translator `harness/tables/c13_library.py`), so a
change of the source changes the model and breaks `C13_parser_table` / `C13_read_order`.

Parameters standing for library / OS behaviour (trusted, tied by the correspondence check of harness/c13.py):
* `File.suffix` is `pathlib.Path(path).suffix` ("" or ".xxx");
* `listing name` is `os.listdir(DATA_PATH / name)` in the order the OS returns it (the check compares the
  parse calls of library files as a multiset per library, the order BETWEEN libraries and between the user
  and the library group exactly);
* what a parser does with the lines of a file is the C01/C08/C11 models' business; here a file is its list of
  named definitions (`defs`) and the storage keeps the LAST definition of a name (`force_field.blocks[name] = …`; the insertion-ordered
  dictionary `Links.insertKV` / `Links.lookupKV`).
-/
import PolyplyVerif.Generated.LibraryTables
import PolyplyVerif.Model.Links

namespace PolyplyVerif.LoadLibrary
open PolyplyVerif.LibraryTables

structure File where
  path : String
  suffix : String
deriving Repr, DecidableEq

/-- outcome of `get_parser(file_path, file_parsers, is_lib_file)` -/
inductive Choice where
  | parser (name : String)   -- `return file_parsers[file_extension]`
  | reject                   -- user file that no parser of the table reads: `IOError`
  | skipWarn                 -- library file with a suffix NO table knows: warning, `None`
  | skipSilent               -- library file another table reads (a `.bld` next to the `.ff` files): `None`
deriving Repr, DecidableEq

def lookup (t : List (String × String)) (k : String) : Option String := (t.find? (fun p => p.1 == k)).map (·.2)

/-- `file_path.suffix[1:]` -/
def extension (f : File) : String := (f.suffix.drop suffixDrop).toString

/-- `get_parser`, branch by branch (`ChainMap(FORCE_FIELD_PARSERS, BUILD_FILE_PARSERS)` = either table) -/
def getParser (parsers : List (String × String)) (ext : String) (isLib : Bool) : Choice :=
  match lookup parsers ext with
  | some p => .parser p
  | none =>
    if !isLib then .reject
    else if (lookup (forceFieldParsers ++ buildFileParsers) ext).isNone then .skipWarn
    else .skipSilent

/-- `a, b = paths`: the group of files called `name` -/
def unpack (paths : List File × List File) (name : String) : List File :=
  if pathsUnpack[0]? == some name then paths.1 else if pathsUnpack[1]? == some name then paths.2 else []

/-- the files in the order of `for path in user_files + lib_files` -/
def visitOrder (paths : List File × List File) : List File := readOrder.flatMap (unpack paths)

/-- `is_lib_file = path in lib_files` -/
def isLib (paths : List File × List File) (f : File) : Bool := (unpack paths "lib_files").contains f

/-- the parse calls `(parser, path)` of the loop over `fs`; `error path` = `IOError` for that file (the files
before it have been parsed, the exception ends the run) -/
def readCalls (parsers : List (String × String)) (paths : List File × List File) :
    List File → Except String (List (String × String))
  | [] => .ok []
  | f :: rest =>
    match getParser parsers (extension f) (isLib paths f) with
    | .parser p =>
      match readCalls parsers paths rest with
      | .ok cs => .ok ((p, f.path) :: cs)
      | .error e => .error e
    | .reject => .error f.path
    | _ => readCalls parsers paths rest

/-- `read_options_from_files(paths, storage_object, file_parsers)` as the sequence of its parse calls -/
def readOptions (parsers : List (String × String)) (paths : List File × List File) :
    Except String (List (String × String)) :=
  readCalls parsers paths (visitOrder paths)

/-- `_resolve_lib_files(lib_names, data_path)`: libraries in the given order, each in listing order -/
def resolveLibFiles (listing : String → List File) (libNames : List String) : List File :=
  libNames.flatMap listing

/-- `load_ff_library(name, lib_names, extra_ff_files)`: `paths = [library files, extra files]` read with
`FORCE_FIELD_PARSERS` -/
def loadFFLibrary (listing : String → List File) (libNames : List String) (extra : List File) :
    Except String (List (String × String)) :=
  readOptions forceFieldParsers (resolveLibFiles listing libNames, extra)

/-- `load_build_files(topology, lib_name, build_files)` -/
def loadBuildFiles (listing : String → List File) (libName : Option String) (buildFiles : List File) :
    Except String (List (String × String)) :=
  readOptions buildFileParsers (resolveLibFiles listing libName.toList, buildFiles)

/-! ### the definitions a sequence of parse calls leaves in the storage -/

/-- the storage after the parse calls `calls`, each file contributing its named definitions in file order -/
def storage {δ : Type} (defs : String → List (String × δ)) (calls : List (String × String)) : List (String × δ) :=
  (calls.flatMap (fun c => defs c.2)).foldl (fun d kv => Links.insertKV d kv.1 kv.2) []

end PolyplyVerif.LoadLibrary
