/-
Model of how supplied coordinates enter and leave the coordinate generator (C04):

* `polyply/src/topology.py`       `Topology.add_positions_from_file`  → `consume`
* `polyply/src/nonbond_engine.py` `NonBondEngine.from_topology(molecules, …, ignore)` index table → `gndxTable`,
                                  `update_positions_in_molecules` → `writeBack`
* `polyply/src/backmap.py`        `Backmap._place_init_coords` → `placeInit`
* the attempt / retry machine of `build_system.py` + `random_walk.py` is `Model/Walk.lean` (shared with C17)

Core Lean only.  Coordinates are exact rationals (`Rat × Rat × Rat`).  Modelled rather than verified:
the coordinate file reader (a list of positions in file order), `np.average` (exact mean), the template
orientation found by the optimiser in `orient_template` (an arbitrary function: the theorems hold for
every orientation).
-/
import PolyplyVerif.Model.Walk

namespace PolyplyVerif.Supply
open PolyplyVerif

abbrev V3 := Rat × Rat × Rat

def V3.add (a b : V3) : V3 := (a.1 + b.1, a.2.1 + b.2.1, a.2.2 + b.2.2)
def V3.smul (c : Rat) (a : V3) : V3 := (c * a.1, c * a.2.1, c * a.2.2)
def V3.zero : V3 := (0, 0, 0)
def V3.sum (l : List V3) : V3 := l.foldr V3.add V3.zero

/-- `center_of_geometry(points)` = `np.average(points, axis=0)` -/
def cog (ps : List V3) : V3 := V3.smul (1 / (ps.length : Rat)) (V3.sum ps)

/-! ### `add_positions_from_file` -/

/-- one residue (meta node) as the loop sees it -/
structure Res where
  resname : String
  /-- nodes of the residue's fragment graph with their `index` attribute, in graph order -/
  atoms : List (Nat × Nat)
deriving Repr

/-- what the loop body writes for one residue (`none` = attribute not touched) -/
structure ResOut where
  build : Bool
  backmap : Bool
  pos : Option V3
  atomPos : List (Nat × V3)
deriving Repr, DecidableEq

/-- insertion into a list sorted by `index`, before the first element that is not smaller -/
def insertIdx (x : Nat × Nat) : List (Nat × Nat) → List (Nat × Nat)
  | [] => [x]
  | y :: ys => if x.2 ≤ y.2 then x :: y :: ys else y :: insertIdx x ys

/-- `sorted(idx_nodes, key=idx_nodes.get)`: stable sort by the `index` attribute (insertion sort from
the right keeps equal keys in their original order) -/
def sortByIndex (atoms : List (Nat × Nat)) : List Nat :=
  (atoms.foldr insertIdx []).map (·.1)

/-- the two nested loops over `self.molecules` and `meta_mol.nodes`, on the concatenated residue list
(the counter `total` runs across molecules).  `metaRes` is `resolution == 'meta_mol'`.
`none` = the `IOError` "missing coordinates" of an incomplete residue. -/
def consume (skip : List String) (metaRes : Bool) (ps : List V3) : List Res → Nat → Option (List ResOut)
  | [], _ => some []
  | r :: rs, total =>
    if skip.contains r.resname || ps.length ≤ total then
      (consume skip metaRes ps rs total).map (fun outs => ⟨true, true, none, []⟩ :: outs)
    else if metaRes then
      (consume skip metaRes ps rs (total + 1)).map
        (fun outs => ⟨false, true, some (ps.getD total V3.zero), []⟩ :: outs)
    else
      let n := r.atoms.length
      if total + n ≤ ps.length then
        let slice := (ps.drop total).take n
        (consume skip metaRes ps rs (total + n)).map
          (fun outs => ⟨false, false, some (cog slice), (sortByIndex r.atoms).zip slice⟩ :: outs)
      else none

/-- number of coordinates a residue reads when it is not skipped -/
def Res.size (metaRes : Bool) (r : Res) : Nat := if metaRes then 1 else r.atoms.length

/-- the offset at which residue `i` starts reading: the sizes of the residues before it that are not
skipped by name (specification side of `C04_consume`) -/
def offset (skip : List String) (metaRes : Bool) (rs : List Res) (i : Nat) : Nat :=
  ((rs.take i).map (fun r => if skip.contains r.resname then 0 else r.size metaRes)).sum

/-- what the property demands for a residue that starts reading at `off` (specification side) -/
def expected (skip : List String) (metaRes : Bool) (ps : List V3) (r : Res) (off : Nat) : ResOut :=
  if skip.contains r.resname || ps.length ≤ off then ⟨true, true, none, []⟩
  else if metaRes then ⟨false, true, some (ps.getD off V3.zero), []⟩
  else
    let slice := (ps.drop off).take r.atoms.length
    ⟨false, false, some (cog slice), (sortByIndex r.atoms).zip slice⟩

/-! ### `gen_coords` with both `-c` and `-mc`: two calls, both counting from the first residue -/

/-- attributes of a residue after a second call: the flags are overwritten, a position is overwritten
only if the second call assigns one, the atom coordinates of the first call stay -/
def mergeOut (a b : ResOut) : ResOut := ⟨b.build, b.backmap, b.pos <|> a.pos, a.atomPos ++ b.atomPos⟩

/-- `add_positions_from_file(coordpath, resolution='mol')` followed by
`add_positions_from_file(coordpath_meta, resolution='meta_mol')` -/
def consumeBoth (skip : List String) (psC psM : List V3) (rs : List Res) : Option (List ResOut) :=
  match consume skip false psC rs 0, consume skip true psM rs 0 with
  | some a, some b => some (List.zipWith mergeOut a b)
  | _, _ => none

/-! ### engine index table of `from_topology(..., ignore)` and the write-back -/

/-- `nodes_to_gndx`: ignored molecules get no entry but still count for the molecule index -/
def gndxTable : List Walk.Mol → Nat → Nat → List ((Nat × Walk.Node) × Nat)
  | [], _, _ => []
  | m :: ms, molCount, idx =>
    if m.ignored then gndxTable ms (molCount + 1) idx
    else (m.nodes.zipIdx.map (fun nk => ((molCount, nk.1), idx + nk.2))) ++
         gndxTable ms (molCount + 1) (idx + m.nodes.length)

/-- `atypes`: the residue-type name the engine uses at every global index: the names of the residues of
the non-ignored molecules, in order (`nm j n` = template name, else resname, of residue `n` of molecule `j`) -/
def atypeTable (nm : Nat → Walk.Node → String) : List Walk.Mol → Nat → List String
  | [], _ => []
  | m :: ms, molCount =>
    if m.ignored then atypeTable nm ms (molCount + 1)
    else m.nodes.map (nm molCount) ++ atypeTable nm ms (molCount + 1)

/-- specification side: at the global index of every indexed residue the engine holds the type of
that very residue (evaluated on the observed table and the observed `atypes`) -/
def specTypes (nm : Nat → Walk.Node → String) (table : List ((Nat × Walk.Node) × Nat)) (atypes : List String) : Bool :=
  table.all (fun e => atypes[e.2]? == some (nm e.1.1 e.1.2))

/-- specification of the table (C04_ignore_table) as a check on an observed table -/
def specTable (mols : List Walk.Mol) (table : List ((Nat × Walk.Node) × Nat)) : Bool :=
  (table.map (·.2) == List.range table.length) &&
  (table.map (·.1)).all (fun jn => match mols[jn.1]? with
    | some m => !m.ignored && m.nodes.contains jn.2
    | none => false) &&
  (mols.zipIdx.all fun mj => mj.1.ignored || mj.1.nodes.all (fun n => (table.map (·.1)).contains (mj.2, n)))

/-- `update_positions_in_molecules`: the `position` attribute of residue `n` of molecule `j` after the
build (`none` = no attribute / not finite) -/
def writeBack (mols : List Walk.Mol) (eng : Walk.Engine) (j : Nat) (n : Walk.Node) : Option Nat :=
  match mols[j]? with
  | some m => if m.ignored then m.sup n else eng j n
  | none => none

/-! ### `Backmap._place_init_coords` -/

/-- a residue for the backmapping: flags, centre, its atoms with their template vectors after
`orient_template` (any orientation) -/
structure BRes where
  backmap : Bool
  centre : V3
  /-- (atom key, oriented template vector) -/
  atoms : List (Nat × V3)
deriving Repr

/-- atom coordinates as a map -/
abbrev Coords := Nat → Option V3

def placeRes (fudge : Rat) (r : BRes) (c : Coords) : Coords :=
  if r.backmap then
    fun a => match r.atoms.lookup a with
      | some v => some (V3.add r.centre (V3.smul fudge v))
      | none => c a
  else c

/-- the loop over `meta_molecule.nodes` -/
def placeInit (fudge : Rat) (rs : List BRes) (c : Coords) : Coords :=
  rs.foldl (fun acc r => placeRes fudge r acc) c

end PolyplyVerif.Supply
