/-
Model of the residue-placement state machine of polyply's coordinate generator (C17, shared with C04):

* `polyply/src/random_walk.py`   `RandomWalk._random_walk`, `RandomWalk._rewind`
* `polyply/src/build_system.py`  `BuildSystem._handle_random_walk`, `_compose_system`, `run_system`
* `polyply/src/nonbond_engine.py` `from_topology(..., ignore=)`, `add_positions`, `remove_positions`,
  `update_positions_in_molecules` — as an abstract map `(molecule index, residue) ↦ position`
* `MetaMolecule.search_tree` + `list(search_tree.edges)` (networkx `bfs_tree`/`dfs_tree`, `DiGraph.edges`)

Core Lean only.  The outcome of every single placement trial (the `_is_overlap` test of the first
residue, every call of `RandomWalk.update_positions`) is NOT computed: it is read from a schedule
`List Bool`.  One schedule entry = one trial; everything the code does between two trials (skipping
residues that are not built, rewinding, abandoning an attempt and starting the next, going to the next
molecule) is part of the transition `step`.  `run` folds `step` over the schedule, so "every reachable
state" is `run sched` for some `sched` and theorems are inductions over the schedule.

Positions are abstract identifiers (`Nat`): supplied positions carry the identifier given in the input,
the `k`-th position added by the walk carries the identifier `k` (`Sys.ctr`).

Modelled rather than verified (see harness/c17.py `TRUSTED`): the engine is a map (its KD-tree
bookkeeping is C16), every residue carries the `build` attribute (`MetaMolecule.__init__` sets it), the
search tree is computed once per molecule with the root chosen by `_random_walk`.
-/
namespace PolyplyVerif.Walk

abbrev Node := Nat
abbrev Edge := Node × Node

/-! ### networkx: adjacency, `bfs_edges`, `dfs_edges`, `DiGraph.edges` -/

/-- `G.neighbors(n)`: adjacency in insertion order -/
def neighbors (adj : List (Node × List Node)) (n : Node) : List Node :=
  match adj.find? (fun p => p.1 == n) with
  | some p => p.2
  | none => []

/-- inner `for child in children` of `generic_bfs_edges` for one parent:
`(seen, next_parents_children, yielded edges)` -/
def bfsScan (p : Node) : List Node → List Node → List Node → List Edge → List Node × List Node × List Edge
  | [], seen, next, out => (seen, next, out)
  | c :: cs, seen, next, out =>
    if seen.contains c then bfsScan p cs seen next out
    else bfsScan p cs (seen ++ [c]) (next ++ [c]) (out ++ [(p, c)])

/-- `generic_bfs_edges`: the level lists are concatenated into one queue (same order) -/
def bfsLoop (adj : List (Node × List Node)) : Nat → List Node → List Node → List Edge → List Edge
  | 0, _, _, out => out
  | _ + 1, [], _, out => out
  | fuel + 1, p :: queue, seen, out =>
    let r := bfsScan p (neighbors adj p) seen [] out
    bfsLoop adj fuel (queue ++ r.2.1) r.1 r.2.2

def bfsEdges (adj : List (Node × List Node)) (root : Node) : List Edge :=
  bfsLoop adj (adj.length + 2) [root] [root] []

/-- `dfs_edges`: stack of (parent, children still to look at) -/
def dfsLoop (adj : List (Node × List Node)) : Nat → List (Node × List Node) → List Node → List Edge → List Edge
  | 0, _, _, out => out
  | _ + 1, [], _, out => out
  | fuel + 1, (_, []) :: stack, visited, out => dfsLoop adj fuel stack visited out
  | fuel + 1, (p, c :: cs) :: stack, visited, out =>
    if visited.contains c then dfsLoop adj fuel ((p, cs) :: stack) visited out
    else dfsLoop adj fuel ((c, neighbors adj c) :: (p, cs) :: stack) (c :: visited) (out ++ [(p, c)])

def dfsEdges (adj : List (Node × List Node)) (root : Node) : List Edge :=
  dfsLoop adj ((adj.map (fun p => p.2.length + 2)).sum + 2) [(root, neighbors adj root)] [root] []

/-- `T.add_edge(u, v)` on the node insertion order -/
def digraphStep (acc : List Node) (e : Edge) : List Node :=
  let acc1 := if acc.contains e.1 then acc else acc ++ [e.1]
  if acc1.contains e.2 then acc1 else acc1 ++ [e.2]

/-- node insertion order of `T = DiGraph(); T.add_node(root); T.add_edges_from(es)` -/
def digraphNodes (root : Node) (es : List Edge) : List Node := es.foldl digraphStep [root]

/-- `list(T.edges)`: for every node in insertion order, its out-edges in insertion order.  (This is
not the order in which the edges were added: for a DFS tree the children of a node are listed together.) -/
def treeEdges (root : Node) (es : List Edge) : List Edge :=
  (digraphNodes root es).flatMap (fun u => es.filter (fun e => e.1 == u))

/-- `list(meta_molecule.search_tree.edges)` -/
def searchPath (adj : List (Node × List Node)) (root : Node) (dfs : Bool) : List Edge :=
  treeEdges root (if dfs then dfsEdges adj root else bfsEdges adj root)

/-! ### molecules and the engine -/

/-- what the state machine reads of one `MetaMolecule` -/
structure Mol where
  /-- `molecule.nodes` in order -/
  nodes : List Node
  /-- `list(molecule.search_tree.edges)` -/
  path : List Edge
  /-- the node `_random_walk` starts from -/
  first : Node
  /-- residues whose attribute `build` is true -/
  build : List Node
  /-- residues carrying a `position` attribute before the build, with the position identifier -/
  supplied : List (Node × Nat)
  /-- `mol_name in ignore` -/
  ignored : Bool
deriving Repr

def Mol.isBuild (m : Mol) (n : Node) : Bool := m.build.contains n
def Mol.sup (m : Mol) (n : Node) : Option Nat := m.supplied.lookup n
/-- `"position" in molecule.nodes[n]` -/
def Mol.hasKey (m : Mol) (n : Node) : Bool := (m.sup n).isSome
/-- the test of `_compose_system`: skipped when ignored or when every residue has a position -/
def Mol.needsBuild (m : Mol) : Bool := !m.ignored && !(m.nodes.all m.hasKey)

/-- `start_node` handling of `_random_walk`: `if not self.start_node` is also true for node key 0;
`_find_starting_node` returns the first node because every node carries the key `build` -/
def firstNode (nodes : List Node) (startNode : Option Node) : Node :=
  match startNode with
  | some s => if s == 0 then nodes.headD 0 else s
  | none => nodes.headD 0

/-- the engine as a map: `pos i n = some p` iff residue `n` of molecule `i` is positioned, at `p` -/
abbrev Engine := Nat → Node → Option Nat

def Engine.add (e : Engine) (i : Nat) (n : Node) (v : Nat) : Engine :=
  fun j k => if j = i ∧ k = n then some v else e j k

/-- `remove_positions(mol_idx, nodes)` (a residue without position is skipped by the guard) -/
def Engine.remove (e : Engine) (i : Nat) (ns : List Node) : Engine :=
  fun j k => if j = i ∧ k ∈ ns then none else e j k

/-- `NonBondEngine.from_topology(molecules, …, ignore)`: supplied positions of non-ignored molecules -/
def initEngine (mols : List Mol) : Engine :=
  fun j k => match mols[j]? with
    | some m => if m.ignored then none else m.sup k
    | none => none

/-! ### the walk -/

structure Cfg where
  /-- `RandomWalk.nrewind` -/
  nrewind : Nat
  /-- `RandomWalk.maxiter` (bound on `count`) -/
  maxiter : Nat
deriving Repr

/-- loop variables of `_random_walk` -/
structure WState where
  step : Nat
  count : Nat
  placed : List (Nat × Node)
deriving Repr, DecidableEq

inductive Phase
  /-- next trial: place the first residue of the molecule at `start` -/
  | start
  /-- next trial: `update_positions` for `path[step]`, a built residue -/
  | walk (w : WState)
  /-- `_compose_system` left its loop -/
  | done
  /-- the real code would loop forever without a trial (an attempt that cannot succeed: the first
  residue is supplied and nothing is to be built although a residue lacks its position) -/
  | stuck
deriving Repr, DecidableEq

structure Sys where
  eng : Engine
  /-- molecule indices still to be built, the head is under construction -/
  todo : List Nat
  phase : Phase
  /-- number of positions added so far = identifier of the next one -/
  ctr : Nat

def nextBuildAux (m : Mol) : List Edge → Nat → Option Nat
  | [], _ => none
  | e :: rest, k => if m.isBuild e.2 then some k else nextBuildAux m rest (k + 1)

/-- the `if not build: step_count += 1; continue` part of the loop: first index `≥ k` of a built
residue, `none` when the loop condition `step_count < len(path)` fails first -/
def nextBuild (m : Mol) (k : Nat) : Option Nat := nextBuildAux m (m.path.drop k) k

/-- the index arithmetic of `_rewind` for a list of length `len`: Python's `l[-r:-1]`, `l[-r]`, `l[:-r]`
start at index `len - r`, except that `-0` is `0` -/
def rewindIdx (nrewind len : Nat) : Nat := if nrewind = 0 then 0 else len - nrewind

/-- molecule indices `_compose_system` does not skip -/
def work (mols : List Mol) : List Nat :=
  (List.range mols.length).filter (fun i => match mols[i]? with | some m => m.needsBuild | none => false)

/-- start of `_handle_random_walk`'s loop body for the head of `todo` (a fresh `RandomWalk`,
`success = False`, `placed_nodes = []`) up to the first trial -/
def beginAttempt (mols : List Mol) (eng : Engine) (ctr : Nat) (todo : List Nat) : Sys :=
  match todo with
  | [] => ⟨eng, [], .done, ctr⟩
  | i :: rest =>
    match mols[i]? with
    | none => ⟨eng, i :: rest, .stuck, ctr⟩
    | some m =>
      if m.hasKey m.first then
        match nextBuild m 0 with
        | some j => ⟨eng, i :: rest, .walk ⟨j, 0, []⟩, ctr⟩
        | none => ⟨eng, i :: rest, .stuck, ctr⟩
      else ⟨eng, i :: rest, .start, ctr⟩

/-- the attempt on the head of `todo` is abandoned: `remove_positions(mol_idx, built_nodes)`, next attempt -/
def failAttempt (mols : List Mol) (eng : Engine) (ctr : Nat) (i : Nat) (rest : List Nat) (m : Mol) : Sys :=
  beginAttempt mols (eng.remove i m.build) ctr (i :: rest)

/-- after a trial: continue the loop of `_random_walk` from `w.step` with `processor.success = ok` -/
def afterTrial (mols : List Mol) (eng : Engine) (ctr : Nat) (i : Nat) (rest : List Nat) (m : Mol)
    (w : WState) (ok : Bool) : Sys :=
  match nextBuild m w.step with
  | some j => ⟨eng, i :: rest, .walk { w with step := j }, ctr⟩
  | none => if ok then beginAttempt mols eng ctr rest else failAttempt mols eng ctr i rest m

/-- one trial with outcome `b` and everything up to the next trial -/
def step (cfg : Cfg) (mols : List Mol) (s : Sys) (b : Bool) : Sys :=
  match s.phase, s.todo with
  | .start, i :: rest =>
    match mols[i]? with
    | none => s
    | some m =>
      if b then afterTrial mols (s.eng.add i m.first s.ctr) (s.ctr + 1) i rest m ⟨0, 0, []⟩ true
      else failAttempt mols s.eng s.ctr i rest m
  | .walk w, i :: rest =>
    match mols[i]? with
    | none => s
    | some m =>
      match m.path[w.step]? with
      | none => s
      | some (_, cur) =>
        let pl := w.placed ++ [(w.step, cur)]
        if b then
          afterTrial mols (s.eng.add i cur s.ctr) (s.ctr + 1) i rest m ⟨w.step + 1, 1, pl⟩ true
        else if w.count < cfg.maxiter ∧ cfg.nrewind + 1 ≤ pl.length then
          let k := rewindIdx cfg.nrewind pl.length
          let removed := ((pl.drop k).dropLast).map (·.2)
          afterTrial mols (s.eng.remove i removed) s.ctr i rest m
            ⟨(pl.getD k (w.step, cur)).1, w.count + 1, pl.take k⟩ false
        else failAttempt mols s.eng s.ctr i rest m
  | _, _ => s

/-- state at the first trial of `run_system` -/
def init (mols : List Mol) : Sys := beginAttempt mols (initEngine mols) 0 (work mols)

def run (cfg : Cfg) (mols : List Mol) (sched : List Bool) (s : Sys) : Sys := sched.foldl (step cfg mols) s

/-- the trial a state is waiting for: `(molecule, parent, residue)`; the start trial has no parent -/
def Sys.trial (mols : List Mol) (s : Sys) : Option (Nat × Option Node × Node) :=
  match s.phase, s.todo with
  | .start, i :: _ => (mols[i]?).map (fun m => (i, none, m.first))
  | .walk w, i :: _ => (mols[i]?).bind (fun m => (m.path[w.step]?).map (fun e => (i, some e.1, e.2)))
  | _, _ => none

/-! ### well-formed inputs (hypotheses of the theorems) -/

/-- `path` lists the edges of a tree rooted at `first`, every parent before its out-edges: no residue is
the child of two edges, the root is nobody's child, the parent of an edge is the root or the child of
an earlier edge.  (Proved for `treeEdges` of every growth sequence in Proofs/Walk.lean.) -/
structure TreePath (first : Node) (path : List Edge) : Prop where
  kidsNodup : (path.map (·.2)).Nodup
  firstNotKid : first ∉ path.map (·.2)
  parentFirst : ∀ (k : Nat) (e : Edge), path[k]? = some e →
    e.1 = first ∨ ∃ (j : Nat) (e' : Edge), j < k ∧ path[j]? = some e' ∧ e'.2 = e.1

/-- consistent input of the state machine: the search tree spans the molecule, a residue is built iff
it has no supplied position (what `add_positions_from_file` establishes, C04_consume) -/
structure Mol.WF (m : Mol) : Prop where
  tree : TreePath m.first m.path
  span : ∀ n, n ∈ m.nodes ↔ n = m.first ∨ n ∈ m.path.map (·.2)
  buildNoPos : ∀ n, m.isBuild n = true → m.sup n = none
  keepHasPos : ∀ n ∈ m.nodes, m.isBuild n = false → (m.sup n).isSome = true

/-- every molecule that `_compose_system` builds is well formed -/
def AllWF (mols : List Mol) : Prop := ∀ j ∈ work mols, ∀ m, mols[j]? = some m → m.WF

/-- an edge sequence that grows a tree over the nodes `acc` already present: every edge starts at a
node that is present and ends at a new one (what `bfs_edges` / `dfs_edges` yield) -/
def Growth : List Node → List Edge → Prop
  | _, [] => True
  | acc, e :: es => e.1 ∈ acc ∧ e.2 ∉ acc ∧ Growth (acc ++ [e.2]) es

def TreeGrowth (root : Node) (es : List Edge) : Prop := Growth [root] es

def growthCheck : List Node → List Edge → Bool
  | _, [] => true
  | acc, e :: es => acc.contains e.1 && !acc.contains e.2 && growthCheck (acc ++ [e.2]) es

/-- executable form of `TreePath` -/
def treePathCheck (first : Node) (path : List Edge) : Bool :=
  decide ((path.map (·.2)).Nodup) && !(path.map (·.2)).contains first &&
  path.zipIdx.all (fun ek => ek.1.1 == first || (path.take ek.2).any (fun e' => e'.2 == ek.1.1))

/-- executable form of `Mol.WF` (sound: `wfCheck_sound`); reported by the driver for every molecule -/
def Mol.wfCheck (m : Mol) : Bool :=
  treePathCheck m.first m.path &&
  m.nodes.all (fun n => n == m.first || (m.path.map (·.2)).contains n) &&
  m.nodes.contains m.first && (m.path.map (·.2)).all (fun n => m.nodes.contains n) &&
  m.build.all (fun n => (m.sup n).isNone) &&
  m.nodes.all (fun n => m.isBuild n || (m.sup n).isSome)

/-! ### specification side: what C17 states, as decidable checks on an observed trace

An observed trace is the list of engine contents at every trial plus the trial itself.  These functions
are evaluated by the driver on the trace of the REAL code. -/

/-- engine contents of one molecule as an association list (observed) -/
abbrev Snapshot := List (Nat × List (Node × Nat))

def Snapshot.pos (sn : Snapshot) (i : Nat) (n : Node) : Option Nat := (sn.lookup i).bind (fun l => l.lookup n)

/-- "residues are only ever grown from an already positioned neighbour": the parent of the trial is
positioned and is a neighbour in the residue graph; the residue itself is not yet positioned -/
def specGrownFromPositioned (adjs : List (List (Node × List Node))) (sn : Snapshot)
    (trial : Nat × Option Node × Node) : Bool :=
  match trial with
  | (i, some p, c) => (sn.pos i p).isSome && (neighbors (adjs.getD i []) p).contains c && (sn.pos i c).isNone
  | (i, none, c) => (sn.pos i c).isNone

/-- "every residue placed in the discarded part is removed before building continues": at a trial the
built residues that are positioned are exactly those of the path entries before the residue on trial
(what an undisturbed run would have placed), the first residue is positioned at a walk trial and
nothing built is positioned at a start trial -/
def specRollback (m : Mol) (sn : Snapshot) (trial : Nat × Option Node × Node) : Bool :=
  match trial with
  | (i, none, _) => m.nodes.all (fun n => !m.isBuild n || (sn.pos i n).isNone)
  | (i, some _, c) =>
    let k := m.path.findIdx (fun e => e.2 == c)
    (sn.pos i m.first).isSome &&
    (m.path.zipIdx.all (fun (e, j) => !m.isBuild e.2 || ((sn.pos i e.2).isSome == decide (j < k))))

/-- "positions of previously accepted molecules are never changed" between two consecutive snapshots,
where `j` ranges over the molecules that are not under construction -/
def specOthersFixed (nodes : List (List Node)) (cur : Nat) (a b : Snapshot) : Bool :=
  (List.range nodes.length).all (fun j => j == cur || (nodes.getD j []).all (fun n => a.pos j n == b.pos j n))

/-- "when building ends successfully every residue of every built molecule has exactly one position" -/
def specComplete (mols : List Mol) (sn : Snapshot) : Bool :=
  (List.range mols.length).all (fun j => match mols[j]? with
    | some m => m.ignored || m.nodes.all (fun n => (sn.pos j n).isSome)
    | none => true)

/-- supplied positions never change (C04, also used by C17's rollback oracle) -/
def specSuppliedKept (mols : List Mol) (sn : Snapshot) : Bool :=
  (List.range mols.length).all (fun j => match mols[j]? with
    | some m => m.ignored || m.supplied.all (fun kv => m.isBuild kv.1 || sn.pos j kv.1 == some kv.2)
    | none => true)

/-! ### `BuildSystem.maxiter`: the give-up branch of `_handle_random_walk`, exactly as written

    step_count = 0
    while True:
        … one attempt (a fresh `RandomWalk`) …
        if processor.success:
            return True, processor.nonbond_matrix
        built_nodes = [node for node in molecule.nodes if molecule.nodes[node]["build"]]
        if step_count == self.maxiter:
            processor.nonbond_matrix.remove_positions(mol_idx, built_nodes)
            return False, processor.nonbond_matrix
        else:
            step_count += 1
            self.nonbond_matrix.remove_positions(mol_idx, built_nodes)

and in `_compose_system`: `if success: self.nonbond_matrix = new; …; mol_idx += 1` — nothing else, so
after a `False` the `while mol_idx < mol_tot` loop comes back to the SAME molecule and calls
`_handle_random_walk` again (`step_count = 0`).  `processor.nonbond_matrix` is the object
`self.nonbond_matrix` (the constructor stores the reference), so both branches act on the one engine.

`GSys` extends the state of the machine above by the local `step_count` and by the log of the values
`_handle_random_walk` has returned; `stepG` is `step` with the two branches spelled out.  That the
projection to `Sys` is `step` — for every `maxiter` — is `Proofs.Walk.stepG_sys`; it is what justifies
the single transition `failAttempt` of the machine above. -/

structure GSys where
  sys : Sys
  /-- `step_count` of the running call of `_handle_random_walk` = failed attempts of that call so far -/
  stepCount : Nat
  /-- return values of `_handle_random_walk` so far: `(mol_idx, success)`, oldest first -/
  returns : List (Nat × Bool)

/-- the attempt on the head of `todo` failed: the `if step_count == self.maxiter … else …` of
`_handle_random_walk` followed, in the give-up branch, by the re-entry from `_compose_system` -/
def failAttemptG (bsMaxiter : Nat) (mols : List Mol) (eng : Engine) (ctr : Nat) (i : Nat) (rest : List Nat)
    (m : Mol) (stepCount : Nat) (returns : List (Nat × Bool)) : GSys :=
  if stepCount = bsMaxiter then
    -- processor.nonbond_matrix.remove_positions(mol_idx, built_nodes); return False, …
    -- _compose_system: success is False -> mol_idx unchanged -> _handle_random_walk(molecule, mol_idx) again
    ⟨beginAttempt mols (eng.remove i m.build) ctr (i :: rest), 0, returns ++ [(i, false)]⟩
  else
    -- step_count += 1; self.nonbond_matrix.remove_positions(mol_idx, built_nodes); next `while True` round
    ⟨beginAttempt mols (eng.remove i m.build) ctr (i :: rest), stepCount + 1, returns⟩

def afterTrialG (bsMaxiter : Nat) (mols : List Mol) (eng : Engine) (ctr : Nat) (i : Nat) (rest : List Nat) (m : Mol)
    (w : WState) (ok : Bool) (stepCount : Nat) (returns : List (Nat × Bool)) : GSys :=
  match nextBuild m w.step with
  | some j => ⟨⟨eng, i :: rest, .walk { w with step := j }, ctr⟩, stepCount, returns⟩
  | none =>
    -- `return True, …`; `_compose_system`: mol_idx += 1, the next molecule gets a new call (step_count = 0)
    if ok then ⟨beginAttempt mols eng ctr rest, 0, returns ++ [(i, true)]⟩
    else failAttemptG bsMaxiter mols eng ctr i rest m stepCount returns

/-- one trial with outcome `b` and everything up to the next trial, with `BuildSystem.maxiter = bsMaxiter` -/
def stepG (cfg : Cfg) (bsMaxiter : Nat) (mols : List Mol) (g : GSys) (b : Bool) : GSys :=
  let s := g.sys
  match s.phase, s.todo with
  | .start, i :: rest =>
    match mols[i]? with
    | none => g
    | some m =>
      if b then afterTrialG bsMaxiter mols (s.eng.add i m.first s.ctr) (s.ctr + 1) i rest m ⟨0, 0, []⟩ true
        g.stepCount g.returns
      else failAttemptG bsMaxiter mols s.eng s.ctr i rest m g.stepCount g.returns
  | .walk w, i :: rest =>
    match mols[i]? with
    | none => g
    | some m =>
      match m.path[w.step]? with
      | none => g
      | some (_, cur) =>
        let pl := w.placed ++ [(w.step, cur)]
        if b then
          afterTrialG bsMaxiter mols (s.eng.add i cur s.ctr) (s.ctr + 1) i rest m ⟨w.step + 1, 1, pl⟩ true
            g.stepCount g.returns
        else if w.count < cfg.maxiter ∧ cfg.nrewind + 1 ≤ pl.length then
          let k := rewindIdx cfg.nrewind pl.length
          let removed := ((pl.drop k).dropLast).map (·.2)
          afterTrialG bsMaxiter mols (s.eng.remove i removed) s.ctr i rest m
            ⟨(pl.getD k (w.step, cur)).1, w.count + 1, pl.take k⟩ false g.stepCount g.returns
        else failAttemptG bsMaxiter mols s.eng s.ctr i rest m g.stepCount g.returns
  | _, _ => g

def initG (mols : List Mol) : GSys := ⟨init mols, 0, []⟩

def runG (cfg : Cfg) (bsMaxiter : Nat) (mols : List Mol) (sched : List Bool) (g : GSys) : GSys :=
  sched.foldl (stepG cfg bsMaxiter mols) g

/-- molecules for which `_handle_random_walk` has returned `True`, in order -/
def GSys.completed (g : GSys) : List Nat := (g.returns.filter (·.2)).map (·.1)

end PolyplyVerif.Walk
