/-
Per-residue blocks of `generate_templates.py` and the energy side of `minimizer.py` (C15, extension of
`Model/Templates.lean`).  Core Lean only.

Mirrors
* `topology.replace_defined_interaction`          → `replaceDefined`
* `generate_templates._relabel_interaction_atoms` → `relabelAtoms` (`none` = the `KeyError` of `mapping[atom]`)
* `generate_templates.extract_block`              → `mapping`, `blockNodes`, `keepIxn`, `blockInteractions`,
  `blockEdges`, `extractBlock`; the in-place side effect of `replace_defined_interaction` on the MOLECULE's
  interaction (`interaction.parameters[:] = …`) → `moleculeAfter`
* `generate_templates.find_interaction_involving` → `scanInters`, `findInteraction`
  (`none` = the `IOError`); the literal type list and the two type tests come from the translator
  (`TemplateTables.findSearchTypes`, `TemplateTables.findClass`)
* `generate_templates._good_impropers`            → `goodImpropers` (the dihedral angle `dih(...)` is an INPUT;
  `np.isclose(|ref|, 0)` is `|ref| ≤ atol` with numpy's default `atol = 1e-8`, a PARAMETER)
* `generate_templates._expand_inital_coords`      → `expandInitialCoords` (the Kamada–Kawai layout is an
  ORACLE sequence `layout k` = result of the k-th call; returns the coordinates AND the number of calls)
* `minimizer.renew_vs`                            → `renewVS` (which rows are recomputed, in which order)
* the closure `target_function` of `minimizer.optimize_geometry` → `energy` (sum over the requested
  interaction types of `INTER_METHODS[type]`, i.e. `Templ.penalty`; measured values are inputs as for `verdict`)

Representation: a Python `dict` is an insertion-ordered association list (`Templ.Dict` for string keys); the
molecule's `interactions` dict is such a list whose keys are distinct (a dict invariant: theorems that need it
say `keys.Nodup`).  Nodes of the molecule are natural numbers, nodes of a block are atom names.
`molecule.nodes[node]["atomname"]` is the function `name`, the whole attribute dict of a node is `attr`
(`block.add_node(name, **attr)` on an existing node updates its attributes: for attribute dicts with the same
keys — every atom of a parsed molecule — that is replacement, which is what `Dict.set` does).
-/
import PolyplyVerif.Model.Templates

namespace PolyplyVerif.TemplBlock
open PolyplyVerif.Rot PolyplyVerif.Templ

/-- a `vermouth.molecule.Interaction`: atoms (node keys), parameters (strings), and
`meta.get('edge', True)` -/
structure Ixn (ν : Type) where
  atoms : List ν
  params : List String
  edge : Bool
deriving DecidableEq, Repr

/-! ### `replace_defined_interaction`, `_relabel_interaction_atoms` -/

/-- `replace_defined_interaction`: a parameter that is a key of `defines` is replaced by ALL values of the
define (in order), any other parameter is kept -/
def replaceDefined (defines : Dict (List String)) (params : List String) : List String :=
  match params with
  | [] => []
  | p :: rest =>
    match defines.get? p with
    | some values => values ++ replaceDefined defines rest
    | none => p :: replaceDefined defines rest

def substIxn {ν : Type} (defines : Dict (List String)) (i : Ixn ν) : Ixn ν :=
  { i with params := replaceDefined defines i.params }

/-- the dict `mapping` of `extract_block`: `mapping[node] = molecule.nodes[node]["atomname"]` for the nodes
of the template graph in order (assigning an existing key again writes the same value) -/
def mapping (name : Nat → String) (nodes : List Nat) : List (Nat × String) :=
  nodes.map fun n => (n, name n)

/-- `atom in mapping` -/
def inMapping (m : List (Nat × String)) (a : Nat) : Bool := (m.lookup a).isSome

/-- `[mapping[atom] for atom in atoms]`; `none` = `KeyError` -/
def relabelList (m : List (Nat × String)) : List Nat → Option (List String)
  | [] => some []
  | a :: rest =>
    match m.lookup a with
    | none => none
    | some s =>
      match relabelList m rest with
      | none => none
      | some ss => some (s :: ss)

/-- `_relabel_interaction_atoms(interaction, mapping)` -/
def relabelAtoms (m : List (Nat × String)) (i : Ixn Nat) : Option (Ixn String) :=
  match relabelList m i.atoms with
  | none => none
  | some as => some ⟨as, i.params, i.edge⟩

/-! ### `extract_block` -/

/-- first loop: `block.add_node(attr_dict["atomname"], **attr_dict)` for every node of the template graph:
a new name is appended, a name that is already a node keeps its place and takes the new attributes -/
def blockNodes {A : Type} (name : Nat → String) (attr : Nat → A) (nodes : List Nat) : Dict A :=
  nodes.foldl (fun d n => d.set (name n) (attr n)) []

/-- `all(atom in mapping for atom in interaction.atoms)` -/
def keepIxn (m : List (Nat × String)) (i : Ixn Nat) : Bool := i.atoms.all (inMapping m)

/-- inner loop over the interactions of one type: the kept ones, defines substituted, relabelled, in order -/
def extractType (defines : Dict (List String)) (m : List (Nat × String)) : List (Ixn Nat) → List (Ixn String)
  | [] => []
  | i :: rest =>
    if keepIxn m i then
      match relabelAtoms m (substIxn defines i) with
      | some b => b :: extractType defines m rest
      | none => extractType defines m rest        -- unreachable: all atoms are keys of `mapping`
    else extractType defines m rest

/-- second loop, over `molecule.interactions` in dict order; `block.interactions` is a `defaultdict(list)`:
a type gets a key at its first `append`, so types without a kept interaction have no key -/
def blockInteractions (defines : Dict (List String)) (m : List (Nat × String)) :
    Dict (List (Ixn Nat)) → Dict (List (Ixn String))
  | [] => []
  | (t, is) :: rest =>
    match extractType defines m is with
    | [] => blockInteractions defines m rest
    | b :: bs => (t, b :: bs) :: blockInteractions defines m rest

/-- `interactions.get(inter_type, [])` -/
def getInters {ν : Type} (d : Dict (List (Ixn ν))) (t : String) : List (Ixn ν) := (d.get? t).getD []

/-- `zip(atoms[:-1], atoms[1:])` -/
def consecutive {ν : Type} : List ν → List (ν × ν)
  | a :: b :: rest => (a, b) :: consecutive (b :: rest)
  | _ => []

/-- `make_edges_from_interaction_type(t)`: the `add_edges_from` arguments in order -/
def edgesOfType (inters : Dict (List (Ixn String))) (t : String) : List (String × String) :=
  (getInters inters t).flatMap fun i => if i.edge then consecutive i.atoms else []

/-- third loop: edges from the (translated) literal list of interaction types, in order -/
def blockEdges (edgeTypes : List String) (inters : Dict (List (Ixn String))) : List (String × String) :=
  edgeTypes.flatMap (edgesOfType inters)

structure Block (A : Type) where
  /-- `block.nodes(data=True)` in insertion order -/
  nodes : Dict A
  /-- `block.interactions` in key order -/
  interactions : Dict (List (Ixn String))
  /-- the edges added, in order (an undirected graph keeps the set of them) -/
  edges : List (String × String)

/-- `extract_block(molecule, template_graph, defines)` -/
def extractBlock {A : Type} (edgeTypes : List String) (name : Nat → String) (attr : Nat → A)
    (molInters : Dict (List (Ixn Nat))) (nodes : List Nat) (defines : Dict (List String)) : Block A :=
  let m := mapping name nodes
  let inters := blockInteractions defines m molInters
  ⟨blockNodes name attr nodes, inters, blockEdges edgeTypes inters⟩

/-- the side effect on the molecule: `replace_defined_interaction` assigns `interaction.parameters[:]`, so
every KEPT interaction of the molecule has its defines substituted afterwards; all others are untouched -/
def moleculeAfter (defines : Dict (List String)) (m : List (Nat × String)) (molInters : Dict (List (Ixn Nat))) :
    Dict (List (Ixn Nat)) :=
  molInters.map fun (t, is) => (t, is.map fun i => if keepIxn m i then substIxn defines i else i)

/-! ### `find_interaction_involving` -/

/-- the inner loop over the interactions of one type `t`; `cls` is the translated classification of the
literal types: `some false` = the test `inter_type in ["bonds", "constraints"]` holds, `some true` = it does
not and `inter_type.split("_")[0] == "virtual"` holds, `none` = neither -/
def scanInters (cls : List (String × Bool)) (t cur prev : String) :
    List (Ixn String) → Option (Bool × Ixn String × String)
  | [] => none
  | i :: rest =>
    if i.atoms.contains cur then
      if i.atoms.contains prev && (cls.lookup t == some false) then some (false, i, t)
      else if i.atoms.contains prev && (cls.lookup t == some true) then some (true, i, t)
      else scanInters cls t cur prev rest
    else scanInters cls t cur prev rest

/-- `find_interaction_involving(block, current_node, prev_node)`; `none` = `IOError` -/
def findInteraction (search : List String) (cls : List (String × Bool)) (inters : Dict (List (Ixn String)))
    (cur prev : String) : Option (Bool × Ixn String × String) :=
  match search with
  | [] => none
  | t :: rest =>
    match scanInters cls t cur prev (getInters inters t) with
    | some r => some r
    | none => findInteraction rest cls inters cur prev

/-! ### `_good_impropers` -/

/-- a `dihedrals` interaction as `_good_impropers` sees it -/
structure Improper where
  /-- `parameters[0]` -/
  func : String
  /-- `dih(coords[a0], coords[a1], coords[a2], coords[a3])` (input) -/
  angle : Rat
  /-- `float(parameters[1])` -/
  ref : Rat

/-- `np.sign` -/
def sgn (q : Rat) : Int := if 0 < q then 1 else if q < 0 then -1 else 0

/-- `_good_impropers`: `func2` is the translated literal `"2"`, `atol` numpy's `isclose` tolerance -/
def goodImpropers (func2 : String) (atol : Rat) : List Improper → Bool
  | [] => true
  | d :: rest =>
    if d.func = func2 then
      if rabs d.ref ≤ atol then goodImpropers func2 atol rest           -- `continue`
      else if sgn d.angle ≠ sgn d.ref then false                        -- `return False`
      else goodImpropers func2 atol rest
    else goodImpropers func2 atol rest

/-! ### `_expand_inital_coords` -/

/-- the `while True` loop: `count` layouts have been drawn so far; `fuel` bounds the recursion (never
exhausted when started with `maxCount + 1`) -/
def expandLoop {C : Type} (layout : Nat → C) (good : C → Bool) (maxCount : Nat) : Nat → Nat → C × Nat
  | 0, count => (layout count, count + 1)
  | fuel + 1, count =>
    let coords := layout count
    let count' := count + 1
    if count' > maxCount || good coords then (coords, count') else expandLoop layout good maxCount fuel count'

/-- `_expand_inital_coords(block, max_count)`: the coordinates returned and how many layouts were drawn -/
def expandInitialCoords {C : Type} (layout : Nat → C) (good : C → Bool) (maxCount : Nat) : C × Nat :=
  expandLoop layout good maxCount (maxCount + 1) 0

/-! ### `minimizer.renew_vs`, `target_function` -/

/-- a virtual-site interaction with numeric parameters: `atoms[0]` is the site, `func = parameters[0]`,
`params = parameters[1:]` as numbers (as `Templ.constructByName` wants them) -/
structure VsIxn where
  atoms : List String
  func : String
  params : List Rat

/-- `[positions[atom_to_idx[a]] for a in atoms]`; `none` = `KeyError` -/
def lookupAll (pos : Template Rat) : List String → Option (List (V3 Rat))
  | [] => some []
  | a :: rest =>
    match Dict.get? pos a, lookupAll pos rest with
    | some p, some ps => some (p :: ps)
    | _, _ => none

/-- one virtual site: `positions[atom_to_idx[atoms[0]]] = construct_vs(vs_type, vs, {atom: position})` -/
def renewOne (table : List ((String × String) × String)) (nrm : Rat → Rat) (vsType : String)
    (pos : Template Rat) (vs : VsIxn) : Option (Template Rat) :=
  match vs.atoms with
  | [] => none
  | site :: defining =>
    match Dict.get? pos site, lookupAll pos defining with
    | some _, some xs =>
      match constructVS table nrm vsType vs.func vs.params xs with
      | some p => some (Dict.set pos site p)
      | none => none
    | _, _ => none

def renewType (table : List ((String × String) × String)) (nrm : Rat → Rat) (vsType : String) :
    Template Rat → List VsIxn → Option (Template Rat)
  | pos, [] => some pos
  | pos, vs :: rest =>
    match renewOne table nrm vsType pos vs with
    | none => none
    | some pos' => renewType table nrm vsType pos' rest

/-- `renew_vs(positions, block, atom_to_idx)`: the (translated) literal list of virtual-site sections in
order, within a section the interactions in order, each construction reading the CURRENT positions (so a
site built from another site sees the value just written); `none` = the Python call raises -/
def renewVS (vsTypes : List String) (table : List ((String × String) × String)) (nrm : Rat → Rat)
    (inters : Dict (List VsIxn)) : Template Rat → Option (Template Rat) :=
  match vsTypes with
  | [] => fun pos => some pos
  | t :: rest => fun pos =>
    match renewType table nrm t pos ((Dict.get? inters t).getD []) with
    | none => none
    | some pos' => renewVS rest table nrm inters pos'

/-- `target_function`: `energy += INTER_METHODS[inter_type](params, atom_coords)` over the requested
interaction types in order (`items` = the interactions in that order with their measured values) -/
def energy (weights : List (String × Rat)) (methods wkey : List (String × String)) (items : List Item) : Rat :=
  items.foldl (fun e it => e + penalty weights methods wkey it) 0

/-! ### specification side: the plain definitions the theorems of `Properties/C15.lean` are stated with -/

/-- all atoms of the interaction are atoms of the residue (nodes of the template graph) -/
def insideResidue (nodes : List Nat) (i : Ixn Nat) : Bool := i.atoms.all fun a => nodes.contains a

/-- the relabelled, define-substituted image of a molecule interaction -/
def image (name : Nat → String) (defines : Dict (List String)) (i : Ixn Nat) : Ixn String :=
  ⟨i.atoms.map name, replaceDefined defines i.params, i.edge⟩

/-- `ks ++ [k]` unless `k` is already there -/
def addKey (ks : List String) (k : String) : List String := if k ∈ ks then ks else ks ++ [k]

/-- the distinct elements in order of first occurrence -/
def firstOccurrences (l : List String) : List String := l.foldl addKey []

/-- both nodes are atoms of the interaction -/
def both (cur prev : String) (i : Ixn String) : Bool := i.atoms.contains cur && i.atoms.contains prev

/-- what one searched type contributes -/
def hitOfType (cls : List (String × Bool)) (inters : Dict (List (Ixn String))) (cur prev : String) (t : String) :
    Option (Bool × Ixn String × String) :=
  match cls.lookup t with
  | none => none
  | some vs => ((getInters inters t).find? (both cur prev)).map fun i => (vs, i, t)

/-- the site of a virtual-site interaction -/
def siteOf (vs : VsIxn) : Option String := vs.atoms.head?

end PolyplyVerif.TemplBlock
