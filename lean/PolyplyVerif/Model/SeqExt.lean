/-
Extension of the C12 model (`Model/Seq.lean`), round 5.  Core Lean only.

New model parts (each mirrors a Python function that is driven DIRECTLY by a correspondence stream of
harness/c12.py, not only through the composition `gen_seq`):

* `parserFor` / `fromSequenceFileAny`   `MetaMolecule.from_sequence_file`: `file_path.suffix.casefold()[1:]`
                                        looked up in the class table `MetaMolecule.parsers` — the table is the
                                        GENERATED `SeqTables.parsers` (translator anchor), `.json` included;
* `macroFields`, `macroGraph`           `gen_seq.MacroString.__init__` (observable fields) and `.gen_graph()`;
* `addEdgesText`                        `gen_seq._add_edges(graph, edges, idx, jdx)` on an ARBITRARY labelled graph
                                        (blocks need not be contiguous, nodes without `seqid`, edges already there);
* `applyModsText`                       `gen_seq._apply_termini_modifications(graph, modifications)`;
* `applyTagsText`                       `gen_seq._tag_nodes(graph, tags)`;
* `parseFromFile`, `resolveFromFile`,
  `genSeqCli`                           the `-from_file tag:name` loop of `gen_seq.gen_seq` (`tag, name =
                                        tag_name.split(":")`, `force_field.blocks[name]`) in front of `genSeq`.

Specification side (inverse of the parsers; the strings a user writes for a structured request):
`renderNat`, `renderProbs`, `renderMacro`, `renderConnect`, `renderModification`, `renderTag`, `renderSeqItem`.
The round-trip theorems are in `Properties/C12.lean`; the harness compares the rendered strings with Python's own
`"%s:%d:%d:%s"` formatting and feeds them to the real parsers.
-/
import PolyplyVerif.Model.Seq
import PolyplyVerif.Generated.SeqTables

namespace PolyplyVerif.Seq
open PolyplyVerif

/-! ### `MetaMolecule.from_sequence_file`: dispatch on the file suffix through the generated table -/

/-- `cls.parsers[extension]` for `extension = file_path.suffix.casefold()[1:]`: name of the parser function -/
def parserFor (ext : Text) : Option String :=
  (SeqTables.parsers.find? fun kv => kv.1 == String.ofList (lowerAscii ext)).map (·.2)

/-- what a sequence file holds: text, or (for `.json`) a node-link document -/
inductive FileInput where
  | text (t : Text)
  | doc (d : JDoc)

/-- `MetaMolecule.from_sequence_file` for ALL formats; an unknown suffix is "File format … is unkown" -/
def fromSequenceFileAny (T : Tabs) (ext : Text) (inp : FileInput) : Option RGraph :=
  match parserFor ext with
  | none => none
  | some p =>
    if p = "parse_txt" then (match inp with | .text t => some (toMeta (parseTxt t)) | .doc _ => none)
    else if p = "parse_fasta" then (match inp with | .text t => (parseFasta T t).map toMeta | .doc _ => none)
    else if p = "parse_ig" then (match inp with | .text t => (parseIg T t).map toMeta | .doc _ => none)
    else if p = "parse_json" then (match inp with | .doc d => some (toMeta (parseJson d)) | .text _ => none)
    else none

/-! ### `MacroString` -/

/-- the public fields `MacroString(text)` ends up with: `name`, `levels`, `bfact`, `residues` zipped with
"weight is positive" -/
def macroFields (t : Text) : Option (String × Nat × Nat × List (String × Bool)) :=
  match parseMacroString t with
  | some (nm, .tree levels bfact probs) => some (nm, levels, bfact, probs)
  | _ => none

/-- `MacroString(text).gen_graph()` -/
def macroGraph (t : Text) : Option Block :=
  (parseMacroString t).bind fun m => m.2.genGraph

/-! ### `_add_edges`, `_apply_termini_modifications`, `_tag_nodes` on an arbitrary labelled graph -/

/-- `_add_edges(graph, edges, idx, jdx)`: the items `a-b` of `edges.split(",")` one after the other -/
def addEdgesText (g : SGraph) (edges : Text) (i j : Nat) : Option SGraph :=
  ((splitOn ',' edges).mapM parseEdgeItem).bind fun items => addConnect g (i, j, items)

/-- `_apply_termini_modifications(graph, modifications)`; the terminal nodes are found once, before the loop -/
def applyModsText (g : SGraph) (mods : List Text) : Option SGraph :=
  (mods.mapM parseModification).map fun ms => ms.foldl (applyModification (terminalNodes g)) g

/-- `_tag_nodes(graph, tags)` -/
def applyTagsText (g : SGraph) (tags : List Text) : Option SGraph :=
  (tags.mapM parseTag).bind fun ts => ts.foldlM applyTag g

/-! ### `-from_file tag:name` -/

/-- `tag, name = tag_name.split(":")` -/
def parseFromFile (t : Text) : Option (String × String) :=
  match splitOn ':' t with
  | [tag, nm] => some (String.ofList tag, String.ofList nm)
  | _ => none

/-- the `for tag_name in from_file` loop of `gen_seq`: `lib` = the blocks of the force field read from the input
files (`force_field.blocks[name]`, KeyError for an unknown name) as residue graphs by position -/
def resolveFromFile (lib : List (String × Block)) (items : List Text) : Option (List (String × Block)) :=
  items.mapM fun it =>
    (parseFromFile it).bind fun tn => (lib.find? fun kv => kv.1 == tn.2).map fun kv => (tn.1, kv.2)

/-- `gen_seq(...)` with the `-from_file` strings still unparsed -/
def genSeqCli (lib : List (String × Block)) (fromFile : List Text) (inp : GenSeqInput) : Option SGraph :=
  (resolveFromFile lib fromFile).bind fun ff => genSeq { inp with fromFile := ff }

/-! ### Specification side: the strings that state a structured request -/

/-- the decimal digit `d < 10` -/
def digitChar (d : Nat) : Char := Char.ofNat (48 + d)

/-- the digits of `n`, most significant first; `fuel ≥ n` turns are always enough -/
def renderNatAux : Nat → Nat → Text
  | 0, n => [digitChar (n % 10)]
  | fuel + 1, n => if n < 10 then [digitChar n] else renderNatAux fuel (n / 10) ++ [digitChar (n % 10)]

/-- plain decimal notation (Python `"%d" % n` / `str(n)` for `n ≥ 0`) -/
def renderNat (n : Nat) : Text := renderNatAux n n

/-- `value-1` for the certain value, `value-0` for the others, comma separated -/
def renderProbs (probs : List (String × Bool)) : Text :=
  joinWith ',' (probs.map fun p => p.1.toList ++ '-' :: (if p.2 then ['1'] else ['0']))

/-- `<name>:<levels>:<bfact>:<res-prob,…>` -/
def renderMacro (name : String) (levels bfact : Nat) (probs : List (String × Bool)) : Text :=
  joinWith ':' [name.toList, renderNat levels, renderNat bfact, renderProbs probs]

/-- `<i>:<j>:<a-b,c-d,…>` -/
def renderConnect (c : Nat × Nat × List (Nat × Nat)) : Text :=
  joinWith ':' [renderNat c.1, renderNat c.2.1,
    joinWith ',' (c.2.2.map fun ab => renderNat ab.1 ++ '-' :: renderNat ab.2)]

/-- `<seqID>:<new resname>` -/
def renderModification (m : Nat × String) : Text := joinWith ':' [renderNat m.1, m.2.toList]

/-- `<seqID>:<label>:<value-prob,…>` -/
def renderTag (t : Nat × String × List (String × Bool)) : Text :=
  joinWith ':' [renderNat t.1, t.2.1.toList, renderProbs t.2.2]

/-- a name that can stand in a field of a gen_seq command string: none of the separators `: , -` -/
def FieldName (s : String) : Prop := ':' ∉ s.toList ∧ ',' ∉ s.toList ∧ '-' ∉ s.toList

/-- what "adds exactly the edge `{u, v}`" means: the edge list is the old one, plus `⟨u, v, []⟩` at the end unless
an edge between `u` and `v` was already there -/
def edgesPlus (g : SGraph) (u v : Nat) : List REdge :=
  if g.hasEdge u v then g.edges else g.edges ++ [⟨u, v, []⟩]

end PolyplyVerif.Seq
