/-
Model of the sequence inputs of polyply (property C12):

* `polyply/src/gen_itp.py`            `split_seq_string`
* `polyply/src/meta_molecule.py`      `from_monomer_seq_linear`, `from_sequence_file`, resid defaulting of
                                      `MetaMolecule.__init__`
* `polyply/src/simple_seq_parsers.py` `_monomers_to_linear_nx_graph`, `parse_txt`, `_parse_plain`,
                                      `_identify_residues`, `parse_fasta`, `parse_ig`, `parse_json`
* `polyply/src/gen_seq.py`            `MacroString`, `_branched_graph` (`nx.balanced_tree`), `MacroFile`
                                      (as a parameter), `generate_seq_graph` (`nx.disjoint_union`),
                                      `_add_edges`, `_apply_termini_modifications`, `_tag_nodes`, `gen_seq`

Core Lean only.  File contents and command line strings are `List Char` (`Text`); residue names are
`String`.  Every failure of the Python code (any exception) is `none`.

Modelled rather than verified (tied by the correspondence check of harness/c12.py):
* Python `str.strip/split/readlines`, `int`, `float` on the ASCII inputs the generators produce
  (`parseNat?`: non-empty plain decimal digits; `parseWeight?`: digits with at most one `.`);
* `random.choices(values, weights)` for weights with exactly one positive entry (the certain choice);
  any other weight vector is outside the model (`none`);
* `nx.balanced_tree` (`_tree_edges` queue loop), `nx.disjoint_union` (relabelling by position — the
  accumulated graph always has keys = positions, see `Proofs.Seq.specUnion_keys` / `C12_union_offsets`), `Graph.degree` (a
  self loop counts twice), `json_graph.node_link_data/node_link_graph` + `json.dump/load` (identity on the
  node and edge records; `parse_json` sorts the nodes by key);
* `MacroFile.gen_graph` (vermouth `make_residue_graph` of a force-field block) is a parameter: the
  residue names in node order and the edges by node position.
-/
import PolyplyVerif.Model.ResGraph
import PolyplyVerif.Generated.Tables

namespace PolyplyVerif.Seq
open PolyplyVerif

abbrev Text := List Char

/-! ### text primitives (Python `str` methods on ASCII text) -/

/-- ASCII characters `str.strip()` removes -/
def isSpace (c : Char) : Bool :=
  c == ' ' || c == '\t' || c == '\n' || c == '\r' || c == '\x0b' || c == '\x0c'

def stripLeft (l : Text) : Text := l.dropWhile isSpace
def stripRight (l : Text) : Text := (l.reverse.dropWhile isSpace).reverse
/-- `str.strip()` -/
def strip (l : Text) : Text := stripRight (stripLeft l)

/-- `str.split(sep)` for a one-character separator: always at least one piece -/
def splitOn (sep : Char) : Text → List Text
  | [] => [[]]
  | c :: cs =>
    if c = sep then [] :: splitOn sep cs
    else match splitOn sep cs with
      | [] => [[c]]
      | h :: t => (c :: h) :: t

/-- `file.readlines()` with the line terminators removed (every use strips the line or looks for a
non-newline character): the pieces between `\n`, without the empty piece after a final `\n` -/
def readLines (t : Text) : List Text :=
  let ps := splitOn '\n' t
  if ps.getLast? = some [] then ps.dropLast else ps

/-- `pat in text` -/
def hasSub (pat : Text) : Text → Bool
  | [] => pat.isEmpty
  | c :: cs => pat.isPrefixOf (c :: cs) || hasSub pat cs

def digit? (c : Char) : Option Nat :=
  if '0' ≤ c ∧ c ≤ '9' then some (c.toNat - '0'.toNat) else none

/-- `int(text)` on plain decimal digits -/
def parseNat? (t : Text) : Option Nat :=
  if t.isEmpty then none
  else t.foldl (fun acc c => acc.bind fun a => (digit? c).map fun d => a * 10 + d) (some 0)

/-- `int(text)` on an optional `-` followed by plain decimal digits -/
def parseInt? (t : Text) : Option Int :=
  match t with
  | '-' :: rest => (parseNat? rest).map fun n => - (n : Int)
  | _ => (parseNat? t).map fun n => (n : Int)

/-- `float(text) > 0` for `digits[.digits]` / `.digits` (at least one digit, at most one dot) -/
def parseWeight? (t : Text) : Option Bool :=
  let digits := t.filter (· != '.')
  if digits.isEmpty || (t.filter (· == '.')).length > 1 || !digits.all (fun c => (digit? c).isSome) then none
  else some (digits.any (· != '0'))

/-! ### labelled sequence graphs (what the parsers and gen_seq build, before `MetaMolecule`) -/

structure SNode where
  key : Nat
  resname : String
  resid : Option Nat := none
  seqid : Option Nat := none
  tags : Attrs := []
deriving Repr, DecidableEq

structure SGraph where
  nodes : List SNode
  edges : List REdge
deriving Repr, DecidableEq

namespace SGraph

def empty : SGraph := ⟨[], []⟩

def hasEdge (g : SGraph) (a b : Nat) : Bool := g.edges.any (·.joins a b)

/-- `Graph.add_edge(a, b)` without attributes: nothing happens to an existing edge -/
def addEdge (g : SGraph) (a b : Nat) : SGraph :=
  if g.hasEdge a b then g else { g with edges := g.edges ++ [⟨a, b, []⟩] }

/-- `graph.edges[(a, b)][k] = v` -/
def setEdgeAttr (g : SGraph) (a b : Nat) (k v : String) : SGraph :=
  { g with edges := g.edges.map fun e => if e.joins a b then { e with attrs := e.attrs.set k v } else e }

def modifyNode (g : SGraph) (k : Nat) (f : SNode → SNode) : SGraph :=
  { g with nodes := g.nodes.map fun n => if n.key == k then f n else n }

/-- `Graph.degree(k)`: a self loop counts twice -/
def degree (g : SGraph) (k : Nat) : Nat :=
  g.edges.foldl (fun d e => d + (if e.u == k then 1 else 0) + (if e.v == k then 1 else 0)) 0

/-- `find_atoms(graph, "seqid", s)`: keys of the nodes of block `s`, in node order -/
def findSeqid (g : SGraph) (s : Nat) : List Nat :=
  (g.nodes.filter fun n => n.seqid == some s).map (·.key)

end SGraph

/-- `MetaMolecule(graph)`: a node without `resid` gets `key + 1`; `max_resid` is the largest resid -/
def toMeta (g : SGraph) : RGraph :=
  let nodes := g.nodes.map fun n => (⟨n.key, n.resid.getD (n.key + 1), n.resname⟩ : RNode)
  { nodes := nodes, edges := g.edges, maxResid := nodes.foldl (fun m n => max m n.resid) 0 }

/-! ### `-seq` lists: `split_seq_string` and `MetaMolecule.from_monomer_seq_linear` -/

/-- `split_seq_string`: every item is `resname:n_blocks` -/
def splitSeqString (items : List Text) : Option (List (String × Int)) :=
  items.mapM fun it =>
    match splitOn ':' it with
    | [nm, cnt] => (parseInt? cnt).map fun k => (String.ofList nm, k)
    | _ => none

/-- one turn of the inner `while trans < monomer.n_blocks` loop: `add_monomer(res_count, resname,
[(res_count-1, res_count)] if res_count != 0 else [])`.  (`add_monomer` checks `has_node` of both ends;
both were just added, the check cannot fail.)  State: graph and `res_count`. -/
def addMonomer (st : RGraph × Nat) (resname : String) : RGraph × Nat :=
  let g1 := st.1.addNode st.2 resname
  let g2 := if st.2 != 0 then g1.addEdge (st.2 - 1) st.2 else g1
  (g2, st.2 + 1)

/-- `from_monomer_seq_linear`: a negative or zero `n_blocks` adds nothing -/
def fromMonomerSeqLinear (monomers : List (String × Int)) : RGraph :=
  (monomers.foldl (fun st m => (List.replicate m.2.toNat m.1).foldl addMonomer st) (RGraph.empty, 0)).1

/-- `gen_params(seq=items)` up to the MetaMolecule -/
def fromSeqOption (items : List Text) : Option RGraph :=
  (splitSeqString items).map fromMonomerSeqLinear

/-! ### `simple_seq_parsers` -/

/-- `_monomers_to_linear_nx_graph`: nodes `range(n)` (added explicitly), edges `zip(range[:-1], range[1:])`,
`resname` by position, `resid = node + 1` -/
def linearGraph (monomers : List String) : SGraph :=
  { nodes := monomers.zipIdx.map fun (nm, i) => { key := i, resname := nm, resid := some (i + 1) },
    edges := (List.range (monomers.length - 1)).map fun i => ⟨i, i + 1, []⟩ }

/-- `parse_txt` (`_parse_plain_delimited` with delimiter `" "`) -/
def parseTxt (t : Text) : SGraph :=
  linearGraph ((readLines t).flatMap fun line =>
    (splitOn ' ' (strip line)).map fun tok => String.ofList (strip tok))

/-- the three one-letter tables -/
structure Tabs where
  dna : List (String × String)
  rna : List (String × String)
  aa : List (String × String)

/-- the tables translated from the current source -/
def Tabs.repo : Tabs := ⟨Tables.oneLetterDNA, Tables.oneLetterRNA, Tables.oneLetterAA⟩

def lookup1 (tbl : List (String × String)) (c : Char) : Option String :=
  (tbl.find? fun kv => kv.1 == String.singleton c).map (·.2)

structure Flags where
  dna : Bool
  rna : Bool
  aa : Bool
deriving Repr, DecidableEq

/-- the `if token in ONE_LETTER_DNA and DNA … elif … else raise` cascade -/
def translate (T : Tabs) (f : Flags) (c : Char) : Option String :=
  if f.dna && (lookup1 T.dna c).isSome then lookup1 T.dna c
  else if f.rna && (lookup1 T.rna c).isSome then lookup1 T.rna c
  else if f.aa && (lookup1 T.aa c).isSome then lookup1 T.aa c
  else none

/-- `monomers[-1] = f(monomers[-1])` -/
def modifyLast (f : String → String) : List String → List String
  | [] => []
  | [x] => [f x]
  | x :: y :: rest => x :: modifyLast f (y :: rest)

/-- `monomers[0] += "5"; monomers[-1] += "3"` (IndexError on an empty list).  For one monomer both
assignments hit the same element: `X` becomes `X53`. -/
def suffixTermini (m : List String) : Option (List String) :=
  if m.isEmpty then none else some (modifyLast (· ++ "3") (m.modifyHead (· ++ "5")))

/-- the monomer list of `_parse_plain` -/
def plainMonomers (T : Tabs) (f : Flags) (lines : List Text) : Option (List String) :=
  ((lines.flatMap strip).mapM (translate T f)).bind fun monomers =>
    if f.rna || f.dna then suffixTermini monomers else some monomers

/-- `_parse_plain` -/
def parsePlain (T : Tabs) (f : Flags) (lines : List Text) : Option SGraph :=
  (plainMonomers T f lines).map linearGraph

/-- `_identify_residues` -/
def identify (comments : List Text) : Option Flags :=
  let dna := comments.any (hasSub "DNA".toList)
  let rna := comments.any (hasSub "RNA".toList)
  let aa := comments.any (hasSub "PROTEIN".toList)
  if rna && dna then none
  else if !rna && !dna && !aa then none
  else some ⟨dna, rna, aa⟩

/-- `parse_fasta`: the first line is the comment, sequence lines up to the first line containing `>` -/
def parseFasta (T : Tabs) (t : Text) : Option SGraph :=
  match readLines t with
  | [] => none
  | hd :: rest => (identify [hd]).bind fun f => parsePlain T f (rest.takeWhile fun l => !l.contains '>')

/-- vermouth `split_comments(line)`: split at the first `;`, strip both parts -/
def splitComments (line : Text) : Text × Text :=
  (strip (line.takeWhile (· != ';')), strip ((line.dropWhile (· != ';')).drop 1))

/-- the `for idx, line in enumerate(lines)` loop of `parse_ig`: collects clean lines and comments until a
clean line ends in `1` or `2`; `none` = the `else` branch of the loop (no terminator) -/
def igScan : List Text → List Text → List Text → Option (List Text × List Text × Char)
  | [], _, _ => none
  | line :: rest, clean, comments =>
    let (cl, cm) := splitComments line
    let comments := comments ++ [cm]
    match cl.getLast? with
    | none => igScan rest clean comments
    | some last =>
      if last == '1' || last == '2' then some (clean ++ [cl.dropLast], comments, last)
      else igScan rest (clean ++ [cl]) comments

/-- `resname[:-1]` -/
def dropLastChar (s : String) : String := String.ofList s.toList.dropLast

/-- the `if ter_char == '2'` block: closing edge `(0, n-1)` labelled `linktype=circle`; for DNA/RNA the
terminal suffixes are removed again.  (For an empty sequence Python would address node `-1`: outside the
model, `none`.) -/
def closeCircle (f : Flags) (g : SGraph) : Option SGraph :=
  let n := g.nodes.length
  if n = 0 then none else
  let g1 := (g.addEdge 0 (n - 1)).setEdgeAttr 0 (n - 1) "linktype" "circle"
  if f.dna || f.rna then
    let g2 := g1.modifyNode 0 fun nd => { nd with resname := dropLastChar nd.resname }
    some (g2.modifyNode (n - 1) fun nd => { nd with resname := dropLastChar nd.resname })
  else some g1

/-- `parse_ig` -/
def parseIg (T : Tabs) (t : Text) : Option SGraph :=
  (igScan (readLines t) [] []).bind fun (clean, comments, ter) =>
    (identify comments).bind fun f =>
      (parsePlain T f (clean.drop 1)).bind fun g =>
        if ter == '2' then closeCircle f g else some g

/-- a node or edge record of the node-link JSON document -/
structure JDoc where
  nodes : List SNode
  edges : List REdge
deriving Repr

/-- `json_graph.node_link_data(graph)` followed by `json.dump` / `json.load`: the node records in node
order, the edge records in edge order -/
def nodeLinkData (g : SGraph) : JDoc := ⟨g.nodes, g.edges⟩

/-- `parse_json`: `node_link_graph`, then the nodes sorted by key, then the edges with their data -/
def parseJson (d : JDoc) : SGraph :=
  ⟨d.nodes.mergeSort (fun a b => a.key ≤ b.key), d.edges⟩

def lowerAscii (t : Text) : Text := t.map Char.toLower

/-- `MetaMolecule.from_sequence_file` for the text formats; `ext` is the file name suffix without the dot -/
def fromSequenceFile (T : Tabs) (ext : Text) (t : Text) : Option RGraph :=
  let e := String.ofList (lowerAscii ext)
  if e = "txt" then some (toMeta (parseTxt t))
  else if e = "fasta" then (parseFasta T t).map toMeta
  else if e = "ig" then (parseIg T t).map toMeta
  else none   -- "json" is served by `parseJson`; anything else: "File format … is unkown"

/-! ### `gen_seq` -/

/-- a macro block as a graph by position: names in node order, edges between positions -/
structure Block where
  names : List String
  edges : List (Nat × Nat)
deriving Repr, DecidableEq

/-- number of nodes of `nx.balanced_tree(r, levels - 1)`: `1 + r + … + r^(levels-1)` -/
def treeSize (r : Nat) : Nat → Nat
  | 0 => 0
  | l + 1 => 1 + r * treeSize r l

/-- `_tree_edges(n, r)`: the queue loop.  `next` = next unused node, `parents` = queue; each turn pops a
parent and gives it the next `min r (n - next)` nodes.  `fuel` bounds the number of turns. -/
def treeLoop (n r : Nat) : Nat → Nat → List Nat → List (Nat × Nat)
  | 0, _, _ => []
  | _ + 1, _, [] => []
  | fuel + 1, next, s :: ps =>
    let kids := List.range' next (min r (n - next))
    kids.map (fun k => (s, k)) ++ treeLoop n r fuel (next + kids.length) (ps ++ kids)

def treeEdges (n r : Nat) : List (Nat × Nat) :=
  if n = 0 then [] else treeLoop n r n 1 [0]

/-- `value-probability,…` lists of `MacroString` and `_tag_nodes`: value and "weight is positive" -/
def parseProbs (t : Text) : Option (List (String × Bool)) :=
  (splitOn ',' t).mapM fun rp =>
    match splitOn '-' rp with
    | [nm, p] => (parseWeight? p).map fun w => (String.ofList nm, w)
    | _ => none

/-- `random.choices(values, weights)[0]` when exactly one weight is positive; `none` when the total
weight is zero (ValueError) or the choice is genuinely random (outside the model) -/
def pickCertain (l : List (String × Bool)) : Option String :=
  match l.filter (·.2) with
  | [x] => some x.1
  | _ => none

inductive Macro where
  /-- `MacroString`: levels, branching factor, residue choice -/
  | tree (levels bfact : Nat) (probs : List (String × Bool))
  /-- `MacroFile`: the residue graph of a force-field block -/
  | file (b : Block)
deriving Repr

/-- `MacroString.__init__`: `name:levels:bfact:res-prob,res-prob` (further `:` fields are ignored) -/
def parseMacroString (t : Text) : Option (String × Macro) :=
  match splitOn ':' t with
  | nm :: lv :: bf :: rp :: _ =>
    (parseNat? lv).bind fun levels => (parseNat? bf).bind fun bfact =>
      (parseProbs rp).map fun probs => (String.ofList nm, Macro.tree levels bfact probs)
  | _ => none

/-- `gen_graph()`: for a string macro the balanced tree with every node renamed by the certain choice
(no choice is made for an empty tree) -/
def Macro.genGraph : Macro → Option Block
  | .tree levels bfact probs =>
    let n := treeSize bfact levels
    if n = 0 then some ⟨[], []⟩
    else (pickCertain probs).map fun nm => ⟨List.replicate n nm, treeEdges n bfact⟩
  | .file b => some b

/-- `macros[name]` of a dict filled in list order (a later definition replaces an earlier one) -/
def lookupMacro (macros : List (String × Macro)) (name : String) : Option Macro :=
  (macros.reverse.find? fun kv => kv.1 == name).map (·.2)

/-- `set_node_attributes(sub_graph, idx, "seqid")` and `nx.disjoint_union(seq_graph, sub_graph)` -/
def unionBlock (g : SGraph) (idx : Nat) (b : Block) : SGraph :=
  let off := g.nodes.length
  { nodes := g.nodes ++ b.names.zipIdx.map fun (nm, p) => { key := off + p, resname := nm, seqid := some idx },
    edges := g.edges ++ b.edges.map fun (u, v) => ⟨off + u, off + v, []⟩ }

/-- the first loop of `generate_seq_graph` on already generated blocks -/
def unionBlocks (blocks : List Block) : SGraph :=
  (blocks.zipIdx.foldl (fun g (b, idx) => unionBlock g idx b) SGraph.empty)

/-- one `node_a-node_b` item of a connect record between the blocks `i` and `j` -/
def addConnectEdge (g : SGraph) (i j a b : Nat) : Option SGraph :=
  let ni := g.findSeqid i
  let nj := g.findSeqid j
  if ni.isEmpty || nj.isEmpty then none
  else ni[a]?.bind fun u => nj[b]?.bind fun v => some (g.addEdge u v)

def parseEdgeItem (e : Text) : Option (Nat × Nat) :=
  match splitOn '-' e with
  | [a, b] => (parseNat? (strip a)).bind fun a => (parseNat? (strip b)).map fun b => (a, b)
  | _ => none

/-- a connect record `i:j:a-b,c-d` -/
def parseConnect (c : Text) : Option (Nat × Nat × List (Nat × Nat)) :=
  match splitOn ':' c with
  | [i, j, es] =>
    (parseNat? i).bind fun i => (parseNat? j).bind fun j =>
      ((splitOn ',' es).mapM parseEdgeItem).map fun items => (i, j, items)
  | _ => none

def addConnect (g : SGraph) (c : Nat × Nat × List (Nat × Nat)) : Option SGraph :=
  c.2.2.foldlM (fun g ab => addConnectEdge g c.1 c.2.1 ab.1 ab.2) g

/-- `_find_terminal_nodes` -/
def terminalNodes (g : SGraph) : List Nat :=
  (g.nodes.filter fun n => g.degree n.key == 1).map (·.key)

def parseModification (m : Text) : Option (Nat × String) :=
  match splitOn ':' m with
  | [s, nm] => (parseNat? s).map fun s => (s, String.ofList nm)
  | _ => none

/-- one entry of `_apply_termini_modifications` (the terminal nodes are computed once, before the loop) -/
def applyModification (terminal : List Nat) (g : SGraph) (m : Nat × String) : SGraph :=
  { g with nodes := g.nodes.map fun n =>
      if n.seqid == some m.1 && terminal.contains n.key then { n with resname := m.2 } else n }

def parseTag (t : Text) : Option (Nat × String × List (String × Bool)) :=
  match splitOn ':' t with
  | [s, attr, probs] =>
    (parseNat? s).bind fun s => (parseProbs probs).map fun ps => (s, String.ofList attr, ps)
  | _ => none

/-- one entry of `_tag_nodes`: `_random_replace_nodes_attribute(graph, values, weights, attr,
nodes=find_atoms(graph, "seqid", s))` — an EMPTY node list means all nodes (`if not nodes`) -/
def applyTag (g : SGraph) (t : Nat × String × List (String × Bool)) : Option SGraph :=
  let found := g.findSeqid t.1
  let targets := if found.isEmpty then g.nodes.map (·.key) else found
  if targets.isEmpty then some g
  else (pickCertain t.2.2).map fun v =>
    { g with nodes := g.nodes.map fun n =>
        if targets.contains n.key then { n with tags := n.tags.set t.2.1 v } else n }

structure GenSeqInput where
  /-- `-from_file tag:name`, the block already resolved to its residue graph -/
  fromFile : List (String × Block)
  macroStrings : List Text
  seq : Option (List String)
  connects : List Text
  modifications : List Text
  tags : List Text

/-- `generate_seq_graph` + `_apply_termini_modifications` + `_tag_nodes` on parsed records -/
def genGraph (blocks : List Block) (connects : List (Nat × Nat × List (Nat × Nat)))
    (mods : List (Nat × String)) (tags : List (Nat × String × List (String × Bool))) : Option SGraph :=
  (connects.foldlM addConnect (unionBlocks blocks)).bind fun g =>
    let g := mods.foldl (applyModification (terminalNodes g)) g
    tags.foldlM applyTag g

/-- `gen_seq(...)` up to the graph handed to `node_link_data` -/
def genSeq (inp : GenSeqInput) : Option SGraph :=
  (inp.macroStrings.mapM parseMacroString).bind fun strMacros =>
    let macros := inp.fromFile.map (fun (t, b) => (t, Macro.file b)) ++ strMacros
    inp.seq.bind fun seq =>
      (seq.mapM fun nm => (lookupMacro macros nm).bind Macro.genGraph).bind fun blocks =>
        (inp.connects.mapM parseConnect).bind fun connects =>
          (inp.modifications.mapM parseModification).bind fun mods =>
            (inp.tags.mapM parseTag).bind fun tags =>
              genGraph blocks connects mods tags

/-- `gen_seq` writes, `gen_params -seqf out.json` reads -/
def genSeqReadBack (inp : GenSeqInput) : Option SGraph :=
  (genSeq inp).map fun g => parseJson (nodeLinkData g)

/-! ### Specification side (the property's own words)

"exactly the stated residues (names after one-letter translation and 5'/3' terminal naming), numbered
consecutively from 1 in input order, connected linearly, as the macro tree shape dictates, or as the
connect records state, a circular .ig sequence being closed by an edge labelled as circular." -/

/-- `sep.join(pieces)` -/
def joinWith (sep : Char) : List Text → Text
  | [] => []
  | [t] => t
  | t :: t' :: rest => t ++ sep :: joinWith sep (t' :: rest)

/-- lines written one per line, each terminated by a newline -/
def unlines (lines : List Text) : Text := lines.flatMap (· ++ ['\n'])

/-- the residue list a `-seq` command line states: `name:k` is `k` residues `name` -/
def expand (monomers : List (String × Int)) : List String :=
  monomers.flatMap fun m => List.replicate m.2.toNat m.1

/-- the lines of a file, the last one terminated by a newline (`final = true`) or not -/
def renderLines (final : Bool) (lines : List Text) : Text :=
  if final then unlines lines else joinWith '\n' lines

/-- a `.txt` file: every line holds some of the residue names, separated by single spaces -/
def renderTxt (final : Bool) (chunks : List (List String)) : Text :=
  renderLines final (chunks.map fun c => joinWith ' ' (c.map String.toList))

/-- a `.fasta` file: header line, then the letters broken into lines -/
def renderFasta (final : Bool) (header : Text) (chunks : List Text) : Text := renderLines final (header :: chunks)

/-- a `.ig` file: comment lines, title line, the letters broken into lines, the terminator after the
last letter -/
def renderIg (final : Bool) (comments : List Text) (title : Text) (chunks : List Text) (last : Text) (ter : Char) :
    Text :=
  renderLines final (comments ++ [title] ++ chunks ++ [last ++ [ter]])

/-- a character that can stand in a sequence line of an `.ig` file without being white space, a comment
sign or a terminator -/
def SeqChar (c : Char) : Prop := isSpace c = false ∧ c ≠ ';' ∧ c ≠ '1' ∧ c ≠ '2'

/-- residues `names`, keys `0..n-1`, resid `i+1`, edges `(i,i+1)` -/
def specLinear (names : List String) : RGraph :=
  { nodes := names.zipIdx.map fun (nm, i) => ⟨i, i + 1, nm⟩,
    edges := (List.range (names.length - 1)).map fun i => ⟨i, i + 1, []⟩,
    maxResid := names.length }

inductive Alphabet where
  | dna | rna | aa
deriving Repr, DecidableEq

def Alphabet.table (T : Tabs) : Alphabet → List (String × String)
  | .dna => T.dna
  | .rna => T.rna
  | .aa => T.aa

def Alphabet.nucleic : Alphabet → Bool
  | .aa => false
  | _ => true

/-- the flags `_identify_residues` returns for a comment naming exactly one alphabet -/
def flagsOf : Alphabet → Flags
  | .dna => ⟨true, false, false⟩
  | .rna => ⟨false, true, false⟩
  | .aa => ⟨false, false, true⟩

/-- a residue name that can stand in a `.txt` file: not empty, no white space -/
def GoodToken (s : String) : Prop := s.toList ≠ [] ∧ ∀ c ∈ s.toList, isSpace c = false

/-- The one-letter codes as the specification states them: deoxynucleotides `D` + base, ribonucleotides
the base itself with thymine read as uracil, the twenty standard amino acids by their IUPAC one-letter
code plus `O` for hydroxyproline (polyply's convention). -/
def Tabs.standard : Tabs :=
  { dna := [("A", "DA"), ("C", "DC"), ("G", "DG"), ("T", "DT")],
    rna := [("A", "A"), ("C", "C"), ("G", "G"), ("T", "U")],
    aa := [("A", "ALA"), ("R", "ARG"), ("N", "ASN"), ("D", "ASP"), ("C", "CYS"), ("Q", "GLN"), ("E", "GLU"),
           ("G", "GLY"), ("H", "HIS"), ("I", "ILE"), ("L", "LEU"), ("K", "LYS"), ("M", "MET"), ("F", "PHE"),
           ("P", "PRO"), ("S", "SER"), ("T", "THR"), ("W", "TRP"), ("Y", "TYR"), ("V", "VAL"), ("O", "HYP")] }

/-- one-letter translation; for DNA/RNA of a LINEAR sequence the first name gets `5`, the last `3`
(a single nucleotide is first and last) -/
def specNames (T : Tabs) (a : Alphabet) (circular : Bool) (letters : List Char) : Option (List String) :=
  (letters.mapM (lookup1 (a.table T))).bind fun names =>
    if names.isEmpty then (if a.nucleic || circular then none else some [])
    else if a.nucleic && !circular then some (modifyLast (· ++ "3") (names.modifyHead (· ++ "5")))
    else some names

/-- the graph of a one-letter sequence file: linear, plus for a circular sequence the closing edge
`(0, n-1)` labelled `linktype = circle` (for `n = 2` that is the label on the only edge, for `n = 1` a
self loop) -/
def specSeqFile (T : Tabs) (a : Alphabet) (circular : Bool) (letters : List Char) : Option RGraph :=
  (specNames T a circular letters).map fun names =>
    let g := specLinear names
    let n := names.length
    if !circular then g
    else if n ≤ 2 then
      { g with edges := if n = 1 then [⟨0, 0, [("linktype", "circle")]⟩] else [⟨0, 1, [("linktype", "circle")]⟩] }
    else { g with edges := g.edges ++ [⟨0, n - 1, [("linktype", "circle")]⟩] }

/-- edges of a tree with branching factor `r` on the nodes `0..n-1`: node `j ≥ 1` hangs below `(j-1)/r` -/
def specTreeEdges (n r : Nat) : List (Nat × Nat) :=
  (List.range (n - 1)).map fun j => (j / r, j + 1)

/-- first key of block `k`: the sizes of the blocks before it -/
def offset (blocks : List Block) (k : Nat) : Nat := ((blocks.take k).map (·.names.length)).sum

/-- blocks laid out one after the other: block `k` occupies the keys `offset k ..`, its edges are shifted -/
def specUnion (blocks : List Block) : SGraph :=
  { nodes := blocks.zipIdx.flatMap fun (b, k) =>
      b.names.zipIdx.map fun (nm, p) => { key := offset blocks k + p, resname := nm, seqid := some k },
    edges := blocks.zipIdx.flatMap fun (b, k) =>
      b.edges.map fun (u, v) => ⟨offset blocks k + u, offset blocks k + v, []⟩ }

/-- a connect record item `(i, j, a, b)`: the edge between the `a`-th node of block `i` and the `b`-th
node of block `j` (counted from 0); it must exist -/
def specConnectEdge (blocks : List Block) (i j a b : Nat) : Option (Nat × Nat) :=
  match blocks[i]?, blocks[j]? with
  | some bi, some bj =>
    if a < bi.names.length ∧ b < bj.names.length then some (offset blocks i + a, offset blocks j + b) else none
  | _, _ => none

/-- the items of the parsed connect records `i:j:a-b,c-d` as `(i, j, a, b)` quadruples -/
def flatConnects (cs : List (Nat × Nat × List (Nat × Nat))) : List (Nat × Nat × Nat × Nat) :=
  cs.flatMap fun c => c.2.2.map fun ab => (c.1, c.2.1, ab.1, ab.2)

/-- add the edges one after the other (an edge that is already there stays as it is) -/
def addEdges (g : SGraph) (es : List (Nat × Nat)) : SGraph := es.foldl (fun g e => g.addEdge e.1 e.2) g

/-- the whole gen_seq specification on structured input: layout, connect edges (an edge stated twice is
one edge), terminal renamings (nodes of degree one of the named block), labels (all nodes of the named
block; a label naming no block is outside the specification) -/
def specGenSeq (blocks : List Block) (connects : List (Nat × Nat × Nat × Nat))
    (mods : List (Nat × String)) (tags : List (Nat × String × String)) : Option SGraph :=
  match connects.mapM (fun c => specConnectEdge blocks c.1 c.2.1 c.2.2.1 c.2.2.2) with
  | none => none
  | some ces =>
    let g0 : SGraph := specUnion blocks
    let g1 : SGraph := ces.foldl (fun (g : SGraph) (e : Nat × Nat) => g.addEdge e.1 e.2) g0
    let nodes1 : List SNode := g1.nodes.map fun (n : SNode) =>
      match (mods.filter fun m => n.seqid == some m.1 && g1.degree n.key == 1).getLast? with
      | some m => { n with resname := m.2 }
      | none => n
    if tags.any (fun t => t.1 ≥ blocks.length || (blocks.getD t.1 ⟨[], []⟩).names.isEmpty) then none else
    let nodes2 : List SNode := nodes1.map fun (n : SNode) =>
      { n with tags := (tags.filter fun t => n.seqid == some t.1).foldl (fun (a : Attrs) t => a.set t.2.1 t.2.2) [] }
    some { nodes := nodes2, edges := g1.edges }

/-- what `gen_params` must see when it reads the file back: the same labelled graph, residues numbered
from 1 in key order -/
def specReadBack (g : SGraph) : RGraph := toMeta g

end PolyplyVerif.Seq
