/-
Rotations and template placement of the backmapping step (C06; reused by C15).  Core Lean only.

Mirrors
* `polyply/src/linalg_functions.py::_rotate_xyz` + `_matrix_multiplication`: the three axis matrices with
  parameters `(c, s)` (= `np.cos θ`, `np.sin θ` of the angle of that axis), multiplied left to right
  `((rot_z · rot_y) · rot_x) · object`, the object being a 3×N array of column vectors;
* `polyply/src/backmap.py::orient_template` steps 5–6 (the template written as an array in key order, rotated
  as a whole, written back under the same keys) and `Backmap._place_init_coords`
  (`cg_coord + vector * fudge_coords` for every atom of the residue, the vector looked up by the atom's
  own atom name in the oriented template of the residue's own template key).

Everything is generic in the number type `α` (only `+ - * 0 1` and negation are used; `/` and the
embedding of `ℕ` only for centroids), so the theorems in `Properties/C06.lean` hold over every commutative
ring — `ℚ`, which the driver runs, and `ℝ`, which the floating point code approximates.

The optimiser of `orient_template` (`scipy.optimize.minimize`, random start angles) is NOT modelled: the
angles it returns are an input of the model (`Res.ang`), the theorems hold for every value of them.
-/
namespace PolyplyVerif.Rot

/-- a 3-vector (one column of a 3×N numpy array, or one `np.ndarray` of shape (3,)) -/
structure V3 (α : Type) where
  x : α
  y : α
  z : α
deriving Repr, BEq, DecidableEq

/-- a 3×3 matrix given by its rows -/
structure M3 (α : Type) where
  r0 : V3 α
  r1 : V3 α
  r2 : V3 α
deriving Repr, BEq, DecidableEq

section ring
variable {α : Type} [Add α] [Sub α] [Mul α] [Neg α] [Zero α] [One α]

namespace V3
def zero : V3 α := ⟨0, 0, 0⟩
def add (u v : V3 α) : V3 α := ⟨u.x + v.x, u.y + v.y, u.z + v.z⟩
def sub (u v : V3 α) : V3 α := ⟨u.x - v.x, u.y - v.y, u.z - v.z⟩
def neg (u : V3 α) : V3 α := ⟨-u.x, -u.y, -u.z⟩
/-- scalar multiple (`vector * k`) -/
def smul (k : α) (u : V3 α) : V3 α := ⟨k * u.x, k * u.y, k * u.z⟩
def dot (u v : V3 α) : α := u.x * v.x + u.y * v.y + u.z * v.z
def normSq (u : V3 α) : α := dot u u
/-- `np.cross` -/
def cross (u v : V3 α) : V3 α :=
  ⟨u.y * v.z - u.z * v.y, u.z * v.x - u.x * v.z, u.x * v.y - u.y * v.x⟩
/-- signed volume `det [u, v, w]` (columns) = `u · (v × w)` -/
def det3 (u v w : V3 α) : α := dot u (cross v w)
/-- sum of a list of vectors, left to right from zero (`np.sum(axis=…)`) -/
def sum (l : List (V3 α)) : V3 α := l.foldl add zero

instance : Add (V3 α) := ⟨add⟩
instance : Sub (V3 α) := ⟨sub⟩
instance : Neg (V3 α) := ⟨neg⟩
instance : Zero (V3 α) := ⟨zero⟩
end V3

namespace M3
def one : M3 α := ⟨⟨1, 0, 0⟩, ⟨0, 1, 0⟩, ⟨0, 0, 1⟩⟩
def col0 (m : M3 α) : V3 α := ⟨m.r0.x, m.r1.x, m.r2.x⟩
def col1 (m : M3 α) : V3 α := ⟨m.r0.y, m.r1.y, m.r2.y⟩
def col2 (m : M3 α) : V3 α := ⟨m.r0.z, m.r1.z, m.r2.z⟩
def transpose (m : M3 α) : M3 α := ⟨m.col0, m.col1, m.col2⟩
/-- matrix · column vector -/
def mulVec (m : M3 α) (v : V3 α) : V3 α := ⟨V3.dot m.r0 v, V3.dot m.r1 v, V3.dot m.r2 v⟩
/-- `new[i,j] = Σₖ a[i,k]·b[k,j]` -/
def mul (a b : M3 α) : M3 α :=
  ⟨⟨V3.dot a.r0 b.col0, V3.dot a.r0 b.col1, V3.dot a.r0 b.col2⟩,
   ⟨V3.dot a.r1 b.col0, V3.dot a.r1 b.col1, V3.dot a.r1 b.col2⟩,
   ⟨V3.dot a.r2 b.col0, V3.dot a.r2 b.col1, V3.dot a.r2 b.col2⟩⟩
/-- determinant = signed volume of the rows -/
def det (m : M3 α) : α := V3.det3 m.r0 m.r1 m.r2
instance : Mul (M3 α) := ⟨mul⟩
instance : One (M3 α) := ⟨one⟩
end M3

/-- `rot_z = [[cos_z, -1.0*sin_z, 0], [sin_z, cos_z, 0], [0, 0, 1]]` -/
def rotZ (c s : α) : M3 α := ⟨⟨c, -s, 0⟩, ⟨s, c, 0⟩, ⟨0, 0, 1⟩⟩
/-- `rot_y = [[cos_y, 0, sin_y], [0, 1, 0], [-sin_y, 0, cos_y]]` -/
def rotY (c s : α) : M3 α := ⟨⟨c, 0, s⟩, ⟨0, 1, 0⟩, ⟨-s, 0, c⟩⟩
/-- `rot_x = [[1, 0, 0], [0, cos_x, -sin_x], [0, sin_x, cos_x]]` -/
def rotX (c s : α) : M3 α := ⟨⟨1, 0, 0⟩, ⟨0, c, -s⟩, ⟨0, s, c⟩⟩

/-- cosine and sine of the three angles handed to `rotate_xyz(object, theta_x, theta_y, theta_z)` -/
structure Angles (α : Type) where
  cx : α
  sx : α
  cy : α
  sy : α
  cz : α
  sz : α
deriving Repr, BEq, DecidableEq

/-- the product `_matrix_multiplication(rot_z, rot_y, rot_x, …)` forms before it meets the object:
`matrix_a` runs through `rot_z`, `rot_z·rot_y`, `(rot_z·rot_y)·rot_x` -/
def rotMat (a : Angles α) : M3 α := (rotZ a.cz a.sz * rotY a.cy a.sy) * rotX a.cx a.sx

/-- `_rotate_xyz(object_xyz, θx, θy, θz)`: `object_xyz` is 3×N, i.e. a list of columns; the last factor
of the iterated product multiplies every column -/
def rotateXYZ (obj : List (V3 α)) (a : Angles α) : List (V3 α) := obj.map (rotMat a).mulVec

/-! ### templates and placement (`backmap.py`) -/

/-- `meta_molecule.templates[key]`: insertion-ordered dict atom name → vector from the centre of geometry -/
abbrev Template (α : Type) := List (String × V3 α)

/-- `template[atomname]` (first entry of that name; a Python dict has at most one) -/
def tlookup (t : Template α) (name : String) : Option (V3 α) :=
  match t with
  | [] => none
  | (k, v) :: rest => if k = name then some v else tlookup rest name

/-- `orient_template` steps 5–6: the values, in key order, form the columns of `template_arr`; the array is
rotated as a whole; column `ndx` goes back under the key that had index `ndx` -/
def orientTemplate (a : Angles α) (t : Template α) : Template α :=
  List.zipWith (fun kv col => (kv.1, col)) t (rotateXYZ (t.map (·.2)) a)

structure Atom where
  key : Nat
  name : String
deriving Repr, DecidableEq

/-- one residue node of the meta molecule as `_place_init_coords` reads it -/
structure Res (α : Type) where
  backmap : Bool
  /-- the node attribute `template` (key into `meta_molecule.templates`) -/
  template : String
  /-- the node attribute `position` (`cg_coord`) -/
  pos : V3 α
  /-- the node key of the residue in the residue graph (what `built_nodes` collects) -/
  node : Nat
  /-- nodes of the residue's fragment graph with their atom names, in node order -/
  atoms : List Atom
  /-- the angles the optimiser of `orient_template` returned for this residue (oracle) -/
  ang : Angles α

/-- the inner loop of `_place_init_coords`: `new_coords = cg_coord + vector * fudge_coords` with
`vector = template[atomname]`; a missing atom name is the `KeyError` of the dict lookup (`none`) -/
def placeAtoms (f : α) (cg : V3 α) (t : Template α) (atoms : List Atom) : Option (List (Nat × V3 α)) :=
  atoms.mapM fun a => (tlookup t a.name).map fun v => (a.key, cg + V3.smul f v)

def klookup {β : Type} (d : List (String × β)) (k : String) : Option β :=
  match d with
  | [] => none
  | (k', v) :: rest => if k' = k then some v else klookup rest k

/-- what one residue contributes: nothing unless `backmap`; else its own template oriented by its own
angles and placed around its own position -/
def placeRes (f : α) (templates : List (String × Template α)) (r : Res α) : Option (List (Nat × V3 α)) :=
  if r.backmap then
    match klookup templates r.template with
    | none => none
    | some t => placeAtoms f r.pos (orientTemplate r.ang t) r.atoms
  else some []

/-- `Backmap._place_init_coords`: the assignments `molecule.nodes[atom]["position"] = …` in the order they
are made, and `built_nodes` (the node keys of the residues handled) -/
def placeInitCoords (f : α) (templates : List (String × Template α)) :
    List (Res α) → Option (List (Nat × V3 α) × List Nat)
  | [] => some ([], [])
  | r :: rest =>
    match placeRes f templates r, placeInitCoords f templates rest with
    | some here, some (later, built) => some (here ++ later, if r.backmap then r.node :: built else built)
    | _, _ => none

end ring

/-! ### specification side: what C06 demands of the coordinates the real code wrote
(evaluated by the driver on the implementation's output, numbers = exact rationals of the doubles) -/

section spec

def rabs (q : Rat) : Rat := if q < 0 then -q else q

/-- `|√a − √b| ≤ tol` for `a, b ≥ 0`, decided without square roots:
`(√a − √b)² ≤ tol²  ⟺  a + b − tol² ≤ 2√(ab)` -/
def sqrtClose (tol a b : Rat) : Bool :=
  let l := a + b - tol * tol
  decide (l ≤ 0) || decide (l * l ≤ 4 * a * b)

def centroid (l : List (V3 Rat)) : V3 Rat := V3.smul (1 / (l.length : Rat)) (V3.sum l)

/-- centre of geometry of the placed atoms = residue position (within `tol`) -/
def specCentre (tol : Rat) (placed : List (V3 Rat)) (pos : V3 Rat) : Bool :=
  decide (V3.normSq (centroid placed - pos) ≤ tol * tol)

/-- all unordered pairs of a list, in order -/
def pairs {β : Type} : List β → List (β × β)
  | [] => []
  | a :: rest => rest.map (fun b => (a, b)) ++ pairs rest

def triples {β : Type} : List β → List (β × β × β)
  | [] => []
  | a :: rest => (pairs rest).map (fun (b, c) => (a, b, c)) ++ triples rest

/-- all 4-element sub-lists -/
def quads {β : Type} : List β → List (β × β × β × β)
  | [] => []
  | a :: rest => (triples rest).map (fun (b, c, d) => (a, b, c, d)) ++ quads rest

/-- every atom of the residue paired with the template vector of ITS OWN atom name (none if the template
has no such name) -/
def ownVectors (t : Template Rat) (atoms : List (String × V3 Rat)) : Option (List (V3 Rat × V3 Rat)) :=
  atoms.mapM fun a => (tlookup t a.1).map fun v => (v, a.2)

/-- rigid copy: every intra-residue distance equals `|f|` · the template distance of the two atom names -/
def specRigid (tol f : Rat) (own : List (V3 Rat × V3 Rat)) : Bool :=
  (pairs own).all fun (p, q) =>
    sqrtClose tol (V3.normSq (p.2 - q.2)) (f * f * V3.normSq (p.1 - q.1))

/-- same handedness: the signed volume of every atom 4-tuple is `f³` · the template's (within
`tol·(1+|·|)`), and for tuples that are not (nearly) planar in the template (`|f³·vol| > eps`) the sign is
the same -/
def specHanded (tol eps f : Rat) (own : List (V3 Rat × V3 Rat)) : Bool :=
  (quads own).all fun (a, b, c, d) =>
    let vt := f * f * f * V3.det3 (b.1 - a.1) (c.1 - a.1) (d.1 - a.1)
    let vp := V3.det3 (b.2 - a.2) (c.2 - a.2) (d.2 - a.2)
    decide (rabs (vp - vt) ≤ tol * (1 + rabs vt)) &&
      (decide (rabs vt ≤ eps) || decide (0 < vp * vt))

end spec

end PolyplyVerif.Rot
