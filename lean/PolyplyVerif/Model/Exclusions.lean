/-
Model of `polyply/src/map_to_molecule.py` `tag_exclusions`, of `polyply/src/apply_links.py`
`expand_excl` and of `polyply/src/graph_utils.py` `neighborhood` (C14).  Core Lean only.

`nx.single_source_shortest_path(G, source, cutoff=k)` is stood in for by the breadth-first levels
`C10M.within es source k` (the nodes at distance ≤ k); the length of the path it returns for a node is
`distance + 1`, so `min_length <= len(path)` reads `distance ≥ min_length - 1`.
-/
import PolyplyVerif.Model.C10Missing

namespace PolyplyVerif.Excl
open PolyplyVerif.C10M (within neighbors dedup)

/-- `tag_exclusions`: `excls` = `nrexcl` of the block of every residue.  Returns the `nrexcl` every block
(hence the molecule) ends up with, and whether the atoms are tagged with their block's original value. -/
def tagExclusions (excls : List Nat) : Option Nat × Bool :=
  match excls with
  | [] => (none, false)
  | x :: xs =>
    if (dedup excls).length > 1 then (some (xs.foldl min x), true) else (some x, false)

structure Input where
  nrexcl : Nat                    -- `molecule.nrexcl`
  tags : List (Nat × Nat)         -- atoms carrying the `exclude` attribute, in node order, with its value
  edges : List (Nat × Nat)        -- edges of the molecule when `expand_excl` runs
deriving Repr

/-- `neighborhood(graph, source, max_length, min_length)` -/
def neighborhood (es : List (Nat × Nat)) (a maxL minL : Nat) : List Nat :=
  (within es a maxL).filter (fun b => minL ≤ 1 || !(within es a (minL - 2)).contains b)

def samePair (p q : Nat × Nat) : Bool := (p.1 == q.1 && p.2 == q.2) || (p.1 == q.2 && p.2 == q.1)

/-- `if frozenset([node, ndx]) not in had_excl: had_excl.append(..); exclusions.append(..)` -/
def addPair (had : List (Nat × Nat)) (p : Nat × Nat) : List (Nat × Nat) :=
  if had.any (samePair p) then had else had ++ [p]

/-- the pairs one tagged atom proposes -/
def proposals (inp : Input) (t : Nat × Nat) : List (Nat × Nat) :=
  if t.2 > inp.nrexcl then
    ((neighborhood inp.edges t.1 t.2 inp.nrexcl).filter (fun b => t.1 != b)).map (fun b => (t.1, b))
  else []

/-- `expand_excl(molecule)`: the exclusions it appends, in order -/
def expandExcl (inp : Input) : List (Nat × Nat) :=
  (inp.tags.flatMap (proposals inp)).foldl addPair []

/-! ### specification side -/

/-- `b` is within `k` bonds of `a` -/
def withinDist (es : List (Nat × Nat)) (a b k : Nat) : Bool := (within es a k).contains b

/-- exclusion distance prescribed by the block of atom `a` -/
def eOf (e : List (Nat × Nat)) (a : Nat) : Nat := ((e.find? (fun p => p.1 == a)).map (·.2)).getD 0

/-- The pairs the property wants excluded for distance reasons among `atoms`: `{a,b}`, `a ≠ b`, within the
exclusion distance prescribed by the block of at least one of them. -/
def specPairs (atoms : List Nat) (e : List (Nat × Nat)) (es : List (Nat × Nat)) : List (Nat × Nat) :=
  atoms.flatMap fun a => (atoms.filter fun b => a < b && withinDist es a b (max (eOf e a) (eOf e b))).map fun b => (a, b)

/-- The pairs that ARE excluded in a written molecule: within `nrexcl` bonds, or listed explicitly. -/
def effectivePairs (atoms : List Nat) (nrexcl : Nat) (es : List (Nat × Nat)) (listed : List (Nat × Nat)) : List (Nat × Nat) :=
  atoms.flatMap fun a => (atoms.filter fun b => a < b && (withinDist es a b nrexcl || listed.any (samePair (a, b)))).map fun b => (a, b)

end PolyplyVerif.Excl
