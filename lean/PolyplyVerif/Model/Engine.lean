/-
Model of `polyply/src/nonbond_engine.py` (class `NonBondEngine`: the four views `positions`,
`defined_idxs`, `position_trees`, `gndx_to_tree` and the methods that change or query them) and of the
single placement step of `polyply/src/random_walk.py` (`_take_step`, `_is_overlap`,
`RandomWalk.update_positions`, the start placement of `_random_walk`).  Core Lean only.

Nodes are identified by their global index `gndx` (`nodes_to_gndx[(mol_idx, node_key)]`, a bijection
fixed at construction; the harness translates).  Mutation becomes a returned `State`; the Python lists
`defined_idxs`, `position_trees` are modelled as functions of the tree number `t < nt` (update = `updF`),
the `positions` array as `gndx → Option V3` (`none` = a row of `inf`), the dict `gndx_to_tree` as
`gndx → Option Nat`.  A KD-tree is modelled by the list of points it was built from (the rows
`positions[defined_idxs[t]]` at build time, so a stale tree can be expressed) together with scipy's
periodic distance `Geometry.kdDistSq`; `sparse_distance_matrix(tree, cut_off)` = all stored points with
distance ≤ cut_off (exact neighbour search: trusted, see the harness docstring).

Specification side (what C16 states): `Abs` = "last position given, none after removal" and `specForce`
= the sum of `Geometry.pairForce` over exactly the positioned, non-excluded residues within the cut-off
under the minimum-image convention.
-/
import PolyplyVerif.Model.Geometry

namespace PolyplyVerif.Engine
open PolyplyVerif.Geometry

/-- data fixed at construction of the engine -/
structure Params where
  /-- number of rows of `positions` (global indices are `0 … n-1`) -/
  n : Nat
  /-- `boxsize` -/
  L : V3
  /-- `cut_off` -/
  cut : Rat
  /-- the overlap floor: the literal `0.1` in `compute_force_point` (translator) -/
  floor : Rat
  /-- the tree-opening threshold: the literal `5000` in `add_positions` (translator) -/
  T : Nat
  /-- `(σ, ε) = interaction_matrix[frozenset([atypes[g], atypes[h]])]` -/
  inter : Nat → Nat → Rat × Rat

def upd {α : Type} (f : Nat → α) (k : Nat) (v : α) : Nat → α := fun i => if i = k then v else f i

structure State where
  /-- `positions` -/
  pos : Nat → Option V3
  /-- `len(position_trees) = len(defined_idxs)` -/
  nt : Nat
  /-- `defined_idxs[t]` -/
  defined : Nat → List Nat
  /-- the rows `position_trees[t]` was built from -/
  trees : Nat → List (Option V3)
  /-- `gndx_to_tree` -/
  g2t : Nat → Option Nat

/-- `__init__` and `concatenate_trees`: one tree holding every row whose x is not `inf`, in index order -/
def build (P : Params) (pos : Nat → Option V3) : State :=
  let d := (List.range P.n).filter (fun g => (pos g).isSome)
  let tr := d.map pos
  { pos := pos, nt := 1,
    defined := fun t => if t = 0 then d else [],
    trees := fun t => if t = 0 then tr else [],
    g2t := fun g => if g < P.n ∧ (pos g).isSome then some 0 else none }

def concatenate (P : Params) (s : State) : State := build P s.pos

/-- `add_positions(point, mol_idx, node_key, start)` -/
def add (P : Params) (s : State) (g : Nat) (p : V3) (start : Bool) : State :=
  let pos' := upd s.pos g (some p)
  let last := s.nt - 1
  if start && decide (P.T < (s.trees last).length) then
    { pos := pos', nt := s.nt + 1,
      defined := upd s.defined s.nt [g],
      trees := upd s.trees s.nt [some p],
      g2t := upd s.g2t g (some s.nt) }
  else
    let dl := s.defined last ++ [g]
    { pos := pos', nt := s.nt,
      defined := upd s.defined last dl,
      trees := upd s.trees last (dl.map pos'),
      g2t := upd s.g2t g (some last) }

/-- body of the first loop of `remove_positions` -/
def removeOne (acc : State × List Nat) (g : Nat) : State × List Nat :=
  match acc.1.g2t g with
  | none => acc
  | some t =>
    ({ acc.1 with pos := upd acc.1.pos g none,
                  defined := upd acc.1.defined t ((acc.1.defined t).erase g),
                  g2t := upd acc.1.g2t g none }, acc.2 ++ [t])

/-- body of the second loop of `remove_positions`: rebuild tree `t` from its index list -/
def rebuild (s : State) (t : Nat) : State :=
  { s with trees := upd s.trees t ((s.defined t).map s.pos) }

/-- `remove_positions(mol_idx, node_keys)` -/
def remove (s : State) (gs : List Nat) : State :=
  let r := gs.foldl removeOne (s, [])
  r.2.foldl rebuild r.1

inductive Op where
  | add (g : Nat) (p : V3) (start : Bool)
  | remove (gs : List Nat)
  | concat
deriving Repr

def step (P : Params) (s : State) : Op → State
  | .add g p start => add P s g p start
  | .remove gs => remove s gs
  | .concat => concatenate P s

def run (P : Params) (s : State) (ops : List Op) : State := ops.foldl (step P) s

/-- protocol precondition of one operation: `add` is issued for a currently unpositioned, existing
node and a point the periodic KD-tree accepts (scipy raises otherwise) -/
def pre (P : Params) (s : State) : Op → Prop
  | .add g p _ => s.pos g = none ∧ g < P.n ∧ inBox p P.L
  | .remove _ => True
  | .concat => True

/-- every operation of the sequence meets `pre` in the state it is applied to -/
def okSeq (P : Params) (s : State) : List Op → Prop
  | [] => True
  | op :: ops => pre P s op ∧ okSeq P (step P s op) ops

instance (P : Params) (s : State) (op : Op) : Decidable (pre P s op) := by
  cases op <;> unfold pre <;> exact inferInstance

instance decOkSeq (P : Params) : (s : State) → (ops : List Op) → Decidable (okSeq P s ops)
  | _, [] => isTrue trivial
  | s, op :: ops =>
    have := decOkSeq P (step P s op) ops
    by unfold okSeq; exact inferInstance

/-! ### the consistency invariant (statement of C16_inv) -/

/-- Consistency of the four views, with the trees named by `pend` exempt from the tree clause (they are
stale between the two loops of `remove_positions`). -/
structure InvP (P : Params) (s : State) (pend : Nat → Prop) : Prop where
  nt_pos : 0 < s.nt
  nodup : ∀ t, t < s.nt → (s.defined t).Nodup
  pos_iff : ∀ g, (s.pos g).isSome ↔ ∃ t, t < s.nt ∧ g ∈ s.defined t
  g2t_iff : ∀ g t, s.g2t g = some t ↔ (t < s.nt ∧ g ∈ s.defined t)
  trees_eq : ∀ t, t < s.nt → ¬ pend t → s.trees t = (s.defined t).map s.pos
  bound : ∀ g, (s.pos g).isSome → g < P.n
  box : ∀ g p, s.pos g = some p → inBox p P.L

/-- The invariant of C16: `positions`, `defined_idxs`, `position_trees`, `gndx_to_tree` describe the same
set of positioned residues. -/
def Inv (P : Params) (s : State) : Prop := InvP P s (fun _ => False)

/-- all residues held by the trees, in tree order -/
def definedList (s : State) : List Nat := (List.range s.nt).flatMap s.defined

/-! ### queries -/

/-- `get_point`: the row of `positions` (`none` = `inf`) -/
def getPoint (s : State) (g : Nat) : Option V3 := s.pos g

/-- square of `pbc_min_dist(pos_a, pos_b)`; `none` = `nan` (one of the two is undefined) -/
def pbcMinDistSq (P : Params) (a b : Option V3) : Option Rat :=
  match a, b with
  | some p, some q => some (minImageSq p q P.L)
  | _, _ => none

inductive Force where
  | inf
  | vec (f : V3)
deriving DecidableEq, Repr

/-- `ref_tree.sparse_distance_matrix(position_trees[t], cut_off)` joined with `defined_idxs[t]`:
`(gndx, dist²)` for every stored point within the cut-off -/
def treeHits (P : Params) (s : State) (point : V3) (t : Nat) : List (Nat × Rat) :=
  ((s.trees t).zip (s.defined t)).filterMap fun e =>
    match e.1 with
    | none => none
    | some q =>
      let d2 := kdDistSq point q P.L
      if d2 ≤ P.cut * P.cut then some (e.2, d2) else none

/-- one `force += POTENTIAL_FUNC[potential](dist, point, ref_point, params)`: magnitude from the
tree's distance, direction from the minimum-image vector to `positions[gndx_pair]` -/
def pairTerm (P : Params) (s : State) (point : V3) (g : Nat) (hd : Nat × Rat) : V3 :=
  match s.pos hd.1 with
  | none => V3.zero
  | some ref => V3.smul (ljCoef (P.inter g hd.1).1 (P.inter g hd.1).2 hd.2) (minImageVec point ref P.L)

def tooClose (P : Params) (hd : Nat × Rat) : Bool := decide (hd.2 < P.floor * P.floor)

/-- the loop over `zip(position_trees, defined_idxs)` of `compute_force_point` -/
def forceLoop (P : Params) (s : State) (point : V3) (g : Nat) (excl : List Nat) : List Nat → V3 → Force
  | [], acc => .vec acc
  | t :: ts, acc =>
    let hits := treeHits P s point t
    if hits.any (tooClose P) then .inf
    else forceLoop P s point g excl ts
      ((hits.filter (fun hd => !excl.contains hd.1)).foldl (fun f hd => f + pairTerm P s point g hd) acc)

/-- `compute_force_point(point, mol_idx, node, exclude)` with `g`, `excl` already global indices -/
def force (P : Params) (s : State) (point : V3) (g : Nat) (excl : List Nat) : Force :=
  forceLoop P s point g excl (List.range s.nt) V3.zero

/-! ### specification side -/

/-- the abstract map "last position given / none after removal" -/
def absStep (m : Nat → Option V3) : Op → (Nat → Option V3)
  | .add g p _ => upd m g (some p)
  | .remove gs => fun g => if g ∈ gs then none else m g
  | .concat => m

def absRun (m : Nat → Option V3) (ops : List Op) : Nat → Option V3 := ops.foldl absStep m

/-- the residues that count for a query at `point`: `(h, q, d²)` for every `h < n` positioned at `q`
whose minimum-image distance `d` to `point` is within the cut-off -/
def specNear (P : Params) (m : Nat → Option V3) (point : V3) : List (Nat × V3 × Rat) :=
  (List.range P.n).filterMap fun h =>
    match m h with
    | none => none
    | some q =>
      let d2 := minImageSq point q P.L
      if d2 ≤ P.cut * P.cut then some (h, q, d2) else none

/-- C16's force: `inf` if a positioned residue within the cut-off is closer than the floor, else the
sum of the 12-6 pair forces over exactly the positioned, non-excluded residues within the cut-off -/
def specForce (P : Params) (m : Nat → Option V3) (point : V3) (g : Nat) (excl : List Nat) : Force :=
  let near := specNear P m point
  if near.any (fun e => decide (e.2.2 < P.floor * P.floor)) then .inf
  else .vec (V3.sum ((near.filter (fun e => !excl.contains e.1)).map
        fun e => pairForce (P.inter g e.1).1 (P.inter g e.1).2 point e.2.1 P.L))

/-! ### one placement step of the random walk (C05) -/

structure WalkParams where
  /-- `step_fudge` -/
  stepFudge : Rat
  /-- `max_force` -/
  maxForce : Rat
  /-- `maxiter` -/
  maxiter : Nat

/-- `step_fudge * get_interaction(mol, mol, prev, current)[0]` -/
def stepLength (P : Params) (W : WalkParams) (prev cur : Nat) : Rat := W.stepFudge * (P.inter prev cur).1

/-- `_take_step` with the drawn index made explicit: `pbc_complete(coord + vectors[index]*step, box)` -/
def takeStep (L : V3) (v : V3) (stepLen : Rat) (coord : V3) : V3 := wrap (coord + V3.smul stepLen v) L

/-- `_is_overlap`: `norm(force_vect) > max_force` (`norm(inf) = inf`) -/
def isOverlap (P : Params) (W : WalkParams) (s : State) (point : V3) (g : Nat) (excl : List Nat) : Bool :=
  match force P s point g excl with
  | .inf => true
  | .vec f => if W.maxForce < 0 then true else decide (W.maxForce * W.maxForce < f.normSq)

/-- the `while True` loop of `RandomWalk.update_positions`.  `other` stands for the conjunction of the
checks C05 does not speak about (geometrical restraints, milestones, direction restriction, bending
Monte-Carlo; evaluated before the overlap test), `choices` for the outcomes of `random.randint`.
Result: the accepted point.  (An exhausted bundle — `randint(0, -1)` raises in Python — and an
exhausted oracle give `none`.) -/
def updateLoop (P : Params) (W : WalkParams) (s : State) (other : V3 → Bool) (last : V3) (stepLen : Rat)
    (g : Nat) (excl : List Nat) : List V3 → Nat → List Nat → Option V3
  | _, _, [] => none
  | bundle, count, c :: cs =>
    match bundle[c % bundle.length]? with
    | none => none
    | some v =>
      let np := takeStep P.L v stepLen last
      if other np && !isOverlap P W s np g excl then some np
      else if count = W.maxiter then none
      else updateLoop P W s other last stepLen g excl (bundle.eraseIdx (c % bundle.length)) (count + 1) cs

/-- `RandomWalk.update_positions(vector_bundle, current_node, prev_node)`: on success the point is
stored with `add_positions(…, start=False)` -/
def updatePositions (P : Params) (W : WalkParams) (s : State) (other : V3 → Bool) (bundle : List V3)
    (choices : List Nat) (cur prev : Nat) (excl : List Nat) : Option (V3 × State) :=
  match s.pos prev with
  | none => none
  | some last =>
    match updateLoop P W s other last (stepLength P W prev cur) cur excl bundle 0 choices with
    | none => none
    | some np => some (np, add P s cur np false)

/-- start placement of `_random_walk` for a first node without position, with the start drawn by
`_handle_random_walk` as `box_grid[k]`: accepted iff the restraints hold and there is no overlap; stored
with `add_positions(…, start=True)` -/
def placeStart (P : Params) (W : WalkParams) (s : State) (other : V3 → Bool) (grid : List V3) (k : Nat)
    (first : Nat) (excl : List Nat) : Option (V3 × State) :=
  match grid[k]? with
  | none => none
  | some start =>
    if other start && !isOverlap P W s start first excl then some (start, add P s first start true)
    else none

/-! ### C05's statement about one accepted placement, as an executable check
(evaluated by the driver on every `add_positions` call captured from the real `BuildSystem`) -/

structure PlacementCheck where
  /-- inside the periodic box `0 ≤ pᵢ < Lᵢ` -/
  inBox : Bool
  /-- squared minimum-image distance to the residue it was grown from (`none`: start placement, or
  that residue has no position) -/
  stepD2 : Option Rat
  /-- `|d² − step²| ≤ tol·step²` (exact equality for `tol = 0`) -/
  stepOk : Bool
  /-- smallest squared minimum-image distance to another positioned residue -/
  closestD2 : Option Rat
  /-- no other positioned residue closer than the floor -/
  floorOk : Bool
  /-- the specification's force from the positioned non-neighbour residues within the cut-off -/
  force : Force
  /-- its norm does not exceed the maximum force (`(1+ftol)` slack on the square) -/
  forceOk : Bool
  /-- a start placement sits on the named grid point -/
  gridOk : Bool

def optMin (a : Option Rat) (b : Rat) : Option Rat :=
  match a with
  | none => some b
  | some x => some (min x b)

/-- `m`: positions before the call; `g`: the residue placed at `point`; `excl`: `g` and its bonded
neighbours; `prev`: the residue it was grown from (`none` for the first residue of a molecule, which
must then sit on `gridPoint`); `stepLen` = step factor × mean of the two residue sizes. -/
def placementSpec (P : Params) (maxForce : Rat) (m : Nat → Option V3) (point : V3) (g : Nat)
    (excl : List Nat) (prev : Option Nat) (stepLen tol ftol : Rat) (gridPoint : Option V3) : PlacementCheck :=
  let stepD2 : Option Rat := match prev with
    | none => none
    | some pv => (m pv).map fun q => minImageSq point q P.L
  let stepOk : Bool := match prev, stepD2 with
    | none, _ => true
    | some _, none => false
    | some _, some d2 => decide (rabs (d2 - stepLen * stepLen) ≤ tol * (stepLen * stepLen))
  let others := (List.range P.n).filterMap fun h =>
    if h = g then none else (m h).map fun q => minImageSq point q P.L
  -- the force of the statement: from the positioned residues within the cut-off that are not excluded
  -- (bonded neighbours); no floor involved (that is `floorOk`).  A coincident residue gives `inf`
  -- (the rational formula is totalised at r = 0, which must not read as "no force").
  let nearNE := (specNear P m point).filter (fun e => !excl.contains e.1)
  let frc : Force :=
    if nearNE.any (fun e => decide (e.2.2 = 0)) then .inf
    else .vec (V3.sum (nearNE.map fun e => pairForce (P.inter g e.1).1 (P.inter g e.1).2 point e.2.1 P.L))
  { inBox := decide (inBox point P.L),
    stepD2 := stepD2,
    stepOk := stepOk,
    closestD2 := others.foldl optMin none,
    floorOk := others.all fun d2 => decide (P.floor * P.floor ≤ d2),
    force := frc,
    forceOk := match frc with
      | .inf => false
      | .vec f => decide (0 ≤ maxForce) && decide (f.normSq ≤ maxForce * maxForce * (1 + ftol)),
    gridOk := match prev with
      | some _ => true
      | none => decide (gridPoint = some point) }

end PolyplyVerif.Engine
