/-
C03 — what `gen_coords` writes (`polyply.src.gen_coords`, `build_system`, `topology`, `top_parser`,
`backmap`, vermouth `write_gro`).  Core Lean only.

Modelled (control flow mirrored; loops -> accumulating recursion, mutation -> returned value):
* `TOPDirector.finalize`: `for mol_name, n_mol in self.molecules: for idx in range(int(n_mol)):` appends
  one molecule instance per count to `topology.molecules` (`expandLoop`), an unknown name is a `KeyError`;
* `Topology.convert_to_vermouth_system` + `write_gro`: molecules in that order, atoms in node order,
  one line `(resid, resname, atomname)` per atom (`writeLoop`);
* the box decision of `gen_coords.py:240-255` followed by `BuildSystem.__init__` (`chooseBox`);
  `_compute_box_size` (`massOf`, `edgeFromDensity`); `(·)**(1/3.)` and `round(·, 5)` are parameters;
* the default start grid of `BuildSystem.__init__` (`np.mgrid[0:box:spacing]` per axis, reshaped, then
  filtered to the points strictly below the box length: `startGrid`);
* `_compose_system`: molecule after molecule, a molecule whose residues all carry a position is
  skipped, otherwise `_handle_random_walk` is repeated until it succeeds (`compose`, the outcomes come
  from an arbitrary oracle); `Backmap._place_init_coords`: every atom of a residue flagged `backmap`
  receives `cg + vector * fudge` (`backmapMol`).

Specification side: `specListing` (the `[ molecules ]` section expanded in order), `specBox`, `specGrid`.
-/
import PolyplyVerif.Model.Walk

namespace PolyplyVerif.Coords

/-! ### listing -/

structure Atom where
  resid : Nat
  resname : String
  atomname : String
deriving Repr, DecidableEq

/-- a `[ moleculetype ]`: name and its `[ atoms ]` in file order -/
structure MolType where
  name : String
  atoms : List Atom
deriving Repr, DecidableEq

def findType (types : List MolType) (name : String) : Option MolType :=
  types.find? fun t => t.name == name

/-- inner loop `for idx in range(n_mol)`: append `n` instances -/
def appendCopies (acc : List MolType) (t : MolType) : Nat → List MolType
  | 0 => acc
  | n + 1 => appendCopies (acc ++ [t]) t n

/-- `TOPDirector.finalize`: `topology.molecules` after the `[ molecules ]` loop; `none` = KeyError -/
def expandLoop (types : List MolType) (acc : List MolType) : List (String × Nat) → Option (List MolType)
  | [] => some acc
  | (name, n) :: rest =>
    match findType types name with
    | none => none
    | some t => expandLoop types (appendCopies acc t n) rest

/-- `write_gro`: one `(resid, resname, atomname)` line per atom, molecule after molecule -/
def writeLoop (out : List Atom) : List MolType → List Atom
  | [] => out
  | m :: rest => writeLoop (m.atoms.foldl (fun o a => o ++ [a]) out) rest

/-- the atom lines of the output structure -/
def listing (types : List MolType) (mols : List (String × Nat)) : Option (List Atom) :=
  (expandLoop types [] mols).map (writeLoop [])

/-- specification: the `[ molecules ]` section expanded in order — for each line `name n`, `n` copies of
the atom list of molecule type `name`, line after line; undefined when a name is unknown -/
def specListing (types : List MolType) : List (String × Nat) → Option (List Atom)
  | [] => some []
  | (name, n) :: rest =>
    match findType types name, specListing types rest with
    | some t, some tail => some ((List.replicate n t.atoms).flatten ++ tail)
    | _, _ => none

/-- `write_gro` prints resid through a 5-digit truncating formatter (keeps the low five digits) -/
def groResid (r : Nat) : Nat := r % 100000

/-! ### box -/

abbrev Box := Rat × Rat × Rat

/-- `np.array_equal(topology.box, box)` -/
def boxEq (a b : Box) : Bool := a.1 == b.1 && a.2.1 == b.2.1 && a.2.2 == b.2.2

/-- mass per atom: explicit mass column if present, else the mass of the atom type; `none` = KeyError -/
def atomMass (explicit : Option Rat) (typeMass : Option Rat) : Option Rat :=
  match explicit with
  | some m => some m
  | none => typeMass

/-- `_compute_box_size` sums over all atoms of all molecules -/
def massOf (atoms : List (Option Rat × Option Rat)) : Option Rat :=
  atoms.foldl (fun acc a => match acc, atomMass a.1 a.2 with
    | some s, some m => some (s + m)
    | _, _ => none) (some 0)

/-- `round((mass * factor / density) ** (1/3.), 5)` with the cube root and the rounding as parameters -/
def edgeFromDensity (factor : Rat) (cbrt round5 : Rat → Rat) (mass density : Rat) : Rat :=
  round5 (cbrt (mass * factor / density))

/-- gen_coords.py:240-255 then `BuildSystem.__init__`: which box the run uses.
`cli` = `-box`, `input` = box of the `-c`/`-mc` structure, `edge` = cube edge from `-dens`
(`none`: no density given -> TypeError). -/
def chooseBox (cli input : Option Box) (edge : Option Rat) : Option Box :=
  -- gen_coords
  let differ : Bool := match cli, input with
    | some c, some i => !(boxEq i c)
    | _, _ => false
  let box : Option Box :=
    if differ then input               -- warning, "we consider the box of starting coordinates as correct"
    else if input.isSome then input    -- elif topology.box is not None
    else cli
  -- BuildSystem.__init__
  match box with
  | some b => some b
  | none => edge.map fun e => (e, e, e)

/-- specification: input-structure box if present, else the requested box, else the density cube -/
def specBox (cli input : Option Box) (edge : Option Rat) : Option Box :=
  match input with
  | some i => some i
  | none => match cli with
    | some c => some c
    | none => edge.map fun e => (e, e, e)

/-! ### the default start grid of `BuildSystem.__init__`

    self.box_grid = np.mgrid[0:box[0]:spacing, 0:box[1]:spacing, 0:box[2]:spacing].reshape(3, -1).T
    self.box_grid = self.box_grid[np.all(self.box_grid < self.box, axis=1)]

`np.mgrid[0:b:s]` with a real step (`numpy.lib.index_tricks.nd_grid.__getitem__`) has
`ceil((b - 0) / s)` points per axis, the `i`-th being `i * s + 0`; `.reshape(3, -1).T` lists the points
with the x index slowest and the z index fastest.  The second statement (repair 28d4aca) keeps the points
that are strictly below the box length in every dimension.  In exact arithmetic the filter drops
nothing (`Proofs.Coords.startGrid_eq_product`): it exists for the float case, where the quotient and the
products are rounded; `gridFilter` is therefore also stated over ARBITRARY axis lists. -/

/-- `math.ceil` -/
def ceilInt (q : Rat) : Int := -((-q).floor)

/-- number of points of `np.mgrid[0:b:s]` along one axis: `int(math.ceil((b - 0) / s))` (a negative
value makes numpy raise; the model has no points then) -/
def mgridCount (b s : Rat) : Nat := (ceilInt (b / s)).toNat

/-- the points of `np.mgrid[0:b:s]` along one axis: `i * s + 0` -/
def mgridAxis (b s : Rat) : List Rat := (List.range (mgridCount b s)).map fun (i : Nat) => (i : Rat) * s

/-- `np.mgrid[xs, ys, zs].reshape(3, -1).T`: x slowest, z fastest -/
def product3 (xs ys zs : List Rat) : List Box :=
  xs.flatMap fun x => ys.flatMap fun y => zs.map fun z => (x, y, z)

/-- one row of `np.all(self.box_grid < self.box, axis=1)` -/
def belowBox (box p : Box) : Bool := decide (p.1 < box.1) && decide (p.2.1 < box.2.1) && decide (p.2.2 < box.2.2)

/-- `self.box_grid[np.all(self.box_grid < self.box, axis=1)]` -/
def gridFilter (box : Box) (pts : List Box) : List Box := pts.filter (belowBox box)

/-- the default `box_grid` of `BuildSystem.__init__` -/
def startGrid (box : Box) (spacing : Rat) : List Box :=
  gridFilter box (product3 (mgridAxis box.1 spacing) (mgridAxis box.2.1 spacing) (mgridAxis box.2.2 spacing))

/-- specification: a start point lies inside the periodic box, `0 ≤ p < box` in every dimension -/
def insideBox (box p : Box) : Bool :=
  decide (0 ≤ p.1) && decide (p.1 < box.1) && decide (0 ≤ p.2.1) && decide (p.2.1 < box.2.1) &&
  decide (0 ≤ p.2.2) && decide (p.2.2 < box.2.2)

/-- specification of the whole grid as the property needs it: not empty (`np.random.randint(len(grid))`
is defined) and every point a legal start position -/
def specGrid (box : Box) (grid : List Box) : Bool := !grid.isEmpty && grid.all (insideBox box)

/-! ### every atom receives a position -/

/-- a residue of a meta molecule: flags, residue position, atom positions (`none` = missing / inf) -/
structure Res (P : Type) where
  build : Bool
  backmap : Bool
  pos : Option P
  atoms : List (Option P)
deriving DecidableEq

abbrev Mol (P : Type) := List (Res P)

def Mol.allPlaced {P : Type} (m : Mol P) : Bool := m.all fun r => r.pos.isSome

/-- `_handle_random_walk` repeated until it succeeds: `walk idx attempt mol` is the outcome of one
complete attempt (`none` = failed, positions of built residues removed again); `fuel` bounds the number
of attempts the model follows (the code loops for ever) -/
def retry {P : Type} (walk : Nat → Nat → Mol P → Option (Mol P)) (idx : Nat) (m : Mol P) : Nat → Nat → Option (Mol P)
  | 0, _ => none
  | fuel + 1, attempt => match walk idx attempt m with
    | some m' => some m'
    | none => retry walk idx m fuel (attempt + 1)

/-- `_compose_system` -/
def compose {P : Type} (walk : Nat → Nat → Mol P → Option (Mol P)) (fuel : Nat) :
    Nat → List (Mol P) → Option (List (Mol P))
  | _, [] => some []
  | idx, m :: rest =>
    if m.allPlaced then (compose walk fuel (idx + 1) rest).map (m :: ·)
    else match retry walk idx m fuel 0 with
      | none => none
      | some m' => (compose walk fuel (idx + 1) rest).map (m' :: ·)

/-- `Backmap._place_init_coords` for one residue: `place cg k` is `cg + template[k] * fudge` -/
def backmapRes {P : Type} (place : P → Nat → P) (r : Res P) : Res P :=
  if r.backmap then
    match r.pos with
    | some cg => { r with atoms := (List.range r.atoms.length).map fun k => some (place cg k) }
    | none => r            -- the python code would raise KeyError 'position'
  else r

def backmapMol {P : Type} (place : P → Nat → P) (m : Mol P) : Mol P := m.map (backmapRes place)

/-- every atom of the written structure has a position -/
def Mol.atomsPlaced {P : Type} (m : Mol P) : Bool := m.all fun r => r.atoms.all Option.isSome

/-- what `add_positions_from_file` guarantees on entry: a residue that is not to be backmapped has all its
atom positions -/
def Mol.inputOk {P : Type} (m : Mol P) : Bool := m.all fun r => r.backmap || r.atoms.all Option.isSome

/-! ### the placement state machine of C17 feeding `Backmap` -/

/-- `NonBondEngine.update_positions_in_molecules` at the end of `_compose_system`, seen from
`Backmap`: residue `n` of the molecule with index `j` receives the engine's position (`none` = the row is
still `inf`), flags and atom positions stay what they were on entry (`rs n`); an ignored molecule is not
part of the engine and keeps its `position` attributes. -/
def writeBack (eng : Walk.Engine) (j : Nat) (m : Walk.Mol) (rs : Walk.Node → Res Nat) : Mol Nat :=
  m.nodes.map fun n => if m.ignored then rs n else { rs n with pos := eng j n }

end PolyplyVerif.Coords
