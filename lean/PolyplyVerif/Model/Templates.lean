/-
Templates and residue sizes (C15).  Core Lean only; vectors and matrices come from `Model/Rotation.lean`.

Mirrors
* `check_residue_equivalence.group_residues_by_hash` and `generate_templates._extract_template_graphs`
  (both branches of `skip_filter`), the graph hash being a PARAMETER `h` (networkx'
  `weisfeiler_lehman_graph_hash(graph, node_attr='atomname')` is an oracle: assumed equal on isomorphic
  atom-name-labelled graphs);
* `build_file_parser.BuildDirector`: `[ volumes ]` lines, `finalize_section` of a `[ template ]` and
  `finalize` (user sizes copied from residue name to template hash), as dict updates in order;
* `GenerateTemplates.run_molecule / gen_templates / run_system` (what is generated, what is taken from the
  user, which size is stored), the generator itself (Kamada–Kawai layout + L-BFGS optimisation +
  `compute_volume`) being a PARAMETER `gen`;
* `generate_templates.map_from_CoG`, `linalg_functions.center_of_geometry`;
* `virtual_site_builder`: `vsn1, vs2, vs3, vs3fd, vs3fad, vs3out, vs4fdn` and the dispatch of
  `construct_vs` through the (translated) table `VIRTUAL_SITES`; the Euclidean norm is a PARAMETER `nrm`
  (norm as a function of the squared norm: exact `√` over `ℝ`, a 1e-18 approximation in the driver);
* the final verdict loop of `minimizer.optimize_geometry` (penalty `W·(value − target)²` against
  `W·tol²`), the measured values (`np.linalg.norm`, `angle`, `dih`) being inputs;
* `generate_templates.compute_volume`'s case split (atoms farther than the threshold from the centre are
  pushed out by their radius, the others contribute their radius; radius of gyration of the pushed-out
  vectors if any of them is non-zero, else the largest radius) and `linalg_functions._radius_of_gyration`.
-/
import PolyplyVerif.Model.Rotation

namespace PolyplyVerif.Templ
open PolyplyVerif.Rot

/-! ### insertion-ordered dictionaries with string keys -/

abbrev Dict (β : Type) := List (String × β)

namespace Dict
variable {β : Type}

def get? (d : Dict β) (k : String) : Option β :=
  match d with
  | [] => none
  | (k', v) :: rest => if k' = k then some v else get? rest k

def has (d : Dict β) (k : String) : Bool := (get? d k).isSome

/-- `d[k] = v` (an existing key keeps its place) -/
def set (d : Dict β) (k : String) (v : β) : Dict β :=
  match d with
  | [] => [(k, v)]
  | (k', v') :: rest => if k' = k then (k, v) :: rest else (k', v') :: set rest k v

/-- `del d[k]` -/
def del (d : Dict β) (k : String) : Dict β :=
  match d with
  | [] => []
  | (k', v') :: rest => if k' = k then rest else (k', v') :: del rest k

/-- `d.update(src)` -/
def update (d src : Dict β) : Dict β := src.foldl (fun acc kv => set acc kv.1 kv.2) d

def keys (d : Dict β) : List String := d.map (·.1)
end Dict

/-! ### centre of geometry, `map_from_CoG` -/

section field
variable {α : Type} [Add α] [Sub α] [Mul α] [Neg α] [Zero α] [One α] [Div α] [NatCast α]

/-- componentwise division by a scalar (`array / k`) -/
def V3.sdiv (v : V3 α) (k : α) : V3 α := ⟨v.x / k, v.y / k, v.z / k⟩

/-- `center_of_geometry(points) = np.average(points, axis=0)` -/
def centerOfGeometry (points : List (V3 α)) : V3 α := V3.sdiv (V3.sum points) (points.length : α)

/-- `map_from_CoG(coords)`: every position as the vector from the centre of geometry, same keys, same order -/
def mapFromCoG (coords : Template α) : Template α :=
  let cog := centerOfGeometry (coords.map (·.2))
  coords.map fun kv => (kv.1, kv.2 - cog)

/-! ### virtual sites (`virtual_site_builder.py`) -/

/-- `np.average(coords, axis=0, weights=weights)` = `(Σ wᵢ·xᵢ) / Σ wᵢ` -/
def weightedAverage (ws : List α) (xs : List (V3 α)) : V3 α :=
  V3.sdiv (V3.sum (List.zipWith V3.smul ws xs)) (ws.foldl (· + ·) 0)

/-- `vsn1`: weights all `1.` -/
def vsn1 (xs : List (V3 α)) : V3 α := weightedAverage (xs.map fun _ => (1 : α)) xs

/-- `vs2`: weights `[1 - a, a]` -/
def vs2 (a : α) (ri rj : V3 α) : V3 α := weightedAverage [1 - a, a] [ri, rj]

/-- `vs3`: weights `[1 - a - b, a, b]` -/
def vs3 (a b : α) (ri rj rk : V3 α) : V3 α := weightedAverage [1 - a - b, a, b] [ri, rj, rk]

/-- `vs3fd`: `r_i + (b * (r_ij + a * r_jk) / norm(r_ij + a * r_jk))` -/
def vs3fd (nrm : α → α) (a b : α) (ri rj rk : V3 α) : V3 α :=
  let rij := rj - ri
  let rjk := rk - rj
  let w := rij + V3.smul a rjk
  ri + V3.sdiv (V3.smul b w) (nrm (V3.normSq w))

/-- `vs3fad`; `c = cos(deg2rad θ)`, `s = sin(deg2rad θ)` are passed in -/
def vs3fad (nrm : α → α) (c s d : α) (ri rj rk : V3 α) : V3 α :=
  let rij := rj - ri
  let rjk := rk - rj
  let rnormal := rjk - V3.sdiv (V3.smul (V3.dot rij rjk) rij) (V3.dot rij rij)
  let angle1 := V3.sdiv (V3.smul c rij) (nrm (V3.normSq rij))
  let angle2 := V3.sdiv (V3.smul s rnormal) (nrm (V3.normSq rnormal))
  ri + V3.smul d angle1 + V3.smul d angle2

/-- `vs3out`: `r_i + a * r_ij + b * r_ik + c * cross(r_ij, r_ik)` -/
def vs3out (a b c : α) (ri rj rk : V3 α) : V3 α :=
  let rij := rj - ri
  let rik := rk - ri
  ri + V3.smul a rij + V3.smul b rik + V3.smul c (V3.cross rij rik)

/-- `vs4fdn` -/
def vs4fdn (nrm : α → α) (a b c : α) (ri rj rk rl : V3 α) : V3 α :=
  let rij := rj - ri
  let rik := rk - ri
  let ril := rl - ri
  let rja := V3.smul a rik - rij
  let rjb := V3.smul b ril - rij
  let rm := V3.cross rja rjb
  ri + V3.sdiv (V3.smul c rm) (nrm (V3.normSq rm))

/-- the constructor functions by the name they have in `virtual_site_builder.py`.
`params` = `interaction.parameters[1:]` as numbers (for `vs3fad` the angle is replaced by its cosine and
sine: `[cos, sin, d]`), `xs` = positions of `interaction.atoms[1:]` in order.  `none` = the Python call
raises (too few atoms / parameters, or `vserr`). -/
def constructByName (nrm : α → α) (fn : String) (params : List α) (xs : List (V3 α)) : Option (V3 α) :=
  match fn, params, xs with
  | "vsn1", _, _ :: _ => some (vsn1 xs)
  | "vs2", a :: _, [ri, rj] => some (vs2 a ri rj)
  | "vs3", a :: b :: _, [ri, rj, rk] => some (vs3 a b ri rj rk)
  | "vs3fd", a :: b :: _, ri :: rj :: rk :: _ => some (vs3fd nrm a b ri rj rk)
  | "vs3fad", c :: s :: d :: _, ri :: rj :: rk :: _ => some (vs3fad nrm c s d ri rj rk)
  | "vs3out", a :: b :: c :: _, ri :: rj :: rk :: _ => some (vs3out a b c ri rj rk)
  | "vs4fdn", a :: b :: c :: _, ri :: rj :: rk :: rl :: _ => some (vs4fdn nrm a b c ri rj rk rl)
  | _, _, _ => none

/-- `construct_vs(vs_type, interaction, positions)`: `VIRTUAL_SITES[(vs_type, func)](…)`; `table` is the
translated dictionary `(vs_type, func) ↦ function name` -/
def constructVS (table : List ((String × String) × String)) (nrm : α → α) (vsType func : String)
    (params : List α) (xs : List (V3 α)) : Option (V3 α) :=
  match table.find? (fun e => e.1 = (vsType, func)) with
  | none => none
  | some e => constructByName nrm e.2 params xs

/-! #### the constructions as the GROMACS reference manual defines them (specification side) -/

/-- 2: `x_v = (1−a)·x_i + a·x_j` -/
def gmx2 (a : α) (ri rj : V3 α) : V3 α := V3.smul (1 - a) ri + V3.smul a rj
/-- 3: `x_v = (1−a−b)·x_i + a·x_j + b·x_k` -/
def gmx3 (a b : α) (ri rj rk : V3 α) : V3 α := V3.smul (1 - a - b) ri + V3.smul a rj + V3.smul b rk
/-- 3fd: `x_v = x_i + b·(r_ij + a·r_jk)/|r_ij + a·r_jk|` -/
def gmx3fd (nrm : α → α) (a b : α) (ri rj rk : V3 α) : V3 α :=
  let w := (rj - ri) + V3.smul a (rk - rj)
  ri + V3.smul (b / nrm (V3.normSq w)) w
/-- 3fad: `x_v = x_i + d·cosθ·r_ij/|r_ij| + d·sinθ·r_⊥/|r_⊥|`, `r_⊥ = r_jk − (r_ij·r_jk)/(r_ij·r_ij)·r_ij` -/
def gmx3fad (nrm : α → α) (c s d : α) (ri rj rk : V3 α) : V3 α :=
  let rij := rj - ri
  let rjk := rk - rj
  let rperp := rjk - V3.smul (V3.dot rij rjk / V3.dot rij rij) rij
  ri + V3.smul (d * c / nrm (V3.normSq rij)) rij + V3.smul (d * s / nrm (V3.normSq rperp)) rperp
/-- 3out: `x_v = x_i + a·r_ij + b·r_ik + c·(r_ij × r_ik)` -/
def gmx3out (a b c : α) (ri rj rk : V3 α) : V3 α :=
  ri + V3.smul a (rj - ri) + V3.smul b (rk - ri) + V3.smul c (V3.cross (rj - ri) (rk - ri))
/-- 4fdn: `r_ja = a·r_ik − r_ij`, `r_jb = b·r_il − r_ij`, `r_m = r_ja × r_jb`, `x_v = x_i + c·r_m/|r_m|` -/
def gmx4fdn (nrm : α → α) (a b c : α) (ri rj rk rl : V3 α) : V3 α :=
  let rm := V3.cross (V3.smul a (rk - ri) - (rj - ri)) (V3.smul b (rl - ri) - (rj - ri))
  ri + V3.smul (c / nrm (V3.normSq rm)) rm
/-- N, COG (type 1): `x_v = (1/N)·Σ x_i` -/
def gmxCog (xs : List (V3 α)) : V3 α := V3.smul (1 / (xs.length : α)) (V3.sum xs)
/-- N, COM (type 2) and COW (type 3): `x_v = Σ wᵢ·x_i / Σ wᵢ` (masses / given weights) -/
def gmxWeighted (ws : List α) (xs : List (V3 α)) : V3 α :=
  V3.smul (1 / ws.foldl (· + ·) 0) (V3.sum (List.zipWith V3.smul ws xs))

/-- the GROMACS construction named by `(section, function type)`; `params` as for `constructByName`,
`masses` = masses of the constructing atoms (for `virtual_sitesn` type 2) -/
def gmxConstruct (nrm : α → α) (vsType func : String) (params masses : List α) (xs : List (V3 α)) :
    Option (V3 α) :=
  match vsType, func, params, xs with
  | "virtual_sites2", "1", a :: _, [ri, rj] => some (gmx2 a ri rj)
  | "virtual_sites3", "1", a :: b :: _, [ri, rj, rk] => some (gmx3 a b ri rj rk)
  | "virtual_sites3", "2", a :: b :: _, [ri, rj, rk] => some (gmx3fd nrm a b ri rj rk)
  | "virtual_sites3", "3", c :: s :: d :: _, [ri, rj, rk] => some (gmx3fad nrm c s d ri rj rk)
  | "virtual_sites3", "4", a :: b :: c :: _, [ri, rj, rk] => some (gmx3out a b c ri rj rk)
  | "virtual_sites4", "2", a :: b :: c :: _, [ri, rj, rk, rl] => some (gmx4fdn nrm a b c ri rj rk rl)
  | "virtual_sitesn", "1", _, _ :: _ => some (gmxCog xs)
  | "virtual_sitesn", "2", _, _ :: _ => some (gmxWeighted masses xs)
  | "virtual_sitesn", "3", _, _ :: _ => some (gmxWeighted params xs)
  | _, _, _, _ => none

end field

/-! ### grouping residues by graph hash -/

section grouping
variable {G : Type}

structure ResNode (G : Type) where
  resname : String
  graph : G

/-- `group_residues_by_hash(meta_molecule, template_graphs)`: returns the dict of unique graphs
(`none` = the placeholder `None` of a user template) and the `template` attribute written on each node -/
def groupResiduesByHash (h : G → String) (nodes : List (ResNode G)) (unique : Dict (Option G)) :
    Dict (Option G) × List String :=
  match nodes with
  | [] => (unique, [])
  | n :: rest =>
    let gh := h n.graph
    let unique' := if unique.has gh then unique else unique.set gh (some n.graph)
    let (u, attrs) := groupResiduesByHash h rest unique'
    (u, gh :: attrs)

/-- the `skip_filter=True` branch of `_extract_template_graphs` -/
def extractSkipFilter (h : G → String) (nodes : List (ResNode G)) (tg : Dict (Option G)) :
    Dict (Option G) × List String :=
  match nodes with
  | [] => (tg, [])
  | n :: rest =>
    let gh := h n.graph
    let tg' :=
      if tg.has n.resname then (tg.set gh (some n.graph)).del n.resname
      else if !tg.has gh then tg.set gh (some n.graph) else tg
    let (u, attrs) := extractSkipFilter h rest tg'
    (u, gh :: attrs)

def extractTemplateGraphs (h : G → String) (skipFilter : Bool) (nodes : List (ResNode G))
    (tg : Dict (Option G)) : Dict (Option G) × List String :=
  if skipFilter then extractSkipFilter h nodes tg else groupResiduesByHash h nodes tg

end grouping

/-! ### build file: `[ template ]`, `[ volumes ]` -/

section precedence
variable {α : Type} [Add α] [Sub α] [Mul α] [Neg α] [Zero α] [One α] [Div α] [NatCast α]

/-- the events of a build file that touch templates and sizes, in file order -/
inductive BfOp (α : Type) where
  /-- a finished `[ template ]` block: residue name, hash of its graph (oracle), the positions given in
  its `[ atoms ]`, and `compute_volume(...)` of it (oracle: involves `√`) -/
  | template (resname hash : String) (coords : Template α) (computedVolume : α)
  /-- a line `resname volume` of `[ volumes ]` -/
  | volume (resname : String) (v : α)

structure BfState (α : Type) where
  volumes : Dict α                 -- topology.volumes
  templates : Dict (Template α)    -- BuildDirector.templates
  resnamesToHash : Dict (List String)   -- BuildDirector.resnames_to_hash (all template hashes of a residue name)

def BfState.step (s : BfState α) : BfOp α → BfState α
  | .volume resname v => { s with volumes := s.volumes.set resname v }
  | .template resname hash coords vol =>
    { volumes := if s.volumes.has hash then s.volumes else s.volumes.set hash vol
      templates := s.templates.set hash (mapFromCoG coords)
      resnamesToHash := s.resnamesToHash.set resname ((s.resnamesToHash.get? resname).getD [] ++ [hash]) }

/-- one assignment `volumes[graph_hash] = volumes[resname]` per (residue name, hash) pair, skipped when the
residue name has no size -/
def rekeyPairs (volumes : Dict α) (pairs : List (String × String)) : Dict α :=
  pairs.foldl (fun vols rh =>
    match vols.get? rh.1 with
    | some v => vols.set rh.2 v
    | none => vols) volumes

/-- `resnames_to_hash.items()` with the inner loop over the hashes unrolled -/
def r2hPairs (r2h : Dict (List String)) : List (String × String) :=
  r2h.flatMap fun rh => rh.2.map fun h => (rh.1, h)

/-- the loop at the end of `BuildDirector.finalize`: the user's size of a residue name is ALSO stored under
the hash of EVERY user template of that name (it stays available under the name for residues of the same
name but another graph) -/
def rekeyVolumes (volumes : Dict α) (r2h : Dict (List String)) : Dict α :=
  rekeyPairs volumes (r2hPairs r2h)

/-- a whole build file: returns `topology.volumes` and the dict every molecule gets as `.templates` -/
def readBuildFile (volumes0 : Dict α) (ops : List (BfOp α)) : Dict α × Dict (Template α) :=
  let s := ops.foldl BfState.step ⟨volumes0, [], []⟩
  (rekeyVolumes s.volumes s.resnamesToHash, s.templates)

/-! ### `GenerateTemplates` -/

/-- what generating a template yields (oracle: layout + optimiser + `compute_volume`) -/
structure Generated (α : Type) where
  /-- optimised coordinates, before `map_from_CoG` -/
  coords : Template α
  /-- `compute_volume(block, coords, nonbond_params)` -/
  volume : α
  /-- `block.nodes[first]['resname']` -/
  resname : String

structure GTState (α : Type) where
  templates : Dict (Template α)    -- GenerateTemplates.templates
  volumes : Dict α                 -- topology.volumes (same object as GenerateTemplates.volumes)

/-- `gen_templates`: only hashes without a template are generated; the size is the user's value for the
residue name if there is one, else the computed one.  `none` = the graph is the `None` placeholder of a
user template that is nevertheless missing from `self.templates` (cannot happen after `run_molecule`'s
`update`; the Python code would raise). -/
def genTemplates {G : Type} (gen : String → G → Generated α) (st : GTState α) :
    List (String × Option G) → Option (GTState α)
  | [] => some st
  | (gh, g) :: rest =>
    if st.templates.has gh then genTemplates gen st rest
    else match g with
      | none => none
      | some g =>
        let r := gen gh g
        let vol := match st.volumes.get? r.resname with
          | some v => v
          | none => r.volume
        genTemplates gen ⟨st.templates.set gh (mapFromCoG r.coords), st.volumes.set gh vol⟩ rest

structure Mol (G : Type) (α : Type) where
  nodes : List (ResNode G)
  /-- `meta_molecule.templates` if the attribute exists (set by the build file) -/
  userTemplates : Option (Dict (Template α))

/-- `run_molecule`: returns the new state and the `template` attribute of every residue node -/
def runMolecule {G : Type} (h : G → String) (gen : String → G → Generated α) (skipFilter : Bool)
    (st : GTState α) (m : Mol G α) : Option (GTState α × List String) :=
  let user := m.userTemplates.getD []
  let tg0 : Dict (Option G) := user.map fun kv => (kv.1, none)
  let (tg, attrs) := extractTemplateGraphs h skipFilter m.nodes tg0
  let st1 : GTState α := { st with templates := st.templates.update user }
  match genTemplates gen st1 tg with
  | none => none
  | some st2 => some (st2, attrs)

/-- `run_system`: molecules in order, one shared state; every molecule ends with `.templates` = the final
`self.templates` (the same dict object) -/
def runSystem {G : Type} (h : G → String) (gen : String → G → Generated α) (skipFilter : Bool)
    (st : GTState α) : List (Mol G α) → Option (GTState α × List (List String))
  | [] => some (st, [])
  | m :: rest =>
    match runMolecule h gen skipFilter st m with
    | none => none
    | some (st', attrs) =>
      match runSystem h gen skipFilter st' rest with
      | none => none
      | some (fin, more) => some (fin, attrs :: more)

end precedence

/-! ### `optimize_geometry`: the verdict after the optimiser returned (rational arithmetic) -/

section verdict

/-- one interaction as the verdict loop sees it -/
structure Item where
  /-- `bonds | constraints | angles | dihedrals` -/
  kind : String
  /-- for dihedrals: `params[0] == "2"`; other dihedrals have penalty 0 -/
  improper : Bool
  /-- the measured value (`np.linalg.norm`, `angle`, `dih` on the final positions) -/
  value : Rat
  /-- `float(params[1])` -/
  target : Rat

def lookupD (d : List (String × Rat)) (k : String) : Rat := ((Dict.get? d k).getD 0)

/-- the entry of `WEIGHTS` the penalty function of an interaction type multiplies with:
`INTER_METHODS[kind]` names the function (`compute_bond` for bonds AND constraints), `wkey` says which
`WEIGHTS[...]` that function uses (both tables are translated from the source) -/
def penaltyKey (methods wkey : List (String × String)) (kind : String) : String :=
  match Dict.get? methods kind with
  | none => kind
  | some fn => match Dict.get? wkey fn with
    | none => kind
    | some key => key

def penaltyWeight (weights : List (String × Rat)) (methods wkey : List (String × String)) (kind : String) : Rat :=
  lookupD weights (penaltyKey methods wkey kind)

/-- `INTER_METHODS[inter_type](params, atom_coords)` -/
def penalty (weights : List (String × Rat)) (methods wkey : List (String × String)) (it : Item) : Rat :=
  if it.kind = "dihedrals" && !it.improper then 0
  else penaltyWeight weights methods wkey it.kind * ((it.value - it.target) * (it.value - it.target))

/-- `return False` at the first `penalty > WEIGHTS[t] * tolerance[t]**2`, else `True` -/
def verdict (weights tolerance : List (String × Rat)) (methods wkey : List (String × String))
    (items : List Item) : Bool :=
  items.all fun it =>
    !decide (penalty weights methods wkey it >
      lookupD weights it.kind * (lookupD tolerance it.kind * lookupD tolerance it.kind))

/-- the property's reading: every bond, constraint, angle and improper is within its tolerance -/
def withinTolerance (tolerance : List (String × Rat)) (items : List Item) : Bool :=
  items.all fun it =>
    (it.kind = "dihedrals" && !it.improper) ||
      decide (rabs (it.value - it.target) ≤ lookupD tolerance it.kind)

end verdict

/-! ### `compute_volume` -/

section volume

structure VolAtom where
  /-- `coord - res_center_of_geometry` -/
  diff : V3 Rat
  /-- `np.linalg.norm(diff)` (oracle: `√`) -/
  nrm : Rat
  /-- `float(nonbond_params[frozenset([atype, atype])]["nb1"])` -/
  rad : Rat

/-- `geom_vects`: one row `diff + u_vect(diff) * rad` per atom farther than `treshold` from the centre,
packed to the front, the remaining rows zero -/
def geomVects (thr : Rat) (atoms : List VolAtom) : List (V3 Rat) :=
  let far := atoms.filter fun a => decide (a.nrm > thr)
  far.map (fun a => a.diff + V3.smul a.rad (V3.sdiv a.diff a.nrm))
    ++ List.replicate (atoms.length - far.length) (0 : V3 Rat)

/-- radii of the atoms within `treshold` of the centre -/
def nearRadii (thr : Rat) (atoms : List VolAtom) : List Rat :=
  (atoms.filter fun a => !decide (a.nrm > thr)).map (·.rad)

/-- `_radius_of_gyration(points)²` = `1/(2N²) · Σᵢ Σⱼ |pᵢ − pⱼ|²` -/
def radiusOfGyrationSq (points : List (V3 Rat)) : Rat :=
  let n : Rat := points.length
  (1 / (2 * (n * n))) *
    (points.foldl (fun acc i => points.foldl (fun acc j => acc + V3.normSq (i - j)) acc) 0)

def isZero (v : V3 Rat) : Bool := v.x == 0 && v.y == 0 && v.z == 0

inductive Size where
  /-- the size is `√q` -/
  | sqrtOf (q : Rat)
  /-- the size is `r` -/
  | exact (r : Rat)
  /-- `max([])`: the Python code raises -/
  | error
deriving Repr, DecidableEq

def maxList : List Rat → Option Rat
  | [] => none
  | a :: rest => match maxList rest with
    | none => some a
    | some m => some (if m > a then m else a)      -- `max` keeps the first of equal elements

/-- `compute_volume` after the centre of geometry has been subtracted -/
def computeVolume (thr : Rat) (atoms : List VolAtom) : Size :=
  let g := geomVects thr atoms
  if g.any (fun v => !isZero v) then .sqrtOf (radiusOfGyrationSq g)
  else match maxList (nearRadii thr atoms) with
    | some r => .exact r
    | none => .error

def Size.positive : Size → Prop
  | .sqrtOf q => 0 < q
  | .exact r => 0 < r
  | .error => False

end volume

/-! ### specification side, evaluated by the driver on what the real code produced -/

section spec

/-- a residue as the oracle sees it: isomorphism class of its atom-name-labelled graph (computed by
`networkx.is_isomorphic` in the harness — an oracle for isomorphism), its sorted atom names, and the
`template` attribute the real code wrote -/
structure SeenRes where
  isoClass : Nat
  names : List String
  attr : String

/-- isomorphic ⇒ same template key; different atom names ⇒ different template key -/
def specSharing (rs : List SeenRes) : Bool :=
  (pairs rs).all fun (a, b) =>
    (a.isoClass != b.isoClass || a.attr == b.attr) && (a.names == b.names || a.attr != b.attr)

/-- one position per atom name: the template's keys are distinct and are exactly the residue's atom names -/
def specOnePerName (t : Template Rat) (sortedNames : List String) (sortedKeys : List String) : Bool :=
  sortedKeys == sortedNames && t.length == sortedNames.length &&
    (pairs (t.map (·.1))).all (fun (a, b) => a != b)

/-- zero centre of geometry within `tol` -/
def specCentred (tol : Rat) (t : Template Rat) : Bool :=
  decide (V3.normSq (centerOfGeometry (t.map (·.2))) ≤ tol * tol)

def specClose (tol : Rat) (u v : V3 Rat) : Bool := decide (V3.normSq (u - v) ≤ tol * tol)

end spec

end PolyplyVerif.Templ
