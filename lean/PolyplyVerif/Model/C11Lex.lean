/-
C11 — the CHARACTER level of the .itp round trip (extends `Model/ItpIO.lean`, which works on token lines).
Core Lean only.

What is mirrored

* the text `vermouth.gmx.itp.write_molecule_itp` produces, character by character (`writeItpText`):
  `'; ' + line` for header lines and group names, `[ name ]`, `moltype nrexcl`, the `[ atoms ]` table with
  its format string `'{idx:>w} {atype:<w} {resid:>w} {resname:<w} {atomname:<w} {charge_group:>w}
  {charge:>w} {mass:>w}'` (widths = longest `str()` of the column over all atoms, `idx` = `len(str(n))`;
  an absent charge/mass is the EMPTY string, so the line ends in blanks), interaction lines
  `' '.join(atoms + [' '.join(parameters)]) + ' ; ' + comment` (atoms right-aligned to the index width;
  `virtual_sitesn`: `[atoms[0], parameters] + atoms[1:]`; an interaction WITHOUT parameters ends in a blank),
  `#ifdef TAG` / `#ifndef TAG` / `#endif`, the empty line after every group; and the header `gen_params`
  hands over (`writeGenParamsText`: the command line carries its own `'\n'`, hence an empty line after it).
  A file is the list of its lines (each written with a final `'\n'`).
* the lexer of the readers (`lexLine`): `LineParser.parse` cuts a line at the first `;`
  (`split_comments`), strips it and skips it when empty; `ITPDirector.dispatch` / `TOPDirector.dispatch` look
  at the first and last character (`[` … `]` -> header named `line.strip('[ ]').casefold()`, `[` without `]`
  -> error, `#` -> pragma), every handler then works on `line.split()`.  It is written with the tokenizer of
  `Model/TopParse.lean` (`stripComment`, `words`, `headerNameChars`), the same functions `classifyChars`
  (C08) uses.  The comment text (after the first `;`, stripped) is kept because the token model keeps it; no
  reader looks at it.

Tie: `harness/c11.py` streams `writer-text` (this text = the file the real writer wrote, character for
character), `lexer` (`lexLine` = real `split_comments` + real `ITPDirector.dispatch` / `parse_header`, on
all short lines over the lexer's character classes exhaustively, on random lines and on every line of every
written file) and `reader-text-*` (`readItp ∘ lexLine` on the file text = the real readers).

Abstraction (recorded by the harness): whitespace = the six ASCII characters `isWs` lists (Python's
`str.strip/split` also treat `\x1c`–`\x1f`, `\x85`, `\xa0` and the Unicode spaces as whitespace); `str(x)` of
a number is the token the harness hands over.
-/
import PolyplyVerif.Model.TopParse
import PolyplyVerif.Model.ItpIO

namespace PolyplyVerif.C11Lex
open PolyplyVerif.TopParse (isWs stripComment words wordsGo stripWs headerNameChars)
open PolyplyVerif.ItpIO

/-! ## Lexer -/

/-- `line.partition(';')[2]`: the text after the first `;` -/
def afterSemi (raw : List Char) : List Char := (raw.dropWhile (· != ';')).drop 1

def hasSemi (raw : List Char) : Bool := raw.any (· == ';')

/-- one physical line (with or without its final `'\n'`) -> token line -/
def lexLine (raw : List Char) : Line :=
  let toks := words (stripComment raw)
  let cmt := String.ofList (stripWs (afterSemi raw))
  match toks with
  | [] => if hasSemi raw then .comment cmt else .blank
  | t0 :: _ =>
    if t0.head? == some '[' then
      (if (toks.getLast?.bind List.getLast?) == some ']' then .header (headerNameChars raw)
       else .bad (String.ofList (stripWs (stripComment raw))))
    else if t0.head? == some '#' then .pragma (toks.map String.ofList)
    else .data (toks.map String.ofList) (if hasSemi raw then some cmt else none)

def lexText (text : List (List Char)) : List Line := text.map lexLine

/-- `read_itp(file.readlines())` / the topology reader on the characters of a file -/
def readItpText (text : List (List Char)) : Except String Block := readItp (lexText text)
def readViaTopText (text : List (List Char)) : Except String Block := readViaTop (lexText text)

/-- what lexing can return for a token line: comment texts come back stripped -/
def normLine : Line → Line
  | .comment t => .comment (String.ofList (stripWs t.toList))
  | .data toks (some c) => .data toks (some (String.ofList (stripWs c.toList)))
  | l => l

/-! ## Writer text -/

/-- `'{:>w}'.format(t)` -/
def padL (w : Nat) (t : List Char) : List Char := List.replicate (w - t.length) ' ' ++ t

/-- `'{:<w}'.format(t)` -/
def padR (w : Nat) (t : List Char) : List Char := t ++ List.replicate (w - t.length) ' '

/-- `' '.join(parts)` -/
def joinSp : List (List Char) → List Char
  | [] => []
  | [a] => a
  | a :: b :: rest => a ++ ' ' :: joinSp (b :: rest)

structure Widths where
  idx : Nat
  atype : Nat
  resid : Nat
  resname : Nat
  name : Nat
  cgnr : Nat
  charge : Nat
  mass : Nat
deriving Repr, DecidableEq

/-- `max(len(str(x)) for x in column)` (0 for an empty column; the writer refuses a molecule without atoms) -/
def maxLen (l : List String) : Nat := l.foldl (fun acc s => max acc s.toList.length) 0

/-- `max_length` of the writer -/
def widthsOf (ns : List Atom) : Widths :=
  { idx := (natTok ns.length).toList.length,
    atype := maxLen (ns.map (·.atype)),
    resid := maxLen (ns.map (fun a => natTok a.resid)),
    resname := maxLen (ns.map (·.resname)),
    name := maxLen (ns.map (·.name)),
    cgnr := maxLen (ns.map (fun a => natTok a.cgnr)),
    charge := maxLen (ns.map (fun a => a.charge.getD "")),
    mass := maxLen (ns.map (fun a => a.mass.getD "")) }

def atomCells (W : Widths) (a : Atom) (i : Nat) : List (List Char) :=
  [padL W.idx (natTok (i + 1)).toList, padR W.atype a.atype.toList, padL W.resid (natTok a.resid).toList,
   padR W.resname a.resname.toList, padR W.name a.name.toList, padL W.cgnr (natTok a.cgnr).toList,
   padL W.charge (a.charge.getD "").toList, padL W.mass (a.mass.getD "").toList]

def atomText (W : Widths) (a : Atom) (i : Nat) : List Char := joinSp (atomCells W a i)

def atomTextFrom (W : Widths) (i : Nat) : List Atom → List (List Char)
  | [] => []
  | a :: l => atomText W a i :: atomTextFrom W (i + 1) l

def commentSuffix : Option String → List Char
  | some c => ' ' :: ';' :: ' ' :: c.toList
  | none => []

def ixnCells (W : Widths) (ns : List Atom) (name : String) (x : Ixn) : List (List Char) :=
  let atoms := (writtenAtoms ns name x).map (fun n => padL W.idx (natTok n).toList)
  let params := joinSp (x.params.map String.toList)
  if name = "virtual_sitesn" then atoms.take 1 ++ [params] ++ atoms.drop 1 else atoms ++ [params]

def ixnText (W : Widths) (ns : List Atom) (name : String) (x : Ixn) : List Char :=
  joinSp (ixnCells W ns name x) ++ commentSuffix x.comment

def commentText (t : String) : List Char := ';' :: ' ' :: t.toList

def headerLineText (name : String) : List Char := '[' :: ' ' :: (name.toList ++ [' ', ']'])

def groupText (W : Widths) (ns : List Atom) (name : String) (k : GKey) (g : List Ixn) : List (List Char) :=
  let sorted := g.mergeSort (fun a b => ixnKeyLe (ixnSortKey name (writtenAtoms ns name a))
                                                 (ixnSortKey name (writtenAtoms ns name b)))
  (match k.cond with
    | some (t, c) => [(if c then "#ifdef" else "#ifndef").toList ++ ' ' :: t.toList]
    | none => []) ++
  (if k.group = "" then [] else [commentText k.group]) ++
  sorted.map (ixnText W ns name) ++
  (match k.cond with | some _ => ["#endif".toList] | none => []) ++
  [[]]

def sectionText (W : Widths) (ns : List Atom) (s : String × List Ixn) : List (List Char) :=
  headerLineText (headerName s.1) :: (sectionGroups s.2).flatMap (fun kg => groupText W ns s.1 kg.1 kg.2)

def headerText (header : List String) : List (List Char) :=
  if header.isEmpty then [] else header.map commentText ++ [[]]

/-- `write_molecule_itp(molecule, outfile, header=header, moltype=moltype)`: the lines of the file -/
def writeItpText (header : List String) (moltype : Tok) (m : Mol) : Except String (List (List Char)) :=
  let ns := sortedNodes m
  let secs := sortSections m.sections
  let W := widthsOf ns
  if ns.isEmpty then .error "no atoms (max() of an empty sequence)"
  else if !(secs.all (fun s => s.2.all (ixnWritable ns s.1))) then .error "interaction cannot be written"
  else .ok (headerText header ++
            [headerLineText "moleculetype", moltype.toList ++ ' ' :: (natTok m.nrexcl).toList, [],
             headerLineText "atoms"] ++ atomTextFrom W 0 ns ++ [[]] ++
            secs.flatMap (sectionText W ns))

/-- the header of `gen_params` as text: `' '.join(sys.argv) + "\n"` is written as `; argv\n\n` -/
def genParamsHeaderText (argv : String) (cites : List String) : List (List Char) :=
  [commentText argv, [], commentText "Please cite the following papers:"] ++ cites.map commentText ++ [[]]

def writeGenParamsText (argv : String) (cites : List String) (moltype : Tok) (m : Mol) :
    Except String (List (List Char)) :=
  match writeItpText [] moltype m with
  | .ok body => .ok (genParamsHeaderText argv cites ++ body)
  | .error e => .error e

/-! ## The file as ONE character sequence -/

/-- every line is written with its `'\n'` -/
def joinLines : List (List Char) → List Char
  | [] => []
  | l :: ls => l ++ '\n' :: joinLines ls

/-- `file.readlines()` without the line terminators (a last line without `'\n'` is a line too).  Python's text
mode also ends a line at `'\r'`; the writer never emits one unless a comment or header string contains it. -/
def splitLinesGo : List Char → List Char → List (List Char)
  | [], cur => if cur.isEmpty then [] else [cur]
  | c :: cs, cur => if c == '\n' then cur :: splitLinesGo cs [] else splitLinesGo cs (cur ++ [c])

def splitLines (s : List Char) : List (List Char) := splitLinesGo s []

/-- the characters `gen_params` leaves in its output file -/
def writeItpFile (header : List String) (moltype : Tok) (m : Mol) : Except String (List Char) :=
  (writeItpText header moltype m).map joinLines

def readItpFile (file : List Char) : Except String Block := readItpText (splitLines file)
def readViaTopFile (file : List Char) : Except String Block := readViaTopText (splitLines file)

/-- no line break inside a header line, a group name or a comment (tokens cannot contain one) -/
def noNewlines (header : List String) (m : Mol) : Bool :=
  header.all (fun h => !h.toList.contains '\n') &&
  m.sections.all (fun s => s.2.all (fun x =>
    !(x.group.getD "").toList.contains '\n' && !(x.comment.getD "").toList.contains '\n'))

/-! ## What the round trip needs from the strings -/

/-- a string that survives as ONE token: not empty, no whitespace, no `;` -/
def cleanChars (t : List Char) : Bool := !t.isEmpty && t.all (fun c => !isWs c && c != ';')

def cleanTok (t : Tok) : Bool := cleanChars t.toList

/-- ... and, as the first token of a line, is not taken for a header or a pragma -/
def plainFirst (t : Tok) : Bool := t.toList.head? != some '[' && t.toList.head? != some '#'

def optClean (o : Option Tok) : Bool := match o with | some t => cleanTok t | none => true

/-- the strings of a molecule are tokens: molecule name, atom type / residue name / atom name, charge and
mass when present, every parameter, every `#ifdef/#ifndef` tag.  (Comments, group names and header lines are
unrestricted: they are written behind a `;`.) -/
def tokensOk (moltype : Tok) (m : Mol) : Bool :=
  cleanTok moltype && plainFirst moltype &&
  m.atoms.all (fun a => cleanTok a.atype && cleanTok a.resname && cleanTok a.name &&
                        optClean a.charge && optClean a.mass) &&
  m.sections.all (fun s => s.2.all (fun x => x.params.all cleanTok && optClean x.ifdef && optClean x.ifndef))

/-- the section names whose header line `[ name ]` the lexer gives back as `name` (checked by `decide` in
`Proofs/C11Lex.lean`): `moleculetype`, `atoms` and every section of the reader's table -/
def knownHeaders : List String := ["moleculetype", "atoms"] ++ splitTable.map (·.1)

/-- every non-empty section is written under such a header (follows from `WF`) -/
def headersOk (m : Mol) : Bool :=
  m.sections.all (fun s => s.2.isEmpty || knownHeaders.contains (headerName s.1))

end PolyplyVerif.C11Lex
