/-
Model of `polyply/src/topology.py`: `Topology.preprocess()` =
`gen_pairs`, `replace_defines`, `gen_bonded_interactions`, `convert_nonbond_to_sig_eps`,
of `lorentz_berthelot_rule` / `geometric_rule` and of `match_dihedral_interaction_types` / `_wildcard_dih`.
Core Lean only.

Mirrors the code that exists:
* the dihedral wildcard search is driven by the TRANSLATED `patterns` list (`Tables.Top.patterns`) and
  follows the loop literally: for every pattern, for the atoms and the reversed atoms, the key and then
  the reversed key;
* bonded types: exact key, reversed key, (dihedrals only) wildcard search; no match -> `OSError`;
* the first term of a type is written into the block's interaction in place (molecule instances alias
  the block's `parameters` lists and `meta` dicts, so every instance sees it), the further terms are
  appended to the interaction list of every instance named in `mol_idx_by_name`;
* `replace_defines`: a parameter token equal to a macro name is replaced by the macro's value list; a
  macro without a value (`#define FLAG`, stored as `True`) used as a parameter makes the real code fail
  (`for new_param in True` -> TypeError): modelled as an error;
* `gen_pairs`: explicit `nonbond_params` win, pairs are generated only for `gen-pairs == "yes"`, self
  terms come from the atom types.  Two layers: `genPairs` records a generated entry by its provenance only
  (`Src.generated`; the combination-rule FORMULAS are not part of the property), `genPairsV` carries the values:
  `lorentz_berthelot_rule` / `geometric_rule` as code (`lorentzBerthelot`, `geometric`; arithmetic mean exact,
  square roots as the specification `Val.root 2 (a*b)`), selected through the TRANSLATED `comb_funcs` table by
  function name (`combFnFor`), called as `comb_rule(nb1_A, nb1_B, nb2_A, nb2_B)` (`combValues`);
  `genPairsV` erases to `genPairs` (`Proofs`: `genPairsV_erase`);
* `convert_nonbond_to_sig_eps` runs iff `comb-rule == 1` (translated number): `convertEntry` is the loop body on
  rationals (epsilon exact, sigma the specification `Val.root 6 (nb2/nb1)`, `ZeroDivisionError` when exactly one
  operand is zero, a complex sigma for a negative ratio), `convertVals` extends it to the Lorentz-Berthelot shape
  `(m, sqrt p)`, `convertTable` is the loop, `preprocessV` the whole of `preprocess` with the numbers;
* literals read from the CURRENT source (`Generated/C09Preprocess.lean`, provider `harness/tables/c09_preprocess.py`):
  the type-less section list (`untyped`), the OPLS macro names (`oplsOf`), the haystack of the substring test
  `inter_type in "dihedrals"` (`dihLike`), `"yes"` (`genPairsFlag`), the token count of a parameterless interaction
  (`paramlessLen`) and the rule number that triggers the conversion (`convertsRule`).

Not modelled (assumption recorded by the harness): atom keys of a block are `0..n-1` in order
(GROMACS requires consecutive numbering), so `Block.to_molecule` does not renumber.
-/
import PolyplyVerif.Generated.C09Preprocess

namespace PolyplyVerif.Preprocess

abbrev Key := List String

/-- one line of a `[ ...types ]` section: parameters and the `current_meta` it was read under
(`(condition, tag)`) -/
structure TypeEntry where
  params : List String
  cond : Option (String × String)
deriving Repr, DecidableEq, Inhabited

/-- `topology.types[inter_type]`: dict key -> list of entries (lookup = first occurrence) -/
abbrev TypeTable := List (Key × List TypeEntry)

def tlookup (t : TypeTable) (k : Key) : Option (List TypeEntry) :=
  (t.find? (fun e => e.1 == k)).map (·.2)

def hasKey (t : TypeTable) (k : Key) : Bool := (tlookup t k).isSome

/-! ### dihedral wildcard search -/

/-- `_wildcard_dih(atoms, idxs)`; `atoms[idx]` is totalised with `""` (the guard `atoms.length = 4`
and "pattern entries are < 4" is stated wherever it matters) -/
def wildcardKey (atoms : Key) (pat : List (Option Nat)) : Key :=
  pat.map fun e => match e with
    | some i => atoms.getD i ""
    | none => "X"

/-- `if key in dict: return key; elif key[::-1] in dict: return key[::-1]` -/
def tryKey (t : TypeTable) (k : Key) : Option Key :=
  if hasKey t k then some k else if hasKey t k.reverse then some k.reverse else none

/-- the body of `for pattern in patterns:`: `for atom_seq in (atoms, atoms[::-1])` -/
def tryPattern (t : TypeTable) (atoms : Key) (pat : List (Option Nat)) : Option Key :=
  [atoms, atoms.reverse].findSome? fun sq => tryKey t (wildcardKey sq pat)

/-- `match_dihedral_interaction_types(atoms, interaction_dict)` -/
def matchDihedral (pats : List (List (Option Nat))) (atoms : Key) (t : TypeTable) : Option Key :=
  pats.findSome? (tryPattern t atoms)

/-- `s in t` for Python strings: `s` occurs in `t` as a contiguous substring -/
def infixOf (s : List Char) : List Char → Bool
  | [] => s.isEmpty
  | c :: rest => s.isPrefixOf (c :: rest) || infixOf s rest

/-- `inter_type in "dihedrals"` — the code writes `in` on a STRING, i.e. a substring test: the section name
`dihedrals` passes, and so would `dihedral`, `hed` or the empty name.  The haystack is the TRANSLATED literal.
(None of the other section names the topology reader accepts is a substring of it — `C09_literals` — so through
the reader only `dihedrals` takes the wildcard route; a hand-built block with a section called `dihedral` does.) -/
def dihLike (interType : String) : Bool := infixOf interType.toList Tables.C09Preprocess.dihedralHaystack.toList

/-- the lookup of `gen_bonded_interactions`: exact, reversed, then (dihedrals) wildcard search -/
def lookupType (pats : List (List (Option Nat))) (interType : String) (atoms : Key) (t : TypeTable) :
    Option (List TypeEntry) :=
  match tlookup t atoms with
  | some e => some e
  | none =>
    match tlookup t atoms.reverse with
    | some e => some e
    | none =>
      if dihLike interType then
        match matchDihedral pats atoms t with
        | some k => tlookup t k
        | none => none
      else none

/-! ### interactions, blocks -/

abbrev Tags := List (String × String)

def Tags.set (a : Tags) (k v : String) : Tags :=
  match a with
  | [] => [(k, v)]
  | (k', v') :: rest => if k' = k then (k, v) :: rest else (k', v') :: Tags.set rest k v

/-- the dict a type entry's `current_meta` is: `{'tag': tag, 'condition': condition}` or `{}` -/
def condMeta (c : Option (String × String)) : Tags :=
  match c with
  | some (cond, tag) => [("tag", tag), ("condition", cond)]
  | none => []

def Tags.update (dst src : Tags) : Tags := src.foldl (fun acc kv => Tags.set acc kv.1 kv.2) dst

structure Ixn where
  atoms : List Nat
  params : List String
  tags : Tags
deriving Repr, DecidableEq, Inhabited

structure Block where
  name : String
  /-- atom type of node `i` (nodes are `0..n-1`) -/
  atypes : List String
  /-- `block.interactions`: insertion-ordered dict inter_type -> list -/
  ixns : List (String × List Ixn)
deriving Repr, DecidableEq, Inhabited

/-! ### defines -/

/-- value of a macro: `#define TAG` stores `True`, `#define TAG v1 v2 ..` the token list -/
inductive DefVal where
  | flag
  | vals (l : List String)
deriving Repr, DecidableEq, Inhabited

abbrev Defines := List (String × DefVal)

def dlookup (d : Defines) (k : String) : Option DefVal := (d.find? (fun e => e.1 == k)).map (·.2)

/-- `replace_defined_interaction` on the parameter list -/
def replaceParams (d : Defines) : List String → Except String (List String)
  | [] => .ok []
  | p :: rest =>
    match dlookup d p with
    | some (.vals l) => (replaceParams d rest).map (l ++ ·)
    | some .flag => .error "define-without-value-used-as-parameter"
    | none => (replaceParams d rest).map (p :: ·)

def replaceIxns (d : Defines) : List Ixn → Except String (List Ixn)
  | [] => .ok []
  | i :: rest =>
    match replaceParams d i.params with
    | .error e => .error e
    | .ok ps => (replaceIxns d rest).map ({ i with params := ps } :: ·)

def replaceSections (d : Defines) : List (String × List Ixn) → Except String (List (String × List Ixn))
  | [] => .ok []
  | (nm, l) :: rest =>
    match replaceIxns d l with
    | .error e => .error e
    | .ok l' => (replaceSections d rest).map ((nm, l') :: ·)

/-- `Topology.replace_defines` on one block -/
def replaceDefinesBlock (d : Defines) (b : Block) : Except String Block :=
  (replaceSections d b.ixns).map fun s => { b with ixns := s }

/-! ### bonded interactions -/

structure AtomType where
  name : String
  nb1 : Rat
  nb2 : Rat
  bondType : Option String
deriving Repr, DecidableEq, Inhabited

def atLookup (ats : List AtomType) (nm : String) : Option AtomType := ats.find? (fun a => a.name == nm)

/-- `if inter_type in [...]: continue` — the TRANSLATED list of sections without bonded types -/
def untyped : List String := Tables.C09Preprocess.untyped

/-- `len(interaction.parameters) == 1`: the TRANSLATED token count of an interaction written without parameters -/
def paramlessLen : Nat := Tables.C09Preprocess.paramlessLen

/-- `"_FF_OPLS" in self.defines or "_FF_OPLS_AA" in self.defines` with the TRANSLATED macro names -/
def oplsOf (d : Defines) : Bool := Tables.C09Preprocess.oplsDefines.any fun nm => (dlookup d nm).isSome

/-- `self.defaults["gen-pairs"] == "yes"` with the TRANSLATED keyword (`none`: the reader's default "no") -/
def genPairsFlag (v : Option String) : Bool := v == some Tables.C09Preprocess.genPairsYes

/-- `self.defaults['comb-rule'] == 1` with the TRANSLATED rule number -/
def convertsRule (rule : Rat) : Bool := rule == (Tables.C09Preprocess.convertCombRule : Rat)

/-- the key looked up for an interaction: atom types of its atoms, or (OPLS) their bond types -/
def ixnKey (opls : Bool) (ats : List AtomType) (b : Block) (i : Ixn) : Option Key :=
  i.atoms.mapM fun n =>
    match b.atypes[n]? with
    | none => none
    | some ty => if opls then (atLookup ats ty).bind (·.bondType) else some ty

/-- first term: written into the interaction in place -/
def firstTerm (i : Ixn) (e : TypeEntry) : Ixn :=
  { i with params := e.params, tags := i.tags.update (condMeta e.cond) }

/-- further terms: new interactions on the same atoms -/
def extraTerms (i : Ixn) (es : List TypeEntry) : List Ixn :=
  es.map fun e => { atoms := i.atoms, params := e.params, tags := condMeta e.cond }

/-- one interaction of `gen_bonded_interactions`: `(updated interaction, additional interactions)` -/
def resolveIxn (pats : List (List (Option Nat))) (opls : Bool) (ats : List AtomType) (b : Block)
    (interType : String) (t : TypeTable) (i : Ixn) : Except String (Ixn × List Ixn) :=
  if i.params.length == paramlessLen then
    match ixnKey opls ats b i with
    | none => .error "unknown-atom-or-type"
    | some key =>
      match lookupType pats interType key t with
      | none => .error "no-bonded-type"
      | some [] => .ok (i, [])
      | some (e :: es) => .ok (firstTerm i e, extraTerms i es)
  else .ok (i, [])

def resolveList (pats : List (List (Option Nat))) (opls : Bool) (ats : List AtomType) (b : Block)
    (interType : String) (t : TypeTable) : List Ixn → Except String (List Ixn × List Ixn)
  | [] => .ok ([], [])
  | i :: rest =>
    match resolveIxn pats opls ats b interType t i with
    | .error e => .error e
    | .ok (i', add) =>
      match resolveList pats opls ats b interType t rest with
      | .error e => .error e
      | .ok (l, adds) => .ok (i' :: l, add ++ adds)

abbrev Types := List (String × TypeTable)

def typesOf (types : Types) (interType : String) : TypeTable :=
  ((types.find? (fun e => e.1 == interType)).map (·.2)).getD []

/-- All sections of one block as every instance carries them afterwards: the interactions updated in
place followed by the additional terms of that section.  (The code collects the additional terms in a
`defaultdict` keyed by section and executes `interactions[inter_type] += new_inters` for every instance
after the loop; sections are dict keys, hence unique, so this is the per-section append written here.) -/
def resolveSections (pats : List (List (Option Nat))) (opls : Bool) (ats : List AtomType) (b : Block)
    (types : Types) : List (String × List Ixn) → Except String (List (String × List Ixn))
  | [] => .ok []
  | (nm, l) :: rest =>
    if untyped.contains nm then
      (resolveSections pats opls ats b types rest).map fun s => (nm, l) :: s
    else
      match resolveList pats opls ats b nm (typesOf types nm) l with
      | .error e => .error e
      | .ok (l', add) =>
        (resolveSections pats opls ats b types rest).map fun s => (nm, l' ++ add) :: s

/-- the interactions every instance of block `b` carries after `gen_bonded_interactions` -/
def resolveBlock (pats : List (List (Option Nat))) (opls : Bool) (ats : List AtomType) (types : Types)
    (b : Block) : Except String (List (String × List Ixn)) :=
  resolveSections pats opls ats b types b.ixns

/-! ### non-bonded pairs -/

/-- where an entry of `nonbond_params` comes from -/
inductive Src where
  | explicit (f : Int)
  | self
  | generated
deriving Repr, DecidableEq, Inhabited

structure NbEntry where
  a : String
  b : String
  src : Src
  /-- `(nb1, nb2)` as read; `none` for generated entries (formula not part of the property) -/
  vals : Option (Rat × Rat)
deriving Repr, DecidableEq, Inhabited

/-- `frozenset([a, b]) == frozenset([c, d])` -/
def samePair (a b c d : String) : Bool := (a == c && b == d) || (a == d && b == c)

def nbLookup (t : List NbEntry) (a b : String) : Option NbEntry := t.find? (fun e => samePair e.a e.b a b)

/-- `itertools.combinations(names, 2)` -/
def combinations2 : List String → List (String × String)
  | [] => []
  | x :: rest => rest.map (fun y => (x, y)) ++ combinations2 rest

/-- `if frozenset([a, b]) not in nonbond_params: nonbond_params.update({frozenset([a, b]): ...})` -/
def addIfAbsent (acc : List NbEntry) (e : NbEntry) : List NbEntry :=
  if (nbLookup acc e.a e.b).isSome then acc else acc ++ [e]

/-- the `gen-pairs == "yes"` loop -/
def genCross (t : List NbEntry) (pairs : List (String × String)) : List NbEntry :=
  (pairs.map fun p => (⟨p.1, p.2, .generated, none⟩ : NbEntry)).foldl addIfAbsent t

/-- the self-term loop -/
def genSelf (t : List NbEntry) (ats : List AtomType) : List NbEntry :=
  (ats.map fun a => (⟨a.name, a.name, .self, some (a.nb1, a.nb2)⟩ : NbEntry)).foldl addIfAbsent t

/-- `Topology.gen_pairs`; `ats` = `atom_types` in dict order (names unique) -/
def genPairs (genPairsYes : Bool) (ats : List AtomType) (explicit : List NbEntry) : List NbEntry :=
  let t := if genPairsYes then genCross explicit (combinations2 (ats.map (·.name))) else explicit
  genSelf t ats

/-! ### the whole of `preprocess` -/

structure Topo where
  /-- `defaults["comb-rule"]` (a float in the code), `none` = no `[defaults]` -/
  combRule : Option Rat
  genPairsYes : Bool
  defines : Defines
  atomTypes : List AtomType
  nonbond : List NbEntry
  types : Types
  blocks : List Block
  /-- `[molecules]` expanded: the block name of every instance, in order -/
  molecules : List String
deriving Repr, Inhabited

structure Result where
  /-- interactions of every molecule instance, in `topology.molecules` order -/
  instances : List (String × List (String × List Ixn))
  nonbond : List NbEntry
  /-- `convert_nonbond_to_sig_eps` was applied -/
  converted : Bool
deriving Repr, Inhabited

def mapBlocksM (f : Block → Except String α) : List Block → Except String (List α)
  | [] => .ok []
  | b :: rest => match f b with
    | .error e => .error e
    | .ok x => (mapBlocksM f rest).map (x :: ·)

def preprocess (pats : List (List (Option Nat))) (combFuncs : List (Nat × String)) (tp : Topo) :
    Except String Result :=
  match tp.combRule with
  | none => .error "no-defaults"
  | some rule =>
    if !(combFuncs.any fun e => (e.1 : Rat) == rule) then .error "unknown-comb-rule" else
    let nb := genPairs tp.genPairsYes tp.atomTypes tp.nonbond
    match mapBlocksM (replaceDefinesBlock tp.defines) tp.blocks with
    | .error e => .error e
    | .ok blocks =>
      let opls := oplsOf tp.defines
      match mapBlocksM (fun b => (resolveBlock pats opls tp.atomTypes tp.types b).map fun s => (b.name, s)) blocks with
      | .error e => .error e
      | .ok resolved =>
        let inst := tp.molecules.filterMap fun nm => (resolved.find? (fun e => e.1 == nm)).map fun e => (nm, e.2)
        .ok { instances := inst, nonbond := nb, converted := convertsRule rule }

/-! ### numbers of the non-bonded table: combination rules and the sigma/epsilon conversion -/

/-- A value of `nonbond_params` as the model knows it: an exact rational; the non-negative real `x` with
`x ^ deg = rad` (the square roots of the combination rules, the sixth root of the conversion — these are
specifications, not computed); or a non-real complex number (what Python's float power returns for a
negative base; not modelled further).  Floats are treated as the rationals they denote; overflow and
rounding are outside the model (the harness compares exactly where float arithmetic is exact, else 1e-9). -/
inductive Val where
  | exact (q : Rat)
  | root (deg : Nat) (rad : Rat)
  | complex
deriving Repr, DecidableEq, Inhabited

/-- `x ** (1/deg)` for the float `x = rad` -/
def rootVal (deg : Nat) (rad : Rat) : Val := if rad < 0 then .complex else .root deg rad

/-- `lorentz_berthelot_rule(sig_A, sig_B, eps_A, eps_B)`: `((sig_A + sig_B)/2.0, (eps_A * eps_B)**0.5)` -/
def lorentzBerthelot (sigA sigB epsA epsB : Rat) : Val × Val :=
  (.exact ((sigA + sigB) / 2), rootVal 2 (epsA * epsB))

/-- `geometric_rule(C6_A, C6_B, C12_A, C12_B)`: `((C6_A * C6_B)**0.5, (C12_A * C12_B)**0.5)` -/
def geometric (c6A c6B c12A c12B : Rat) : Val × Val :=
  (rootVal 2 (c6A * c6B), rootVal 2 (c12A * c12B))

/-- the combination-rule functions of topology.py the model knows -/
inductive CombFn where
  | lorentzBerthelot
  | geometric
deriving Repr, DecidableEq, Inhabited

def combFnByName (nm : String) : Option CombFn :=
  if nm == "lorentz_berthelot_rule" then some .lorentzBerthelot
  else if nm == "geometric_rule" then some .geometric
  else none

def CombFn.apply : CombFn → Rat → Rat → Rat → Rat → Val × Val
  | .lorentzBerthelot => Preprocess.lorentzBerthelot
  | .geometric => Preprocess.geometric

/-- `comb_rule = comb_funcs[self.defaults["comb-rule"]]` with the TRANSLATED dict `comb_funcs`
(rule number -> function name; keys of a dict literal: the table theorem states they are distinct) -/
def combFnFor (combFuncs : List (Nat × String)) (rule : Rat) : Except String CombFn :=
  match combFuncs.find? (fun e => (e.1 : Rat) == rule) with
  | none => .error "unknown-comb-rule"
  | some e =>
    match combFnByName e.2 with
    | some f => .ok f
    | none => .error "unmodelled-comb-function"

/-- `comb_rule(nb1_A, nb1_B, nb2_A, nb2_B)`: the two `nb1` go to the first two parameters
(`sig_A, sig_B` / `C6_A, C6_B`), the two `nb2` to the last two -/
def combValues (f : CombFn) (a b : AtomType) : Val × Val := f.apply a.nb1 b.nb1 a.nb2 b.nb2

/-- an entry of `nonbond_params` with its values -/
structure NbV where
  a : String
  b : String
  src : Src
  nb1 : Val
  nb2 : Val
deriving Repr, DecidableEq, Inhabited

/-- forget the generated values: the provenance-only entry of `genPairs` -/
def NbV.erase (e : NbV) : NbEntry :=
  ⟨e.a, e.b, e.src,
   match e.src with
   | .generated => none
   | _ => match e.nb1, e.nb2 with
     | .exact x, .exact y => some (x, y)
     | _, _ => none⟩

/-- an entry read from `[ nonbond_params ]` (always carries its two numbers) -/
def NbV.ofEntry? (e : NbEntry) : Option NbV := e.vals.map fun v => ⟨e.a, e.b, e.src, .exact v.1, .exact v.2⟩

def nbLookupV (t : List NbV) (a b : String) : Option NbV := t.find? (fun e => samePair e.a e.b a b)

def addIfAbsentV (acc : List NbV) (e : NbV) : List NbV :=
  if (nbLookupV acc e.a e.b).isSome then acc else acc ++ [e]

/-- `itertools.combinations(xs, 2)` -/
def combs2 {α : Type} : List α → List (α × α)
  | [] => []
  | x :: rest => rest.map (fun y => (x, y)) ++ combs2 rest

/-- the `gen-pairs == "yes"` loop with values: `nb1, nb2 = comb_rule(nb1_A, nb1_B, nb2_A, nb2_B)` -/
def genCrossV (f : CombFn) (t : List NbV) (ats : List AtomType) : List NbV :=
  ((combs2 ats).map fun p =>
    (⟨p.1.name, p.2.name, .generated, (combValues f p.1 p.2).1, (combValues f p.1 p.2).2⟩ : NbV)).foldl addIfAbsentV t

/-- the self-term loop with values -/
def genSelfV (t : List NbV) (ats : List AtomType) : List NbV :=
  (ats.map fun a => (⟨a.name, a.name, .self, .exact a.nb1, .exact a.nb2⟩ : NbV)).foldl addIfAbsentV t

/-- `Topology.gen_pairs` with values -/
def genPairsV (f : CombFn) (genPairsYes : Bool) (ats : List AtomType) (explicit : List NbV) : List NbV :=
  let t := if genPairsYes then genCrossV f explicit ats else explicit
  genSelfV t ats

/-- one pass of the loop body of `convert_nonbond_to_sig_eps` on rational `nb1`, `nb2`:

    if nb2 != 0: sig = (nb2/nb1)**(1.0/6.0)   else: sig = 0
    if nb1 != 0: eps = nb1**2.0/(4*nb2)       else: eps = 0

(each guard tests the OTHER operand of the division, so exactly one of the two being zero divides by zero:
Python floats raise `ZeroDivisionError`).  sigma is returned as a specification (`Val.root 6 (nb2/nb1)`),
epsilon exactly. -/
def convertEntry (nb1 nb2 : Rat) : Except String (Val × Rat) :=
  let sigE : Except String Val :=
    if nb2 != 0 then (if nb1 == 0 then .error "ZeroDivisionError" else .ok (rootVal 6 (nb2 / nb1)))
    else .ok (.exact 0)
  match sigE with
  | .error e => .error e
  | .ok sig =>
    if nb1 != 0 then (if 4 * nb2 == 0 then .error "ZeroDivisionError" else .ok (sig, nb1 ^ 2 / (4 * nb2)))
    else .ok (sig, 0)

/-- the loop body on the values `gen_pairs` can leave behind: two rationals (explicit, self), or the
Lorentz-Berthelot pair `(m, sqrt p)`: then `sig = (sqrt p / m)**(1/6)` is the 12th root of `p/m^2` and
`eps = m^2/(4 sqrt p)` the square root of `m^4/(16 p)`.  Other shapes (geometric values are only produced
under rules that are not converted; complex inputs) are not modelled. -/
def convertVals : Val → Val → Except String (Val × Val)
  | .exact nb1, .exact nb2 => (convertEntry nb1 nb2).map fun r => (r.1, .exact r.2)
  | .exact m, .root 2 p =>
    if p < 0 then .error "unmodelled-value-shape"
    else if p == 0 then (if m != 0 then .error "ZeroDivisionError" else .ok (.exact 0, .exact 0))
    else if m == 0 then .error "ZeroDivisionError"
    else .ok (if m < 0 then .complex else .root 12 (p / m ^ 2), .root 2 (m ^ 4 / (16 * p)))
  | _, _ => .error "unmodelled-value-shape"

/-- `convert_nonbond_to_sig_eps`: every entry in dict order, the first exception ends it -/
def convertTable : List NbV → Except String (List NbV)
  | [] => .ok []
  | e :: rest =>
    match convertVals e.nb1 e.nb2 with
    | .error err => .error err
    | .ok (s, ep) => (convertTable rest).map ({ e with nb1 := s, nb2 := ep } :: ·)

structure ResultV where
  base : Result
  /-- `nonbond_params` after `gen_pairs`, with values -/
  pairs : List NbV
  /-- `nonbond_params` when `preprocess` returns (converted iff `comb-rule == 1`) -/
  final : List NbV
deriving Repr, Inhabited

/-- `Topology.preprocess` including the numbers of the non-bonded table.  Every failure of `preprocess`
(no defaults, unknown rule, macro, missing type) precedes the conversion in the code as well: the
conversion is the last statement. -/
def preprocessV (pats : List (List (Option Nat))) (combFuncs : List (Nat × String)) (tp : Topo) :
    Except String ResultV :=
  match preprocess pats combFuncs tp with
  | .error e => .error e
  | .ok r =>
    match tp.combRule with
    | none => .error "no-defaults"
    | some rule =>
      match combFnFor combFuncs rule with
      | .error e => .error e
      | .ok f =>
        let nbv := genPairsV f tp.genPairsYes tp.atomTypes (tp.nonbond.filterMap NbV.ofEntry?)
        if r.converted then
          match convertTable nbv with
          | .error e => .error e
          | .ok c => .ok ⟨r, nbv, c⟩
        else .ok ⟨r, nbv, nbv⟩

/-! ### Specification side (what the property states) -/

/-- a table key matches an atom-type sequence position by position, `X` being the wildcard -/
def keyMatches (k a : Key) : Bool :=
  k.length == a.length && (List.zipWith (fun x y => x == "X" || x == y) k a).all id

/-- ... in the direction listed or in the reverse direction -/
def matchesEither (k a : Key) : Bool := keyMatches k a || keyMatches k a.reverse

def wildcards (k : Key) : Nat := k.count "X"

/-- the keys of the table that match `a` (either direction) -/
def matchingKeys (t : TypeTable) (a : Key) : List Key := (t.map (·.1)).filter (fun k => matchesEither k a)

/-- the least-wildcarded matching keys -/
def bestKeys (t : TypeTable) (a : Key) : List Key :=
  let ms := matchingKeys t a
  match (ms.map wildcards).min? with
  | none => []
  | some w => ms.filter (fun k => wildcards k == w)

/-- the type keys the property allows for an interaction: dihedrals = least-wildcarded matching keys,
others = the exact or the reversed sequence -/
def specKeys (interType : String) (t : TypeTable) (a : Key) : List Key :=
  if interType == "dihedrals" then (bestKeys t a).eraseDups
  else ([a, a.reverse].filter (hasKey t)).eraseDups

/-- verdict of the property on what the implementation wrote for one parameterless interaction in one
instance: `observed` = parameter lists of the interactions on exactly these atoms, in list order. -/
def specVerdict (interType : String) (t : TypeTable) (a : Key) (observed : List (List String)) : String :=
  let keys := specKeys interType t a
  if keys.isEmpty then "no-matching-type"
  else if keys.any (fun k => ((tlookup t k).getD []).map (·.params) == observed) then "ok"
  else if (t.any fun e => e.2.map (·.params) == observed) then
    (if interType == "dihedrals" then "not-most-specific" else "wrong-type")
  else "terms-not-expanded"

/-- verdict of the pair clauses of the property on the table `gen_pairs` left behind
(`observed` = entries `(a, b, f?, nb1, nb2)`): explicit entries unchanged, self terms from the atom
types unless given explicitly, cross terms present exactly when generated or given explicitly. -/
def pairsVerdict (genPairsYes : Bool) (ats : List AtomType) (explicit : List NbEntry)
    (observed : List (String × String × Option Int × Rat × Rat)) : String :=
  let find (a b : String) := observed.find? (fun o => samePair o.1 o.2.1 a b)
  let explicitOk := explicit.all fun e =>
    match find e.a e.b, e.src, e.vals with
    | some o, .explicit f, some (x, y) => o.2.2.1 == some f && o.2.2.2.1 == x && o.2.2.2.2 == y
    | _, _, _ => false
  let selfOk := ats.all fun a =>
    (nbLookup explicit a.name a.name).isSome ||
      match find a.name a.name with
      | some o => o.2.2.1 == none && o.2.2.2.1 == a.nb1 && o.2.2.2.2 == a.nb2
      | none => false
  let crossOk := (combinations2 (ats.map (·.name))).all fun p =>
    (nbLookup explicit p.1 p.2).isSome || ((find p.1 p.2).isSome == genPairsYes)
  let uniqueOk := observed.all fun o => (observed.filter (fun o' => samePair o.1 o.2.1 o'.1 o'.2.1)).length == 1
  if !explicitOk then "explicit-entry-changed"
  else if !selfOk then "self-term-wrong"
  else if !crossOk then "cross-term-presence"
  else if !uniqueOk then "pair-not-symmetric"
  else "ok"

/-- residuals of the sigma/epsilon identities on concrete numbers:
`(4 eps sig^6 - C6) / C6` and `(4 eps sig^12 - C12) / C12` -/
def sigEpsResidual (c6 c12 sig eps : Rat) : Rat × Rat :=
  ((4 * eps * sig ^ 6 - c6) / c6, (4 * eps * sig ^ 12 - c12) / c12)

end PolyplyVerif.Preprocess
