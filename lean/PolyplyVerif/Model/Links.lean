/-
Model of `polyply/src/apply_links.py` (`ApplyLinks.run_molecule` and its helpers), of the vermouth
routines it goes through (`attributes_match`, `Choice`, `do_links.match_order`, `_is_valid_non_edges`,
`_any_pattern_match`, `make_residue_graph(link, attrs=('order',))`) and of the dangling-interaction
splitting of `polyply/src/polyply_parser.py`.  Core Lean only.

INPUT of the model = the state after `MapToMolecule.run_molecule` (dumped from the real objects): the
atoms of the molecule with their attribute dictionaries, its edges and block interactions, the residue
graph with the per-residue fragment graphs (which are *copies* made at mapping time: the code matches
link atoms against the fragment attributes, not against the live molecule attributes), and the links
of the force field.

What stands for library behaviour (trusted, tied by the correspondence check):
* `networkx.isomorphism.GraphMatcher(meta_molecule, res_link, node_match, edge_match)
  .subgraph_isomorphisms_iter()` is modelled by `resMatches`: exhaustive backtracking enumeration of
  all injective maps of the link residues into the residue graph that are *induced* subgraph
  isomorphisms with `_res_match` on nodes and `_linktype_match` on edges.  The enumeration ORDER of VF2
  is not modelled (see `Properties/C02.lean`: last-wins among matches of the same link).
* attribute values are opaque tokens (`Val`); Python `==` on the values the generator produces is token
  equality; `dict.get(k)` of a missing key is the token `~` (None).
* non-edge target orders are integers (a non-numeric order makes `_is_valid_non_edges` raise
  `TypeError`), every link atom carries an `order`, no `by_atom_id` links, no parameter effectors.
-/
import PolyplyVerif.Generated.LinkTables

namespace PolyplyVerif.Links

/-! ### attribute dictionaries and templates -/

abbrev Val := String
def nullVal : Val := "~"

abbrev MAttrs := List (String × Val)

/-- `d[k] = v` on an insertion-ordered dictionary (position of an existing key is kept) -/
def insertKV {κ ν} [BEq κ] : List (κ × ν) → κ → ν → List (κ × ν)
  | [], k, v => [(k, v)]
  | (k', v') :: rest, k, v => if k' == k then (k, v) :: rest else (k', v') :: insertKV rest k v

def lookupKV {κ ν} [BEq κ] (d : List (κ × ν)) (k : κ) : Option ν := (d.find? (fun p => p.1 == k)).map (·.2)

def MAttrs.find (a : MAttrs) (k : String) : Option Val := lookupKV a k

/-- `dict.get(k)`: `None` (token `~`) when missing -/
def MAttrs.get (a : MAttrs) (k : String) : Val := (MAttrs.find a k).getD nullVal

def MAttrs.set (a : MAttrs) (k : String) (v : Val) : MAttrs := insertKV a k v

/-- `d.update(src)` -/
def MAttrs.update (d src : MAttrs) : MAttrs := src.foldl (fun acc kv => MAttrs.set acc kv.1 kv.2) d

/-- a link-side attribute value: plain (compared by equality) or a `Choice` -/
inductive Tmpl where
  | eq (v : Val)
  | choice (vs : List Val)
deriving Repr, DecidableEq

/-- `attributes.get(attr) != value` fails, or `Choice.match` succeeds -/
def Tmpl.matches : Tmpl → Val → Bool
  | .eq v, x => x == v
  | .choice vs, x => vs.contains x

abbrev TAttrs := List (String × Tmpl)

def TAttrs.find (a : TAttrs) (k : String) : Option Tmpl := (a.find? (fun kv => kv.1 == k)).map (·.2)

/-- `vermouth.molecule.attributes_match(attributes, template_attributes, ignore_keys)` -/
def attrsMatch (a : MAttrs) (t : TAttrs) (ignore : List String) : Bool :=
  t.all (fun kv => ignore.contains kv.1 || kv.2.matches (MAttrs.get a kv.1))

/-! ### orders (`vermouth.processors.do_links`) -/

/-- the `order` token of a link atom: an integer, a run of `>` (`rel k`) or `<` (`rel (-k)`), a run of `*` -/
inductive Order where
  | num (n : Int)
  | rel (s : Int)
  | star (k : Nat)
deriving Repr, DecidableEq

/-- `numpy.sign` -/
def sgn (x : Int) : Int := if x > 0 then 1 else if x < 0 then -1 else 0

/-- `match_order(order1, resid1, order2, resid2)`, branch by branch -/
def matchOrder : Order → Int → Order → Int → Bool
  | .num a, r1, .num b, r2 => (b - a) == (r2 - r1)
  | .num a, r1, .rel s, r2 => if a == 0 then sgn (r2 - r1) == sgn s else true
  | .num a, r1, .star _, r2 => if a == 0 then r1 != r2 else true
  | .rel s, r1, .num b, r2 => if b == 0 then sgn (r1 - r2) == sgn s else true
  | .rel s1, r1, .rel s2, r2 => sgn (r2 - r1) == sgn (s2 - s1)
  | .rel _, _, .star _, _ => true
  | .star _, r1, .num b, r2 => if b == 0 then r1 != r2 else true
  | .star _, _, .rel _, _ => true
  | .star k1, r1, .star k2, r2 => (k1 == k2) == (r1 == r2)

/-- `_check_relative_order`: the orders of the residues of a residue-level link are pairwise distinct
(they are the contraction keys), so only the pairwise `match_order` loop can fail -/
def checkRelativeOrder : List (Order × Int) → Bool
  | [] => true
  | (o, r) :: rest => rest.all (fun p => matchOrder o r p.1 p.2) && checkRelativeOrder rest

/-- the first loop of `_check_relative_order(resids, orders)`: the insertion-ordered dictionary
`order_match` (first resid seen for every order token); `none` = `return False` because one order token is
paired with two different resids -/
def orderMatch : List (Order × Int) → List (Order × Int) → Option (List (Order × Int))
  | acc, [] => some acc
  | acc, (o, r) :: rest =>
    match lookupKV acc o with
    | none => orderMatch (acc ++ [(o, r)]) rest
    | some r' => if r' == r then orderMatch acc rest else none

/-- `_check_relative_order` as written, for ANY list of (order, resid) pairs, repeated orders included: the
dictionary loop, then `match_order` on every 2-combination of its items.  (`tryCand` calls it with the
pairwise distinct orders of a residue-level link, where it is `checkRelativeOrder`:
`C02_check_relative_order`.) -/
def checkRelativeOrderPy (l : List (Order × Int)) : Bool :=
  match orderMatch [] l with
  | none => false
  | some d => checkRelativeOrder d

/-! ### links -/

structure LAtom where
  key : String
  order : Order
  attrs : TAttrs          -- all node attributes except `order` and `replace`
  replace : MAttrs        -- the `replace` dictionary
  removes : Bool          -- `replace['atomname'] is None`
deriving Repr

structure LIxn where
  sect : String
  atoms : List String
  version : Nat
  params : List String
  imeta : MAttrs
deriving Repr

structure NonEdge where
  frm : String
  order : Int
  attrs : TAttrs          -- target attributes without order/replace/modifications
deriving Repr

structure Link where
  atoms : List LAtom
  ixns : List LIxn
  edges : List (String × String × Option Val)     -- with the `linktype` edge attribute
  nonEdges : List NonEdge
  patterns : List (List (String × TAttrs))
  molMeta : TAttrs
deriving Repr

def Link.atom? (l : Link) (k : String) : Option LAtom := l.atoms.find? (fun a => a.key == k)
def Link.orderOf? (l : Link) (k : String) : Option Order := (l.atom? k).map (·.order)

/-! ### molecule and residue graph -/

structure Atom where
  key : Nat
  resid : Int
  attrs : MAttrs
deriving Repr

structure Key where
  sect : String
  atoms : List Nat
  version : Nat
deriving Repr, DecidableEq

structure IVal where
  params : List String
  imeta : MAttrs
deriving Repr, DecidableEq

structure ResNode where
  key : Nat
  resid : Int
  attrs : MAttrs
  frag : List (Nat × MAttrs)      -- fragment atoms (attributes as copied at mapping time)
deriving Repr

structure Input where
  atoms : List Atom
  edges : List (Nat × Nat)
  ixns : List (Key × IVal)
  molMeta : MAttrs
  res : List ResNode
  redges : List (Nat × Nat × Option Val)
  links : List Link
deriving Repr

def Input.resNode? (inp : Input) (k : Nat) : Option ResNode := inp.res.find? (fun n => n.key == k)

/-- `linktype` of the residue-graph edge {a,b}: `none` = no edge, `some none` = edge without linktype -/
def Input.redge? (inp : Input) (a b : Nat) : Option (Option Val) :=
  (inp.redges.find? (fun e => (e.1 == a && e.2.1 == b) || (e.1 == b && e.2.1 == a))).map (·.2.2)

/-! ### residue-level link (`make_residue_graph(link, attrs=('order',))`) -/

structure LRes where
  order : Order
  resname : Option Tmpl       -- `resname` common to all atoms of that order, if any
deriving Repr

def dedup {α} [BEq α] : List α → List α
  | [] => []
  | x :: xs => x :: (dedup xs).filter (fun y => !(y == x))

/-- the value shared by all elements of a list of optional values (none if one is missing or differs) -/
def commonVal {α} [BEq α] : List (Option α) → Option α
  | [] => none
  | x :: xs => if xs.all (fun y => y == x) then x else none

def Link.orders (l : Link) : List Order := dedup (l.atoms.map (·.order))

def Link.resOf (l : Link) (o : Order) : LRes :=
  ⟨o, commonVal ((l.atoms.filter (fun a => a.order == o)).map (fun a => TAttrs.find a.attrs "resname"))⟩

def Link.resLink (l : Link) : List LRes := l.orders.map l.resOf

/-- the atom-level edges of the link that join residue `o1` with residue `o2` (their linktypes) -/
def Link.crossEdges (l : Link) (o1 o2 : Order) : List (Option Val) :=
  l.edges.filterMap fun e =>
    match l.orderOf? e.1, l.orderOf? e.2.1 with
    | some a, some b => if (a == o1 && b == o2) || (a == o2 && b == o1) then some e.2.2 else none
    | _, _ => none

/-- residue-level link edge: `none` = no edge; `some t` = edge whose `linktype` attribute is `t`
(`partition_graph` keeps an edge attribute only if every contributing atom edge has it with the same
value) -/
def Link.resEdge? (l : Link) (o1 o2 : Order) : Option (Option Val) :=
  if o1 == o2 then none else
  match l.crossEdges o1 o2 with
  | [] => none
  | t :: ts => some (if ts.all (fun y => y == t) then t else none)

/-! ### residue-level matching (stands for VF2 induced subgraph isomorphism) -/

/-- `_res_match`: only the residue-level `resname` of the link is compared -/
def nodeOK (r : LRes) (nd : ResNode) : Bool :=
  match r.resname with
  | none => true
  | some t => t.matches (MAttrs.get nd.attrs "resname")

/-- two link residues mapped to two distinct graph nodes: an edge on one side iff on the other
(induced), and then equal linktype (`_linktype_match`) -/
def pairOK (inp : Input) (l : Link) (o : Order) (n : Nat) (o' : Order) (n' : Nat) : Bool :=
  n != n' &&
  match l.resEdge? o o', inp.redge? n n' with
  | none, none => true
  | some a, some b => a == b
  | _, _ => false

/-- all assignments of graph nodes to the link residues `rs` (same length, in order) -/
def resMatchesAux (inp : Input) (l : Link) : List LRes → List (List Nat)
  | [] => [[]]
  | r :: rs =>
    (resMatchesAux inp l rs).flatMap fun tail =>
      (inp.res.filter fun nd =>
          nodeOK r nd && (rs.zip tail).all (fun p => pairOK inp l r.order nd.key p.1.order p.2)).map
        fun nd => nd.key :: tail

def resMatches (inp : Input) (l : Link) : List (List Nat) := resMatchesAux inp l l.resLink

/-! ### atom-level matching -/

/-- `ignore = ['order', 'charge_group', 'replace', 'resid']` of `match_link_and_residue_atoms`.  Deliberately NOT
taken from the translated `LinkTables.matchIgnore`: this list is also what the SPECIFICATION (`specOutput`) uses,
and a specification that follows the source could no longer produce a failing input when the source changes.
`C02_link_tables` proves that the translated list of the current source is this one (as a set). -/
def matchIgnore : List String := ["order", "charge_group", "replace", "resid"]

/-- `find_atoms(block, ignore, **attrs)` on the fragment graph of a residue -/
def findAtoms (nd : ResNode) (a : LAtom) : List Nat :=
  (nd.frag.filter (fun f => attrsMatch f.2 a.attrs matchIgnore)).map (·.1)

/-- graph node a link atom is sent to by a residue match -/
def resOfAtom (l : Link) (m : List Nat) (a : LAtom) : Option Nat :=
  (l.orders.zip m).find? (fun p => p.1 == a.order) |>.map (·.2)

/-- `match_link_and_residue_atoms`: every link atom must identify exactly one fragment atom -/
def matchAtoms (inp : Input) (l : Link) (m : List Nat) : Option (List (String × Nat)) :=
  l.atoms.mapM fun a =>
    match resOfAtom l m a with
    | none => none
    | some n =>
      match inp.resNode? n with
      | none => none
      | some nd =>
        match findAtoms nd a with
        | [x] => some (a.key, x)
        | _ => none

abbrev AMap := List (String × Nat)
def AMap.get? (am : AMap) (k : String) : Option Nat := (am.find? (fun p => p.1 == k)).map (·.2)
/-- totalised lookup (every key the code looks up is a link atom, which `matchAtoms` has mapped) -/
def AMap.get (am : AMap) (k : String) : Nat := (AMap.get? am k).getD 0

/-! ### the mutable state of `run_molecule` -/

structure St where
  attrs : List (Nat × MAttrs)     -- live node attributes of the molecule
  resid : List (Nat × Int)        -- `resid` of the atoms (not touched by link application)
  edges : List (Nat × Nat)        -- live edges of the molecule
  store : List (Key × IVal)       -- `applied_links` (insertion ordered dictionary)
  removed : List Nat              -- `nodes_to_remove`
deriving Repr

def St.attrsOf (s : St) (a : Nat) : MAttrs := ((s.attrs.find? (fun p => p.1 == a)).map (·.2)).getD []
def St.residOf (s : St) (a : Nat) : Int := ((s.resid.find? (fun p => p.1 == a)).map (·.2)).getD 0
def hasEdge (es : List (Nat × Nat)) (a b : Nat) : Bool := es.any (fun e => (e.1 == a && e.2 == b) || (e.1 == b && e.2 == a))
def St.neighbors (s : St) (a : Nat) : List Nat :=
  s.edges.filterMap (fun e => if e.1 == a then some e.2 else if e.2 == a then some e.1 else none)

def patIgnore : List String := ["order", "replace", "modifications"]

/-- `_is_valid_non_edges(molecule, link, link_to_mol)` on the live molecule -/
def nonEdgesOK (s : St) (l : Link) (am : AMap) : Bool :=
  l.nonEdges.all fun ne =>
    match l.atom? ne.frm with
    | none => true                                  -- `if from_node not in link: continue`
    | some _ =>
      let x := AMap.get am ne.frm
      !((s.neighbors x).any fun nb =>
          s.residOf nb == s.residOf x + ne.order && attrsMatch (s.attrsOf nb) ne.attrs patIgnore)

/-- `_any_pattern_match(molecule, link.patterns, link_to_mol)` on the live molecule -/
def anyPatternMatch (s : St) (l : Link) (am : AMap) : Bool :=
  l.patterns.any fun pat => pat.all fun p => attrsMatch (s.attrsOf (AMap.get am p.1)) p.2 patIgnore

/-- an accepted link application: the link and its atom correspondence -/
structure Event where
  link : Link
  amap : AMap
deriving Repr

def Event.contribs (e : Event) : List (Key × IVal) :=
  e.link.ixns.map fun i => (⟨i.sect, i.atoms.map (AMap.get e.amap), i.version⟩, ⟨i.params, i.imeta⟩)

def Event.removals (e : Event) : List Nat :=
  (e.link.atoms.filter (·.removes)).map (fun a => AMap.get e.amap a.key)

def Event.replaces (e : Event) : List (Nat × MAttrs) :=
  (e.link.atoms.filter (fun a => !a.removes)).map (fun a => (AMap.get e.amap a.key, a.replace))

def Event.newEdges (e : Event) : List (Nat × Nat) :=
  e.link.edges.map (fun ed => (AMap.get e.amap ed.1, AMap.get e.amap ed.2.1))

def updAttrs (attrs : List (Nat × MAttrs)) (r : Nat × MAttrs) : List (Nat × MAttrs) :=
  attrs.map (fun p => if p.1 == r.1 then (p.1, MAttrs.update p.2 r.2) else p)

def addEdge (es : List (Nat × Nat)) (e : Nat × Nat) : List (Nat × Nat) :=
  if hasEdge es e.1 e.2 then es else es ++ [e]

/-- the body of `apply_link_between_residues` after all checks passed -/
def St.apply (s : St) (e : Event) : St :=
  { attrs := e.replaces.foldl updAttrs s.attrs,
    resid := s.resid,
    edges := e.newEdges.foldl addEdge s.edges,
    store := e.contribs.foldl (fun d kv => insertKV d kv.1 kv.2) s.store,
    removed := s.removed ++ e.removals }

/-- one candidate (link, residue match): relative order, unique atoms, non-edges, patterns -/
def tryCand (inp : Input) (s : St) (l : Link) (m : List Nat) : Option Event :=
  let resids := m.map (fun n => ((inp.resNode? n).map (·.resid)).getD 0)
  if !checkRelativeOrder (l.orders.zip resids) then none else
  match matchAtoms inp l m with
  | none => none
  | some am =>
    if !nonEdgesOK s l am then none else
    if !l.patterns.isEmpty && !anyPatternMatch s l am then none else
    some ⟨l, am⟩

def applyOne (inp : Input) (s : St) (l : Link) (m : List Nat) : St :=
  match tryCand inp s l m with
  | none => s
  | some e => s.apply e

/-- `_get_link_resnames` + `_resnames_match` + `attributes_match(molecule.meta, link.molecule_meta)` -/
def prefilter (inp : Input) (l : Link) : Bool :=
  let molNames := inp.atoms.filterMap (fun a => MAttrs.find a.attrs "resname")
  let linkNames := l.atoms.flatMap fun a =>
    match TAttrs.find a.attrs "resname" with
    | none => []
    | some (.eq v) => [v]
    | some (.choice vs) => vs
  molNames.any (fun n => linkNames.contains n) && attrsMatch inp.molMeta l.molMeta []

def initSt (inp : Input) : St :=
  { attrs := inp.atoms.map (fun a => (a.key, a.attrs)),
    resid := inp.atoms.map (fun a => (a.key, a.resid)),
    edges := inp.edges,
    store := inp.ixns.foldl (fun d kv => insertKV d kv.1 kv.2) [],
    removed := [] }

/-- the double loop of `run_molecule` (links in definition order, matches in enumeration order) -/
def loopSt (inp : Input) : St :=
  inp.links.foldl
    (fun s l => if prefilter inp l then (resMatches inp l).foldl (fun s m => applyOne inp s l m) s else s)
    (initSt inp)

/-- the filter of the final flush BEFORE repository commit 18c3f8a: `any(atom in nodes_to_remove for atom
in key)` with the dictionary key `(*atoms, version)` — the version number was tested as if it were an
atom.  Kept for the regression statement `C02_version_clash_regression`. -/
def keyHitsRemoved (removed : List Nat) (k : Key) : Bool :=
  (k.atoms ++ [k.version]).any (fun x => removed.contains x)

/-- the filter of the final flush (`any(atom in nodes_to_remove for atom in interaction.atoms)`), which is
also what the property states: an atom of the interaction is scheduled for removal -/
def atomsHitRemoved (removed : List Nat) (k : Key) : Bool := k.atoms.any (fun x => removed.contains x)

structure Output where
  atoms : List (Nat × MAttrs)
  edges : List (Nat × Nat)
  ixns : List (Key × IVal)
  removed : List Nat
deriving Repr

/-- residue renumbering of `relabel_and_redo_res_graph` after an atom removal: the residues (groups of
equal `(resid, resname)`) are numbered from 0 in the order of their lowest atom key -/
def renumber (atoms : List (Nat × MAttrs)) : List (Nat × MAttrs) :=
  let gkey := fun (a : Nat × MAttrs) => (MAttrs.get a.2 "resid", MAttrs.get a.2 "resname")
  let groups := dedup (atoms.map gkey)      -- atoms are listed by increasing key: first occurrence = lowest key
  atoms.map fun a => (a.1, MAttrs.set a.2 "resid" ("i:" ++ toString ((groups.idxOf (gkey a)))))

def finish (s : St) : Output :=
  let atoms := s.attrs.filter (fun p => !s.removed.contains p.1)
  { atoms := if s.removed.isEmpty then atoms else renumber atoms,
    edges := s.edges.filter (fun e => !s.removed.contains e.1 && !s.removed.contains e.2),
    ixns := s.store.filter (fun kv => !atomsHitRemoved s.removed kv.1),
    removed := s.removed }

def applyLinks (inp : Input) : Output := finish (loopSt inp)

/-! ### specification side (what the property states; evaluated on the real output by the oracle)

The candidates, in order; the accepted events; the last contribution to a key. -/

/-- declarative statement of a residue-level match (what VF2 is asked for) -/
def isResMatch (inp : Input) (l : Link) (m : List Nat) : Prop :=
  m.length = l.resLink.length ∧
  (∀ p ∈ l.resLink.zip m, ∃ nd ∈ inp.res, nd.key = p.2 ∧ nodeOK p.1 nd = true) ∧
  (l.resLink.zip m).Pairwise (fun p q => pairOK inp l p.1.order p.2 q.1.order q.2 = true)

/-- all k-tuples of distinct-or-not elements (the specification filters them; no pruning) -/
def tuples {α} (xs : List α) : Nat → List (List α)
  | 0 => [[]]
  | k + 1 => xs.flatMap (fun x => (tuples xs k).map (fun t => x :: t))

def pairwiseB {α} (r : α → α → Bool) : List α → Bool
  | [] => true
  | x :: xs => xs.all (r x) && pairwiseB r xs

/-- the independent enumeration used by the oracle: filter ALL tuples of residue-graph nodes with the
declarative predicate -/
def specMatches (inp : Input) (l : Link) : List (List Nat) :=
  (tuples (inp.res.map (·.key)) l.resLink.length).filter fun m =>
    (l.resLink.zip m).all (fun p => inp.res.any (fun nd => nd.key == p.2 && nodeOK p.1 nd)) &&
    pairwiseB (fun p q => pairOK inp l p.1.order p.2 q.1.order q.2) (l.resLink.zip m)

/-- candidates in the order the double loop visits them -/
def candsWith (inp : Input) (enum : Link → List (List Nat)) : List (Link × List Nat) :=
  inp.links.flatMap (fun l => if prefilter inp l then (enum l).map (fun m => (l, m)) else [])

def cands (inp : Input) : List (Link × List Nat) := candsWith inp (resMatches inp)

/-- candidates as the PROPERTY sees them: every link whose `molmeta` fits, whatever residue names its
atoms mention.  (The code's `_resnames_match` pre-filter additionally skips a link none of whose atoms
carries a `resname`; for a link with at least one `resname`-constrained atom the pre-filter cannot change
the result: that atom needs a molecule atom of that name.) -/
def specCands (inp : Input) (enum : Link → List (List Nat)) : List (Link × List Nat) :=
  inp.links.flatMap (fun l => if attrsMatch inp.molMeta l.molMeta [] then (enum l).map (fun m => (l, m)) else [])

/-- the accepted events of a candidate list, from state `s` on -/
def events (inp : Input) : St → List (Link × List Nat) → List Event
  | _, [] => []
  | s, c :: cs =>
    match tryCand inp s c.1 c.2 with
    | none => events inp s cs
    | some e => e :: events inp (s.apply e) cs

/-- value of the LAST pair with key `k` in a list of contributions -/
def lastFor {κ ν} [BEq κ] (l : List (κ × ν)) (k : κ) : Option ν := lookupKV l.reverse k

/-- RHS of `C02_iff`: the interaction stored under `k` after all links -/
def specLookup (inp : Input) (evs : List Event) (k : Key) : Option IVal :=
  (lastFor (evs.flatMap Event.contribs) k).or (lastFor inp.ixns k)

/-- the specification's output, built without the fold: every key that a block or an accepted event
contributes, with the value of its last contribution, unless scheduled-for-removal atoms occur in it -/
def specOutput (inp : Input) (enum : Link → List (List Nat)) : Output :=
  let evs := events inp (initSt inp) (specCands inp enum)
  let removed := evs.flatMap Event.removals
  let allKeys := dedup ((inp.ixns ++ evs.flatMap Event.contribs).map (·.1))
  let st := evs.foldl St.apply (initSt inp)
  let atoms := st.attrs.filter (fun p => !removed.contains p.1)
  { atoms := if removed.isEmpty then atoms else renumber atoms,
    edges := (dedupEdges (inp.edges ++ evs.flatMap Event.newEdges)).filter
               (fun e => !removed.contains e.1 && !removed.contains e.2),
    ixns := (allKeys.filterMap fun k => (specLookup inp evs k).map (fun v => (k, v))).filter
               (fun kv => !atomsHitRemoved removed kv.1),
    removed := removed }
where
  dedupEdges : List (Nat × Nat) → List (Nat × Nat) := fun es => es.foldl addEdge []

/-! ### same-link collisions (what makes the VF2 enumeration order observable) -/

def eventsCollide (e1 e2 : Event) : Bool :=
  e1.contribs.any (fun kv => e2.contribs.any (fun kv' => kv.1 == kv'.1 && kv.2 != kv'.2)) ||
  e1.replaces.any (fun r => e2.replaces.any (fun r' => r.1 == r'.1 && r.2 != r'.2)) ||
  e1.removals.any (fun x => e2.replaces.any (fun r => r.1 == x && !r.2.isEmpty))

/-- For every link (visited with the state the double loop has reached): pairs of accepted matches of
that link that write one key with different values, `replace` one atom differently or remove an atom
the other one edits; plus 1 if the set of accepted matches differs between the model's enumeration
order and its reverse (a veto depends on an earlier match of the same link).  0 = the result does not
depend on the order in which the matches of one link are visited. -/
def collisionsFrom (inp : Input) : St → List Link → Nat
  | _, [] => 0
  | s, l :: ls =>
    if prefilter inp l then
      let ms := (resMatches inp l).map (fun m => (l, m))
      let evs := events inp s ms
      let rev := events inp s ms.reverse
      let clash := (evs.flatMap fun e1 => evs.filter fun e2 => eventsCollide e1 e2).length
      let unstable := if evs.all (fun e => rev.any (fun e' => e'.amap == e.amap)) &&
                         rev.all (fun e => evs.any (fun e' => e'.amap == e.amap)) then 0 else 1
      clash + unstable + collisionsFrom inp (evs.foldl St.apply s) ls
    else collisionsFrom inp s ls

def sameLinkCollisions (inp : Input) : Nat := collisionsFrom inp (initSt inp) inp.links

/-! ### dangling interactions of monomer `.itp` files (`PolyplyParser._split_links_and_blocks`) -/

structure BIxn where
  sect : String
  atoms : List Nat        -- 0-based indices; `≥ n` = atom of a following residue
  params : List String
deriving Repr, DecidableEq

structure DLink where
  atoms : List (String × Nat × Nat)        -- key, order, index of the block atom whose attributes it copies
  ixns : List (String × List String × List String)     -- section, atom keys, parameters
deriving Repr, DecidableEq

def isDangling (n : Nat) (i : BIxn) : Bool := i.atoms.any (fun a => a ≥ n)

def plusPrefix : Nat → String
  | 0 => ""
  | k + 1 => plusPrefix k ++ "+"

/-- name of the link atom an index stands for: `"+"^(a / n) ++ name (a % n)` -/
def danglingKey (names : List String) (a : Nat) : String :=
  plusPrefix (a / names.length) ++ names.getD (a % names.length) ""

/-- grouping loop: interactions are visited section by section; a dangling interaction opens a new link
unless its atoms equal those of the previous dangling interaction (`prev_atoms`) -/
def splitLoop (n : Nat) : List BIxn → List Nat → List (List BIxn) → List BIxn → List (List BIxn) × List BIxn
  | [], _, links, kept => (links, kept)
  | i :: rest, prev, links, kept =>
    if isDangling n i then
      if i.atoms != prev then splitLoop n rest i.atoms (links ++ [[i]]) kept
      else
        match links.reverse with
        | [] => splitLoop n rest prev [[i]] kept          -- unreachable: prev ≠ [] implies a link exists
        | last :: before => splitLoop n rest prev (before.reverse ++ [last ++ [i]]) kept
    else splitLoop n rest prev links (kept ++ [i])

def mkDLink (names : List String) (ixns : List BIxn) : DLink :=
  let n := names.length
  { atoms := dedupKeys ((ixns.flatMap (·.atoms)).map (fun a => (danglingKey names a, a / n, a % n))),
    ixns := ixns.map (fun i => (i.sect, i.atoms.map (danglingKey names), i.params)) }
where
  dedupKeys : List (String × Nat × Nat) → List (String × Nat × Nat) := fun l =>
    l.foldl (fun acc x => if acc.any (fun y => y.1 == x.1) then acc else acc ++ [x]) []

/-- `_split_links_and_blocks` for a block with atom names `names` whose interactions (grouped by
section, in file order) are `ixns`: the links it adds to the force field and the interactions the
block keeps -/
def splitDangling (names : List String) (ixns : List BIxn) : List DLink × List BIxn :=
  let r := splitLoop names.length ixns [] [] []
  (r.1.map (mkDLink names), r.2)

/-! specification side of the splitting -/

/-- the link interaction a dangling block interaction becomes -/
def convIxn (names : List String) (i : BIxn) : String × List String × List String :=
  (i.sect, i.atoms.map (danglingKey names), i.params)

/-- one link = a non-empty run of dangling interactions on identical atoms -/
def GroupOK (n : Nat) (g : List BIxn) : Prop :=
  g ≠ [] ∧ ∀ i ∈ g, isDangling n i = true ∧ ∀ j ∈ g, i.atoms = j.atoms

/-- `PolyplyParser.treat_link_multiple` on the interactions of one section of one link: every term
gets `version = number of terms on the same atoms that are still to come, itself included` -/
def tagVersions : List (List String × List String) → List (List String × Nat × List String)
  | [] => []
  | t :: ts => (t.1, 1 + (ts.filter (fun u => u.1 == t.1)).length, t.2) :: tagVersions ts

/-- versions of all interactions of a link produced by the splitting (sections are contiguous runs) -/
def DLink.tagged (l : DLink) : List (String × List String × Nat × List String) :=
  let sections := dedup (l.ixns.map (·.1))
  sections.flatMap fun sec =>
    (tagVersions ((l.ixns.filter (fun i => i.1 == sec)).map (fun i => (i.2.1, i.2.2)))).map
      (fun t => (sec, t.1, t.2.1, t.2.2))

/-- "present for every window that fits inside the chain, absent at its end": on a linear chain of `N`
residues built from one block with `n` atoms, the dangling interaction `i` (highest index in residue
`(max i.atoms) / n` after its own) is expected at the residues `j` (0-based) with
`j + (max i.atoms) / n < N`, on the atoms shifted by `j * n` -/
def danglingWindows (n N : Nat) (ixns : List BIxn) : List (String × List Nat × List String) :=
  (List.range N).flatMap fun j =>
    (ixns.filter (isDangling n)).filterMap fun i =>
      if j + (i.atoms.foldl max 0) / n < N then some (i.sect, i.atoms.map (· + j * n), i.params) else none

/-! ### the `[ edges ]` directive of polyply `.ff` files (`ff_parser_sub._parse_edges_new`)

One line `atom1 atom2 {attributes}`: the attributes written after an atom are that atom's, vermouth's
`_treat_atom_prefix` adds `atomname` / `order` from the prefixed name; `_parse_edges_new` pops
`atomname`, `order`, `resname` (the translated list `LinkTables.edgePoppedKeys`), rejects what is left on the
FIRST atom and labels the edge with what is left on the SECOND one (this is how `linktype` gets onto a link
edge).  `non-edges` outside links are rejected.  In a `[ modification ]` both atoms have to exist already —
the code tests `prefixed_atom[0]`, the first CHARACTER of the reference (notes/C02_findings.md). -/

structure EdgeAtom where
  ref : String                   -- the prefixed reference as written (`BB`, `+BB`, `>SC1`)
  attrs : MAttrs                 -- the attributes written after it (`{...}`), encoded values
deriving Repr, DecidableEq

inductive EdgeParse where
  | ioError                                        -- `IOError`
  | keyError                                       -- `KeyError` (modification: atom not found)
  | edge (a b : String) (attrs : MAttrs)           -- `context.add_edge(a, b, **attrs)`
deriving Repr, DecidableEq

/-- what is left of an atom's attributes after `attributes.pop(key, None)` for the popped keys -/
def edgeExtra (a : EdgeAtom) : MAttrs := a.attrs.filter (fun kv => !LinkTables.edgePoppedKeys.contains kv.1)

/-- `prefixed_atom[0]` -/
def firstChar (s : String) : String := (s.take 1).toString

/-- `_parse_edges_new(tokens, context, context_type, negate)` on a line with two atoms; `nodes` = the node
keys of the context -/
def parseEdgesNew (contextType : String) (negate : Bool) (nodes : List String) (a b : EdgeAtom) : EdgeParse :=
  if negate then .ioError
  else if !(edgeExtra a).isEmpty then .ioError
  else if contextType == "modification" && !(nodes.contains (firstChar a.ref) && nodes.contains (firstChar b.ref)) then .keyError
  else .edge a.ref b.ref (edgeExtra b)

/-! the chain and the path-shaped link of the window statement (`C02_dangling_windows`) -/

/-- chain of `N` one-atom residues named A (keys 0..N-1, resid = key + 1) -/
def chainInput (N : Nat) (links : List Link) : Input :=
  { atoms := (List.range N).map (fun i => ⟨i, i + 1, [("atomname", "s:BB"), ("resname", "s:A")]⟩),
    edges := [], ixns := [], molMeta := [],
    res := (List.range N).map (fun i => ⟨i, i + 1, [("resname", "s:A")], [(i, [("atomname", "s:BB"), ("resname", "s:A")])]⟩),
    redges := (List.range (N - 1)).map (fun i => (i, i + 1, none)),
    links := links }

/-- the link a dangling angle-like interaction over `k+1` consecutive residues stands for: atoms `BB`, `+BB`, … bonded in a path -/
def pathLink (k : Nat) : Link :=
  let key := fun (i : Nat) => plusPrefix i ++ "BB"
  { atoms := (List.range (k + 1)).map (fun i => ⟨key i, .num i, [("atomname", .eq "s:BB"), ("resname", .eq "s:A")], [], false⟩),
    ixns := [⟨"x", (List.range (k + 1)).map key, 1, ["p"], []⟩],
    edges := (List.range k).map (fun i => (key i, key (i + 1), none)),
    nonEdges := [], patterns := [], molMeta := [] }

/-- the windows `[j, j+1, …, j+k]` that fit into `0..N-1` -/
def windows (N k : Nat) : List (List Nat) := (List.range (N - k)).map (fun j => (List.range (k + 1)).map (· + j))

/-! ### explicit links (`apply_explicit_link`, the last loop of `ApplyLinks.run_molecule`)

A link whose `[ molmeta ]` says `by_atom_id true` addresses atoms by their 1-based NUMBER in the generated
molecule.  After the flush of `applied_links`, `run_molecule` visits those links in definition order and
their interactions section by section: the atom tokens are converted with `int(atom) - 1` (`ValueError`
if a token is not a number); if every atom is a node of the molecule the interaction is written with
vermouth's `Molecule.add_or_replace_interaction` (the FIRST interaction of that section with equal atoms
and equal `meta.get('version', 0)` is replaced in place, otherwise the new one is appended) and edges are
added between consecutive atoms; otherwise `IOError` is raised and the whole run fails.

Not modelled: the in-place rewrite of the link's atom list (`interaction.atoms[:] = …`), which makes a
SECOND application of the same link object see numbers lowered twice (gen_params loads a fresh force
field per call and applies every link once). -/

/-- an interaction of a `by_atom_id` link as written in the file; an atom token is `some n` if `int(token)`
gives `n`, `none` if `int(token)` raises `ValueError` (the driver converts decimal numerals, optionally
signed with `-`, with `String.toInt?`; the generator writes no other numeric spelling) -/
structure XIxn where
  sect : String
  atoms : List (Option Int)
  params : List String
  imeta : MAttrs
deriving Repr, DecidableEq

def allSome {α} : List (Option α) → Option (List α)
  | [] => some []
  | none :: _ => none
  | some a :: rest => (allSome rest).map (a :: ·)

/-- `[int(atom) for atom in interaction.atoms]` (`none` = `ValueError`) -/
def XIxn.ints (i : XIxn) : Option (List Int) := allSome i.atoms

/-- `meta.get('version', 0)` as a token (`add_or_replace_interaction` compares THIS, not the
`meta.get('version', 1)` of the `applied_links` key) -/
def verTok (m : MAttrs) : Val := (MAttrs.find m "version").getD "i:0"

/-- what `add_or_replace_interaction` compares: section, atoms, `meta.get('version', 0)` -/
structure XKey where
  sect : String
  atoms : List Nat
  ver : Val
deriving Repr, DecidableEq

inductive XErr where
  | value      -- `ValueError`: an atom token is not an integer
  | io         -- `IOError`: an atom is not part of the molecule
deriving Repr, DecidableEq

/-- the part of the molecule the explicit links write to -/
structure XSt where
  ixns : List (XKey × IVal)
  edges : List (Nat × Nat)
deriving Repr, DecidableEq

/-- 0-based node keys of an interaction whose number tokens are `as`; `none` if one of them is not a
node (`set(atoms).issubset(set(molecule.nodes))` fails; a number `≤ 0` never is a node) -/
def xatoms (nodes : List Nat) : List Int → Option (List Nat)
  | [] => some []
  | a :: rest =>
    if 1 ≤ a ∧ nodes.contains (a - 1).toNat = true then (xatoms nodes rest).map ((a - 1).toNat :: ·) else none

/-- `zip(atoms[:-1], atoms[1:])` -/
def consecutive (atoms : List Nat) : List (Nat × Nat) := atoms.zip atoms.tail

/-- one interaction of an explicit link -/
def explicitStep (nodes : List Nat) (s : XSt) (i : XIxn) : Except XErr XSt :=
  match i.ints with
  | none => .error .value
  | some as =>
    match xatoms nodes as with
    | none => .error .io
    | some atoms =>
      .ok { ixns := insertKV s.ixns ⟨i.sect, atoms, verTok i.imeta⟩ ⟨i.params, i.imeta⟩,
            edges := (consecutive atoms).foldl addEdge s.edges }

/-- all interactions of all `by_atom_id` links, in the order the code visits them; the first exception
ends the run -/
def applyExplicit (nodes : List Nat) : XSt → List XIxn → Except XErr XSt
  | s, [] => .ok s
  | s, i :: rest =>
    match explicitStep nodes s i with
    | .error e => .error e
    | .ok s' => applyExplicit nodes s' rest

/-- the exception a run ended with, if any -/
def xerr (r : Except XErr XSt) : Option XErr :=
  match r with
  | .error e => some e
  | .ok _ => none

def Output.xst (o : Output) : XSt :=
  ⟨o.ixns.map (fun kv => (⟨kv.1.sect, kv.1.atoms, verTok kv.2.imeta⟩, kv.2)), o.edges⟩

/-- `run_molecule` from the double loop to just before `expand_excl`: link application, node removal,
flush, explicit links (`xs` = the interactions of the `by_atom_id` links of the force field, in order) -/
def runMolecule (inp : Input) (xs : List XIxn) : Except XErr XSt :=
  let out := applyLinks inp
  applyExplicit (out.atoms.map (·.1)) out.xst xs

/-! specification side of the explicit links -/

/-- "all atoms exist": every token is a number between 1 and … that names a node -/
def XIxn.wellAddressed (nodes : List Nat) (i : XIxn) : Prop :=
  ∃ as, i.ints = some as ∧ ∀ a ∈ as, 1 ≤ a ∧ (a - 1).toNat ∈ nodes

/-- the node keys an interaction addresses (totalised: 0 for what `wellAddressed` excludes) -/
def XIxn.nodes (i : XIxn) : List Nat := (i.ints.getD []).map (fun a => (a - 1).toNat)

/-- the entry an explicit interaction writes -/
def XIxn.contrib (i : XIxn) : XKey × IVal := (⟨i.sect, i.nodes, verTok i.imeta⟩, ⟨i.params, i.imeta⟩)

end PolyplyVerif.Links
