/-
Model of the global index layout built by `NonBondEngine.from_topology`
(`polyply/src/nonbond_engine.py`, the loop over `molecules` that fills `nodes_to_gndx`, `atom_types` and
the initial rows of `positions`) and of `_n_particles`.  Core Lean only.

  Python                                              model
  `molecule.mol_name in ignore`                       `ignore.contains m.name`
  `for node in molecule.nodes`                        `nodeLoop` (a left fold that stops at the first `raise`)
  `"position" in molecule.nodes[node]` / the value    `PosAttr` (`absent` | `given p` | `nonFinite`)
  `not_exceeds_max_dimensions(p, box) and is_finite`  `Geometry.notExceeds p L` (closed upper end) on `given p`
  `raise IOError(msg)` (both branches)                `Err.reject`
  `positions[idx, :] = p`                             `upd pos idx (some p)` (`none` = a row of `inf`)
  `.get("template", …["resname"])`                    `Node.atype`
  `nodes_to_gndx[(mol_count, node)] = idx`            the assignment appended to `map` (the dict = this log read
                                                      with "last assignment wins"; `C16_layout_keys_nodup` shows
                                                      that no assignment ever overwrites another one)
  `idx += 1`, `mol_count += 1` (ALSO for ignored)     `Acc.idx`, `Acc.molCount`
  `_n_particles([m for m in molecules if …])`         `nParticles (mols.filter …)` = number of rows of `positions`
  `max(list(inter_matrix.values()))` on an empty      `Err.fail` (ValueError: no residue at all, e.g. everything
  table                                               ignored)
  `cls(positions, …)` → `scipy.spatial.KDTree(…,      `treeAccepts` (every given row inside the HALF-open box; the
  boxsize=box)`                                       library raises ValueError otherwise — trusted, as in Geometry)

Specification side: `entries` = the nodes of the molecules that are not ignored, each with the index its
molecule has in `molecules`, in order.  The property theorems (Properties/C16.lean, `C16_layout_…`) say that
the loop numbers exactly these entries 0, 1, …, N-1.
-/
import PolyplyVerif.Model.Geometry
import PolyplyVerif.Model.Engine

namespace PolyplyVerif.EngineLayout
open PolyplyVerif.Geometry PolyplyVerif.Engine

/-- the `"position"` attribute of a node -/
inductive PosAttr where
  /-- no `"position"` key -/
  | absent
  /-- a finite vector -/
  | given (p : V3)
  /-- a vector with a `nan` / `inf` component -/
  | nonFinite
deriving Repr, DecidableEq

/-- a node of a meta molecule: key and the attributes `from_topology` reads -/
structure Node where
  key : Nat
  resname : String
  template : Option String
  pos : PosAttr
deriving Repr, DecidableEq

structure Mol where
  /-- `mol_name` -/
  name : String
  /-- `molecule.nodes` in iteration order -/
  nodes : List Node
deriving Repr, DecidableEq

/-- `molecule.nodes[node].get("template", molecule.nodes[node]["resname"])` -/
def Node.atype (nd : Node) : String := nd.template.getD nd.resname

/-- the row of `positions` the node gets (`none` = the row stays `inf`) -/
def Node.row (nd : Node) : Option V3 :=
  match nd.pos with
  | .given p => some p
  | _ => none

/-- the node passes the check of its supplied coordinate -/
def Node.posOk (L : V3) (nd : Node) : Bool :=
  match nd.pos with
  | .absent => true
  | .given p => notExceeds p L
  | .nonFinite => false

inductive Err where
  /-- `IOError`: a supplied coordinate is not finite or exceeds the box -/
  | reject
  /-- any other exception (`max()` of an empty table; scipy's KD-tree refusing a row) -/
  | fail
deriving Repr, DecidableEq

/-- the loop state of `from_topology` -/
structure Acc where
  idx : Nat
  molCount : Nat
  /-- the assignments `nodes_to_gndx[(mol_count, node)] = idx`, in order -/
  map : List ((Nat × Nat) × Nat)
  atypes : List String
  pos : Nat → Option V3

def Acc.init : Acc := { idx := 0, molCount := 0, map := [], atypes := [], pos := fun _ => none }

/-- body of `for node in molecule.nodes` -/
def nodeStep (L : V3) (acc : Acc) (nd : Node) : Except Err Acc :=
  let written : Except Err (Nat → Option V3) :=
    match nd.pos with
    | .absent => .ok acc.pos
    | .given p => if notExceeds p L then .ok (upd acc.pos acc.idx (some p)) else .error .reject
    | .nonFinite => .error .reject
  match written with
  | .error e => .error e
  | .ok pos' =>
    .ok { idx := acc.idx + 1, molCount := acc.molCount,
          map := acc.map ++ [((acc.molCount, nd.key), acc.idx)],
          atypes := acc.atypes ++ [nd.atype], pos := pos' }

/-- `for node in molecule.nodes: …` (left fold; the first `raise` ends it) -/
def nodeLoop (L : V3) : Acc → List Node → Except Err Acc
  | acc, [] => .ok acc
  | acc, nd :: nds =>
    match nodeStep L acc nd with
    | .error e => .error e
    | .ok acc' => nodeLoop L acc' nds

/-- body of `for molecule in molecules` -/
def molStep (L : V3) (ignore : List String) (acc : Acc) (m : Mol) : Except Err Acc :=
  if ignore.contains m.name then
    .ok { acc with molCount := acc.molCount + 1 }
  else
    match nodeLoop L acc m.nodes with
    | .error e => .error e
    | .ok acc' => .ok { acc' with molCount := acc'.molCount + 1 }

/-- `for molecule in molecules: …` -/
def molLoop (L : V3) (ignore : List String) : Acc → List Mol → Except Err Acc
  | acc, [] => .ok acc
  | acc, m :: ms =>
    match molStep L ignore acc m with
    | .error e => .error e
    | .ok acc' => molLoop L ignore acc' ms

/-- `_n_particles(molecules)`: `sum(map(len, molecules))` -/
def nParticles (ms : List Mol) : Nat := (ms.map fun m => m.nodes.length).sum

/-- what `from_topology` hands to the constructor -/
structure Layout where
  /-- number of rows of `positions` -/
  nAtoms : Nat
  map : List ((Nat × Nat) × Nat)
  atypes : List String
  pos : Nat → Option V3

/-- `from_topology(molecules, topology, box, ignore)` up to the call of the constructor -/
def fromTopology (L : V3) (ignore : List String) (mols : List Mol) : Except Err Layout :=
  let nAtoms := nParticles (mols.filter fun m => !ignore.contains m.name)
  match molLoop L ignore Acc.init mols with
  | .error e => .error e
  | .ok acc =>
    -- `cut_off = max(list(inter_matrix.values()))[0] * 2.`: the table is empty iff there is no residue
    if acc.atypes.isEmpty then .error .fail
    else .ok { nAtoms := nAtoms, map := acc.map, atypes := acc.atypes, pos := acc.pos }

/-- the constructor's `scipy.spatial.KDTree(positions[defined], boxsize=box)` accepts the rows -/
def treeAccepts (L : V3) (lay : Layout) : Bool :=
  (List.range lay.nAtoms).all fun g =>
    match lay.pos g with
    | some p => decide (inBox p L)
    | none => true

/-- the dict `nodes_to_gndx` after the assignments `d[key] = idx` of `map`, in order (a later assignment
to the same key overwrites), as a lookup function -/
def dictOf (map : List ((Nat × Nat) × Nat)) : Nat × Nat → Option Nat :=
  map.foldl (fun d e => fun k => if k = e.1 then some e.2 else d k) (fun _ => none)

/-! ### specification side -/

/-- the residues of the engine: `(index of the molecule in molecules, node)` for every node of every molecule
whose name is not in `ignore`, in order; `mc` = index of the first molecule of the list -/
def entriesFrom (ignore : List String) : Nat → List Mol → List (Nat × Node)
  | _, [] => []
  | mc, m :: ms =>
    (if ignore.contains m.name then [] else m.nodes.map fun nd => (mc, nd)) ++ entriesFrom ignore (mc + 1) ms

def entries (ignore : List String) (mols : List Mol) : List (Nat × Node) := entriesFrom ignore 0 mols

/-- the key of `nodes_to_gndx` for an entry -/
def keyOf (e : Nat × Node) : Nat × Nat := (e.1, e.2.key)

/-! ### the bulk position query -/

/-- `update_positions_in_molecules(molecules)`: every node of every molecule that the engine knows
(`(mol_idx, node) in nodes_to_gndx`, here `gndxOf`) gets `positions[gndx]` — a row of `inf` (`none`) if the residue
has no position — whatever it carried before (`old`); nodes the engine does not know keep what they carried. -/
def handBack (s : State) (gndxOf : Nat × Nat → Option Nat) (old : Nat × Nat → Option V3) : Nat × Nat → Option V3 :=
  fun k =>
    match gndxOf k with
    | none => old k
    | some g => s.pos g

end PolyplyVerif.EngineLayout
