/-
C20 — output files (`gen_params`, `gen_coords`, `gen_seq`) and vermouth's `DeferredFileWriter`.
Core Lean only.

Modelled
* the filesystem as a finite map path → contents (`FS`, an association list read with `look`);
* paths as a structured type: a plain name in the output directory (`file`), a GROMACS-style backup
  `#name.k#` of that name in the same directory (`backup name k`, `Path.with_name` in
  `DeferredFileWriter._find_free_path`) and a `tempfile.mkstemp` result in the temporary directory
  (`tmp n`).  The harness maps directory entries to this type (`#<name>.<k>#` with canonical decimal `k`
  is a backup, everything else a plain file); output paths given to the programs are plain names.
* `DeferredFileWriter` (a process-wide singleton): `open_files` = queue of (temporary file, final name),
  `open(name,'w')` = reuse the queued temporary file of that name (truncating it) or `mkstemp` + enqueue,
  `write()` = for every queued entry: back the existing destination up under the first free
  `#name.k#`, k = 1, 2, …, then move the temporary file to the destination; queue emptied.
* the three programs as lists of stages (`genParamsStages`, `genCoordsStages`, `genSeqStages`), in the
  order of the statements of `gen_itp.gen_params`, `gen_coords.gen_coords`, `gen_seq.gen_seq`.  A crash
  point is an index `k` into the list: the stages before `k` ran, stage `k` raised (`crashRun`).

Specification side (the property's own words): `SpecUnchanged` ("no output file is created, truncated or
modified": the map restricted to non-temporary paths is the same), `SpecSuccess` ("the complete file is in
place and a file previously at that path is kept under a GROMACS-style backup name", nothing else
changed), with executable versions `specUnchangedB`, `specSuccessB` used as the oracle on real directory
listings.

Not modelled: atomicity of `shutil.move`/`os.rename`, modes other than 'w', concurrent processes.
-/
namespace PolyplyVerif.Output

inductive Path where
  | file (name : String)
  | backup (name : String) (k : Nat)
  | tmp (n : Nat)
deriving DecidableEq, Repr

/-- non-temporary paths: what a user sees in the output directory -/
def Path.user : Path → Bool
  | .tmp _ => false
  | _ => true

abbrev FS := List (Path × String)

def look : FS → Path → Option String
  | [], _ => none
  | (q, c) :: rest, p => if q = p then some c else look rest p

def erase (fs : FS) (p : Path) : FS := fs.filter (fun e => e.1 ≠ p)

def put (fs : FS) (p : Path) (c : String) : FS := (p, c) :: erase fs p

/-- `shutil.move(src, dst)` on the same filesystem: rename, replacing `dst` -/
def move (fs : FS) (src dst : Path) : FS :=
  match look fs src with
  | some c => put (erase fs src) dst c
  | none => fs

/-- `_find_free_path` for an existing destination: try `#name.k#` for k = start, start+1, … .
`fuel` bounds the search; `findFree` supplies enough (one more than the number of entries). -/
def findFreeFrom (fs : FS) (name : String) : Nat → Nat → Nat
  | 0, k => k
  | fuel + 1, k => if (look fs (.backup name k)).isNone then k else findFreeFrom fs name fuel (k + 1)

def findFree (fs : FS) (name : String) : Nat := findFreeFrom fs name fs.length 1

/-- `DeferredFileWriter._write_file(tmp, final)` -/
def writeFile (fs : FS) (t : Nat) (name : String) : FS :=
  let fs1 := match look fs (.file name) with
    | some _ => move fs (.file name) (.backup name (findFree fs name))
    | none => fs
  move fs1 (.tmp t) (.file name)

inductive Stage where
  /-- reading, mapping, link application, template generation, system building, backmapping … :
      no effect on the filesystem -/
  | compute (label : String)
  /-- `deferred_open(out, 'w')` -/
  | openDeferred (label : String) (out : String)
  /-- a `write` on the handle returned by `deferred_open(out, 'w')` -/
  | writeDeferred (label : String) (out : String) (data : String)
  /-- `DeferredFileWriter().write()` -/
  | flush (label : String)
  /-- builtin `open(out, 'w')` -/
  | openDirect (label : String) (out : String)
  /-- a `write` on the handle returned by builtin `open(out, 'w')` -/
  | writeDirect (label : String) (out : String) (data : String)
deriving DecidableEq, Repr

def Stage.label : Stage → String
  | .compute l | .openDeferred l _ | .writeDeferred l _ _ | .flush l | .openDirect l _ | .writeDirect l _ _ => l

def Stage.kind : Stage → String
  | .compute _ => "compute" | .openDeferred .. => "openDeferred" | .writeDeferred .. => "writeDeferred"
  | .flush _ => "flush" | .openDirect .. => "openDirect" | .writeDirect .. => "writeDirect"

/-- stages that touch nothing but the writer's queue and temporary files -/
def Stage.deferredOnly : Stage → Bool
  | .compute _ | .openDeferred .. | .writeDeferred .. => true
  | _ => false

/-- stages without any effect on the filesystem -/
def Stage.pure : Stage → Bool
  | .compute _ => true
  | _ => false

structure St where
  fs : FS
  /-- `DeferredFileWriter().open_files`: (index of the temporary file, final name) -/
  queue : List (Nat × String)
  /-- index of the next `mkstemp` result -/
  next : Nat
deriving Repr

def queued (queue : List (Nat × String)) (out : String) : Option Nat :=
  match queue with
  | [] => none
  | (t, o) :: rest => if o = out then some t else queued rest out

def flushQueue (fs : FS) : List (Nat × String) → FS
  | [] => fs
  | (t, out) :: rest => flushQueue (writeFile fs t out) rest

def step (st : St) : Stage → St
  | .compute _ => st
  | .openDeferred _ out =>
    match queued st.queue out with
    | some t => { st with fs := put st.fs (.tmp t) "" }
    | none => { fs := put st.fs (.tmp st.next) "", queue := st.queue ++ [(st.next, out)], next := st.next + 1 }
  | .writeDeferred _ out data =>
    match queued st.queue out with
    | some t => { st with fs := put st.fs (.tmp t) (((look st.fs (.tmp t)).getD "") ++ data) }
    | none => st
  | .flush _ => { st with fs := flushQueue st.fs st.queue, queue := [] }
  | .openDirect _ out => { st with fs := put st.fs (.file out) "" }
  | .writeDirect _ out data => { st with fs := put st.fs (.file out) (((look st.fs (.file out)).getD "") ++ data) }

def run (stages : List Stage) (st : St) : St := stages.foldl step st

/-- the program stopped with an exception raised by stage `k` (before it had any effect) -/
def crashRun (stages : List Stage) (k : Nat) (st : St) : St := run (stages.take k) st

/-- content written through `deferred_open(out,'w')` since it was last opened (`none`: never opened) -/
def pending (out : String) : List Stage → Option String → Option String
  | [], acc => acc
  | .openDeferred _ o :: rest, acc => pending out rest (if o = out then some "" else acc)
  | .writeDeferred _ o d :: rest, acc => pending out rest (if o = out then acc.map (· ++ d) else acc)
  | _ :: rest, acc => pending out rest acc

/-- every deferred stage of the list concerns the one output name `out` -/
def Stage.onlyOut (out : String) : Stage → Bool
  | .compute _ => true
  | .openDeferred _ o => o = out
  | .writeDeferred _ o _ => o = out
  | _ => false

/-! ### the three programs as stage lists (labels = the interposed functions of the harness) -/

def computes (labels : List String) : List Stage := labels.map Stage.compute

/-- `gen_itp.gen_params(name, outpath, inpath, lib, seq | seq_file, dsdna, mods)`; the serialised text
is written in chunks `chunks` -/
def genParamsStages (seqFile dsdna : Bool) (out : String) (chunks : List String) : List Stage :=
  computes (["load_ff_library"]
    ++ (if seqFile then ["MetaMolecule.from_sequence_file"]
        else ["split_seq_string", "MetaMolecule.from_monomer_seq_linear"])
    ++ (if dsdna then ["complement_dsDNA"] else [])
    ++ ["MapToMolecule.run_molecule", "ApplyLinks.run_molecule", "ApplyModifications.run_molecule",
        "find_missing_edges"])
  ++ [.openDeferred "deferred_open" out, .compute "write_molecule_itp"]
  ++ chunks.map (Stage.writeDeferred "outfile.write" out)
  ++ [.flush "DeferredFileWriter.write"]

/-- `gen_coords.gen_coords(...)` with the optional stages selected by the options given -/
def genCoordsStages (split coord build skipFilter : Bool) (out : String) (chunks : List String) : List Stage :=
  computes (["Topology.from_gmx_topfile", "Topology.preprocess", "_check_molecules"]
    ++ (if split then ["MetaMolecule.split_residue"] else [])
    ++ (if coord then ["Topology.add_positions_from_file"] else [])
    ++ ["load_build_files"]
    ++ (if build then ["BuildDirector.parse"] else [])
    ++ ["find_starting_node_from_spec"]
    ++ (if skipFilter then ["check_residue_equivalence"] else [])
    ++ ["GenerateTemplates.run_system", "AnnotateLigands.run_system", "_initialize_cylces",
        "BuildSystem.run_system", "AnnotateLigands.split_ligands", "Backmap.run_system",
        "Topology.convert_to_vermouth_system", "write_gro"])
  ++ [.openDeferred "deferred_open" out]
  ++ chunks.map (Stage.writeDeferred "out.write" out)
  ++ [.flush "DeferredFileWriter.write"]

/-- `gen_seq.gen_seq(...)`: stages, then builtin `open(outpath,'w')` and `json.dump` -/
def genSeqStages (fromFile mods : Bool) (out : String) (chunks : List String) : List Stage :=
  computes ((if fromFile then ["load_ff_library", "MacroFile"] else [])
    ++ ["MacroString", "generate_seq_graph", "_apply_termini_modifications"]
    ++ (if mods then ["_find_terminal_nodes"] else [])
    ++ ["_tag_nodes", "node_link_data"])
  ++ [.openDirect "open" out, .compute "json.dump"]
  ++ chunks.map (Stage.writeDirect "file_handle.write" out)

/-! ### the call sequence of the SOURCE against the stage lists

`Generated/OutputTables.lean` (translator `harness/tables/output.py`) lists, for each of the three programs,
every call of the function body in source order as `(depth, callee, benign)` — private helpers of the same
module expanded in place at `depth + 1`, `benign` = builtins other than `open`, logging, housekeeping
methods of containers and strings.  The functions below compare such a table with a stage list. -/

/-- `(depth, callee, benign, aliases)`; `aliases` = the callee and its dotted suffixes
(`vermouth.gmx.gro.write_gro`, `gmx.gro.write_gro`, `gro.write_gro`, `write_gro`), computed by the translator so
that the comparison below needs string EQUALITY only -/
abbrev CallRow := Nat × String × Bool × List String

def CallRow.name (r : CallRow) : String := r.2.1
def CallRow.benign (r : CallRow) : Bool := r.2.2.1
def CallRow.aliases (r : CallRow) : List String := r.2.2.2

/-- the names under which the stage `label` may appear in the source: the label itself; the one stage whose
receiver is a loop variable of unknown type (`for molecule in topology.molecules: molecule.split_residue(…)`)
also as `?.split_residue` -/
def sourceNames (label : String) : List String :=
  if label == "MetaMolecule.split_residue" then [label, "?.split_residue"] else [label]

/-- does the source call `r` stand for the stage label `label`?  Equal, or the label reached through a
longer module path (`vermouth.gmx.gro.write_gro` for `write_gro`). -/
def matchesLabel (label : String) (r : CallRow) : Bool :=
  (sourceNames label).any (fun n => r.aliases.contains n)

/-- index of the first call of the source that stands for `label` -/
def findCall (calls : List CallRow) (label : String) : Option Nat :=
  calls.findIdx? (matchesLabel label)

def orderedFrom (calls : List CallRow) : Nat → List String → Bool
  | _, [] => true
  | lo, l :: rest =>
    match findCall calls l with
    | none => orderedFrom calls lo rest          -- not a call of this module (or renamed): no claim
    | some i => decide (lo ≤ i) && orderedFrom calls (i + 1) rest

/-- the stage labels that occur in the source occur there in the order of the stage list -/
def orderConsistent (labels : List String) (calls : List CallRow) : Bool := orderedFrom calls 0 labels

/-- index of the last call of the source that stands for `label` -/
def lastCall (calls : List CallRow) (label : String) : Option Nat :=
  (calls.zipIdx.filter (fun r => matchesLabel label r.1)).getLast?.map (·.2)

/-- `label` is called, and every call after its last call is benign (no stage follows it) -/
def quietAfter (calls : List CallRow) (label : String) : Bool :=
  match lastCall calls label with
  | none => false
  | some i => (calls.drop (i + 1)).all CallRow.benign

/-- the non-benign calls of the source that no label of `labels` stands for (what a stage list does not
name): the harness puts a crash point on each of them that it can reach -/
def unnamedCalls (labels : List String) (calls : List CallRow) : List String :=
  (calls.filter (fun r => !r.benign && !(labels.any (fun l => matchesLabel l r)))).map CallRow.name

def stageLabels (stages : List Stage) : List String := stages.map Stage.label

/-! ### specification side -/

/-- "no output file is created, truncated or modified" -/
def SpecUnchanged (fs fs' : FS) : Prop := ∀ p : Path, p.user = true → look fs' p = look fs p

/-- "the complete file is in place and a file previously at that path is kept under a GROMACS-style
backup name" (the first free `#out.k#`, k ≥ 1); nothing else changed -/
def SpecSuccess (fs fs' : FS) (out content : String) : Prop :=
  look fs' (.file out) = some content ∧
  match look fs (.file out) with
  | none => ∀ p : Path, p.user = true → p ≠ .file out → look fs' p = look fs p
  | some old => ∃ k, 1 ≤ k ∧ look fs (.backup out k) = none ∧
      (∀ j, 1 ≤ j → j < k → look fs (.backup out j) ≠ none) ∧
      look fs' (.backup out k) = some old ∧
      ∀ p : Path, p.user = true → p ≠ .file out → p ≠ .backup out k → look fs' p = look fs p

def keys (fs : FS) : List Path := fs.map (·.1)

/-- executable `SpecUnchanged` (it suffices to look at the paths present on either side) -/
def specUnchangedB (fs fs' : FS) : Bool :=
  (keys fs ++ keys fs').all (fun p => !p.user || look fs' p == look fs p)

/-- executable `SpecSuccess` -/
def specSuccessB (fs fs' : FS) (out content : String) : Bool :=
  look fs' (.file out) == some content &&
  match look fs (.file out) with
  | none => (keys fs ++ keys fs').all (fun p => !p.user || p == .file out || look fs' p == look fs p)
  | some old =>
    let k := findFree fs out
    look fs' (.backup out k) == some old &&
    (keys fs ++ keys fs').all (fun p => !p.user || p == .file out || p == .backup out k || look fs' p == look fs p)

end PolyplyVerif.Output
