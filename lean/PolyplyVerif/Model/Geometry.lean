/-
Rational 3-vectors, the periodic-box arithmetic of `polyply/src/linalg_functions.py` and
`polyply/src/nonbond_engine.py`, and the 12-6 pair force as a rational function of r².
Core Lean only (no Mathlib); self-contained so that other models can import it.

  Python                                         model
  ------------------------------------------------------------------------------------------
  `x % L`  (float, L > 0)                        `pmod x L = x - L * ⌊x / L⌋`
  `pbc_complete(point, maxdim) = point % maxdim` `wrap p L`
  `NonBondEngine.pbc_min_dist`                   `minImageSq` (the square; `min((a-b)%L,(b-a)%L)` per axis)
  `np.round` (round half to even)                `roundHalfEven`
  `ref + box*np.round((point-ref)/box)`,
     then `point - ref`                          `minImageVec p q L` (per axis `imgComp (p-q) L`)
  scipy `KDTree(boxsize=…)` distance             `kdDistSq` (`BoxDist1D`: shift by one box length when the
                                                 difference leaves [-L/2, L/2]); a restatement of the library's
                                                 documented behaviour, part of the trusted base
  `not_exceeds_max_dimensions`                   `notExceeds` (closed upper end, as in the code);
                                                 `inBox` is the half-open box the KD-tree demands
  `_lennard_jones_force`                         `ljCoef σ ε r² • vect`
-/
namespace PolyplyVerif.Geometry

/-- a point / vector of ℚ³ -/
structure V3 where
  x : Rat
  y : Rat
  z : Rat
deriving DecidableEq, Repr, Inhabited

namespace V3
def zero : V3 := ⟨0, 0, 0⟩
def add (a b : V3) : V3 := ⟨a.x + b.x, a.y + b.y, a.z + b.z⟩
def sub (a b : V3) : V3 := ⟨a.x - b.x, a.y - b.y, a.z - b.z⟩
def neg (a : V3) : V3 := ⟨-a.x, -a.y, -a.z⟩
def smul (c : Rat) (a : V3) : V3 := ⟨c * a.x, c * a.y, c * a.z⟩
def dot (a b : V3) : Rat := a.x * b.x + a.y * b.y + a.z * b.z
def normSq (a : V3) : Rat := a.x * a.x + a.y * a.y + a.z * a.z
instance : Add V3 := ⟨add⟩
instance : Sub V3 := ⟨sub⟩
instance : Neg V3 := ⟨neg⟩
/-- componentwise map of two vectors and the box -/
def map3 (f : Rat → Rat → Rat → Rat) (a b L : V3) : V3 := ⟨f a.x b.x L.x, f a.y b.y L.y, f a.z b.z L.z⟩
def map2 (f : Rat → Rat → Rat) (a L : V3) : V3 := ⟨f a.x L.x, f a.y L.y, f a.z L.z⟩
/-- sum of a list of vectors (`force += …`, starting from 0) -/
def sum (l : List V3) : V3 := l.foldl add zero
end V3

def rabs (x : Rat) : Rat := if x < 0 then -x else x

/-- every box length is positive -/
def boxPos (L : V3) : Prop := 0 < L.x ∧ 0 < L.y ∧ 0 < L.z
instance (L : V3) : Decidable (boxPos L) := by unfold boxPos; exact inferInstance

/-- Python's float `%` with a positive modulus, on rationals -/
def pmod (a L : Rat) : Rat := a - L * ((a / L).floor : Rat)

/-- `pbc_complete(point, maxdim)`: `point % maxdim` componentwise -/
def wrap (p L : V3) : V3 := V3.map2 pmod p L

/-- half-open box `0 ≤ pᵢ < Lᵢ`: what `scipy.spatial.KDTree(boxsize=L)` accepts as data -/
def inBox (p L : V3) : Prop := (0 ≤ p.x ∧ p.x < L.x) ∧ (0 ≤ p.y ∧ p.y < L.y) ∧ (0 ≤ p.z ∧ p.z < L.z)
instance (p L : V3) : Decidable (inBox p L) := by unfold inBox; exact inferInstance

/-- `not_exceeds_max_dimensions(point, maxdim)`: `all(point <= maxdim) and all(point >= 0)` -/
def notExceeds (p L : V3) : Bool :=
  decide (p.x ≤ L.x) && decide (p.y ≤ L.y) && decide (p.z ≤ L.z) &&
  decide (0 ≤ p.x) && decide (0 ≤ p.y) && decide (0 ≤ p.z)

/-- one axis of `pbc_min_dist`: `min((a-b) % L, (b-a) % L)` -/
def miComp (a b L : Rat) : Rat := min (pmod (a - b) L) (pmod (b - a) L)

/-- the vector `np.min(np.vstack(((a-b) % box, (b-a) % box)), axis=0)` of `pbc_min_dist` -/
def minImageAbs (a b L : V3) : V3 := V3.map3 miComp a b L

/-- square of `NonBondEngine.pbc_min_dist(a, b)` (the code returns `np.linalg.norm` of `minImageAbs`) -/
def minImageSq (a b L : V3) : Rat := (minImageAbs a b L).normSq

/-- `np.round` on a scalar: nearest integer, ties to the even one -/
def roundHalfEven (q : Rat) : Int :=
  let f := q.floor
  let r := q - (f : Rat)
  if r < 1 / 2 then f
  else if 1 / 2 < r then f + 1
  else if f % 2 = 0 then f else f + 1

/-- one axis of the minimum-image *vector* used by `compute_force_point`:
`point - (ref + L*round((point-ref)/L)) = d - L*round(d/L)` with `d = point - ref` -/
def imgComp (d L : Rat) : Rat := d - L * ((roundHalfEven (d / L) : Int) : Rat)

/-- `point - (ref + box*np.round((point-ref)/box))` -/
def minImageVec (p q L : V3) : V3 := V3.map2 imgComp (p - q) L

/-- one axis of the periodic distance of scipy's KD-tree (`BoxDist1D::wrap_distance`): the difference
is shifted by one box length when it leaves `[-L/2, L/2]` -/
def kdComp (d L : Rat) : Rat :=
  if d < -(L / 2) then d + L else if L / 2 < d then d - L else d

/-- squared distance reported by `KDTree(boxsize=L).sparse_distance_matrix` for two stored points -/
def kdDistSq (p q L : V3) : Rat := (V3.map2 kdComp (p - q) L).normSq

/-- `_lennard_jones_force(dist, point, ref, (σ, ε)) = 24ε/dist·(2(σ/dist)¹² − (σ/dist)⁶)·(point−ref)/dist`
    `= ljCoef σ ε dist² • (point − ref)`: a rational function of `r2 = dist²` -/
def ljCoef (sig eps r2 : Rat) : Rat :=
  24 * eps * (2 * sig ^ 12 / r2 ^ 6 - sig ^ 6 / r2 ^ 3) / r2

/-- pair force on `p` from a particle at `q` with pair size `σ`, strength `ε`, under periodic
boundaries: distance and direction both from the minimum image -/
def pairForce (sig eps : Rat) (p q L : V3) : V3 :=
  V3.smul (ljCoef sig eps (minImageSq p q L)) (minImageVec p q L)

end PolyplyVerif.Geometry
