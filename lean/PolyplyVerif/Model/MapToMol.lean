/-
Model of `polyply/src/map_to_molecule.py` (`MapToMolecule.match_nodes_to_blocks`, `add_blocks`,
`_correspondence_to_residue`), of vermouth's `Block.to_molecule` / `Molecule.merge_molecule`, of the
block-interaction seeding / flush of `ApplyLinks.run_molecule` (relative to a recorded list of link
operations: link *matching* is another model's business), and of `apply_modifications.apply_mod` /
`_patch_protein_termini`.  Core Lean only.

Conventions
* Names, types, charges, masses, parameters and meta values are opaque string tokens: "verbatim" is
  token equality.  An atom is `node` (its key in the molecule graph), `resid`, `cgrp` (charge group) and
  an insertion-ordered attribute dictionary.
* `Molecule.interactions` is a dictionary section -> list; the model keeps ONE list in append order with
  the section as a field.  The per-section lists the program writes are the `filter`s of that list, and
  `filter` commutes with every append the code performs.
* Residue-graph node keys are an arbitrary type `κ` with decidable equality: the code only ever compares
  keys for equality (dictionary look-ups), which is exactly what C13 claims.
* Block atoms are addressed by their position in the block (the parsers key them by name or by index;
  the harness translates).  Assumed of a parsed force field: interaction atoms are positions inside the
  block (`.ff`: names must exist; polyply `.itp`: out-of-block indices are split off as links).

The *specification side* (`specGo`, `specMol`, `checkLayout`, `checkFrame`) is what property C01 states;
it does not use any of the machinery above it (no fragments, no offsets read off the growing molecule).
-/
import PolyplyVerif.Model.ResGraph

namespace PolyplyVerif.MapToMol
open PolyplyVerif

/-! ## data -/

structure Atom where
  node : Nat
  resid : Nat
  cgrp : Nat
  attrs : Attrs
deriving DecidableEq, Repr

structure Ixn where
  sect : String
  atoms : List Nat
  params : List String
  info : Attrs
deriving DecidableEq, Repr

/-- an atom of a force-field block; its node is its position in the block -/
structure BAtom where
  resid : Nat
  cgrp : Nat
  attrs : Attrs
deriving DecidableEq, Repr

structure Block where
  name : String
  nrexcl : Nat
  atoms : List BAtom
  ixns : List Ixn
deriving DecidableEq, Repr

/-- interaction of a modification: atoms are atom *names* -/
structure MIxn where
  sect : String
  atoms : List String
  params : List String
  info : Attrs
deriving DecidableEq, Repr

structure Modif where
  name : String
  atoms : List (String × Attrs)      -- atomname, `replace` dictionary
  ixns : List MIxn
deriving DecidableEq, Repr

structure FF where
  blocks : List Block
  mods : List Modif
deriving Repr

structure Mol where
  atoms : List Atom
  ixns : List Ixn
deriving DecidableEq, Repr

structure ResNode (κ : Type) where
  key : κ
  resid : Nat
  resname : String
  fromItp : Option String
deriving DecidableEq, Repr

/-- residue graph: nodes in insertion order, adjacency lists in networkx order -/
structure ResGraph (κ : Type) where
  nodes : List (ResNode κ)
  adj : List (κ × List κ)
deriving Repr

def FF.block? (ff : FF) (name : String) : Option Block := ff.blocks.find? (fun b => b.name == name)
def FF.mod? (ff : FF) (name : String) : Option Modif := ff.mods.find? (fun m => m.name == name)

def attrGet? (a : Attrs) (k : String) : Option String := (a.find? (fun kv => kv.1 == k)).map (·.2)

/-! ## association lists standing for Python dictionaries -/

section assoc
variable {α β : Type} [DecidableEq α]

def assocGet? (l : List (α × β)) (k : α) : Option β := (l.find? (fun kv => kv.1 = k)).map (·.2)

/-- `d[k] = v`: replaces in place (keeps the position of the first insertion) or appends -/
def assocSet : List (α × β) → α → β → List (α × β)
  | [], k, v => [(k, v)]
  | (k', v') :: rest, k, v => if k' = k then (k, v) :: rest else (k', v') :: assocSet rest k v

end assoc

/-! ## vermouth: `Block.to_molecule`, `Molecule.merge_molecule` -/

/-- `enumerate(nodes, start)` with the resid / charge-group offsets added -/
def reindex : Nat → Nat → Nat → List BAtom → List Atom
  | _, _, _, [] => []
  | start, rOff, cOff, a :: rest =>
    ⟨start, a.resid + rOff, a.cgrp + cOff, a.attrs⟩ :: reindex (start + 1) rOff cOff rest

def shiftIxn (off : Nat) (i : Ixn) : Ixn := { i with atoms := i.atoms.map (· + off) }

/-- `Block.to_molecule()` with the default offsets 0 -/
def toMolecule (b : Block) : Mol := ⟨reindex 0 0 0 b.atoms, b.ixns.map (shiftIxn 0)⟩

def maxNode (as : List Atom) : Nat := as.foldl (fun acc a => max acc a.node) 0

/-- The atom `merge_molecule` reads the residue and charge-group offsets from: it walks the nodes in
decreasing order and stops at the first whose resid is truthy (non-zero), falling through to the lowest
node.  The model keeps `atoms` in increasing node order (lemma `addBlocks_nodes`), so "decreasing node
order" is the reversed list. -/
def refAtom (as : List Atom) : Option Atom :=
  match as.reverse.find? (fun a => a.resid != 0) with
  | some a => some a
  | none => as.head?

/-- `self.merge_molecule(block)`; returns the new molecule and the values of the correspondence
dictionary (new node of every block atom, in block order) -/
def mergeMolecule (m : Mol) (b : Block) : Mol × List Nat :=
  let (start, rOff, cOff) :=
    match refAtom m.atoms with
    | none => (1, 0, 0)                                     -- empty molecule: nodes start at 1
    | some a => (maxNode m.atoms + 1, a.resid, a.cgrp)
  let new := reindex start rOff cOff b.atoms
  (⟨m.atoms ++ new, m.ixns ++ b.ixns.map (shiftIxn start)⟩, new.map (·.node))

/-! ## residue-graph helpers -/

section graph
variable {κ : Type} [DecidableEq κ]

def ResGraph.node? (g : ResGraph κ) (k : κ) : Option (ResNode κ) := g.nodes.find? (fun n => n.key = k)
def ResGraph.neighbors (g : ResGraph κ) (k : κ) : List κ := (assocGet? g.adj k).getD []

/-- adjacency lists of `nx.Graph.add_edge` calls in the given order (orientation is invisible) -/
def adjOfEdges (keys : List κ) (edges : List (κ × κ)) : List (κ × List κ) :=
  keys.map fun k => (k, edges.filterMap fun e =>
    if e.1 = k then some e.2 else if e.2 = k then some e.1 else none)

/-- `list(G.edges)` of an undirected networkx graph: for every node in insertion order, its neighbours in
adjacency order that are not among the nodes already done (every edge once, a self loop once) -/
def graphEdges (g : ResGraph κ) : List (κ × κ) :=
  (g.nodes.foldl (fun (acc : List κ × List (κ × κ)) n =>
    (n.key :: acc.1,
     acc.2 ++ ((g.neighbors n.key).filter (fun v => v ∉ acc.1)).map (fun v => (n.key, v)))) ([], [])).2

/-- nodes reachable over `edges` from `seen`, by `fuel` rounds of one-edge extension -/
def closure (edges : List (κ × κ)) : Nat → List κ → List κ
  | 0, seen => seen
  | fuel + 1, seen =>
    closure edges fuel (edges.foldl (fun s e =>
      if e.1 ∈ s ∧ e.2 ∉ s then s ++ [e.2] else if e.2 ∈ s ∧ e.1 ∉ s then s ++ [e.1] else s) seen)

/-- `nx.connected_components` of the graph (`keys`, `edges`), in order of first node -/
def components (keys : List κ) (edges : List (κ × κ)) : List (List κ) :=
  keys.foldl (fun comps k =>
    if comps.any (fun c => k ∈ c) then comps else comps ++ [closure edges keys.length [k]]) []

/-- insert before the first node with a strictly greater resid -/
def insertByResid (a : ResNode κ) : List (ResNode κ) → List (ResNode κ)
  | [] => [a]
  | b :: rest => if a.resid < b.resid then a :: b :: rest else b :: insertByResid a rest

/-- `sorted(..., key=resid)`: stable (insertion sort); with pairwise distinct resids the result does not
depend on the order of the input (Python compares the node keys only on resid ties) -/
def sortByResid (ns : List (ResNode κ)) : List (ResNode κ) := ns.foldr insertByResid []

end graph

/-! ## `MapToMolecule.match_nodes_to_blocks` -/

structure Tables (κ : Type) where
  blockOf : List (κ × String)     -- node_to_block
  fragOf : List (κ × Nat)         -- node_to_fragment
  frags : List (List κ)           -- fragments
deriving Repr

def resnameAttr (a : BAtom) : String := (attrGet? a.attrs "resname").getD ""

/-- `len(make_residue_graph(block, attrs=('resid', 'resname')))` -/
def Block.nres (b : Block) : Nat := ((b.atoms.map fun a => (a.resid, resnameAttr a)).eraseDups).length

/-- `len(set(resids)) > 1` -/
def Block.multiRes (b : Block) : Bool :=
  match b.atoms with
  | [] => false
  | a :: rest => rest.any (fun x => x.resid != a.resid)

def slices {α : Type} : Nat → Nat → List α → List (List α)
  | 0, _, _ => []
  | n + 1, len, l => l.take len :: slices n len (l.drop len)

section matching
variable {κ : Type} [DecidableEq κ]

def addNew (l : List κ) (k : κ) : List κ := if k ∈ l then l else l ++ [k]

/-- classification of the residue-graph edges: (nodes of `regular_graph`, edges of `restart_graph`) -/
def classify (g : ResGraph κ) (init : List κ) : List κ × List (κ × κ) :=
  (graphEdges g).foldl (fun (acc : List κ × List (κ × κ)) e =>
    match (g.node? e.1).bind (·.fromItp), (g.node? e.2).bind (·.fromItp) with
    | some a, some b => if a = b then (acc.1, acc.2 ++ [e]) else acc
    | _, _ => (addNew (addNew acc.1 e.1) e.2, acc.2)) (init, [])

/-- bookkeeping of one connected component of `restart_graph` -/
def addFragment (ff : FF) (g : ResGraph κ) (t : Tables κ) (comp : List κ) : Except String (Tables κ) :=
  let fragNodes := sortByResid (comp.filterMap g.node?)
  match fragNodes with
  | [] => .error "internal"
  | first :: _ =>
    let name := first.fromItp.getD ""
    match ff.block? name with
    | none => .error "KeyError"
    | some block =>
      let lenBlock := block.nres
      if lenBlock = 0 then .error "ZeroDivisionError"
      else if fragNodes.length % lenBlock ≠ 0 then .error "IOError"
      else
        let groups := slices (fragNodes.length / lenBlock) lenBlock (fragNodes.map (·.key))
        .ok (groups.foldl (fun (t : Tables κ) grp =>
          { blockOf := grp.foldl (fun b k => assocSet b k name) t.blockOf,
            fragOf := grp.foldl (fun f k => assocSet f k t.frags.length) t.fragOf,
            frags := t.frags ++ [grp] }) t)

def matchNodesToBlocks (ff : FF) (g : ResGraph κ) : Except String (Tables κ) :=
  let restartKeys := (g.nodes.filter (·.fromItp.isSome)).map (·.key)
  let (regular, restartEdges) := classify g (if g.nodes.length = 1 then g.nodes.map (·.key) else [])
  let blockOf := regular.foldl (fun b k => assocSet b k ((g.node? k).map (·.resname) |>.getD "")) []
  (components restartKeys restartEdges).foldlM (addFragment ff g) ⟨blockOf, [], []⟩

end matching

/-! ## `MapToMolecule.add_blocks` -/

structure St (κ : Type) where
  mol : Mol
  graphs : List (κ × List Nat)      -- meta node -> atoms of its `graph` attribute
  added : List κ                    -- added_fragment_nodes
  corrs : List (Nat × List Nat)     -- multiblock_correspondence: fragment id -> values of the dictionary
deriving Repr

def Mol.residOf? (m : Mol) (v : Nat) : Option Nat := (m.atoms.find? (fun a => a.node == v)).map (·.resid)

/-- `_correspondence_to_residue`: the atoms among the correspondence values whose resid is the node's -/
def residueOf (m : Mol) (corr : List Nat) (resid : Nat) : List Nat :=
  corr.filter fun v => m.residOf? v == some resid

section addblocks
variable {κ : Type} [DecidableEq κ]

def firstNode (ff : FF) (t : Tables κ) (n : ResNode κ) : Except String (St κ) :=
  match assocGet? t.blockOf n.key with
  | none => .error "KeyError"
  | some bname =>
    match ff.block? bname with
    | none => .error "KeyError"
    | some block =>
      let mol := toMolecule block
      let all := mol.atoms.map (·.node)
      if n.fromItp.isSome then
        match assocGet? t.fragOf n.key with
        | none => .error "KeyError"
        | some f =>
          match t.frags[f]? with
          | none => .error "IndexError"
          | some frag => .ok ⟨mol, [(n.key, residueOf mol all n.resid)], frag, [(f, all)]⟩
      else if block.multiRes then .error "IOError"
      else
        let mol' : Mol := ⟨mol.atoms.map (fun a => { a with resid := n.resid }), mol.ixns⟩
        .ok ⟨mol', [(n.key, all)], [], []⟩

def stepNode (ff : FF) (t : Tables κ) (st : St κ) (n : ResNode κ) : Except String (St κ) :=
  if n.key ∈ st.added then
    match assocGet? t.fragOf n.key with
    | none => .error "KeyError"
    | some f =>
      match assocGet? st.corrs f with
      | none => .error "KeyError"
      | some corr => .ok { st with graphs := st.graphs ++ [(n.key, residueOf st.mol corr n.resid)] }
  else
    match assocGet? t.blockOf n.key with
    | none => .error "KeyError"
    | some bname =>
      match ff.block? bname with
      | none => .error "KeyError"
      | some block =>
        if n.fromItp.isNone && block.multiRes then .error "IOError"
        else
          let (mol, corr) := mergeMolecule st.mol block
          let graphs := st.graphs ++ [(n.key, residueOf mol corr n.resid)]
          if n.fromItp.isSome then
            match assocGet? t.fragOf n.key with
            | none => .error "KeyError"
            | some f =>
              match t.frags[f]? with
              | none => .error "IndexError"
              | some frag => .ok ⟨mol, graphs, st.added ++ frag, assocSet st.corrs f corr⟩
          else .ok ⟨mol, graphs, st.added, st.corrs⟩

def addBlocksFrom (ff : FF) (t : Tables κ) : St κ → List (ResNode κ) → Except String (St κ)
  | st, [] => .ok st
  | st, n :: rest => match stepNode ff t st n with
    | .error e => .error e
    | .ok st' => addBlocksFrom ff t st' rest

/-- `add_blocks` on an already resid-sorted node list -/
def addBlocksSorted (ff : FF) (t : Tables κ) : List (ResNode κ) → Except String (St κ)
  | [] => .error "IndexError"
  | n :: rest => match firstNode ff t n with
    | .error e => .error e
    | .ok st => addBlocksFrom ff t st rest

def addBlocks (ff : FF) (t : Tables κ) (nodes : List (ResNode κ)) : Except String (St κ) :=
  addBlocksSorted ff t (sortByResid nodes)

/-- `_assert_blocks_in_FF` -/
def blocksKnown (ff : FF) (t : Tables κ) : Bool := t.blockOf.all fun kv => (ff.block? kv.2).isSome

/-- exclusion distance the molecule ends up with (`tag_exclusions`: the minimum over the used blocks) -/
def nrexclOf (ff : FF) (t : Tables κ) : Nat :=
  match t.blockOf.filterMap (fun kv => (ff.block? kv.2).map (·.nrexcl)) with
  | [] => 0
  | x :: xs => xs.foldl min x

/-- `MapToMolecule(ff).run_molecule(meta_molecule)` -/
def mapToMolecule (ff : FF) (g : ResGraph κ) : Except String (St κ × Nat) :=
  match matchNodesToBlocks ff g with
  | .error e => .error e
  | .ok t =>
    if !blocksKnown ff t then .error "IOError"
    else match addBlocks ff t g.nodes with
      | .error e => .error e
      | .ok st => .ok (st, nrexclOf ff t)

end addblocks

/-! ## `ApplyLinks.run_molecule`: seeding and flush of `applied_links`, relative to recorded link operations -/

structure Key where
  sect : String
  atoms : List Nat
  version : String
deriving DecidableEq, Repr

/-- `(*interaction.atoms, interaction.meta.get("version", 1))` per interaction type -/
def keyOf (i : Ixn) : Key := ⟨i.sect, i.atoms, (attrGet? i.info "version").getD "1"⟩

inductive LinkOp where
  | replace (node : Nat) (attrs : Attrs)     -- `molecule.nodes[node].update(replace)`
  | insert (i : Ixn)                         -- `applied_links[type][key] = interaction`
  | remove (node : Nat)                      -- `nodes_to_remove.append(node)`
deriving Repr

/-- `_update_interactions_dict(molecule.interactions, ...)` without a mapping -/
def seed (ixns : List Ixn) : List (Key × Ixn) := ixns.foldl (fun t i => assocSet t (keyOf i) i) []

def setAttrs (a : Atom) (upd : Attrs) : Atom := { a with attrs := a.attrs.update upd }

structure LinkSt where
  atoms : List Atom
  table : List (Key × Ixn)
  removed : List Nat
deriving Repr

def applyOp (s : LinkSt) : LinkOp → LinkSt
  | .replace node attrs => { s with atoms := s.atoms.map fun a => if a.node = node then setAttrs a attrs else a }
  | .insert i => { s with table := assocSet s.table (keyOf i) i }
  | .remove node => { s with removed := s.removed ++ [node] }

/-- the flush: every interaction in the table none of whose atoms was removed -/
def flush (s : LinkSt) : List Ixn :=
  (s.table.filter fun kv => s.removed.all fun r => !(kv.2.atoms.contains r)).map (·.2)

/-- block interactions carried through link application; `genExcl` are the exclusions `expand_excl`
appends afterwards (C14's subject, a parameter here) -/
def applyLinks (m : Mol) (ops : List LinkOp) (genExcl : List Ixn) : Mol :=
  let s := ops.foldl applyOp ⟨m.atoms, seed m.ixns, []⟩
  ⟨s.atoms.filter (fun a => a.node ∉ s.removed), flush s ++ genExcl⟩

/-! ## `apply_modifications` -/

structure ModTarget where
  resid : Nat
  modName : String
  resname : Option String := none      -- residue name in the `-mods` selection, if it gives one
deriving Repr, DecidableEq

section mods
variable {κ : Type} [DecidableEq κ]

/-- `_patch_protein_termini` with the default `['N-ter', 'C-ter']` -/
def defaultTargets (nodes : List (ResNode κ)) : List ModTarget :=
  match nodes.map (·.resid) with
  | [] => []
  | r :: rs => [⟨rs.foldl min r, "N-ter", none⟩, ⟨rs.foldl max r, "C-ter", none⟩]

def atomNameOf (m : Mol) (v : Nat) : Option String :=
  (m.atoms.find? (fun a => a.node == v)).bind fun a => attrGet? a.attrs "atomname"

/-- `mod_atoms`: a dictionary atom name -> `replace`, later entries of the same name win -/
def modAtomsOf (md : Modif) : List (String × Attrs) :=
  md.atoms.foldl (fun d kv => assocSet d kv.1 kv.2) []

/-- body of `for node in target_residue['graph'].nodes`: replace the attributes of a named atom and
remember its node under its name (`anum_dict`) -/
def modAtomStep (m : Mol) (modAtoms : List (String × Attrs)) (acc : List Atom × List (String × Nat)) (v : Nat) :
    List Atom × List (String × Nat) :=
  match atomNameOf m v with
  | none => acc
  | some aname =>
    match assocGet? modAtoms aname with
    | none => acc
    | some repl => (acc.1.map (fun a => if a.node = v then setAttrs a repl else a), assocSet acc.2 aname v)

/-- body of the loop over the modification's interactions: the interaction between the nodes of its atom
names (`KeyError` when a name was not found in the target residue) -/
def modIxnStep (anum : List (String × Nat)) (mol : Mol) (j : MIxn) : Except String Mol :=
  match j.atoms.mapM (assocGet? anum) with
  | some vs => .ok { atoms := mol.atoms, ixns := mol.ixns ++ [Ixn.mk j.sect vs j.params j.info] }
  | none => .error "KeyError"

/-- one `(target, desired_mod)` turn of the loop in `apply_mod` -/
def applyOneMod (protein : List String) (ff : FF) (nodes : List (ResNode κ)) (graphs : List (κ × List Nat))
    (m : Mol) (t : ModTarget) : Except String Mol :=
  match nodes.find? (fun n => n.resid = t.resid) with
  | none => .error "IOError"
  | some target =>
    -- skipped with a warning: not a protein residue name, or not the residue name of the selection
    if !(protein.contains target.resname) then .ok m
    else if t.resname.isSome && t.resname != some target.resname then .ok m
    else
      match ff.mod? t.modName with
      | none => .error "KeyError"
      | some md =>
        match assocGet? graphs target.key with
        | none => .error "KeyError"
        | some graph =>
          let acc := graph.foldl (modAtomStep m (modAtomsOf md)) (m.atoms, [])
          md.ixns.foldlM (modIxnStep acc.2) (Mol.mk acc.1 m.ixns)

/-- is atom `v` of `m` named by the modification? -/
def namedBy (m : Mol) (md : Modif) (v : Nat) : Bool :=
  match atomNameOf m v with
  | some nm => (assocGet? (modAtomsOf md) nm).isSome
  | none => false

/-- the atoms a selected modification names in its target residue (`[]` when the modification does
not apply: unknown residue, not a protein residue name, not the selection's residue name) -/
def namedAtoms (protein : List String) (ff : FF) (nodes : List (ResNode κ)) (graphs : List (κ × List Nat))
    (m : Mol) (t : ModTarget) : List Nat :=
  match nodes.find? (fun n => n.resid = t.resid) with
  | none => []
  | some target =>
    if !(protein.contains target.resname) then []
    else if t.resname.isSome && t.resname != some target.resname then []
    else
      match ff.mod? t.modName with
      | none => []
      | some md =>
        match assocGet? graphs target.key with
        | none => []
        | some graph => graph.filter (namedBy m md)

def applyMods (protein : List String) (ff : FF) (nodes : List (ResNode κ)) (graphs : List (κ × List Nat))
    (m : Mol) (targets : List ModTarget) : Except String Mol :=
  if ff.mods.isEmpty then .ok m
  else targets.foldlM (applyOneMod protein ff nodes graphs) m

end mods

/-! ## specification side (what C01 states) -/

/-- a block copy at atom offset `off`: numbered by the residue id `r0 + (resid in block - base)` where
`base` is the resid the block's first atom carries (1 in every library block), charge groups shifted by
`cg`; everything else verbatim -/
def place : Nat → Nat → Nat → Nat → List BAtom → List Atom
  | _, _, _, _, [] => []
  | off, r0, base, cg, a :: rest =>
    ⟨off, r0 + (a.resid - base), a.cgrp + cg, a.attrs⟩ :: place (off + 1) r0 base cg rest

/-- the resid carried by the first atom of the block -/
def blockBase (b : Block) : Nat := match b.atoms with | [] => 1 | a :: _ => a.resid

def lastCg (b : Block) : Nat := match b.atoms.getLast? with | some a => a.cgrp | none => 0

section spec
variable {κ : Type}

/-- Walk over the resid-sorted residues: a residue takes the block its name refers to; a `from_itp`
residue starts a copy of its multi-residue block, which also covers the following `nres - 1` residues.
`off` = atoms placed so far, `cg` = charge group of the last atom placed, `skip` = residues still covered
by the current copy. -/
def specGo (ff : FF) : Nat → Nat → Nat → List (ResNode κ) → Mol
  | _, _, _, [] => ⟨[], []⟩
  | off, cg, skip + 1, _ :: rest => specGo ff off cg skip rest
  | off, cg, 0, r :: rest =>
    match ff.block? (r.fromItp.getD r.resname) with
    | none => ⟨[], []⟩
    | some b =>
      let tail := specGo ff (off + b.atoms.length) (cg + lastCg b) (if r.fromItp.isSome then b.nres - 1 else 0) rest
      ⟨place off r.resid (blockBase b) cg b.atoms ++ tail.atoms, b.ixns.map (shiftIxn off) ++ tail.ixns⟩

/-- specification of the `graph` attributes: the atoms of a residue node are the atoms of its block copy -/
def specGraphs (ff : FF) : Nat → List (ResNode κ) → List (κ × List Nat)
  | _, [] => []
  | off, r :: rest =>
    match ff.block? r.resname with
    | none => []
    | some b => (r.key, List.range' off b.atoms.length) :: specGraphs ff (off + b.atoms.length) rest

end spec

/-- the molecule C01 demands before links and modifications (RHS of `C01_layout` / `C01_interactions`) -/
def specMol {κ : Type} [DecidableEq κ] (ff : FF) (nodes : List (ResNode κ)) : Mol :=
  specGo ff 0 0 0 (sortByResid nodes)

def countIn {α : Type} [DecidableEq α] (x : α) (l : List α) : Nat := (l.filter (· = x)).length

/-- differences between an observed molecule and the specification before links: atoms exactly, the
interactions of every section as multisets -/
def checkLayout (spec obs : Mol) : List String :=
  (if spec.atoms.length ≠ obs.atoms.length then
    [s!"atom count {obs.atoms.length}, expected {spec.atoms.length}"] else []) ++
  ((spec.atoms.zip obs.atoms).filterMap fun (s, o) =>
    if s = o then none else some s!"atom {s.node}: got node {o.node} resid {o.resid} cgrp {o.cgrp} {o.attrs}, expected resid {s.resid} cgrp {s.cgrp} {s.attrs}") ++
  (spec.ixns.eraseDups.filterMap fun i =>
    if countIn i obs.ixns = countIn i spec.ixns then none
    else some s!"{i.sect} {i.atoms} {i.params}: {countIn i obs.ixns} times, expected {countIn i spec.ixns}") ++
  (obs.ixns.eraseDups.filterMap fun i =>
    if countIn i spec.ixns = 0 then some s!"{i.sect} {i.atoms} {i.params}: not an interaction of any block instance" else none)

/-- One application of a link as the program performed it: what the link DEFINITION requires of the place
(molecule meta data, residue names per residue id, residue-graph edges with their `linktype`), and what the
application wrote (interactions, atom attributes, removals). -/
structure LinkUse where
  molmeta : Attrs
  resnames : List (Nat × List String)
  edges : List (Nat × Nat × Option String)
  inserts : List Ixn
  attrs : List (Nat × String × String)
  removed : List Nat
deriving Repr

/-- the residue-level facts a link's applicability is judged on -/
structure GraphFacts where
  molmeta : Attrs
  resnames : List (Nat × String)
  edges : List (Nat × Nat × Option String)
deriving Repr

/-- Necessary conditions for a link to be applicable at a place (the part of applicability the C01 oracle
judges itself instead of taking the program's word): every `[ molmeta ]` entry of the link is in the
molecule's meta data; every residue has a name the link allows; every edge of the link between two
residues is an edge of the residue graph with the same `linktype` (none = untagged). -/
def LinkUse.applicable (f : GraphFacts) (u : LinkUse) : Bool :=
  u.molmeta.all (fun kv => attrGet? f.molmeta kv.1 == some kv.2) &&
  u.resnames.all (fun ra => match (f.resnames.find? (·.1 == ra.1)) with
    | some rn => ra.2.contains rn.2
    | none => false) &&
  u.edges.all (fun e => f.edges.any fun g =>
    ((g.1 == e.1 && g.2.1 == e.2.1) || (g.1 == e.2.1 && g.2.1 == e.1)) && g.2.2 == e.2.2)

/-- what links and modifications explicitly target -/
structure Touched where
  inserted : List Ixn              -- interactions written by applicable link applications, in order
  attrs : List (Nat × String)      -- (node, attribute) replaced by an applicable link application
  modAtoms : List Nat              -- atoms a selected modification names in its target residue
  removed : List Nat
deriving Repr

def Touched.keys (t : Touched) : List Key := t.inserted.map keyOf

/-- the interaction the last applicable link application wrote under a key -/
def Touched.lastInsert (t : Touched) (k : Key) : Option Ixn := (t.inserted.filter (fun i => keyOf i == k)).getLast?

def touchedOf (f : GraphFacts) (uses : List LinkUse) (modAtoms : List Nat) : Touched :=
  let ok := uses.filter (·.applicable f)
  ⟨ok.flatMap (·.inserts), ok.flatMap (fun u => u.attrs.map fun a => (a.1, a.2.1)), modAtoms, ok.flatMap (·.removed)⟩

/-- atom names written by applicable link applications -/
def renamesOf (f : GraphFacts) (uses : List LinkUse) : List (Nat × String) :=
  (uses.filter (·.applicable f)).flatMap fun u => u.attrs.filterMap fun a =>
    if a.2.1 == "atomname" then some (a.1, a.2.2) else none

/-- Atoms a selected modification names in its target residue, read off the specification molecule: the
residue with the selected id — if it is one the modification is applicable to (a protein residue name of the
repository's own list; the residue name of the selection, when it gives one) — and in it the atoms whose
name the modification lists.  The name of an atom is the one it has when modifications are applied, i.e.
after the links (`renames`: atom names written by applied links). -/
def modNamedAtoms (protein : List String) (ff : FF) (spec : Mol) (renames : List (Nat × String))
    (targets : List ModTarget) : List Nat :=
  targets.flatMap fun t =>
    match ff.mod? t.modName with
    | none => []
    | some md =>
      (spec.atoms.filter fun a => a.resid == t.resid &&
        (match attrGet? a.attrs "resname" with | some rn => protein.contains rn | none => false) &&
        (match t.resname with | some rn => attrGet? a.attrs "resname" == some rn | none => true) &&
        (match (match (renames.filter (·.1 == a.node)).getLast? with
                | some r => some r.2
                | none => attrGet? a.attrs "atomname") with
         | some nm => md.atoms.any (·.1 == nm)
         | none => false)).map (·.node)

/-- The frame part of C01 on the final molecule: every atom that no link removed is there and equals the
specification except attributes a link replaced or atoms a modification names in its target residue;
every block interaction whose key no link wrote and none of whose atoms was removed is present exactly as
often as the specification has it; every other interaction is what the LAST applicable link application wrote under
its key, or lies between atoms named by a modification, or is a generated exclusion.  Differences come with a category: `resid`
(an atom numbered by another residue id), `atom`, `ixn`. -/
def checkFrame (spec obs0 : Mol) (t : Touched) (genExcl : List Ixn) : List (String × String) :=
  -- generated exclusions (C14) are taken out first, as a multiset
  let obs : Mol := ⟨obs0.atoms, genExcl.foldl List.erase obs0.ixns⟩
  (spec.atoms.flatMap fun s =>
    if s.node ∈ t.removed then
      (if obs.atoms.any (·.node == s.node) then [("atom", s!"atom {s.node} was removed by a link but is present")] else [])
    else match obs.atoms.find? (·.node == s.node) with
      | none => [("atom", s!"atom {s.node} is missing although no link removes it")]
      | some o =>
        (if s.resid = o.resid then [] else [("resid", s!"atom {s.node}: resid {o.resid}, expected {s.resid}")]) ++
        (if s.cgrp = o.cgrp then [] else [("atom", s!"atom {s.node}: charge group {o.cgrp}, expected {s.cgrp}")]) ++
        (if s.node ∈ t.modAtoms then [] else
          ((s.attrs.map (·.1) ++ o.attrs.map (·.1)).eraseDups.filterMap fun k =>
            if attrGet? s.attrs k = attrGet? o.attrs k ∨ (s.node, k) ∈ t.attrs then none
            else some ("atom", s!"atom {s.node} attribute {k}: {attrGet? o.attrs k}, block has {attrGet? s.attrs k}, no link or modification names it")))) ++
  (obs.atoms.filterMap fun o =>
    if spec.atoms.any (·.node == o.node) then none else some ("atom", s!"atom {o.node} is not an atom of any block instance")) ++
  (spec.ixns.eraseDups.filterMap fun i =>
    if keyOf i ∈ t.keys ∨ i.atoms.any (· ∈ t.removed) ∨ countIn i obs.ixns = countIn i spec.ixns ∨
        -- a modification may add an interaction that happens to equal a block interaction of its residue
        (countIn i obs.ixns > countIn i spec.ixns ∧ i.atoms.all (· ∈ t.modAtoms)) then none
    else some ("ixn", s!"block interaction {i.sect} {i.atoms} {i.params}: {countIn i obs.ixns} times, expected {countIn i spec.ixns}; no link targets it")) ++
  (obs.ixns.eraseDups.filterMap fun i =>
    if countIn i spec.ixns > 0 ∨ t.lastInsert (keyOf i) = some i ∨ i.atoms.all (· ∈ t.modAtoms) then none
    else some ("ixn", s!"{i.sect} {i.atoms} {i.params}: neither a block interaction nor what the last applicable link wrote under its key, nor between atoms of a modification"))

end PolyplyVerif.MapToMol
