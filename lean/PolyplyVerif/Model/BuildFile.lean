/-
C18 — build options select exactly the molecules and residues they name.  Core Lean only.

Modelled (control flow of the Python code, mutation → returned value):
* `build_file_parser.BuildDirector`: `[ molecule ] name lo hi` (`np.arange(lo, hi, 1, dtype=int)`), the option
  tables `build_options` (`defaultdict(list)` keyed `(name, idx)`, appended in file order), `rw_options`
  (plain dict keyed `(name, idx)`: assignment, last line wins), `topology.distance_restraints`
  (`defaultdict(dict)` keyed `(name, idx)`, inner key `(a, b)`), `topology.persistences` (list of batches
  with the index array only), `finalize` + `_tag_nodes` (half-open resid range ∧ resname);
  `restraints.set_restraints` / `persistence.sample_end_to_end_distances` as far as *which molecule*
  receives the restraint (they index `topology.molecules[mol_idx]`);
* `annotate_ligands.parse_residue_spec` (`<mol>#<idx>-<res>#<resid>`, any field omitted), `_find_nodes`;
* `gen_coords.find_starting_node_from_spec`;
* `AnnotateLigands.__init__` (ligand definitions), `_connect_ligands_to_molecule` / `run_system` (attach),
  `split_ligands` (detach);
* `meta_molecule._interpret_residue_mapping`, `MetaMolecule.split_residue`, `relabel_and_redo_res_graph`
  with vermouth's `make_residue_graph(attrs=('resid','resname'))` (groups in first-appearance order).

Payloads (restraint parameters, positions) are opaque identifiers.  Numbers in specifications are
non-negative decimal integers (Python's `int()`/`float()` accept more: signs, blanks, `2.0`, `1e3`).

Specification side: `specRestraints`, `specRw`, `specDist`, `specPers` (the property's selection rule),
`renderSpec` (the grammar), `StartOk`, `SplitSpec`.
-/
namespace PolyplyVerif.BuildFile

/-! ### topologies -/

structure ResNode where
  key : Nat
  resid : Int
  resname : String
  /-- `ligated` attribute of a node attached for a ligand: (molecule index, node key) of the ligand residue -/
  ligated : Option (Nat × Nat) := none
deriving DecidableEq, Repr

structure Mol where
  name : String
  nodes : List ResNode
deriving DecidableEq, Repr

/-! ### A. build file -/

structure ResDir where
  resname : String
  rlo : Int
  rhi : Int
  payload : Nat
deriving DecidableEq, Repr

inductive Line where
  /-- a line of `[ sphere ]`, `[ cylinder ]`, `[ rectangle ]` -/
  | geometry (d : ResDir)
  /-- a line of `[ rw_restriction ]` -/
  | rw (d : ResDir)
  /-- a line of `[ distance_restraints ]`: node keys a, b -/
  | dist (a b payload : Nat)
  /-- a line of `[ persistence_length ]`: start and stop node -/
  | pers (start stop payload : Nat)
deriving DecidableEq, Repr

structure Block where
  name : String
  lo : Nat
  hi : Nat
  lines : List Line
deriving Repr

/-- `np.arange(lo, hi, 1, dtype=int)` -/
def arange (lo hi : Nat) : List Nat := List.range' lo (hi - lo)

/-- `defaultdict(list)[k].append(v)` on an insertion-ordered dictionary -/
def appendAt {κ α} [DecidableEq κ] (tbl : List (κ × List α)) (k : κ) (v : α) : List (κ × List α) :=
  match tbl with
  | [] => [(k, [v])]
  | (k', vs) :: rest => if k' = k then (k', vs ++ [v]) :: rest else (k', vs) :: appendAt rest k v

/-- `dict[k] = v` on an insertion-ordered dictionary -/
def setAt {κ α} [DecidableEq κ] (tbl : List (κ × α)) (k : κ) (v : α) : List (κ × α) :=
  match tbl with
  | [] => [(k, v)]
  | (k', v') :: rest => if k' = k then (k', v) :: rest else (k', v') :: setAt rest k v

def lookup {κ α} [DecidableEq κ] (tbl : List (κ × α)) (k : κ) : Option α :=
  match tbl with
  | [] => none
  | (k', v) :: rest => if k' = k then some v else lookup rest k

abbrev MKey := String × Nat

structure Director where
  buildOptions : List (MKey × List ResDir) := []
  rwOptions : List (MKey × ResDir) := []
  dist : List (MKey × List ((Nat × Nat) × Nat)) := []
  /-- (start, stop, payload, `current_molidxs`) -/
  pers : List (Nat × Nat × Nat × List Nat) := []
deriving Repr

def hasNode (m : Mol) (k : Nat) : Bool := m.nodes.any (·.key == k)

/-- one `[ distance_restraints ]` line for one molecule index of the block -/
def distOne (mols : List Mol) (name : String) (a b p : Nat) (tbl : List (MKey × List ((Nat × Nat) × Nat)))
    (idx : Nat) : Except String (List (MKey × List ((Nat × Nat) × Nat))) :=
  match mols[idx]? with
  | none => .error "IndexError"
  | some m =>
    if !hasNode m a || !hasNode m b then .error "IOError: could not find atom" else
    .ok (setAt tbl (name, idx) (setAt ((lookup tbl (name, idx)).getD []) (a, b) p))

def parseLine (mols : List Mol) (b : Block) (dir : Director) : Line → Except String Director
  | .geometry d => .ok { dir with buildOptions := (arange b.lo b.hi).foldl (fun t i => appendAt t (b.name, i) d) dir.buildOptions }
  | .rw d => .ok { dir with rwOptions := (arange b.lo b.hi).foldl (fun t i => setAt t (b.name, i) d) dir.rwOptions }
  | .dist a c p => do
    let t ← (arange b.lo b.hi).foldlM (distOne mols b.name a c p) dir.dist
    pure { dir with dist := t }
  | .pers s e p => .ok { dir with pers := dir.pers ++ [(s, e, p, arange b.lo b.hi)] }

def parseBlock (mols : List Mol) (dir : Director) (b : Block) : Except String Director :=
  b.lines.foldlM (parseLine mols b) dir

def parseBlocks (mols : List Mol) (blocks : List Block) : Except String Director :=
  blocks.foldlM (parseBlock mols) {}

/-- the test of `_tag_nodes`: resid in `np.arange(start, stop, 1.)` and the residue name equal -/
def inRange (d : ResDir) (v : ResNode) : Bool :=
  decide (d.rlo ≤ v.resid) && decide (v.resid < d.rhi) && decide (v.resname = d.resname)

def tagged (opts : List ResDir) (v : ResNode) : List Nat := (opts.filter (inRange · v)).map (·.payload)

structure NodeAnn where
  molIdx : Nat
  key : Nat
  restraints : List Nat
  rw : List Nat
deriving DecidableEq, Repr

/-- node attribute `restraints` of node `v` of molecule `i` after `finalize` -/
def restraintsOf (dir : Director) (mols : List Mol) (i : Nat) (v : ResNode) : List Nat :=
  match mols[i]? with
  | none => []
  | some m => tagged ((lookup dir.buildOptions (m.name, i)).getD []) v

/-- node attribute `rw_options` -/
def rwOf (dir : Director) (mols : List Mol) (i : Nat) (v : ResNode) : List Nat :=
  match mols[i]? with
  | none => []
  | some m => tagged (lookup dir.rwOptions (m.name, i)).toList v

def annotate (dir : Director) (mols : List Mol) : List NodeAnn :=
  mols.zipIdx.flatMap fun (m, i) => m.nodes.map fun v => ⟨i, v.key, restraintsOf dir mols i v, rwOf dir mols i v⟩

/-- `set_restraints`: (molecule index, a, b, payload) in the order of application; the molecule is
`topology.molecules[mol_idx]`, the name part of the key is not looked at -/
def distApplied (dir : Director) : List (Nat × Nat × Nat × Nat) :=
  dir.dist.flatMap fun (k, inner) => inner.map fun (ab, p) => (k.2, ab.1, ab.2, p)

/-- `sample_end_to_end_distances`: (payload, molecule indices restrained) per batch -/
def persApplied (dir : Director) : List (Nat × List Nat) := dir.pers.map fun (_, _, p, idxs) => (p, idxs)

/-! #### specification: who is selected -/

/-- the block applies to molecule `i`: the molecule has the block's name and `lo ≤ i < hi` -/
def blockSelects (mols : List Mol) (b : Block) (i : Nat) : Bool :=
  decide ((mols[i]?.map (·.name)) = some b.name) && decide (b.lo ≤ i) && decide (i < b.hi)

def geomPayload (v : ResNode) : Line → Option Nat
  | .geometry d => if inRange d v then some d.payload else none
  | _ => none

def rwPayload (v : ResNode) : Line → Option Nat
  | .rw d => if inRange d v then some d.payload else none
  | _ => none

/-- the restraints node `v` of molecule `i` must carry: every geometry line of every block that selects
molecule `i` and whose resname / resid range selects `v`, in file order; nothing else -/
def specRestraints (blocks : List Block) (mols : List Mol) (i : Nat) (v : ResNode) : List Nat :=
  blocks.flatMap fun b => if blockSelects mols b i then b.lines.filterMap (geomPayload v) else []

def specRw (blocks : List Block) (mols : List Mol) (i : Nat) (v : ResNode) : List Nat :=
  blocks.flatMap fun b => if blockSelects mols b i then b.lines.filterMap (rwPayload v) else []

def specAnnotate (blocks : List Block) (mols : List Mol) : List NodeAnn :=
  mols.zipIdx.flatMap fun (m, i) => m.nodes.map fun v => ⟨i, v.key, specRestraints blocks mols i v, specRw blocks mols i v⟩

def specDist (blocks : List Block) (mols : List Mol) : List (Nat × Nat × Nat × Nat) :=
  blocks.flatMap fun b => b.lines.flatMap fun
    | .dist a c p => ((arange b.lo b.hi).filter (blockSelects mols b)).map fun i => (i, a, c, p)
    | _ => []

def specPers (blocks : List Block) (mols : List Mol) : List (Nat × List Nat) :=
  blocks.flatMap fun b => b.lines.filterMap fun
    | .pers _ _ p => some (p, (arange b.lo b.hi).filter (blockSelects mols b))
    | _ => none

/-! ### B. residue specifications `<mol>#<idx>-<res>#<resid>` -/

structure Spec where
  molname : Option String := none
  molIdx : Option Nat := none
  resname : Option String := none
  resid : Option Nat := none
deriving DecidableEq, Repr

/-- `s.split(c, 1)`: the part before the first `c` and, if there is one, the part after it -/
def splitFirst (c : Char) : List Char → List Char × Option (List Char)
  | [] => ([], none)
  | x :: xs => if x = c then ([], some xs) else
      let r := splitFirst c xs
      (x :: r.1, r.2)

def digitVal (c : Char) : Option Nat :=
  if '0' ≤ c ∧ c ≤ '9' then some (c.toNat - 48) else none

/-- decimal digits → number (`none` for the empty string or a non-digit) -/
def readNatAux : List Char → Nat → Option Nat
  | [], acc => some acc
  | c :: cs, acc => match digitVal c with
    | some d => readNatAux cs (10 * acc + d)
    | none => none

def readNat (cs : List Char) : Option Nat := if cs = [] then none else readNatAux cs 0

def digitChar (d : Nat) : Char := Char.ofNat (48 + d)

/-- decimal digits of `n`, most significant first (`str(n)`) -/
def showNatAux : Nat → Nat → List Char → List Char
  | 0, _, acc => acc
  | fuel + 1, n, acc => if n < 10 then digitChar n :: acc else showNatAux fuel (n / 10) (digitChar (n % 10) :: acc)

def showNat (n : Nat) : List Char := showNatAux (n + 1) n []

def optName (cs : List Char) : Option String := if cs = [] then none else some (String.ofList cs)

def parseSpecChars (s : List Char) : Except String Spec :=
  let molRes := splitFirst '-' s
  let nameIdx := splitFirst '#' molRes.1
  let resPart : List Char × Option (List Char) := match molRes.2 with
    | none => ([], none)
    | some r => splitFirst '#' r
  match (match nameIdx.2 with
      | none => Except.ok none
      | some d => match readNat d with
        | some n => Except.ok (some n)
        | none => Except.error "IOError: mol_idx") with
  | .error e => .error e
  | .ok idx =>
    match (match resPart.2 with
        | none => Except.ok none
        | some d => match readNat d with
          | some n => Except.ok (some n)
          | none => Except.error "IOError: resid") with
    | .error e => .error e
    | .ok rid => .ok { molname := optName nameIdx.1, molIdx := idx, resname := optName resPart.1, resid := rid }

def parseSpec (s : String) : Except String Spec := parseSpecChars s.toList

/-- the grammar, written out: `<mol>[#<idx>][-<res>[#<resid>]]`, omitted fields are empty -/
def nameChars : Option String → List Char
  | some n => n.toList
  | none => []

def idxChars : Option Nat → List Char
  | some i => '#' :: showNat i
  | none => []

def renderSpecChars (sp : Spec) : List Char :=
  nameChars sp.molname ++ idxChars sp.molIdx
  ++ (if sp.resname.isSome || sp.resid.isSome then '-' :: (nameChars sp.resname ++ idxChars sp.resid) else [])

def renderSpec (sp : Spec) : String := String.ofList (renderSpecChars sp)

/-- a name usable in a specification: not empty, free of `#` and `-` -/
def goodName (n : String) : Prop := n.toList ≠ [] ∧ '#' ∉ n.toList ∧ '-' ∉ n.toList

def Spec.wellFormed (sp : Spec) : Prop :=
  (∀ n, sp.molname = some n → goodName n) ∧ (∀ n, sp.resname = some n → goodName n)

/-! ### C. `_find_nodes` and `-start` -/

def nodeMatches (sp : Spec) (v : ResNode) : Bool :=
  (match sp.resname with | some n => decide (v.resname = n) | none => true) &&
  (match sp.resid with | some r => decide (v.resid = (r : Int)) | none => true)

def findNodes (m : Mol) (sp : Spec) : List Nat := (m.nodes.filter (nodeMatches sp)).map (·.key)

def setIdx {α} (l : List α) (i : Nat) (a : α) : List α := l.set i a

/-- one `-start` specification applied to the start dictionary (`none` = no start given) -/
def startOne (mols : List Mol) (start : List (Option Nat)) (sp : Spec) : Except String (List (Option Nat)) :=
  match sp.molIdx with
  | some i =>
    match mols[i]? with
    | none => .error "IndexError: molecule index"
    | some m => match findNodes m sp with
      | [] => .error "IndexError: no node"
      | k :: _ => .ok (start.set i (some k))
  | none =>
    match sp.molname with
    | none => .error "KeyError: molname"
    | some name =>
      mols.zipIdx.foldlM (fun st (m, i) =>
        if m.name = name then
          match findNodes m sp with
          | [] => Except.error "IndexError: no node"
          | k :: _ => Except.ok (st.set i (some k))
        else Except.ok st) start

def findStart (mols : List Mol) (specs : List Spec) : Except String (List (Option Nat)) :=
  specs.foldlM (startOne mols) (mols.map fun _ => none)

/-- what `-start <spec>` asks for, for one molecule: the spec addresses molecule `i` (by index, by name, or
both as written) and `k` is the first residue of that molecule with the residue name / id written -/
def specAddresses (mols : List Mol) (sp : Spec) (i : Nat) : Bool :=
  (match sp.molIdx with | some j => decide (j = i) | none => true) &&
  (match sp.molname with | some n => decide ((mols[i]?.map (·.name)) = some n) | none => true) &&
  (sp.molIdx.isSome || sp.molname.isSome)

/-- the start dictionary the specifications ask for: for every molecule the last specification that
addresses it decides, and selects the first residue matching the residue name / id written -/
def specStart (mols : List Mol) (specs : List Spec) : List (Option Nat) :=
  mols.zipIdx.map fun (m, i) =>
    ((specs.filter (specAddresses mols · i)).getLast?).bind fun sp => (findNodes m sp).head?

/-- a list of `-start` specifications is meaningful when each names a molecule (by name and/or an index in
range, consistently) and finds a residue in every molecule it addresses -/
def specStartValid (mols : List Mol) (specs : List Spec) : Bool :=
  specs.all fun sp =>
    (sp.molIdx.isSome || sp.molname.isSome) &&
    (match sp.molIdx with | some i => decide (i < mols.length) && specAddresses mols sp i | none => true) &&
    mols.zipIdx.all fun (m, i) => !specAddresses mols sp i || !(findNodes m sp).isEmpty

/-! ### D. ligands -/

structure LigDef where
  molNode : Nat
  ligIdx : Nat
  ligAttr : Spec
deriving DecidableEq, Repr

def idxByName (mols : List Mol) (name : String) : List Nat :=
  (mols.zipIdx.filter (fun (m, _) => m.name = name)).map (·.2)

/-- `AnnotateLigands.__init__` for one `(mol_spec, lig_spec)` pair: the definitions it appends, as
(molecule index, definition) in order -/
def ligPair (mols : List Mol) (molAttr ligAttr : Spec) : Except String (List (Nat × LigDef)) := do
  let molIdxs ← match molAttr.molIdx with
    | some i => match molAttr.molname with
      | some n => if i ∈ idxByName mols n then pure [i] else throw "IOError: name does not match index"
      | none => pure [i]
    | none => match molAttr.molname with
      | some n => pure (idxByName mols n)
      | none => pure (List.range mols.length)
  let ligIdxs ← match ligAttr.molIdx with
    | some i => pure [i]
    | none => match ligAttr.molname with
      | some n => pure (idxByName mols n)
      | none => throw "IOError: ligand selection needs a molecule"
  let r ← molIdxs.foldlM (fun (acc : List (Nat × LigDef) × Nat) i =>
      match mols[i]? with
      | none => Except.error "IndexError: molecule index"
      | some m => (findNodes m molAttr).foldlM (fun (acc : List (Nat × LigDef) × Nat) k =>
          match ligIdxs[acc.2]? with
          | none => Except.error "IndexError: more residues than ligands"
          | some l => Except.ok (acc.1 ++ [(i, ⟨k, l, ligAttr⟩)], acc.2 + 1)) acc) ([], 0)
  pure r.1

def ligDefs (mols : List Mol) (pairs : List (Spec × Spec)) : Except String (List (Nat × LigDef)) :=
  pairs.foldlM (fun acc p => do
    let d ← ligPair mols p.1 p.2
    pure (acc ++ d)) []

def maxKey (m : Mol) : Nat := m.nodes.foldl (fun a v => max a v.key) 0
def maxResid (m : Mol) : Int := m.nodes.foldl (fun a v => max a v.resid) 0

/-- the nodes `_connect_ligands_to_molecule` adds for one definition: one per residue of the ligand molecule
that matches the ligand attributes; keys count up from `cur`, resids from `rid + 1` -/
def attachNodes (lig : Mol) (d : LigDef) (cur : Nat) (rid : Int) : List ResNode :=
  (lig.nodes.filter (nodeMatches d.ligAttr)).zipIdx.map fun (w, j) =>
    { key := cur + j, resid := rid + 1 + j, resname := w.resname, ligated := some (d.ligIdx, w.key) }

/-- `_connect_ligands_to_molecule(molecule, mol_idx)` on the current list of molecules (returns the new
molecule and the edges added) -/
def connectOne (mols : List Mol) (defs : List (Nat × LigDef)) (i : Nat) (m : Mol) :
    Except String (Mol × List (Nat × Nat)) :=
  (defs.filter (·.1 = i)).foldlM (fun (acc : Mol × List (Nat × Nat)) d =>
    match mols[d.2.ligIdx]? with
    | none => Except.error "IndexError: ligand index"
    | some lig =>
      let new := attachNodes lig d.2 (maxKey acc.1 + 1) (maxResid acc.1)
      Except.ok ({ acc.1 with nodes := acc.1.nodes ++ new }, acc.2 ++ new.map (fun w => (d.2.molNode, w.key)))) (m, [])

/-- `AnnotateLigands.run_system`: molecules are processed in order, in place (a ligand molecule that was
already processed is looked up in its extended form) -/
def attachAll (mols : List Mol) (defs : List (Nat × LigDef)) : Except String (List Mol × List (Nat × Nat × Nat)) :=
  (List.range mols.length).foldlM (fun (acc : List Mol × List (Nat × Nat × Nat)) i =>
    match acc.1[i]? with
    | none => Except.ok acc
    | some m => do
      let r ← connectOne acc.1 defs i m
      pure (acc.1.set i r.1, acc.2 ++ r.2.map (fun e => (i, e.1, e.2)))) (mols, [])

/-- positions: (molecule index, node key) ↦ position identifier -/
abbrev PosTable (π : Type) := List ((Nat × Nat) × π)

/-- `split_ligands`: for every molecule in order, every node carrying `ligated` hands its position to the
ligand residue and is removed -/
def ligatedNodes (mols : List Mol) : List ((Nat × Nat) × (Nat × Nat)) :=
  mols.zipIdx.flatMap fun (m, i) =>
    m.nodes.filterMap fun v => v.ligated.map fun tgt => ((i, v.key), tgt)

def detachAll {π} (mols : List Mol) (pos : PosTable π) : List Mol × PosTable π :=
  let lig := ligatedNodes mols
  let pos' := lig.foldl (fun t st => match lookup t st.1 with
    | some p => setAt t st.2 p
    | none => t) pos
  let mols' := mols.map fun m => { m with nodes := m.nodes.filter (·.ligated.isNone) }
  (mols', pos'.filter (fun e => e.1 ∉ lig.map (·.1)))

/-- specification of the ligand round trip, evaluated on observed states: `orig` before attaching,
`attached` after attaching (positions `pos` generated for every node, attached ones included), `final` /
`posAfter` after detaching.  (1) the molecule list is unchanged, (2) every ligand residue that had a node
attached holds the position generated for (one of) its attached node(s), (3) every other residue keeps the
position generated for itself. -/
def ligStructureSame (orig final : List Mol) : Bool := decide (orig = final)

def ligPositionsHanded {π} [DecidableEq π] (attached : List Mol) (pos posAfter : PosTable π) : Bool :=
  (ligatedNodes attached).all fun st =>
    (ligatedNodes attached).any fun st' => decide (st'.2 = st.2) && decide (lookup posAfter st.2 = lookup pos st'.1)
      && (lookup pos st'.1).isSome

def ligOthersKept {π} [DecidableEq π] (attached : List Mol) (pos posAfter : PosTable π) : Bool :=
  posAfter.all fun e => decide (e.1 ∈ (ligatedNodes attached).map (·.2)) || decide (lookup pos e.1 = some e.2)

def ligRoundTripB {π} [DecidableEq π] (orig attached final : List Mol) (pos posAfter : PosTable π) : Bool :=
  ligStructureSame orig final && ligPositionsHanded attached pos posAfter && ligOthersKept attached pos posAfter

/-- a host specification addresses molecule `i` (no molecule field at all: every molecule) -/
def hostAddresses (mols : List Mol) (sp : Spec) (i : Nat) : Bool :=
  (match sp.molIdx with | some j => decide (j = i) | none => true) &&
  (match sp.molname with | some n => decide ((mols[i]?.map (·.name)) = some n) | none => true)

def nodeOf (mols : List Mol) (i k : Nat) : Option ResNode := (mols[i]?).bind fun m => m.nodes.find? (·.key == k)

/-- "-lig specifications select by molecule name, molecule index, residue name and residue id as written":
every attached node hangs on a residue selected by the host specification of some pair, and stands for a
residue selected by the ligand specification of the same pair (and carries its name); every residue a host
specification selects has a ligand attached. `edges` = (molecule, host node, attached node). -/
def ligAttachOkB (orig attached : List Mol) (edges : List (Nat × Nat × Nat)) (pairs : List (Spec × Spec)) : Bool :=
  ((ligatedNodes attached).all fun st =>
    pairs.any fun p =>
      hostAddresses orig p.1 st.1.1 &&
      (edges.any fun e => decide (e.1 = st.1.1) && decide (e.2.2 = st.1.2) &&
        ((orig[st.1.1]?).map (fun m => decide (e.2.1 ∈ findNodes m p.1))).getD false) &&
      specAddresses orig p.2 st.2.1 &&
      ((orig[st.2.1]?).map (fun m => decide (st.2.2 ∈ findNodes m p.2))).getD false &&
      decide ((nodeOf attached st.1.1 st.1.2).map (·.resname) = (nodeOf orig st.2.1 st.2.2).map (·.resname)))
  && (pairs.all fun p =>
    orig.zipIdx.all fun mi =>
      !hostAddresses orig p.1 mi.2 ||
      (findNodes mi.1 p.1).all fun h => edges.any fun e => decide (e.1 = mi.2) && decide (e.2.1 = h))

/-! ### E. `-split` -/

structure Atom where
  key : Nat
  resid : Int
  resname : String
  atomname : String
deriving DecidableEq, Repr

/-- one split string `<resname>:<new>-<a1>,<a2>:<new>-<a3>…` -/
structure SplitDef where
  resname : String
  parts : List (String × List String)
deriving DecidableEq, Repr

/-- `_interpret_residue_mapping`: atom key ↦ new residue name (dictionary, insertion ordered); a repeated
atom name is an error -/
def interpretMapping (atoms : List Atom) (sd : SplitDef) : Except String (List (Nat × String)) := do
  let r ← sd.parts.foldlM (fun (acc : List (Nat × String) × List String) part =>
    part.2.foldlM (fun (acc : List (Nat × String) × List String) name =>
      if name ∈ acc.2 then Except.error "IOError: atom mentioned more than once" else
      let hit := atoms.filter (fun a => a.resname = sd.resname ∧ a.atomname = name)
      Except.ok (hit.foldl (fun t a => setAt t a.key part.1) acc.1, acc.2 ++ [name])) acc) ([], [])
  pure r.1

/-- `split_residue`: `mapping.update(...)` for every split string -/
def splitMapping (atoms : List Atom) (sds : List SplitDef) : Except String (List (Nat × String)) :=
  sds.foldlM (fun acc sd => do
    let m ← interpretMapping atoms sd
    pure (m.foldl (fun t kv => setAt t kv.1 kv.2) acc)) []

/-- the renaming step of `relabel_and_redo_res_graph`: mapped atoms get the new name and `resid + max_resid` -/
def relabel (atoms : List Atom) (mapping : List (Nat × String)) (maxResid : Int) : List Atom :=
  atoms.map fun a => match lookup mapping a.key with
    | some n => { a with resname := n, resid := a.resid + maxResid }
    | none => a

/-- `make_residue_graph(attrs=('resid','resname'))`: groups of atom keys in first-appearance order -/
def groupAtoms (atoms : List Atom) : List ((Int × String) × List Nat) :=
  atoms.foldl (fun t a => appendAt t (a.resid, a.resname) a.key) []

structure SplitResult where
  /-- residue graph nodes: (new resid = position, resname, atom keys) -/
  residues : List (Nat × String × List Nat)
  /-- atoms with their new resid / resname -/
  atoms : List Atom
deriving Repr

def splitResidue (atoms : List Atom) (maxResid : Int) (sds : List SplitDef) : Except String SplitResult := do
  let mapping ← splitMapping atoms sds
  let relabeled := relabel atoms mapping maxResid
  let groups := groupAtoms relabeled
  let residues := groups.zipIdx.map fun (g, idx) => (idx, g.1.2, g.2)
  let atoms' := relabeled.map fun a =>
    match (groups.zipIdx.find? (fun (g, _) => g.1 = (a.resid, a.resname))) with
    | some (_, idx) => { a with resid := (idx : Int) }
    | none => a
  pure ⟨residues, atoms'⟩

/-- the (new residue name, atom name) pairs of a split definition, in the order written -/
def namedParts (sd : SplitDef) : List (String × String) := sd.parts.flatMap fun p => p.2.map fun n => (p.1, n)

/-- the new name an atom is asked to carry by one split definition (`none`: not named) -/
def askedName (sd : SplitDef) (a : Atom) : Option String :=
  if a.resname = sd.resname then ((namedParts sd).find? (fun pn => pn.2 = a.atomname)).map (·.1) else none

/-- the atom names listed in a split definition, in order -/
def listedNames (sd : SplitDef) : List String := sd.parts.flatMap (·.2)

/-- specification of a split with one definition, evaluated on a result (residue list):
every atom is in exactly one residue; two atoms are in the same residue iff they were in the same old
residue and are asked to carry the same name (or are both unnamed); the residue is called by the asked
name (old name for unnamed atoms) -/
def splitSpecB (atoms : List Atom) (sd : SplitDef) (residues : List (Nat × String × List Nat)) : Bool :=
  let resOf (k : Nat) := residues.filter (fun r => k ∈ r.2.2)
  atoms.all (fun a => (resOf a.key).length == 1 &&
    (resOf a.key).all (fun r => r.2.1 == (askedName sd a).getD a.resname)) &&
  atoms.all (fun a => atoms.all (fun b =>
    ((resOf a.key).map (·.1) == (resOf b.key).map (·.1)) ==
      (a.resid == b.resid && a.resname == b.resname && askedName sd a == askedName sd b))) &&
  ((residues.flatMap (·.2.2)).length == atoms.length)

end PolyplyVerif.BuildFile
